// Command stress rewrites a scratch copy of the repository with mechanical,
// behaviour-preserving edits, for testing that the checks do not alarm on them
// (construction aid; never run on /repo itself).
//
//	stress -repo <copy> -mode locals     every local variable and parameter gets a new name
//	stress -repo <copy> -mode funcs      every unexported function and method gets a new name
package main

import (
	"bytes"
	"flag"
	"fmt"
	"go/ast"
	"go/format"
	"go/token"
	"go/types"
	"os"
	"strings"

	"golang.org/x/tools/go/packages"
)

func main() {
	repo := flag.String("repo", "", "scratch copy of the repository")
	mode := flag.String("mode", "locals", "locals|funcs")
	flag.Parse()
	if *repo == "" || *repo == "/repo" {
		fmt.Fprintln(os.Stderr, "need -repo <scratch copy>")
		os.Exit(2)
	}
	cfg := &packages.Config{Mode: packages.LoadAllSyntax, Dir: *repo, Tests: false}
	pkgs, err := packages.Load(cfg, "./...")
	if err != nil {
		fmt.Fprintln(os.Stderr, err)
		os.Exit(1)
	}
	n := 0
	for _, pk := range pkgs {
		if strings.Contains(pk.PkgPath, "/gen/") {
			continue
		}
		info := pk.TypesInfo
		for _, f := range pk.Syntax {
			fname := pk.Fset.Position(f.Pos()).Filename
			if strings.HasSuffix(fname, ".pb.go") || strings.HasSuffix(fname, "_test.go") {
				continue
			}
			changed := false
			// the variable bound by a type switch has no object of its own (one per clause)
			tsBound := map[*ast.Ident]bool{}
			ast.Inspect(f, func(nd ast.Node) bool {
				if ts, ok := nd.(*ast.TypeSwitchStmt); ok {
					if as, ok := ts.Assign.(*ast.AssignStmt); ok && len(as.Lhs) == 1 {
						if id, ok := as.Lhs[0].(*ast.Ident); ok {
							tsBound[id] = true
						}
					}
				}
				return true
			})
			ast.Inspect(f, func(nd ast.Node) bool {
				id, ok := nd.(*ast.Ident)
				if ok && tsBound[id] && *mode == "locals" {
					id.Name += "Q"
					changed = true
					return true
				}
				if !ok || id.Name == "_" {
					return true
				}
				obj := info.Defs[id]
				if obj == nil {
					obj = info.Uses[id]
				}
				if obj == nil || obj.Pkg() != pk.Types {
					return true
				}
				switch *mode {
				case "locals":
					v, ok := obj.(*types.Var)
					if !ok || v.IsField() || v.Parent() == nil || v.Parent() == pk.Types.Scope() {
						return true
					}
					// receivers, parameters, results and locals alike
					id.Name = id.Name + "Q"
					changed = true
					n++
				case "funcs":
					fn, ok := obj.(*types.Func)
					if !ok || fn.Exported() || fn.Name() == "init" || fn.Name() == "main" {
						return true
					}
					// methods that implement an interface must keep their names: only rename
					// methods whose name no interface of the module mentions (approximation: skip all methods of types that implement any module interface with that method)
					if sig := fn.Type().(*types.Signature); sig.Recv() != nil && implementsSomething(pkgs, fn) {
						return true
					}
					id.Name = id.Name + "Rn"
					changed = true
					n++
				}
				return true
			})
			if changed {
				var b bytes.Buffer
				if err := format.Node(&b, pk.Fset, f); err != nil {
					fmt.Fprintln(os.Stderr, fname, err)
					os.Exit(1)
				}
				if err := os.WriteFile(fname, b.Bytes(), 0o644); err != nil {
					fmt.Fprintln(os.Stderr, err)
					os.Exit(1)
				}
			}
		}
	}
	fmt.Println("identifiers renamed:", n)
	_ = token.NoPos
}

var ifaceMethods map[string]bool

// implementsSomething: some interface declared in the module has a method of this name.
func implementsSomething(pkgs []*packages.Package, fn *types.Func) bool {
	if ifaceMethods == nil {
		ifaceMethods = map[string]bool{}
		seen := map[*packages.Package]bool{}
		var visit func(p *packages.Package)
		visit = func(p *packages.Package) {
			if seen[p] {
				return
			}
			seen[p] = true
			for _, name := range p.Types.Scope().Names() {
				if tn, ok := p.Types.Scope().Lookup(name).(*types.TypeName); ok {
					if it, ok := tn.Type().Underlying().(*types.Interface); ok {
						for i := 0; i < it.NumMethods(); i++ {
							ifaceMethods[it.Method(i).Name()] = true
						}
					}
				}
			}
			for _, imp := range p.Imports {
				visit(imp)
			}
		}
		for _, p := range pkgs {
			visit(p)
		}
	}
	return ifaceMethods[fn.Name()]
}
