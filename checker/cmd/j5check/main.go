// j5check decides the structural clauses of the properties in
// /verif/properties.jsonl by static analysis of /repo's working tree.
package main

import (
	"flag"
	"fmt"
	"os"
	"path/filepath"
	"sort"
	"time"

	"j5verif/checker/core"
	"j5verif/checker/props"
)

func main() {
	prop := flag.String("prop", "", "property id (C01..C20)")
	tier := flag.String("tier", "quick", "quick|thorough")
	repo := flag.String("repo", "/repo", "repository working tree")
	verif := flag.String("verif", "", "verif dir (default: parent of the binary's dir)")
	out := flag.String("out", "", "evidence file (default <verif>/evidence/<prop>.json)")
	list := flag.Bool("list", false, "list implemented properties")
	reach := flag.Bool("reach", false, "debug: print reachable set sizes for entries given as args rel/pkg:Func")
	flag.Parse()
	if *reach {
		debugReach(*repo, flag.Args())
		return
	}
	if *list {
		var ids []string
		for id := range props.Registry {
			ids = append(ids, id)
		}
		sort.Strings(ids)
		for _, id := range ids {
			fmt.Println(id)
		}
		return
	}
	if t := os.Getenv("VERIF_TIER"); t != "" && !isFlagSet("tier") {
		*tier = t
	}
	if *verif == "" {
		exe, _ := os.Executable()
		*verif = filepath.Dir(filepath.Dir(exe))
	}
	if *out == "" {
		*out = filepath.Join(*verif, "evidence", *prop+".json")
	}
	fn, ok := props.Registry[*prop]
	if !ok {
		fmt.Fprintf(os.Stderr, "unknown property %q\n", *prop)
		os.Exit(2)
	}
	os.Remove(*out)
	t0 := time.Now()
	core.AnchorTable = filepath.Join(*verif, "tables", "anchors.json")
	p, err := core.Load(*repo)
	if err != nil {
		// A tree that does not load cannot be judged; this is a failed check.
		r := core.NewRun(*prop, *tier, *verif, &core.Prog{Repo: *repo})
		r.Fatal("cannot load %s: %v", *repo, err)
		os.Exit(r.Finish(*out))
	}
	r := core.NewRun(*prop, *tier, *verif, p)
	r.Start = t0
	func() {
		defer func() {
			if e := recover(); e != nil {
				r.Fatal("analyser panic: %v", e)
				if os.Getenv("J5CHECK_DEBUG") != "" {
					panic(e)
				}
			}
		}()
		fn(r)
		if *tier == "thorough" {
			runMutants(r, *verif, *repo, *prop)
		}
	}()
	for _, n := range core.AnchorNotes {
		r.Note("%s", n)
	}
	if os.Getenv("J5CHECK_WRITE_ANCHORS") != "" {
		if err := core.WriteAnchors(); err != nil {
			fmt.Fprintln(os.Stderr, "anchors:", err)
		}
	}
	os.Exit(r.Finish(*out))
}

func isFlagSet(name string) bool {
	set := false
	flag.Visit(func(f *flag.Flag) {
		if f.Name == name {
			set = true
		}
	})
	return set
}
