package main

import (
	"fmt"
	"os"
	"strings"
	"time"

	"golang.org/x/tools/go/ssa"

	"j5verif/checker/core"
)

// debugReach prints reachable-set sizes for entry points given as pkg:Func.
func debugReach(repo string, entries []string) {
	t0 := time.Now()
	p, err := core.Load(repo)
	if err != nil {
		fmt.Println(err)
		os.Exit(2)
	}
	fmt.Printf("load %.1fs\n", time.Since(t0).Seconds())
	t0 = time.Now()
	p.BuildSSA()
	fmt.Printf("ssa %.1fs\n", time.Since(t0).Seconds())
	var fns []*ssa.Function
	for _, e := range entries {
		i := strings.LastIndex(e, ":")
		f := p.SSAFunc(e[:i], e[i+1:])
		if f == nil {
			fmt.Println("unresolved", e)
			continue
		}
		fns = append(fns, f)
	}
	t0 = time.Now()
	g := p.CHA()
	fmt.Printf("cha %.1fs\n", time.Since(t0).Seconds())
	set := core.Reachable(g, fns, core.FollowSource)
	fmt.Printf("CHA reachable source funcs: %d\n", len(set))
	if os.Getenv("VTA") != "" {
		t0 = time.Now()
		g2 := p.VTA()
		fmt.Printf("vta %.1fs\n", time.Since(t0).Seconds())
		set2 := core.Reachable(g2, fns, core.FollowSource)
		fmt.Printf("VTA reachable source funcs: %d\n", len(set2))
		for _, f := range core.SortedFuncs(set) {
			if !set2[f] {
				fmt.Println("  only-CHA:", core.FuncKey(f))
			}
		}
	}
}
