package main

import (
	"bufio"
	"bytes"
	"fmt"
	"os"
	"os/exec"
	"path/filepath"
	"sort"
	"strings"
	"sync"

	"j5verif/checker/core"
)

type mutantResult struct {
	File     string `json:"file"`
	Expect   string `json:"expect"`
	Detected bool   `json:"detected"`
	Report   string `json:"report,omitempty"`
	Problem  string `json:"problem,omitempty"`
}

// runMutants is the thorough tier's self-test: every recorded source patch for
// the property (reverse of a fix: commit, a confirmed seeded change, or a
// hand-written edit) is applied to a scratch copy of the repository — never to
// /repo — and the quick check is run against that copy in a subprocess. The
// check must exit 1 with a VIOLATION line and a report containing the expected
// rule name. An undetected mutant fails the thorough run: the checker, not the
// repository, is broken. Patches marked `# expect: SILENT` are recorded
// behaviour-preserving refactorings: on those the check must exit 0 without a
// VIOLATION line, and an alarm fails the thorough run just the same.
func runMutants(r *core.Run, verif, repo, prop string) {
	dir := filepath.Join(verif, "mutants", prop)
	files, _ := filepath.Glob(filepath.Join(dir, "*.diff"))
	sort.Strings(files)
	if len(files) == 0 {
		r.Fatal("thorough: no mutants recorded for %s under %s", prop, dir)
		return
	}
	self, err := os.Executable()
	if err != nil {
		r.Fatal("thorough: cannot locate own executable: %v", err)
		return
	}
	results := make([]mutantResult, len(files))
	sem := make(chan struct{}, 4)
	var wg sync.WaitGroup
	for i, f := range files {
		wg.Add(1)
		go func(i int, f string) {
			defer wg.Done()
			sem <- struct{}{}
			defer func() { <-sem }()
			results[i] = runOneMutant(self, verif, repo, prop, f)
		}(i, f)
	}
	wg.Wait()
	// mechanical whole-repository rewrites that change no behaviour: every local variable and
	// parameter renamed; every unexported function and method (that implements no interface
	// method) renamed. The check must stay quiet on both.
	for _, mode := range []string{"locals", "funcs"} {
		results = append(results, runStress(self, verif, repo, prop, mode))
	}
	detected := 0
	var samples []any
	for _, res := range results {
		if res.Detected {
			detected++
		} else {
			if res.Expect == "SILENT" {
				r.Fatal("thorough: %s: %s", filepath.Base(res.File), res.Problem)
			} else {
				r.Fatal("thorough: mutant %s was NOT detected (expected a report containing %q): %s", filepath.Base(res.File), res.Expect, res.Problem)
			}
		}
		samples = append(samples, res)
	}
	r.Analysed["mutants_tried"] = len(results)
	r.Analysed["mutants_detected"] = detected
	r.Extra("mutant_self_test", samples)
	r.Note("mutant self-test: %d/%d recorded source mutations of %s detected (each applied to a scratch copy, quick check re-run in a subprocess)", detected, len(results), prop)
}

func runOneMutant(self, verif, repo, prop, patchFile string) mutantResult {
	res := mutantResult{File: strings.TrimPrefix(patchFile, verif+"/")}
	b, err := os.ReadFile(patchFile)
	if err != nil {
		res.Problem = err.Error()
		return res
	}
	sc := bufio.NewScanner(bytes.NewReader(b))
	for sc.Scan() {
		if strings.HasPrefix(sc.Text(), "# expect:") {
			res.Expect = strings.TrimSpace(strings.TrimPrefix(sc.Text(), "# expect:"))
			break
		}
	}
	tmp, err := os.MkdirTemp("", "j5mut-")
	if err != nil {
		res.Problem = err.Error()
		return res
	}
	defer os.RemoveAll(tmp)
	dst := filepath.Join(tmp, "repo")
	if out, err := exec.Command("rsync", "-a", "--exclude", ".git", strings.TrimSuffix(repo, "/")+"/", dst+"/").CombinedOutput(); err != nil {
		res.Problem = "copy failed: " + string(out)
		return res
	}
	p := exec.Command("patch", "-p1", "-s", "-i", patchFile)
	p.Dir = dst
	if out, err := p.CombinedOutput(); err != nil {
		res.Problem = "patch does not apply to the current tree: " + strings.TrimSpace(string(out))
		return res
	}
	c := exec.Command(self, "-prop", prop, "-tier", "quick", "-repo", dst, "-verif", verif, "-out", filepath.Join(tmp, "ev.json"))
	c.Env = append(os.Environ(), "J5CHECK_VIOLATION_DIR="+filepath.Join(tmp, "violations"))
	out, err := c.CombinedOutput()
	text := strings.ReplaceAll(string(out), dst+"/", "")
	exit := 0
	if ee, ok := err.(*exec.ExitError); ok {
		exit = ee.ExitCode()
	} else if err != nil {
		res.Problem = err.Error()
		return res
	}
	var firstReport string
	lines := strings.Split(text, "\n")
	for i, l := range lines {
		if strings.HasPrefix(l, "VIOLATION ") && i > 0 {
			if res.Expect == "VIOLATION" || strings.Contains(lines[i-1], res.Expect) {
				firstReport = lines[i-1]
				break
			}
		}
	}
	if res.Expect == "SILENT" {
		// a behaviour-preserving refactoring: the check must stay quiet
		switch {
		case strings.Contains(text, "cannot load"):
			res.Problem = "refactored tree does not type-check (the patch is invalid)"
		case exit == 0 && !strings.Contains(text, "\nVIOLATION ") && !strings.HasPrefix(text, "VIOLATION "):
			res.Detected = true
			res.Report = "no alarm on a behaviour-preserving refactoring"
		default:
			first := ""
			for i, l := range lines {
				if strings.HasPrefix(l, "VIOLATION ") && i > 0 {
					first = lines[i-1]
					break
				}
			}
			res.Problem = "FALSE ALARM on a behaviour-preserving refactoring: " + first
		}
		return res
	}
	switch {
	case exit != 1:
		res.Problem = fmt.Sprintf("check exited %d on the mutated tree", exit)
	case strings.Contains(text, "cannot load"):
		res.Problem = "mutated tree does not type-check (the mutant is invalid, not detected)"
	case firstReport == "":
		res.Problem = "a violation was reported but none names the expected rule"
	default:
		res.Detected = true
		if len(firstReport) > 300 {
			firstReport = firstReport[:300]
		}
		res.Report = firstReport
	}
	return res
}

// runStress applies one of the stress tool's whole-repository renamings to a
// scratch copy and expects the quick check to be silent on it.
func runStress(self, verif, repo, prop, mode string) mutantResult {
	res := mutantResult{File: "stress:" + mode, Expect: "SILENT"}
	tool := filepath.Join(verif, "bin", "stress")
	if _, err := os.Stat(tool); err != nil {
		res.Problem = "bin/stress is missing (run ./setup.sh)"
		return res
	}
	tmp, err := os.MkdirTemp("", "j5stress-")
	if err != nil {
		res.Problem = err.Error()
		return res
	}
	defer os.RemoveAll(tmp)
	dst := filepath.Join(tmp, "repo")
	if out, err := exec.Command("rsync", "-a", "--exclude", ".git", strings.TrimSuffix(repo, "/")+"/", dst+"/").CombinedOutput(); err != nil {
		res.Problem = "copy failed: " + string(out)
		return res
	}
	if out, err := exec.Command(tool, "-repo", dst, "-mode", mode).CombinedOutput(); err != nil {
		res.Problem = "stress tool failed: " + strings.TrimSpace(string(out))
		return res
	}
	c := exec.Command(self, "-prop", prop, "-tier", "quick", "-repo", dst, "-verif", verif, "-out", filepath.Join(tmp, "ev.json"))
	c.Env = append(os.Environ(), "J5CHECK_VIOLATION_DIR="+filepath.Join(tmp, "violations"))
	out, err := c.CombinedOutput()
	text := strings.ReplaceAll(string(out), dst+"/", "")
	exit := 0
	if ee, ok := err.(*exec.ExitError); ok {
		exit = ee.ExitCode()
	} else if err != nil {
		res.Problem = err.Error()
		return res
	}
	switch {
	case strings.Contains(text, "cannot load"):
		res.Problem = "the renamed tree does not type-check (stress tool defect)"
	case exit == 0 && !strings.Contains(text, "\nVIOLATION ") && !strings.HasPrefix(text, "VIOLATION "):
		res.Detected = true
		res.Report = "no alarm with every " + map[string]string{"locals": "local variable and parameter", "funcs": "unexported function and method"}[mode] + " renamed"
	default:
		first := ""
		lines := strings.Split(text, "\n")
		for i, l := range lines {
			if strings.HasPrefix(l, "VIOLATION ") && i > 0 {
				first = lines[i-1]
				break
			}
		}
		if first == "" {
			for _, l := range lines {
				if strings.HasPrefix(l, "check failure") {
					first = l
					break
				}
			}
		}
		res.Problem = "FALSE ALARM after a pure renaming (" + mode + "): " + first
	}
	return res
}
