// Package core holds everything that is not specific to one property: the
// loader for /repo's current working tree, SSA and call-graph construction,
// the obligation model, exception tables, known findings and the evidence
// writer.
package core

import (
	"encoding/json"
	"fmt"
	"go/ast"
	"go/token"
	"go/types"
	"os"
	"path/filepath"
	"sort"
	"strings"

	"golang.org/x/tools/go/callgraph"
	"golang.org/x/tools/go/callgraph/cha"
	"golang.org/x/tools/go/callgraph/vta"
	"golang.org/x/tools/go/packages"
	"golang.org/x/tools/go/ssa"
	"golang.org/x/tools/go/ssa/ssautil"
)

const Module = "github.com/pentops/j5"

// Prog is the type-checked view of /repo used by every rule.
type Prog struct {
	Repo  string
	Fset  *token.FileSet
	Roots []*packages.Package          // module packages matched by the patterns
	ByPkg map[string]*packages.Package // every package (incl. deps) by import path

	SSA     *ssa.Program
	ssaPkgs []*ssa.Package
	cha     *callgraph.Graph
	vta     *callgraph.Graph
}

// DefaultPatterns are the packages in scope of the 20 properties.
var DefaultPatterns = []string{"./internal/...", "./lib/...", "./j5types/...", "./cmd/..."}

// Load type-checks the current working tree of repo. Any type error, an empty
// package list or a load failure is an error (never a silent pass).
func Load(repo string, patterns ...string) (*Prog, error) {
	if len(patterns) == 0 {
		patterns = DefaultPatterns
	}
	env := []string{}
	for _, e := range os.Environ() {
		k := strings.SplitN(e, "=", 2)[0]
		switch k {
		case "GOWORK", "GOTOOLCHAIN", "GOSUMDB", "GOFLAGS", "GOPROXY", "GOARCH", "GOOS":
			continue
		}
		env = append(env, e)
	}
	env = append(env, "GOWORK=off", "GOFLAGS=-mod=mod", "GOPROXY=off")
	if a := os.Getenv("J5CHECK_GOARCH"); a != "" {
		env = append(env, "GOARCH="+a)
	}
	fset := token.NewFileSet()
	cfg := &packages.Config{
		Mode: packages.NeedName | packages.NeedFiles | packages.NeedCompiledGoFiles | packages.NeedImports |
			packages.NeedDeps | packages.NeedTypes | packages.NeedSyntax | packages.NeedTypesInfo | packages.NeedTypesSizes | packages.NeedModule,
		Dir:   repo,
		Fset:  fset,
		Env:   env,
		Tests: false,
	}
	pkgs, err := packages.Load(cfg, patterns...)
	if err != nil {
		return nil, fmt.Errorf("packages.Load: %w", err)
	}
	if len(pkgs) == 0 {
		return nil, fmt.Errorf("no packages loaded from %s", repo)
	}
	p := &Prog{Repo: repo, Fset: fset, Roots: pkgs, ByPkg: map[string]*packages.Package{}}
	var errs []string
	packages.Visit(pkgs, nil, func(pk *packages.Package) {
		p.ByPkg[pk.PkgPath] = pk
		for _, e := range pk.Errors {
			errs = append(errs, e.Error())
		}
	})
	if len(errs) > 0 {
		sort.Strings(errs)
		if len(errs) > 10 {
			errs = errs[:10]
		}
		return nil, fmt.Errorf("type-check/load errors:\n  %s", strings.Join(errs, "\n  "))
	}
	Current = p
	for path, pk := range p.ByPkg {
		if IsSource(path) {
			matchRenames(pk)
		}
	}
	return p, nil
}

// IsModule reports whether the package path belongs to pentops/j5 (excluding
// generated protobuf code under gen/).
func IsModule(path string) bool {
	return path == Module || strings.HasPrefix(path, Module+"/")
}

func IsGen(path string) bool { return strings.HasPrefix(path, Module+"/gen/") }

// IsSource: hand-written module package (not gen/).
func IsSource(path string) bool { return IsModule(path) && !IsGen(path) }

// Pkg returns the package with the module-relative path (e.g. "internal/codec").
func (p *Prog) Pkg(rel string) *packages.Package {
	if pk := p.ByPkg[Module+"/"+rel]; pk != nil {
		return pk
	}
	return p.ByPkg[rel]
}

// Rel renders a position relative to the repo root.
func (p *Prog) Rel(pos token.Pos) string {
	if !pos.IsValid() {
		return "?"
	}
	ps := p.Fset.Position(pos)
	f := ps.Filename
	if r, err := filepath.Rel(p.Repo, f); err == nil && !strings.HasPrefix(r, "..") {
		f = r
	}
	return fmt.Sprintf("%s:%d", f, ps.Line)
}

// FuncDecl finds a function or method declaration: name is "Func" or
// "Recv.Method" (receiver without the star).
func (p *Prog) FuncDecl(rel, name string) (*ast.FuncDecl, *packages.Package) {
	pk := p.Pkg(rel)
	if pk == nil {
		return nil, nil
	}
	recv, fn := "", name
	if i := strings.Index(name, "."); i >= 0 {
		recv, fn = name[:i], name[i+1:]
	}
	for _, f := range pk.Syntax {
		for _, d := range f.Decls {
			fd, ok := d.(*ast.FuncDecl)
			if !ok || fd.Name.Name != fn {
				continue
			}
			if RecvName(fd) == recv {
				return fd, pk
			}
		}
	}
	// the function may have been renamed: fall back on its recorded fingerprint
	if fd := renamedAnchor(pk, rel, name, recv); fd != nil {
		return fd, pk
	}
	return nil, pk
}

// ---- names that survive a rename
//
// Rules, obligation keys and table lines name functions. An unexported function
// can be renamed without any change of behaviour; so that such a rename does
// not turn into "anchor not found", a changed key or a table line that no
// longer applies, tables/anchors.json records, for every function of the
// module's hand-written packages, a fingerprint (receiver, parameter and result
// types, and a feature set: functions of other packages it calls, its string
// and character literals, the field names it selects). On load, the recorded
// names that are gone from a package are matched with the functions that are
// new in it (same receiver and signature, most similar feature set, greedy and
// only when unambiguous); a matched function answers to its recorded name
// everywhere the checker prints or compares function names. The table is
// written only on request (J5CHECK_WRITE_ANCHORS) and is used for nothing else:
// without a match the behaviour is that of an unknown function.

type AnchorPrint struct {
	Recv string   `json:"recv"`
	Sig  string   `json:"sig"`
	Feat []string `json:"feat"`
}

var (
	AnchorTable string // path of tables/anchors.json
	AnchorNotes []string
	anchorTable map[string]AnchorPrint
	oldNameOf   = map[types.Object]string{}  // renamed function → recorded simple name
	renamedDecl = map[string]*ast.FuncDecl{} // "rel.Recv.Method" (recorded) → current declaration
	renameDone  = map[*packages.Package]bool{}
)

func fingerprintOf(pk *packages.Package, fd *ast.FuncDecl) AnchorPrint {
	fp := AnchorPrint{Recv: RecvName(fd)}
	if o, ok := pk.TypesInfo.Defs[fd.Name].(*types.Func); ok {
		sig := o.Type().(*types.Signature)
		var ps, rs []string
		for i := 0; i < sig.Params().Len(); i++ {
			ps = append(ps, typeNoNames(sig.Params().At(i).Type()))
		}
		for i := 0; i < sig.Results().Len(); i++ {
			rs = append(rs, typeNoNames(sig.Results().At(i).Type()))
		}
		fp.Sig = "(" + strings.Join(ps, ", ") + ") (" + strings.Join(rs, ", ") + ")"
		if sig.Variadic() {
			fp.Sig += " variadic"
		}
	}
	set := map[string]bool{}
	if fd.Body != nil {
		ast.Inspect(fd.Body, func(n ast.Node) bool {
			switch x := n.(type) {
			case *ast.CallExpr:
				if fn := CalleeFunc(pk.TypesInfo, x); fn != nil && fn.Pkg() != nil && fn.Pkg() != pk.Types {
					set["call:"+fn.FullName()] = true
				}
			case *ast.BasicLit:
				if x.Kind == token.STRING || x.Kind == token.CHAR {
					v := x.Value
					if len(v) > 60 {
						v = v[:60]
					}
					set["lit:"+v] = true
				}
			case *ast.SelectorExpr:
				if sel := pk.TypesInfo.Selections[x]; sel != nil && sel.Kind() == types.FieldVal {
					set["field:"+x.Sel.Name] = true
				}
			}
			return true
		})
	}
	for k := range set {
		fp.Feat = append(fp.Feat, k)
	}
	sort.Strings(fp.Feat)
	return fp
}

// typeNoNames prints a type without the parameter names that function types
// carry (renaming a callback's parameter is not a change of signature).
func typeNoNames(t types.Type) string {
	q := func(p *types.Package) string { return p.Name() }
	switch x := t.(type) {
	case *types.Signature:
		var ps, rs []string
		for i := 0; i < x.Params().Len(); i++ {
			ps = append(ps, typeNoNames(x.Params().At(i).Type()))
		}
		for i := 0; i < x.Results().Len(); i++ {
			rs = append(rs, typeNoNames(x.Results().At(i).Type()))
		}
		s := "func(" + strings.Join(ps, ", ") + ")"
		if x.Variadic() {
			s += "…"
		}
		if len(rs) > 0 {
			s += " (" + strings.Join(rs, ", ") + ")"
		}
		return s
	case *types.Pointer:
		return "*" + typeNoNames(x.Elem())
	case *types.Slice:
		return "[]" + typeNoNames(x.Elem())
	case *types.Array:
		return fmt.Sprintf("[%d]%s", x.Len(), typeNoNames(x.Elem()))
	case *types.Map:
		return "map[" + typeNoNames(x.Key()) + "]" + typeNoNames(x.Elem())
	case *types.Chan:
		return "chan " + typeNoNames(x.Elem())
	}
	return types.TypeString(t, q)
}

func loadAnchorTable() map[string]AnchorPrint {
	if anchorTable != nil {
		return anchorTable
	}
	anchorTable = map[string]AnchorPrint{}
	if AnchorTable != "" {
		if b, err := os.ReadFile(AnchorTable); err == nil {
			_ = json.Unmarshal(b, &anchorTable)
		}
	}
	return anchorTable
}

func relOf(pk *packages.Package) string { return strings.TrimPrefix(pk.PkgPath, Module+"/") }

// matchRenames pairs, for one package, recorded function names that are gone
// with functions that are new.
func matchRenames(pk *packages.Package) {
	if renameDone[pk] {
		return
	}
	renameDone[pk] = true
	t := loadAnchorTable()
	rel := relOf(pk)
	current := map[string]*ast.FuncDecl{}
	AllFuncDecls(pk, func(fd *ast.FuncDecl) { current[FuncName(fd)] = fd })
	var gone []string
	for k := range t {
		if !strings.HasPrefix(k, rel+".") {
			continue
		}
		name := strings.TrimPrefix(k, rel+".")
		if strings.Contains(name, "/") {
			continue // a sub-package
		}
		if current[name] == nil {
			gone = append(gone, name)
		}
	}
	if len(gone) == 0 {
		return
	}
	sort.Strings(gone)
	var fresh []string
	for name := range current {
		if _, known := t[rel+"."+name]; !known {
			fresh = append(fresh, name)
		}
	}
	sort.Strings(fresh)
	jaccard := func(a, b []string) float64 {
		if len(a) == 0 && len(b) == 0 {
			return 1
		}
		in := map[string]bool{}
		for _, x := range a {
			in[x] = true
		}
		both := 0
		for _, x := range b {
			if in[x] {
				both++
			}
		}
		return float64(both) / float64(len(a)+len(b)-both)
	}
	type pair struct {
		old, cur string
		score    float64
	}
	var pairs []pair
	fps := map[string]AnchorPrint{}
	for _, n := range fresh {
		fps[n] = fingerprintOf(pk, current[n])
	}
	for _, o := range gone {
		want := t[rel+"."+o]
		for _, n := range fresh {
			fp := fps[n]
			if fp.Recv != want.Recv || fp.Sig != want.Sig {
				continue
			}
			pairs = append(pairs, pair{o, n, jaccard(want.Feat, fp.Feat)})
		}
	}
	sort.SliceStable(pairs, func(i, j int) bool { return pairs[i].score > pairs[j].score })
	usedOld, usedCur := map[string]bool{}, map[string]bool{}
	for i, p := range pairs {
		if usedOld[p.old] || usedCur[p.cur] || p.score < 0.5 {
			continue
		}
		// unambiguous: no other free pairing of either side scores nearly as well
		ambiguous := false
		for j, q := range pairs {
			if i == j || usedOld[q.old] && q.old != p.old || usedCur[q.cur] && q.cur != p.cur {
				continue
			}
			if (q.old == p.old || q.cur == p.cur) && !(q.old == p.old && q.cur == p.cur) && p.score-q.score < 0.1 {
				ambiguous = true
			}
		}
		if ambiguous {
			// functions with identical fingerprints are interchangeable as far as names go: pair them in name order
			same := func(a, b AnchorPrint) bool {
				return a.Recv == b.Recv && a.Sig == b.Sig && strings.Join(a.Feat, "\x00") == strings.Join(b.Feat, "\x00")
			}
			var olds, curs []string
			for _, o := range gone {
				if !usedOld[o] && same(t[rel+"."+o], t[rel+"."+p.old]) {
					olds = append(olds, o)
				}
			}
			for _, n := range fresh {
				if !usedCur[n] && same(fps[n], fps[p.cur]) {
					curs = append(curs, n)
				}
			}
			if p.score < 0.999 || len(olds) != len(curs) || !same(t[rel+"."+p.old], fps[p.cur]) {
				continue
			}
			idx := -1
			for i, o := range olds {
				if o == p.old {
					idx = i
				}
			}
			if idx < 0 {
				continue
			}
			p.cur = curs[idx]
		}
		usedOld[p.old], usedCur[p.cur] = true, true
		fd := current[p.cur]
		renamedDecl[rel+"."+p.old] = fd
		simple := p.old
		if i := strings.LastIndex(simple, "."); i >= 0 {
			simple = simple[i+1:]
		}
		if o := pk.TypesInfo.Defs[fd.Name]; o != nil {
			oldNameOf[o] = simple
		}
		oldDeclName[fd] = simple
		AnchorNotes = append(AnchorNotes, fmt.Sprintf("%s.%s is not declared under that name any more; %s has the recorded receiver, signature and the closest feature set (similarity %.2f) and answers to the recorded name", rel, p.old, p.cur, p.score))
	}
}

func renamedAnchor(pk *packages.Package, rel, name, recv string) *ast.FuncDecl {
	matchRenames(pk)
	return renamedDecl[rel+"."+name]
}

// RecordedName is the simple name under which a function is known: its
// recorded name when it was renamed, else its own.
func RecordedName(fn *types.Func) string {
	if fn == nil {
		return ""
	}
	if fn.Pkg() != nil && IsSource(fn.Pkg().Path()) && Current != nil {
		if pk := Current.ByPkg[fn.Pkg().Path()]; pk != nil {
			matchRenames(pk)
		}
		if o, ok := oldNameOf[fn.Origin()]; ok {
			return o
		}
	}
	return fn.Name()
}

// RecordedFullName is fn.FullName() with the recorded simple name.
func RecordedFullName(fn *types.Func) string {
	full := fn.FullName()
	if old := RecordedName(fn); old != fn.Name() {
		return strings.TrimSuffix(full, fn.Name()) + old
	}
	return full
}

// WriteAnchors records the fingerprints of every function of the module's
// hand-written packages.
func WriteAnchors() error {
	if AnchorTable == "" || Current == nil {
		return nil
	}
	t := map[string]AnchorPrint{}
	for path, pk := range Current.ByPkg {
		if !IsSource(path) {
			continue
		}
		pk := pk
		AllFuncDecls(pk, func(fd *ast.FuncDecl) {
			t[relOf(pk)+"."+FuncName(fd)] = fingerprintOf(pk, fd)
		})
	}
	b, err := json.MarshalIndent(t, "", " ")
	if err != nil {
		return err
	}
	return os.WriteFile(AnchorTable, append(b, '\n'), 0o644)
}

// CalleeIs reports whether the call's static callee is the module function
// rel."Func" / rel."Recv.Method" — resolved like any anchor, so a renamed
// function is still recognised.
func CalleeIs(info *types.Info, call *ast.CallExpr, rel, name string) bool {
	fn := CalleeFunc(info, call)
	if fn == nil || Current == nil {
		return false
	}
	fd, pk := Current.FuncDecl(rel, name)
	return fd != nil && pk.TypesInfo.Defs[fd.Name] == types.Object(fn.Origin())
}

// AnchorFullName is the full name (as printed by CalleeName) of the module
// function rel.name, following a rename; name itself when it cannot be found.
func AnchorFullName(rel, name string) string {
	if Current != nil {
		if fd, pk := Current.FuncDecl(rel, name); fd != nil {
			if fn, ok := pk.TypesInfo.Defs[fd.Name].(*types.Func); ok {
				return RecordedFullName(fn) // what CalleeName prints for it
			}
		}
	}
	return name
}

// RecvName returns the receiver's named type (without pointer / type params)
// or "" for a plain function.
func RecvName(fd *ast.FuncDecl) string {
	if fd.Recv == nil || len(fd.Recv.List) == 0 {
		return ""
	}
	t := fd.Recv.List[0].Type
	for {
		switch x := t.(type) {
		case *ast.StarExpr:
			t = x.X
			continue
		case *ast.IndexExpr:
			t = x.X
			continue
		case *ast.IndexListExpr:
			t = x.X
			continue
		case *ast.ParenExpr:
			t = x.X
			continue
		case *ast.Ident:
			return x.Name
		}
		return ""
	}
}

// FuncName renders pkg-relative "Recv.Method" / "Func" for a declaration.
func FuncName(fd *ast.FuncDecl) string {
	name := fd.Name.Name
	if old, ok := oldDeclName[fd]; ok {
		name = old
	}
	if r := RecvName(fd); r != "" {
		return r + "." + name
	}
	return name
}

var oldDeclName = map[*ast.FuncDecl]string{} // renamed declaration → recorded simple name

// AllFuncDecls iterates every function declaration with a body in a package.
func AllFuncDecls(pk *packages.Package, f func(fd *ast.FuncDecl)) {
	for _, file := range pk.Syntax {
		for _, d := range file.Decls {
			if fd, ok := d.(*ast.FuncDecl); ok && fd.Body != nil {
				f(fd)
			}
		}
	}
}

// LookupType returns the named type pkg.name.
func (p *Prog) LookupType(pkgPath, name string) *types.Named {
	pk := p.ByPkg[pkgPath]
	if pk == nil {
		pk = p.Pkg(pkgPath)
	}
	if pk == nil || pk.Types == nil {
		return nil
	}
	o := pk.Types.Scope().Lookup(name)
	if o == nil {
		return nil
	}
	n, _ := o.Type().(*types.Named)
	return n
}

func (p *Prog) LookupObj(pkgPath, name string) types.Object {
	pk := p.ByPkg[pkgPath]
	if pk == nil {
		pk = p.Pkg(pkgPath)
	}
	if pk == nil || pk.Types == nil {
		return nil
	}
	return pk.Types.Scope().Lookup(name)
}

// ---------- SSA and call graphs ----------

func (p *Prog) BuildSSA() {
	if p.SSA != nil {
		return
	}
	prog, pkgs := ssautil.AllPackages(p.Roots, ssa.InstantiateGenerics)
	prog.Build()
	p.SSA = prog
	p.ssaPkgs = pkgs
}

func (p *Prog) SSAPkg(rel string) *ssa.Package {
	p.BuildSSA()
	pk := p.Pkg(rel)
	if pk == nil {
		return nil
	}
	return p.SSA.Package(pk.Types)
}

// SSAFunc resolves "Func" or "Recv.Method" (pointer or value receiver) in the
// package with module-relative path rel.
func (p *Prog) SSAFunc(rel, name string) *ssa.Function {
	sp := p.SSAPkg(rel)
	if sp == nil {
		return nil
	}
	if i := strings.Index(name, "."); i >= 0 {
		tn, _ := sp.Pkg.Scope().Lookup(name[:i]).(*types.TypeName)
		if tn == nil {
			return nil
		}
		for _, T := range []types.Type{types.NewPointer(tn.Type()), tn.Type()} {
			ms := p.SSA.MethodSets.MethodSet(T)
			for i := 0; i < ms.Len(); i++ {
				if ms.At(i).Obj().Name() == name[strings.Index(name, ".")+1:] && ms.At(i).Obj().Pkg() == sp.Pkg {
					return p.SSA.MethodValue(ms.At(i))
				}
			}
		}
		return nil
	}
	return sp.Func(name)
}

// CHA returns the class-hierarchy call graph of the whole program (sound
// over-approximation for interface calls; function values are resolved by
// signature).
func (p *Prog) CHA() *callgraph.Graph {
	p.BuildSSA()
	if p.cha == nil {
		p.cha = cha.CallGraph(p.SSA)
	}
	return p.cha
}

// VTA returns the variable-type-analysis call graph seeded by CHA.
func (p *Prog) VTA() *callgraph.Graph {
	if p.vta == nil {
		p.vta = vta.CallGraph(ssautil.AllFunctions(p.SSA), p.CHA())
	}
	return p.vta
}

// FuncPkgPath returns the import path of the package a function belongs to
// (for closures and instantiations, that of the origin).
func FuncPkgPath(f *ssa.Function) string {
	for f != nil {
		if f.Pkg != nil {
			return f.Pkg.Pkg.Path()
		}
		if o := f.Origin(); o != nil && o != f {
			f = o
			continue
		}
		if f.Parent() != nil {
			f = f.Parent()
			continue
		}
		if f.Object() != nil && f.Object().Pkg() != nil {
			return f.Object().Pkg().Path()
		}
		// wrappers/bounds/thunks: use the underlying method's package
		if f.Signature != nil && f.Signature.Recv() != nil {
			if n := namedOf(f.Signature.Recv().Type()); n != nil && n.Obj().Pkg() != nil {
				return n.Obj().Pkg().Path()
			}
		}
		return ""
	}
	return ""
}

func namedOf(t types.Type) *types.Named {
	for {
		switch x := t.(type) {
		case *types.Pointer:
			t = x.Elem()
			continue
		case *types.Named:
			return x
		case *types.Alias:
			t = types.Unalias(x)
			continue
		}
		return nil
	}
}

// NamedOf strips pointers/aliases and returns the named type or nil.
func NamedOf(t types.Type) *types.Named { return namedOf(t) }

// Reachable computes the set of functions reachable from the entries in the
// given graph, descending only through functions for which follow returns
// true (entries are always included).
func Reachable(g *callgraph.Graph, entries []*ssa.Function, follow func(*ssa.Function) bool) map[*ssa.Function]bool {
	seen := map[*ssa.Function]bool{}
	var stack []*ssa.Function
	for _, e := range entries {
		if e != nil && !seen[e] {
			seen[e] = true
			stack = append(stack, e)
		}
	}
	for len(stack) > 0 {
		f := stack[len(stack)-1]
		stack = stack[:len(stack)-1]
		n := g.Nodes[f]
		if n == nil {
			continue
		}
		for _, e := range n.Out {
			c := e.Callee.Func
			if c == nil || seen[c] {
				continue
			}
			if follow != nil && !follow(c) {
				continue
			}
			seen[c] = true
			stack = append(stack, c)
		}
		// anonymous functions defined inside f are reachable when f is
		// (they may be stored and called through paths CHA models by
		// signature only).
		for _, a := range f.AnonFuncs {
			if !seen[a] {
				seen[a] = true
				stack = append(stack, a)
			}
		}
	}
	return seen
}

// FollowSource follows only hand-written module functions.
func FollowSource(f *ssa.Function) bool { return IsSource(FuncPkgPath(f)) }

// FuncKey is a stable, line-free name for an SSA function.
func FuncKey(f *ssa.Function) string {
	s := f.String()
	// a renamed function (or the function enclosing a closure) answers to its recorded name
	root := f
	for root.Parent() != nil {
		root = root.Parent()
	}
	if o, ok := root.Object().(*types.Func); ok && root.Origin() == nil || ok {
		if old := RecordedName(o); old != o.Name() {
			rs := root.String()
			if strings.HasPrefix(s, rs) && strings.HasSuffix(rs, o.Name()) {
				s = strings.TrimSuffix(rs, o.Name()) + old + strings.TrimPrefix(s, rs)
			}
		}
	}
	s = strings.ReplaceAll(s, Module+"/", "")
	return s
}

// SortedFuncs returns the functions of a set in name order.
func SortedFuncs(set map[*ssa.Function]bool) []*ssa.Function {
	out := make([]*ssa.Function, 0, len(set))
	for f := range set {
		out = append(out, f)
	}
	sort.Slice(out, func(i, j int) bool { return FuncKey(out[i]) < FuncKey(out[j]) })
	return out
}

var declIndex = map[*packages.Package]map[types.Object]*ast.FuncDecl{}

// DeclOf returns the declaration of a function or method of the package.
func DeclOf(pk *packages.Package, fn types.Object) *ast.FuncDecl {
	idx := declIndex[pk]
	if idx == nil {
		idx = map[types.Object]*ast.FuncDecl{}
		for _, f := range pk.Syntax {
			for _, d := range f.Decls {
				if fd, ok := d.(*ast.FuncDecl); ok {
					if o := pk.TypesInfo.Defs[fd.Name]; o != nil {
						idx[o] = fd
					}
				}
			}
		}
		declIndex[pk] = idx
	}
	return idx[fn]
}

// TreeDecls returns fd followed by the same-package functions it calls
// statically, transitively up to the given depth; fd itself (recursion) and
// the functions named in stop are left out. Rules that look for a construct
// "somewhere in what F does" use this, so that extracting part of F into a
// helper does not hide the construct.
func TreeDecls(pk *packages.Package, fd *ast.FuncDecl, depth int, stop ...string) []*ast.FuncDecl {
	stopSet := map[string]bool{}
	for _, s := range stop {
		stopSet[s] = true
	}
	seen := map[*ast.FuncDecl]bool{fd: true}
	out := []*ast.FuncDecl{fd}
	var visit func(d *ast.FuncDecl, left int)
	visit = func(d *ast.FuncDecl, left int) {
		if left == 0 || d.Body == nil {
			return
		}
		ast.Inspect(d.Body, func(n ast.Node) bool {
			c, ok := n.(*ast.CallExpr)
			if !ok {
				return true
			}
			fn := CalleeFunc(pk.TypesInfo, c)
			if fn == nil || fn.Pkg() != pk.Types {
				return true
			}
			cd := DeclOf(pk, fn.Origin())
			if cd == nil || cd.Body == nil || seen[cd] || stopSet[FuncName(cd)] || stopSet[cd.Name.Name] {
				return true
			}
			seen[cd] = true
			out = append(out, cd)
			visit(cd, left-1)
			return true
		})
	}
	visit(fd, depth)
	return out
}

// TreeBody is a synthetic block holding the bodies of TreeDecls, for rules
// that search with ast.Inspect. It must not be used for control-flow or
// dominance reasoning.
func TreeBody(pk *packages.Package, fd *ast.FuncDecl, stop ...string) *ast.BlockStmt {
	b := &ast.BlockStmt{Lbrace: fd.Body.Lbrace, Rbrace: fd.Body.Rbrace}
	for _, d := range TreeDecls(pk, fd, 3, stop...) {
		b.List = append(b.List, d.Body)
	}
	return b
}

// TreeOf returns root followed by the bodies of the same-package functions
// called (statically, transitively up to depth) from within root: what the
// code under root does, wherever it has been factored out to.
func TreeOf(pk *packages.Package, root ast.Node, depth int, stop ...string) []ast.Node {
	out := []ast.Node{root}
	seen := map[*ast.FuncDecl]bool{}
	stopSet := map[string]bool{}
	for _, s := range stop {
		stopSet[s] = true
	}
	var visit func(n ast.Node, left int)
	visit = func(n ast.Node, left int) {
		if left == 0 {
			return
		}
		ast.Inspect(n, func(x ast.Node) bool {
			c, ok := x.(*ast.CallExpr)
			if !ok {
				return true
			}
			fn := CalleeFunc(pk.TypesInfo, c)
			if fn == nil || fn.Pkg() != pk.Types {
				return true
			}
			cd := DeclOf(pk, fn.Origin())
			if cd == nil || cd.Body == nil || seen[cd] || stopSet[cd.Name.Name] {
				return true
			}
			// do not re-enter the function root itself belongs to
			if cd.Body.Pos() <= root.Pos() && root.End() <= cd.Body.End() {
				return true
			}
			seen[cd] = true
			out = append(out, cd.Body)
			visit(cd.Body, left-1)
			return true
		})
	}
	visit(root, depth)
	return out
}

// InspectTree runs ast.Inspect over TreeOf(pk, root, 3).
func InspectTree(pk *packages.Package, root ast.Node, f func(ast.Node) bool) {
	for _, n := range TreeOf(pk, root, 3) {
		ast.Inspect(n, f)
	}
}

// Current is the program being analysed (one per process).
var Current *Prog

// EnclosingDecl finds the function declaration of the module that contains pos.
func (p *Prog) EnclosingDecl(pos token.Pos) *ast.FuncDecl {
	for path, pk := range p.ByPkg {
		if !IsSource(path) {
			continue
		}
		for _, f := range pk.Syntax {
			if f.Pos() <= pos && pos < f.End() {
				for _, d := range f.Decls {
					if fd, ok := d.(*ast.FuncDecl); ok && fd.Pos() <= pos && pos < fd.End() {
						return fd
					}
				}
				return nil
			}
		}
	}
	return nil
}
