package core

import (
	"encoding/json"
	"fmt"
	"go/token"
	"os"
	"path/filepath"
	"sort"
	"strings"
	"time"
)

// Oblig is one proof obligation enumerated from the current source.
type Oblig struct {
	Rule   string `json:"rule"`
	Key    string `json:"key"` // structural, line-free
	Pos    string `json:"pos"` // file:line for the report only
	Desc   string `json:"desc"`
	Status string `json:"status"` // auto:<how> | table:<reason> | known:<what> | OPEN
	Why    string `json:"why,omitempty"`
}

func (o *Oblig) Open() bool { return o.Status == "OPEN" }

// Run accumulates the obligations of one property check.
type Run struct {
	Prop     string
	Tier     string
	Level    string
	P        *Prog
	VerifDir string
	Start    time.Time

	Obligs   []*Oblig
	byKey    map[string]*Oblig
	Rules    map[string]string // rule id -> text applied
	Analysed map[string]int    // what was analysed (functions, call sites, ...)
	Entry    []string
	Assume   []string
	Notes    []string
	floors   []floor
	fatal    []string
	extra    map[string]any
	tables   map[string]map[string]string // table name -> key -> reason
	known    *KnownFile
}

type floor struct {
	rule string
	min  int
	what string
}

func NewRun(prop, tier, verif string, p *Prog) *Run {
	r := &Run{Prop: prop, Tier: tier, Level: "other", P: p, VerifDir: verif, Start: time.Now(),
		byKey: map[string]*Oblig{}, Rules: map[string]string{}, Analysed: map[string]int{}, tables: map[string]map[string]string{}}
	k, err := LoadKnown(filepath.Join(verif, "known_findings.json"))
	if err != nil {
		r.Fatal("known_findings.json: %v", err)
		k = &KnownFile{}
	}
	r.known = k
	return r
}

// Rule registers the text of a rule so that the evidence says what was applied.
func (r *Run) Rule(id, text string) { r.Rules[id] = text }

// Add enumerates an obligation (status OPEN until discharged). Keys must be
// unique; a duplicate key gets an ordinal suffix in enumeration order.
func (r *Run) Add(rule, key string, pos token.Pos, desc string) *Oblig {
	full := rule + " | " + key
	if _, dup := r.byKey[full]; dup {
		for n := 2; ; n++ {
			k := fmt.Sprintf("%s #%d", full, n)
			if _, d := r.byKey[k]; !d {
				full = k
				break
			}
		}
	}
	o := &Oblig{Rule: rule, Key: full, Pos: r.P.Rel(pos), Desc: desc, Status: "OPEN"}
	r.byKey[full] = o
	r.Obligs = append(r.Obligs, o)
	return o
}

// Auto discharges by a fact recomputed from the current source.
func (o *Oblig) Auto(how string, args ...any) *Oblig {
	o.Status = "auto:" + fmt.Sprintf(how, args...)
	return o
}

// Fail leaves the obligation open with an explanation.
func (o *Oblig) Fail(why string, args ...any) *Oblig {
	o.Status = "OPEN"
	o.Why = fmt.Sprintf(why, args...)
	return o
}

// Table tries the named exception table (tables/<name>.json: key -> reason).
// A table line discharges exactly the obligation with that full key.
func (r *Run) Table(name string, o *Oblig) bool {
	t := r.loadTable(name)
	if reason, ok := t[o.Key]; ok {
		o.Status = "table:" + reason
		r.tableUsed(name, o.Key)
		return true
	}
	return false
}

// TableKey discharges o with the table line stored under another key (a line
// that covers a class of constructs, e.g. every call of one function).
func (r *Run) TableKey(name string, o *Oblig, key string) bool {
	t := r.loadTable(name)
	if reason, ok := t[key]; ok {
		o.Status = "table:" + reason
		r.tableUsed(name, key)
		return true
	}
	return false
}

// MovedLine returns the key of a table line that records the same construct
// (same rule, package and construct text) under a function where it no longer
// exists (its own key is not among the current keys), or "". Exactly one such
// line must exist.
func (r *Run) MovedLine(name, fullKey string, current map[string]bool) string {
	sig, ok := moveSignature(fullKey)
	if !ok {
		return ""
	}
	found := ""
	for k := range r.loadTable(name) {
		if k == fullKey || current[k] {
			continue
		}
		if s2, ok := moveSignature(k); ok && s2 == sig {
			if found != "" {
				return ""
			}
			found = k
		}
	}
	return found
}

// InTable reports whether the table has a line for the full key, without
// discharging anything (used where a listed site changes what else is owed).
func (r *Run) InTable(name, fullKey string) bool {
	_, ok := r.loadTable(name)[fullKey]
	return ok
}

func (r *Run) loadTable(name string) map[string]string {
	t, ok := r.tables[name]
	if !ok {
		t = map[string]string{}
		b, err := os.ReadFile(filepath.Join(r.VerifDir, "tables", name+".json"))
		if err == nil {
			var raw map[string]string
			if err := json.Unmarshal(b, &raw); err != nil {
				r.Fatal("tables/%s.json: %v", name, err)
			}
			for k, v := range raw {
				if strings.HasPrefix(k, "//") {
					continue
				}
				t[k] = v
			}
		}
		r.tables[name] = t
		r.tableUsed(name, "")
	}
	return t
}

var usedTableKeys = map[string]map[string]bool{}

func (r *Run) tableUsed(name, key string) {
	if usedTableKeys[name] == nil {
		usedTableKeys[name] = map[string]bool{}
	}
	if key != "" {
		usedTableKeys[name][key] = true
	}
}

// Floor: the rule must have enumerated at least min obligations (vacuity guard).
func (r *Run) Floor(rule string, min int, what string) {
	r.floors = append(r.floors, floor{rule, min, what})
}

// Fatal records a condition that makes the run fail regardless of obligations
// (unresolved anchor, analyser limitation hit, ...).
func (r *Run) Fatal(format string, args ...any) {
	r.fatal = append(r.fatal, fmt.Sprintf(format, args...))
}

// Extra attaches an additional key to the evidence coverage object.
func (r *Run) Extra(key string, v any) {
	if r.extra == nil {
		r.extra = map[string]any{}
	}
	r.extra[key] = v
}

// Tick records the elapsed time at a phase boundary (reported in the evidence).
func (r *Run) Tick(label string) {
	r.Analysed["t_ms_"+label] = int(time.Since(r.Start).Milliseconds())
}

func (r *Run) Note(format string, args ...any) {
	r.Notes = append(r.Notes, fmt.Sprintf(format, args...))
}
func (r *Run) Assumef(format string, args ...any) {
	r.Assume = append(r.Assume, fmt.Sprintf(format, args...))
}

func (r *Run) Count(rule string) int {
	n := 0
	for _, o := range r.Obligs {
		if o.Rule == rule || strings.HasPrefix(o.Rule, rule+"/") {
			n++
		}
	}
	return n
}

// Finish applies known findings and floors, prints the report, writes the
// evidence file and returns the process exit code.
func (r *Run) Finish(out string) int {
	// known findings
	for _, o := range r.Obligs {
		if !o.Open() {
			continue
		}
		if kf := r.known.Match(r.Prop, o.Key); kf != nil {
			o.Status = "known:" + kf.What
		}
	}
	for _, f := range r.floors {
		if n := r.Count(f.rule); n < f.min {
			r.Fatal("vacuity guard: rule %s enumerated %d obligations, floor is %d (%s)", f.rule, n, f.min, f.what)
		}
	}
	// A construct that moved to another function of the same package (helper
	// extracted, function renamed or split) keeps its recorded reason: an open
	// obligation is paired with an unused table line of the same rule, package
	// and construct text when the pairing is unique in both directions.
	for name, t := range r.tables {
		type cand struct{ key, reason string }
		unused := map[string][]cand{} // rule|pkg|what -> lines
		for k, reason := range t {
			if usedTableKeys[name][k] {
				continue
			}
			if sig, ok := moveSignature(k); ok {
				unused[sig] = append(unused[sig], cand{k, reason})
			}
		}
		open := map[string][]*Oblig{}
		for _, o := range r.Obligs {
			if o.Open() {
				if sig, ok := moveSignature(o.Key); ok {
					open[sig] = append(open[sig], o)
				}
			}
		}
		for sig, os := range open {
			cs := unused[sig]
			if len(os) == 0 || len(cs) == 0 || len(os) > len(cs) {
				continue // only a complete move is followed
			}
			if len(os) < len(cs) {
				// several recorded sites of the same construct merged into fewer (a helper now holds
				// what its callers used to repeat): the recorded reasons are all about this construct
				sort.Slice(cs, func(i, j int) bool { return cs[i].key < cs[j].key })
				var reasons []string
				seen := map[string]bool{}
				for _, c := range cs {
					if !seen[c.reason] {
						seen[c.reason] = true
						reasons = append(reasons, c.reason)
					}
					r.tableUsed(name, c.key)
				}
				for _, o := range os {
					o.Status = "table:" + strings.Join(reasons, " / ") + fmt.Sprintf(" [construct moved: %d recorded sites are now %d]", len(cs), len(os))
					o.Why = ""
				}
				r.Note("table %s: the %d lines for %q were applied to the %d site(s) the construct now has", name, len(cs), sig, len(os))
				continue
			}
			sort.Slice(os, func(i, j int) bool { return os[i].Key < os[j].Key })
			sort.Slice(cs, func(i, j int) bool { return cs[i].key < cs[j].key })
			for i := range os {
				c := cs[i]
				os[i].Status = "table:" + c.reason + " [construct moved: recorded under " + keyFunc(c.key) + "]"
				os[i].Why = ""
				r.tableUsed(name, c.key)
				r.Note("table %s: the line for %q was applied to the same construct now found in %s", name, c.key, keyFunc(os[i].Key))
			}
		}
	}
	// stale table lines are reported as notes (not failures): the construct may
	// have been legitimately removed.
	for name, t := range r.tables {
		for k := range t {
			if !usedTableKeys[name][k] && strings.HasPrefix(k, "") && keyBelongs(k, r) {
				r.Note("table %s: line for %q matched no obligation on this tree", name, k)
			}
		}
	}

	sort.SliceStable(r.Obligs, func(i, j int) bool { return r.Obligs[i].Key < r.Obligs[j].Key })
	open, known, discharged := 0, 0, 0
	vdir := filepath.Join(r.VerifDir, "evidence", "violations")
	if d := os.Getenv("J5CHECK_VIOLATION_DIR"); d != "" {
		vdir = d // mutant self-test subprocesses must not write into /verif/evidence
	}
	for _, o := range r.Obligs {
		switch {
		case o.Open():
			open++
		case strings.HasPrefix(o.Status, "known:"):
			known++
		default:
			discharged++
		}
	}
	for _, o := range r.Obligs {
		if strings.HasPrefix(o.Status, "known:") {
			fmt.Printf("KNOWN-FINDING: property=%s %s — %s (%s)\n", r.Prop, o.Key, strings.TrimPrefix(o.Status, "known:"), o.Pos)
		}
	}
	if os.Getenv("J5CHECK_DUMP") != "" { // debugging aid: every obligation with its discharge
		for _, o := range r.Obligs {
			fmt.Fprintf(os.Stderr, "DUMP %s @ %s => %s %s\n", o.Key, o.Pos, o.Status, o.Why)
		}
	}
	n := 0
	if open > 0 || len(r.fatal) > 0 {
		os.MkdirAll(vdir, 0o755)
	}
	for _, o := range r.Obligs {
		if !o.Open() {
			continue
		}
		n++
		path := filepath.Join(vdir, fmt.Sprintf("%s-%d.json", r.Prop, n))
		b, _ := json.MarshalIndent(map[string]any{"property": r.Prop, "obligation": o, "rule_text": r.Rules[o.Rule]}, "", " ")
		os.WriteFile(path, b, 0o644)
		fmt.Printf("%s: %s: %s: %s\n", o.Pos, o.Rule, o.Desc, o.Why)
		fmt.Printf("VIOLATION property=%s replay=%s\n", r.Prop, path)
	}
	for _, f := range r.fatal {
		n++
		path := filepath.Join(vdir, fmt.Sprintf("%s-%d.json", r.Prop, n))
		b, _ := json.MarshalIndent(map[string]any{"property": r.Prop, "fatal": f}, "", " ")
		os.WriteFile(path, b, 0o644)
		fmt.Printf("check failure: %s\n", f)
		fmt.Printf("VIOLATION property=%s replay=%s\n", r.Prop, path)
	}
	r.writeEvidence(out, open+len(r.fatal), known, discharged)
	fmt.Printf("%s %s: %d obligations, %d discharged, %d known findings, %d open, %d check failures (%.1fs)\n",
		r.Prop, r.Tier, len(r.Obligs), discharged, known, open, len(r.fatal), time.Since(r.Start).Seconds())
	if open > 0 || len(r.fatal) > 0 {
		return 1
	}
	return 0
}

// moveSignature: rule | package of the function | construct text, for keys of
// the form "rule | function | what".
func moveSignature(key string) (string, bool) {
	parts := strings.SplitN(key, " | ", 3)
	if len(parts) != 3 {
		return "", false
	}
	fn := strings.TrimLeft(parts[1], "(*")
	// package path: up to the first '.' after the last '/'
	slash := strings.LastIndex(fn, "/")
	dot := strings.Index(fn[slash+1:], ".")
	pkg := ""
	if dot >= 0 && slash >= 0 {
		pkg = fn[:slash+1+dot]
	} // keys that name the function without its package (one rule, one package) share the empty package
	what := parts[2]
	if i := strings.LastIndex(what, " #"); i >= 0 && i > len(what)-5 {
		what = what[:i]
	}
	return parts[0] + " | " + pkg + " | " + what, true
}

func keyFunc(key string) string {
	parts := strings.SplitN(key, " | ", 3)
	if len(parts) >= 2 {
		return parts[1]
	}
	return key
}

func keyBelongs(k string, r *Run) bool {
	// a table may be shared between properties; only note staleness for
	// lines whose rule was enumerated by this run at all
	rule := strings.SplitN(k, " | ", 2)[0]
	return r.Count(rule) > 0
}

func (r *Run) writeEvidence(out string, violations, known, discharged int) {
	perRule := map[string][2]int{}
	for _, o := range r.Obligs {
		c := perRule[o.Rule]
		c[0]++
		if !o.Open() {
			c[1]++
		}
		perRule[o.Rule] = c
	}
	ruleCounts := map[string]any{}
	for k, c := range perRule {
		ruleCounts[k] = map[string]int{"obligations": c[0], "discharged_or_known": c[1]}
	}
	// samples: up to 3 per rule, preferring a mix of discharge kinds
	var samples []any
	perRuleSample := map[string]int{}
	seenKind := map[string]bool{}
	for pass := 0; pass < 2; pass++ {
		for _, o := range r.Obligs {
			kind := o.Rule + "|" + strings.SplitN(o.Status, ":", 2)[0]
			if pass == 0 && seenKind[kind] {
				continue
			}
			if pass == 1 && (perRuleSample[o.Rule] >= 3 || seenKind[o.Key]) {
				continue
			}
			seenKind[kind] = true
			seenKind[o.Key] = true
			perRuleSample[o.Rule]++
			samples = append(samples, o)
			if len(samples) >= 60 {
				break
			}
		}
	}
	if len(samples) == 0 {
		samples = append(samples, "no obligations enumerated")
	}
	var openList []any
	for _, o := range r.Obligs {
		if o.Open() {
			openList = append(openList, o)
		}
	}
	distinct := len(r.byKey)
	cov := map[string]any{
		"explanation":         fmt.Sprintf("static analysis of /repo's working tree: %d obligations enumerated from the type-checked source by %d rules; each is discharged by a fact recomputed on this run (auto), a frozen single-key exception with a reason (table), or is a listed known finding; anything else is a violation. This decides the structural clauses named under 'rules', not the behavioural law itself.", len(r.Obligs), len(r.Rules)),
		"obligations":         len(r.Obligs),
		"discharged":          discharged,
		"known_findings":      known,
		"open":                violations,
		"evaluations":         max(len(r.Obligs), 1),
		"distinct_nontrivial": max(distinct, 0),
		"rule":                "one case = one obligation (rule + function + construct); distinct by structural key; all are non-trivial in the sense that each names a construct whose change can break the property",
		"samples":             samples,
		"rules":               r.Rules,
		"per_rule":            ruleCounts,
		"analysed":            r.Analysed,
		"entry_points":        r.Entry,
		"notes":               r.Notes,
		"checker_cmd":         fmt.Sprintf("bin/j5check -prop %s -tier %s", r.Prop, r.Tier),
		"trusted_base":        []string{"go/types, go/ssa, go/cfg and the call-graph builders of golang.org/x/tools v0.29.0", "go list / the Go 1.24.1 toolchain for package loading"},
		"exhaustive":          true,
	}
	for k, v := range r.extra {
		cov[k] = v
	}
	if len(openList) > 0 {
		cov["open_obligations"] = openList
	}
	if len(r.fatal) > 0 {
		cov["check_failures"] = r.fatal
	}
	ev := map[string]any{
		"property_id": r.Prop,
		"tier":        r.Tier,
		"seed":        0,
		"level":       r.Level,
		"coverage":    cov,
		"assumptions": append([]string{}, r.Assume...),
		"wall_s":      time.Since(r.Start).Seconds(),
		"violations":  violations,
	}
	b, _ := json.MarshalIndent(ev, "", " ")
	os.MkdirAll(filepath.Dir(out), 0o755)
	if err := os.WriteFile(out, b, 0o644); err != nil {
		fmt.Fprintf(os.Stderr, "cannot write evidence: %v\n", err)
	}
}

// ---------- known findings ----------

type KnownFinding struct {
	Property string `json:"property"`
	Key      string `json:"key"` // full obligation key (rule | key)
	What     string `json:"what"`
}
type FixedEntry struct {
	Property string `json:"property"`
	Commit   string `json:"commit"`
	What     string `json:"what"`
	Line     string `json:"line,omitempty"`
}
type KnownFile struct {
	Findings []KnownFinding `json:"findings"`
	Fixed    []FixedEntry   `json:"fixed"`
}

func LoadKnown(path string) (*KnownFile, error) {
	b, err := os.ReadFile(path)
	if os.IsNotExist(err) {
		return &KnownFile{}, nil
	}
	if err != nil {
		return nil, err
	}
	k := &KnownFile{}
	if err := json.Unmarshal(b, k); err != nil {
		return nil, err
	}
	return k, nil
}

// Match: a finding suppresses exactly the obligation with its key for its
// property. Fixed entries never suppress anything.
func (k *KnownFile) Match(prop, key string) *KnownFinding {
	for i := range k.Findings {
		if k.Findings[i].Property == prop && k.Findings[i].Key == key {
			return &k.Findings[i]
		}
	}
	return nil
}
