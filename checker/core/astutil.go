package core

import (
	"go/ast"
	"go/constant"
	"go/token"
	"go/types"
	"reflect"
	"strings"

	"golang.org/x/tools/go/cfg"
	"golang.org/x/tools/go/packages"
	"golang.org/x/tools/go/types/typeutil"
)

// ConstInt returns the constant integer value of an expression, if any.
func ConstInt(info *types.Info, e ast.Expr) (int64, bool) {
	tv, ok := info.Types[e]
	if !ok || tv.Value == nil {
		return 0, false
	}
	if v, ok := constant.Int64Val(constant.ToInt(tv.Value)); ok && constant.ToInt(tv.Value).Kind() == constant.Int {
		return v, true
	}
	return 0, false
}

// ConstString returns the constant string value of an expression, if any.
func ConstString(info *types.Info, e ast.Expr) (string, bool) {
	tv, ok := info.Types[e]
	if !ok || tv.Value == nil || tv.Value.Kind() != constant.String {
		return "", false
	}
	return constant.StringVal(tv.Value), true
}

// CalleeName returns the fully qualified name of a call's static callee:
// "pkg/path.Func" or "(*pkg/path.T).Method" / "(pkg/path.I).Method"; builtins
// are returned as "builtin.<name>"; "" when the callee is dynamic.
func CalleeName(info *types.Info, call *ast.CallExpr) string {
	o := typeutil.Callee(info, call)
	switch f := o.(type) {
	case *types.Func:
		return RecordedFullName(f)
	case *types.Builtin:
		return "builtin." + f.Name()
	}
	return ""
}

// CalleeFunc returns the static callee function object, or nil.
func CalleeFunc(info *types.Info, call *ast.CallExpr) *types.Func {
	f, _ := typeutil.Callee(info, call).(*types.Func)
	return f
}

// IsConversion reports whether the call expression is a type conversion.
func IsConversion(info *types.Info, call *ast.CallExpr) bool {
	tv, ok := info.Types[call.Fun]
	return ok && tv.IsType()
}

// Unparen strips parentheses.
func Unparen(e ast.Expr) ast.Expr {
	for {
		p, ok := e.(*ast.ParenExpr)
		if !ok {
			return e
		}
		e = p.X
	}
}

// ExprStr renders an expression compactly (used in structural keys).
func ExprStr(e ast.Expr) string { return types.ExprString(e) }

// IsLenOf reports whether e is len(<ident name>).
func IsLenOf(info *types.Info, e ast.Expr, name string) bool {
	c, ok := Unparen(e).(*ast.CallExpr)
	if !ok || len(c.Args) != 1 {
		return false
	}
	if id, ok := c.Fun.(*ast.Ident); !ok || id.Name != "len" {
		return false
	} else if _, isB := info.Uses[id].(*types.Builtin); !isB {
		return false
	}
	a, ok := Unparen(c.Args[0]).(*ast.Ident)
	return ok && a.Name == name
}

// UsedObj returns the object an identifier or selector refers to.
func UsedObj(info *types.Info, e ast.Expr) types.Object {
	switch x := Unparen(e).(type) {
	case *ast.Ident:
		if o := info.Uses[x]; o != nil {
			return o
		}
		return info.Defs[x]
	case *ast.SelectorExpr:
		if s, ok := info.Selections[x]; ok {
			return s.Obj()
		}
		return info.Uses[x.Sel]
	}
	return nil
}

// ObjPath renders "pkg/path.Name" for a package-level object.
func ObjPath(o types.Object) string {
	if o == nil {
		return ""
	}
	if o.Pkg() == nil {
		return o.Name()
	}
	return o.Pkg().Path() + "." + o.Name()
}

// TypeStr renders a type with module-relative package paths.
func TypeStr(t types.Type) string {
	if t == nil {
		return "<nil>"
	}
	return types.TypeString(t, func(p *types.Package) string {
		return strings.TrimPrefix(p.Path(), Module+"/")
	})
}

// EnclosingFunc maps positions to the enclosing function declaration of a
// package (used to build structural keys).
func EnclosingFunc(pk *packages.Package, pos token.Pos) *ast.FuncDecl {
	for _, f := range pk.Syntax {
		if f.Pos() <= pos && pos <= f.End() {
			for _, d := range f.Decls {
				if fd, ok := d.(*ast.FuncDecl); ok && fd.Pos() <= pos && pos <= fd.End() {
					return fd
				}
			}
		}
	}
	return nil
}

// PathTo returns the chain of nodes from root down to the node at target
// position range (outermost first).
func PathTo(root ast.Node, target ast.Node) []ast.Node {
	if target == nil || reflect.ValueOf(target).Kind() == reflect.Ptr && reflect.ValueOf(target).IsNil() {
		return nil
	}
	// a target outside root (a construct that was factored out into a helper,
	// reached through TreeBody) is located inside its own function instead
	if root != nil && target != nil && (target.Pos() < root.Pos() || target.End() > root.End()) {
		if _, isBody := root.(*ast.BlockStmt); isBody && Current != nil {
			if fd := Current.EnclosingDecl(target.Pos()); fd != nil && fd.Body != nil && ast.Node(fd.Body) != root {
				root = fd.Body
			}
		}
	}
	var path []ast.Node
	var found bool
	var stack []ast.Node
	ast.Inspect(root, func(n ast.Node) bool {
		if found {
			return false
		}
		if n == nil {
			stack = stack[:len(stack)-1]
			return true
		}
		stack = append(stack, n)
		if n == target {
			path = append([]ast.Node(nil), stack...)
			found = true
			return false
		}
		return true
	})
	return path
}

// IsNilIdent reports whether e is the predeclared nil.
func IsNilIdent(info *types.Info, e ast.Expr) bool {
	id, ok := Unparen(e).(*ast.Ident)
	if !ok || id.Name != "nil" {
		return false
	}
	_, isNil := info.Uses[id].(*types.Nil)
	return isNil
}

// StructFields lists the exported proto field names of a generated message
// struct (fields carrying a `protobuf:` tag, and oneof wrapper interfaces
// carrying `protobuf_oneof:`).
func StructFields(n *types.Named) []*types.Var {
	st, ok := n.Underlying().(*types.Struct)
	if !ok {
		return nil
	}
	var out []*types.Var
	for i := 0; i < st.NumFields(); i++ {
		tag := st.Tag(i)
		if strings.Contains(tag, "protobuf:") || strings.Contains(tag, "protobuf_oneof:") {
			out = append(out, st.Field(i))
		}
	}
	return out
}

// Implementers returns the named types T (declared in the given package) such
// that *T implements iface.
func Implementers(pkg *types.Package, iface *types.Interface) []*types.Named {
	var out []*types.Named
	sc := pkg.Scope()
	for _, name := range sc.Names() {
		tn, ok := sc.Lookup(name).(*types.TypeName)
		if !ok || tn.IsAlias() {
			continue
		}
		n, ok := tn.Type().(*types.Named)
		if !ok {
			continue
		}
		if _, isI := n.Underlying().(*types.Interface); isI {
			continue
		}
		if types.Implements(types.NewPointer(n), iface) || types.Implements(n, iface) {
			out = append(out, n)
		}
	}
	return out
}

// NormExpr prints an expression for use in an obligation key. Access paths
// rooted at local variables are described by type instead of by name, keeping
// only the last field: `ps.items[0]`, `p.items[0]` and (with `x := ps`)
// `x.items[0]` all print as `‹*popSet›.items[0]`; `locs[0].Span[2]` and (with
// `l := locs[0]`) `l.Span[2]` both print as `‹*Location›.Span[2]`. Renaming a
// local or introducing an alias therefore does not change the key.
func NormExpr(info *types.Info, e ast.Expr) string { return NormExprSubst(info, e, nil) }

// NormExprSubst is NormExpr with some local variables (parameters of a helper)
// printed as the given text (the normalised argument of a call site).
func NormExprSubst(info *types.Info, e ast.Expr, subst map[types.Object]string) string {
	short := func(t types.Type) string {
		if t == nil {
			return "?"
		}
		s := types.TypeString(t, func(*types.Package) string { return "" })
		if len(s) > 40 {
			s = s[:40] + "…"
		}
		return "‹" + s + "›"
	}
	isLocal := func(id *ast.Ident) bool {
		obj := info.Uses[id]
		if obj == nil {
			obj = info.Defs[id]
		}
		v, ok := obj.(*types.Var)
		return ok && !v.IsField() && v.Pkg() != nil && v.Parent() != v.Pkg().Scope()
	}
	var isPath func(e ast.Expr) bool
	isPath = func(e ast.Expr) bool {
		switch x := e.(type) {
		case *ast.Ident:
			return isLocal(x)
		case *ast.ParenExpr:
			return isPath(x.X)
		case *ast.StarExpr:
			return isPath(x.X)
		case *ast.SelectorExpr:
			if sel := info.Selections[x]; sel != nil && sel.Kind() == types.FieldVal {
				return isPath(x.X)
			}
		case *ast.IndexExpr:
			return isPath(x.X)
		}
		return false
	}
	var norm func(e ast.Expr) string
	// what is indexed or sliced: a local that only names a field of something else
	// (`span := loc.Span`) is printed as that field, so that introducing the alias does
	// not change the key
	normIndexed := func(e ast.Expr) string {
		if id, ok := Unparen(e).(*ast.Ident); ok && isLocal(id) && Current != nil {
			if fd := Current.EnclosingDecl(id.Pos()); fd != nil && fd.Body != nil {
				obj := info.Uses[id]
				var def ast.Expr
				n := 0
				ast.Inspect(fd.Body, func(nd ast.Node) bool {
					if as, ok := nd.(*ast.AssignStmt); ok && len(as.Lhs) == len(as.Rhs) {
						for i, l := range as.Lhs {
							if li, ok := l.(*ast.Ident); ok && obj != nil && (info.Defs[li] == obj || info.Uses[li] == obj) {
								n++
								def = as.Rhs[i]
							}
						}
					}
					return true
				})
				if s, ok := Unparen(def).(*ast.SelectorExpr); ok && n == 1 {
					if sel := info.Selections[s]; sel != nil && sel.Kind() == types.FieldVal && isPath(s.X) {
						return norm(s)
					}
				}
			}
		}
		return norm(e)
	}
	norm = func(e ast.Expr) string {
		switch x := e.(type) {
		case nil:
			return ""
		case *ast.Ident:
			if s, ok := subst[info.Uses[x]]; ok && info.Uses[x] != nil {
				return s
			}
			if isLocal(x) {
				return short(info.TypeOf(x))
			}
			if fn, ok := info.Uses[x].(*types.Func); ok {
				return RecordedName(fn)
			}
			return x.Name
		case *ast.ParenExpr:
			return "(" + norm(x.X) + ")"
		case *ast.StarExpr:
			return "*" + norm(x.X)
		case *ast.UnaryExpr:
			return x.Op.String() + norm(x.X)
		case *ast.BinaryExpr:
			return norm(x.X) + " " + x.Op.String() + " " + norm(x.Y)
		case *ast.SelectorExpr:
			if sel := info.Selections[x]; sel != nil && sel.Kind() == types.FieldVal && isPath(x.X) {
				return short(info.TypeOf(x.X)) + "." + x.Sel.Name
			}
			if fn, ok := info.Uses[x.Sel].(*types.Func); ok {
				return norm(x.X) + "." + RecordedName(fn)
			}
			return norm(x.X) + "." + x.Sel.Name
		case *ast.IndexExpr:
			return normIndexed(x.X) + "[" + norm(x.Index) + "]"
		case *ast.SliceExpr:
			s := normIndexed(x.X) + "[" + norm(x.Low) + ":" + norm(x.High)
			if x.Slice3 {
				s += ":" + norm(x.Max)
			}
			return s + "]"
		case *ast.CallExpr:
			var as []string
			for _, a := range x.Args {
				as = append(as, norm(a))
			}
			return norm(x.Fun) + "(" + strings.Join(as, ", ") + ")"
		case *ast.TypeAssertExpr:
			if x.Type == nil {
				return norm(x.X) + ".(type)"
			}
			return norm(x.X) + ".(" + types.ExprString(x.Type) + ")"
		}
		return types.ExprString(e)
	}
	return norm(e)
}

// BlockCond returns the condition a two-successor block of a go/cfg graph
// branches on (Succs[0] is the true edge), or nil. For a tagged switch go/cfg
// records only the case expression ("one half of tag == e"); the comparison is
// rebuilt here so that callers see the same shape as for an if statement. The
// synthetic node carries no type information of its own; its operands do.
func BlockCond(b *cfg.Block) ast.Expr {
	if len(b.Succs) != 2 || len(b.Nodes) == 0 {
		return nil
	}
	cond, _ := b.Nodes[len(b.Nodes)-1].(ast.Expr)
	if cond == nil {
		return nil
	}
	body := b.Succs[0]
	if body.Kind != cfg.KindSwitchCaseBody {
		return cond
	}
	cc, _ := body.Stmt.(*ast.CaseClause)
	if cc == nil {
		return cond
	}
	isCase := false
	for _, e := range cc.List {
		if e == cond {
			isCase = true
		}
	}
	if !isCase {
		return cond
	}
	sw := switchOf(cc)
	if sw == nil || sw.Tag == nil {
		return cond
	}
	return &ast.BinaryExpr{X: sw.Tag, OpPos: cond.Pos(), Op: token.EQL, Y: cond}
}

var switchIndex = map[*ast.CaseClause]*ast.SwitchStmt{}
var switchIndexed = map[*ast.FuncDecl]bool{}

// switchOf finds the SwitchStmt a clause belongs to (indexed per enclosing
// function declaration of the program being analysed).
func switchOf(cc *ast.CaseClause) *ast.SwitchStmt {
	if sw, ok := switchIndex[cc]; ok {
		return sw
	}
	if Current == nil {
		return nil
	}
	fd := Current.EnclosingDecl(cc.Pos())
	if fd == nil || switchIndexed[fd] {
		return nil
	}
	switchIndexed[fd] = true
	ast.Inspect(fd, func(n ast.Node) bool {
		if sw, ok := n.(*ast.SwitchStmt); ok {
			for _, c := range sw.Body.List {
				if c2, ok := c.(*ast.CaseClause); ok {
					switchIndex[c2] = sw
				}
			}
		}
		return true
	})
	return switchIndex[cc]
}

// Region is a piece of code that runs under a condition, however that is
// spelled: the body of an `if`, a clause of a tagless switch (condition: the
// clause expression) or of a tagged switch (condition: tag == expression,
// rebuilt; it carries no type information of its own, its operands do).
type Region struct {
	Cond ast.Expr
	Body []ast.Stmt
	Node ast.Node // the IfStmt or CaseClause
}

// GuardedRegions lists the regions under root (nested ones included).
func GuardedRegions(root ast.Node) []Region {
	var out []Region
	ast.Inspect(root, func(n ast.Node) bool {
		switch x := n.(type) {
		case *ast.IfStmt:
			out = append(out, Region{Cond: x.Cond, Body: x.Body.List, Node: x})
		case *ast.SwitchStmt:
			for _, cl := range x.Body.List {
				cc := cl.(*ast.CaseClause)
				for _, e := range cc.List {
					cond := e
					if x.Tag != nil {
						cond = &ast.BinaryExpr{X: x.Tag, OpPos: e.Pos(), Op: token.EQL, Y: e}
					}
					out = append(out, Region{Cond: cond, Body: cc.Body, Node: cc})
				}
			}
		}
		return true
	})
	return out
}

// EqConst splits `X == C` (either order) where C is a constant expression.
func EqConst(info *types.Info, cond ast.Expr) (x, c ast.Expr, ok bool) {
	b, isB := Unparen(cond).(*ast.BinaryExpr)
	if !isB || b.Op != token.EQL {
		return nil, nil, false
	}
	if tv, has := info.Types[b.Y]; has && tv.Value != nil {
		return b.X, b.Y, true
	}
	if tv, has := info.Types[b.X]; has && tv.Value != nil {
		return b.Y, b.X, true
	}
	return nil, nil, false
}

// SwitchAsIfChain rewrites `switch [tag] { case a, b: …; default: … }` as the
// equivalent if / else-if chain (synthetic nodes; the case expressions and
// bodies are the original ones). nil when the switch has an init statement or
// a fallthrough.
func SwitchAsIfChain(sw *ast.SwitchStmt) ast.Stmt {
	if sw.Init != nil {
		return nil
	}
	var def *ast.CaseClause
	var clauses []*ast.CaseClause
	for _, cl := range sw.Body.List {
		cc := cl.(*ast.CaseClause)
		for _, st := range cc.Body {
			if b, ok := st.(*ast.BranchStmt); ok && b.Tok == token.FALLTHROUGH {
				return nil
			}
		}
		if cc.List == nil {
			def = cc
		} else {
			clauses = append(clauses, cc)
		}
	}
	var tail ast.Stmt
	if def != nil {
		tail = &ast.BlockStmt{Lbrace: def.Pos(), List: def.Body, Rbrace: def.End()}
	}
	for i := len(clauses) - 1; i >= 0; i-- {
		cc := clauses[i]
		var cond ast.Expr
		for _, e := range cc.List {
			c := e
			if sw.Tag != nil {
				c = &ast.BinaryExpr{X: sw.Tag, OpPos: e.Pos(), Op: token.EQL, Y: e}
			}
			if cond == nil {
				cond = c
			} else {
				cond = &ast.BinaryExpr{X: cond, OpPos: e.Pos(), Op: token.LOR, Y: c}
			}
		}
		tail = &ast.IfStmt{If: cc.Pos(), Cond: cond, Body: &ast.BlockStmt{Lbrace: cc.Colon, List: cc.Body, Rbrace: cc.End()}, Else: tail}
	}
	if tail == nil {
		return &ast.BlockStmt{}
	}
	return tail
}
