package props

import (
	"fmt"
	"go/ast"
	"go/token"
	"go/types"
	"strings"

	"golang.org/x/tools/go/packages"

	"j5verif/checker/core"
	"j5verif/checker/rules"
)

func init() {
	Registry["C13"] = C13
}

const walkRel = "internal/j5s/sourcewalk"

// C13 — appending declarations never changes existing wire identities.
func C13(r *core.Run) {
	r.Entry = []string{"sourcewalk.mapProperties", "j5convert.buildProperty", "j5convert.visitEnumNode", "j5convert.enumBuilder.addValue", "j5convert builders (addMessage/addEnum/addService)"}
	provNumbers(r)
	provEnumNumbers(r)
	enumNumberingAgrees(r)
	provNoReorder(r)
	provTailAppend(r)
	provNames(r)
	provRefs(r)
	provEnumPrefix(r)
	siblingCountChoices(r)
	exportsOfThisPackageOnly(r)    // an appended service or topic does not change what existing references resolve to
	subPackageFileNameInjective(r) // a declaration appended to one file does not replace the sub-package output of another
}

// provNumbers (R-PROV/V1).
func provNumbers(r *core.Run) {
	r.Rule("R-PROV/V1", "field numbers depend on the declaration prefix only: FieldDescriptorProto.Number in buildProperty is PropertyNode.Number; PropertyNode.Number is only ever copied from propertyNode.number; propertyNode.number is only ever the local counter of mapProperties, which starts at the constant 0 and is changed only by ++ inside forward range loops over the virtual-prepended and then the declared properties, with no return before the virtual-prepend loop; map-entry key/value numbers are the constants 1 and 2")
	// (a) buildProperty
	fd, pk := r.P.FuncDecl(convRel, "buildProperty")
	if fd == nil {
		r.Fatal("anchor: j5convert.buildProperty not found")
		return
	}
	info := pk.TypesInfo
	var numberStores []*ast.AssignStmt
	ast.Inspect(core.TreeBody(pk, fd, "buildField"), func(n ast.Node) bool {
		if as, ok := n.(*ast.AssignStmt); ok && len(as.Lhs) == 1 {
			if s, ok := as.Lhs[0].(*ast.SelectorExpr); ok && s.Sel.Name == "Number" && strings.HasSuffix(core.TypeStr(info.TypeOf(s.X)), "descriptorpb.FieldDescriptorProto") {
				numberStores = append(numberStores, as)
			}
		}
		return true
	})
	for _, as := range numberStores {
		target := core.NormExpr(info, as.Lhs[0].(*ast.SelectorExpr).X)
		val := ptrArg(as.Rhs[0])
		o := r.Add("R-PROV/V1", fmt.Sprintf("j5convert.buildProperty | %s.Number = %s", target, core.NormExpr(info, as.Rhs[0])), as.Pos(), "field number store "+core.ExprStr(as.Rhs[0]))
		if k, ok := core.ConstInt(info, val); ok {
			// the key (1) and value (2) fields of a synthetic map-entry message: the function that
			// stores the constant also builds a message with MessageOptions{MapEntry: …}
			if (k == 1 || k == 2) && buildsMapEntry(r, info, as) {
				o.Auto("map entry constant %d", k)
			} else {
				o.Fail("constant field number %d outside the map-entry convention", k)
			}
			continue
		}
		if s, ok := core.Unparen(val).(*ast.SelectorExpr); ok && s.Sel.Name == "Number" && strings.HasSuffix(core.TypeStr(info.TypeOf(s.X)), "sourcewalk.PropertyNode") {
			o.Auto("copied from PropertyNode.Number")
		} else {
			o.Fail("the number of an emitted field is %s, not the positional PropertyNode.Number: it can change when unrelated declarations are added", core.ExprStr(val))
		}
	}
	// key literal Number: gl.Ptr(int32(1))
	ast.Inspect(core.TreeBody(pk, fd, "buildField"), func(n ast.Node) bool {
		cl, ok := n.(*ast.CompositeLit)
		if !ok || !strings.HasSuffix(core.TypeStr(info.TypeOf(cl)), "descriptorpb.FieldDescriptorProto") {
			return true
		}
		for _, e := range cl.Elts {
			if kv, ok := e.(*ast.KeyValueExpr); ok && core.ExprStr(kv.Key) == "Number" {
				o := r.Add("R-PROV/V1", "j5convert.buildProperty | literal Number: "+core.ExprStr(kv.Value), kv.Pos(), "field number in literal")
				if k, ok := core.ConstInt(info, ptrArg(kv.Value)); ok && (k == 1 || k == 2) && buildsMapEntry(r, info, kv) {
					o.Auto("map entry constant %d", k)
				} else {
					o.Fail("unexpected literal field number %s", core.ExprStr(kv.Value))
				}
			}
		}
		return true
	})
	if len(numberStores) < 2 {
		r.Fatal("R-PROV/V1: expected the property and map-value Number stores in buildProperty, found %d", len(numberStores))
	}
	// (b) writers of PropertyNode.Number and (c) propertyNode.number
	wpk := r.P.Pkg(walkRel)
	if wpk == nil {
		r.Fatal("anchor: package %s not found", walkRel)
		return
	}
	for path, p2 := range r.P.ByPkg {
		if !core.IsSource(path) {
			continue
		}
		p2 := p2
		core.AllFuncDecls(p2, func(f2 *ast.FuncDecl) {
			ast.Inspect(f2.Body, func(n ast.Node) bool {
				check := func(typ string, field string, val ast.Expr, pos token.Pos) {
					name := strings.TrimPrefix(path, core.Module+"/") + "." + core.FuncName(f2)
					switch {
					case typ == "internal/j5s/sourcewalk.PropertyNode" && field == "Number":
						o := r.Add("R-PROV/V1", name+" | PropertyNode.Number ← "+core.ExprStr(val), pos, "writer of PropertyNode.Number")
						if s, ok := core.Unparen(val).(*ast.SelectorExpr); ok && s.Sel.Name == "number" && strings.HasSuffix(core.TypeStr(p2.TypesInfo.TypeOf(s.X)), "sourcewalk.propertyNode") {
							o.Auto("copied from propertyNode.number")
						} else {
							o.Fail("PropertyNode.Number is set from %s, not from the positional counter", core.ExprStr(val))
						}
					case typ == "internal/j5s/sourcewalk.propertyNode" && field == "number":
						o := r.Add("R-PROV/V1", name+" | propertyNode.number ← "+core.ExprStr(val), pos, "writer of propertyNode.number")
						if id, ok := core.Unparen(val).(*ast.Ident); ok && isMapProperties(r, f2) && isCounter(p2.TypesInfo, f2, id) {
							o.Auto("the positional counter of mapProperties")
						} else if why, ok := counterThroughParam(p2, f2, val); ok {
							o.Auto("%s", why)
						} else {
							o.Fail("propertyNode.number is set from %s outside the positional counter of mapProperties", core.ExprStr(val))
						}
					}
				}
				switch x := n.(type) {
				case *ast.CompositeLit:
					t := core.TypeStr(p2.TypesInfo.TypeOf(x))
					for _, e := range x.Elts {
						if kv, ok := e.(*ast.KeyValueExpr); ok {
							check(t, core.ExprStr(kv.Key), kv.Value, kv.Pos())
						}
					}
				case *ast.AssignStmt:
					for i, l := range x.Lhs {
						if s, ok := l.(*ast.SelectorExpr); ok && len(x.Rhs) == len(x.Lhs) {
							check(strings.TrimPrefix(core.TypeStr(p2.TypesInfo.TypeOf(s.X)), "*"), s.Sel.Name, x.Rhs[i], x.Pos())
						}
					}
				}
				return true
			})
		})
	}
	// (d) the counter discipline and loop order in mapProperties
	mfd, mpk := r.P.FuncDecl(walkRel, "mapProperties")
	if mfd == nil {
		r.Fatal("anchor: sourcewalk.mapProperties not found")
		return
	}
	checkCounter(r, mpk.TypesInfo, mfd)
	r.Floor("R-PROV/V1", 6, "two number stores and the key literal in buildProperty, one writer each of PropertyNode.Number and propertyNode.number, the counter discipline")
}

// counterThroughParam: val is a parameter of the constructor f2, and every
// call site of f2 in the package passes the positional counter of
// mapProperties for it.
func counterThroughParam(pk *packages.Package, f2 *ast.FuncDecl, val ast.Expr) (string, bool) {
	info := pk.TypesInfo
	id, ok := core.Unparen(val).(*ast.Ident)
	if !ok {
		return "", false
	}
	idx, i := -1, 0
	for _, f := range f2.Type.Params.List {
		for _, nm := range f.Names {
			if info.Defs[nm] == info.Uses[id] {
				idx = i
			}
			i++
		}
	}
	if idx < 0 {
		return "", false
	}
	fobj := info.Defs[f2.Name]
	sites, good := 0, 0
	core.AllFuncDecls(pk, func(caller *ast.FuncDecl) {
		if caller.Body == nil {
			return
		}
		ast.Inspect(caller.Body, func(n ast.Node) bool {
			c, ok := n.(*ast.CallExpr)
			if !ok || idx >= len(c.Args) {
				return true
			}
			if fn := core.CalleeFunc(info, c); fn == nil || fn.Origin() != fobj {
				return true
			}
			sites++
			if a, ok := core.Unparen(c.Args[idx]).(*ast.Ident); ok && isMapPropertiesDecl(caller) && isCounter(info, caller, a) {
				good++
			}
			return true
		})
	})
	if sites > 0 && sites == good {
		return fmt.Sprintf("parameter of %s; all %d call site(s) pass the positional counter of mapProperties", core.FuncName(f2), sites), true
	}
	return "", false
}

// buildsMapEntry: the function containing n has a MessageOptions literal that
// sets MapEntry.
func buildsMapEntry(r *core.Run, info *types.Info, n ast.Node) bool {
	fd := r.P.EnclosingDecl(n.Pos())
	if fd == nil || fd.Body == nil {
		return false
	}
	found := false
	ast.Inspect(fd.Body, func(x ast.Node) bool {
		switch y := x.(type) {
		case *ast.CompositeLit:
			if strings.HasSuffix(core.TypeStr(info.TypeOf(y)), "descriptorpb.MessageOptions") {
				for _, e := range y.Elts {
					if kv, ok := e.(*ast.KeyValueExpr); ok && core.ExprStr(kv.Key) == "MapEntry" {
						found = true
					}
				}
			}
		case *ast.AssignStmt:
			for _, l := range y.Lhs {
				if s, ok := core.Unparen(l).(*ast.SelectorExpr); ok && s.Sel.Name == "MapEntry" && strings.HasSuffix(core.TypeStr(info.TypeOf(s.X)), "descriptorpb.MessageOptions") {
					found = true
				}
			}
		}
		return true
	})
	return found
}

// isMapProperties: fd is the numbering function (found as an anchor, so a
// renamed mapProperties is still it).
func isMapProperties(r *core.Run, fd *ast.FuncDecl) bool {
	m, _ := r.P.FuncDecl(walkRel, "mapProperties")
	return m != nil && m == fd
}

func isMapPropertiesDecl(fd *ast.FuncDecl) bool {
	if core.Current == nil {
		return false
	}
	m, _ := core.Current.FuncDecl(walkRel, "mapProperties")
	return m != nil && m == fd
}

// ptrArg unwraps gl.Ptr(x) / proto.Int32(x) / int32(x).
func ptrArg(e ast.Expr) ast.Expr {
	for {
		c, ok := core.Unparen(e).(*ast.CallExpr)
		if !ok || len(c.Args) != 1 {
			return e
		}
		e = c.Args[0]
	}
}

// isCounter: id is a local initialised with the constant 0 and otherwise only
// modified by ++ / += 1.
func isCounter(info *types.Info, fd *ast.FuncDecl, id *ast.Ident) bool {
	obj := info.Uses[id]
	if obj == nil {
		return false
	}
	ok := true
	inits := 0
	ast.Inspect(fd.Body, func(n ast.Node) bool {
		switch x := n.(type) {
		case *ast.AssignStmt:
			for i, l := range x.Lhs {
				li, isId := l.(*ast.Ident)
				if !isId || (info.Defs[li] != obj && info.Uses[li] != obj) {
					continue
				}
				if x.Tok == token.DEFINE {
					inits++
					if k, isC := core.ConstInt(info, ptrArg(x.Rhs[i])); !isC || k != 0 {
						ok = false
					}
				} else if x.Tok == token.ADD_ASSIGN {
					if k, isC := core.ConstInt(info, x.Rhs[i]); !isC || k != 1 {
						ok = false
					}
				} else {
					ok = false
				}
			}
		case *ast.UnaryExpr:
			if x.Op == token.AND {
				if ai, isId := x.X.(*ast.Ident); isId && info.Uses[ai] == obj {
					ok = false
				}
			}
		case *ast.IncDecStmt:
			if ai, isId := x.X.(*ast.Ident); isId && info.Uses[ai] == obj && x.Tok != token.INC {
				ok = false
			}
		}
		return true
	})
	return ok && inits == 1
}

func checkCounter(r *core.Run, info *types.Info, fd *ast.FuncDecl) {
	// parameters: the two property slices, in order (declared, virtual-prepend)
	var sliceParams []string
	for _, f := range fd.Type.Params.List {
		if strings.HasSuffix(core.TypeStr(info.TypeOf(f.Type)), "[]*gen/j5/schema/v1/schema_j5pb.ObjectProperty") {
			for _, n := range f.Names {
				sliceParams = append(sliceParams, n.Name)
			}
		}
	}
	o := r.Add("R-PROV/V1", "sourcewalk.mapProperties | loop order", fd.Pos(), "numbering loops of mapProperties")
	if len(sliceParams) != 2 {
		o.Fail("expected two []*ObjectProperty parameters (declared, virtual), found %v", sliceParams)
		return
	}
	declared, virtual := sliceParams[0], sliceParams[1]
	stage := 0 // 0: before virtual loop, 1: after virtual loop, 2: after declared loop
	problem := ""
	for _, st := range fd.Body.List {
		switch x := st.(type) {
		case *ast.RangeStmt:
			ranged := core.ExprStr(x.X)
			incs := 0
			ast.Inspect(x.Body, func(n ast.Node) bool {
				if _, ok := n.(*ast.IncDecStmt); ok {
					incs++
				}
				return true
			})
			if why := skipDependsOnWholeList(info, x, declared, virtual); why != "" && problem == "" {
				problem = why
			}
			switch {
			case ranged == virtual && stage == 0 && incs == 1:
				stage = 1
			case ranged == declared && stage == 1 && incs == 1:
				stage = 2
			default:
				problem = fmt.Sprintf("range over %s at stage %d with %d increments", ranged, stage, incs)
			}
		case *ast.ReturnStmt:
			if stage < 2 {
				problem = "return before both numbering loops ran"
			}
		case *ast.IfStmt:
			if containsReturn(x) {
				// allowed only after the virtual loop and only under len(declared) == 0
				f := rules.FactsAt(info, fd.Body, x.Body)
				if stage == 0 {
					problem = "a return precedes the virtual-prepend loop: messages with implicit leading fields (request/upsert metadata) but no declared fields lose them"
				} else if stage == 1 && f.EqLen[declared] != 0 && !strings.Contains(core.ExprStr(x.Cond), "len("+declared+") == 0") {
					problem = "early return between the loops is not guarded by len(" + declared + ") == 0"
				}
			}
		}
	}
	if stage != 2 && problem == "" {
		problem = "the two numbering loops (virtual-prepend, then declared) were not both found at the top level"
	}
	if problem == "" {
		o.Auto("virtual-prepended properties are numbered first, declared properties continue the count; no return before the first loop")
	} else {
		o.Fail("%s", problem)
	}
}

// skipDependsOnWholeList: inside a numbering loop, the increment may be
// skipped (it sits under a condition, or a continue/break/return can run
// before it) only on the strength of the element in hand and of what came
// before it. A condition that mentions one of the property lists as a whole —
// directly or as an argument of a call — makes the number of element i depend
// on elements after i, which is exactly what an append changes.
func skipDependsOnWholeList(info *types.Info, loop *ast.RangeStmt, lists ...string) string {
	isList := map[string]bool{}
	for _, l := range lists {
		isList[l] = true
	}
	mentions := func(e ast.Expr) string {
		out := ""
		ast.Inspect(e, func(n ast.Node) bool {
			if id, ok := n.(*ast.Ident); ok && isList[id.Name] {
				if _, isVar := info.Uses[id].(*types.Var); isVar {
					out = id.Name
				}
			}
			return out == ""
		})
		return out
	}
	// position of the increment
	var inc *ast.IncDecStmt
	ast.Inspect(loop.Body, func(n ast.Node) bool {
		if x, ok := n.(*ast.IncDecStmt); ok && inc == nil {
			inc = x
		}
		return true
	})
	if inc == nil {
		return ""
	}
	why := ""
	// (1) conditions enclosing the increment
	path := core.PathTo(loop.Body, inc)
	for _, nd := range path {
		if is, ok := nd.(*ast.IfStmt); ok {
			if l := mentions(is.Cond); l != "" {
				why = fmt.Sprintf("the increment of the field counter is conditional on %s, which reads the whole list %s", core.ExprStr(is.Cond), l)
			}
		}
	}
	// (2) jumps that can run before the increment
	ast.Inspect(loop.Body, func(n ast.Node) bool {
		is, ok := n.(*ast.IfStmt)
		if !ok || is.Pos() > inc.Pos() {
			return true
		}
		jumps := false
		ast.Inspect(is.Body, func(m ast.Node) bool {
			switch j := m.(type) {
			case *ast.BranchStmt:
				if j.Tok == token.CONTINUE || j.Tok == token.BREAK || j.Tok == token.GOTO {
					jumps = true
				}
			case *ast.FuncLit:
				return false
			}
			return true
		})
		if jumps {
			if l := mentions(is.Cond); l != "" {
				why = fmt.Sprintf("an element is skipped before the field counter is incremented when %s, which reads the whole list %s: the numbers of the fields that follow then depend on declarations after them, and appending one renumbers existing fields", core.ExprStr(is.Cond), l)
			}
		}
		return true
	})
	return why
}

// provEnumNumbers (R-PROV/V2).
func provEnumNumbers(r *core.Run) {
	r.Rule("R-PROV/V2", "enum value numbers are positional: every call of enumBuilder.addValue passes the constant 0 or int32(<forward range index>+1); Enum_Option.Number from the source is read only in `== 0` tests (the UNSPECIFIED probe), so the numbers used to translate in/not_in cannot come from a different source than the emitted ones")
	pk := r.P.Pkg(convRel)
	if pk == nil {
		return
	}
	info := pk.TypesInfo
	core.AllFuncDecls(pk, func(fd *ast.FuncDecl) {
		ast.Inspect(fd.Body, func(n ast.Node) bool {
			c, ok := n.(*ast.CallExpr)
			if !ok || !core.CalleeIs(info, c, convRel, "enumBuilder.addValue") {
				return true
			}
			// the number argument is the int32-typed one
			var num ast.Expr
			for _, a := range c.Args {
				if core.TypeStr(info.TypeOf(a)) == "int32" {
					num = a
				}
			}
			o := r.Add("R-PROV/V2", fmt.Sprintf("j5convert.%s | addValue(%s)", core.FuncName(fd), core.ExprStr(num)), c.Pos(), "enum value number "+core.ExprStr(num))
			if num == nil {
				o.Fail("cannot identify the number argument")
				return true
			}
			if k, ok := core.ConstInt(info, num); ok && k == 0 {
				o.Auto("constant 0 (UNSPECIFIED)")
				return true
			}
			if why, ok := isRangeIndexPlusOne(info, fd, num); ok {
				o.Auto("%s", why)
			} else if why, ok := numberViaCallback(pk, fd, c, num); ok {
				o.Auto("%s", why)
			} else {
				o.Fail("enum value number %s is not <range index>+1: it depends on something other than the option's position, so appending an option can renumber existing ones", core.ExprStr(num))
			}
			return true
		})
	})
	// who reads Enum_Option.Number
	for _, rel := range []string{convRel, walkRel} {
		p2 := r.P.Pkg(rel)
		core.AllFuncDecls(p2, func(fd *ast.FuncDecl) {
			parents := map[ast.Node]ast.Node{}
			var stack []ast.Node
			ast.Inspect(fd.Body, func(n ast.Node) bool {
				if n == nil {
					stack = stack[:len(stack)-1]
					return true
				}
				if len(stack) > 0 {
					parents[n] = stack[len(stack)-1]
				}
				stack = append(stack, n)
				return true
			})
			ast.Inspect(fd.Body, func(n ast.Node) bool {
				s, ok := n.(*ast.SelectorExpr)
				if !ok || s.Sel.Name != "Number" || !strings.HasSuffix(core.TypeStr(p2.TypesInfo.TypeOf(s.X)), "schema_j5pb.Enum_Option") {
					return true
				}
				o := r.Add("R-PROV/V2", fmt.Sprintf("%s.%s | read of Enum_Option.Number: %s", rel, core.FuncName(fd), parentNorm(p2.TypesInfo, parents[s])), s.Pos(), "read of the source enum option number")
				if b, ok := parents[s].(*ast.BinaryExpr); ok && b.Op == token.EQL {
					if k, ok := core.ConstInt(p2.TypesInfo, b.Y); ok && k == 0 {
						o.Auto("only compared with 0 (UNSPECIFIED probe)")
						return true
					}
				}
				if !r.Table("prov_sites", o) {
					o.Fail("the source option number flows into the output: compiled numbers are positional, the source value is 0 unless hand-written")
				}
				return true
			})
		})
	}
	r.Floor("R-PROV/V2", 2, "an addValue call and an UNSPECIFIED probe")
}

func isRangeIndexPlusOne(info *types.Info, fd *ast.FuncDecl, e ast.Expr) (string, bool) {
	b, ok := core.Unparen(ptrArg(e)).(*ast.BinaryExpr)
	if !ok || b.Op != token.ADD {
		return "", false
	}
	k, ok := core.ConstInt(info, b.Y)
	id, ok2 := core.Unparen(b.X).(*ast.Ident)
	if !ok || !ok2 || k != 1 {
		return "", false
	}
	// id must be the key of an enclosing range over a slice
	for _, n := range core.PathTo(fd.Body, e) {
		if rs, ok := n.(*ast.RangeStmt); ok {
			if kid, ok := rs.Key.(*ast.Ident); ok && info.Defs[kid] == info.Uses[id] {
				if _, isSlice := info.TypeOf(rs.X).Underlying().(*types.Slice); isSlice {
					return fmt.Sprintf("%s+1 with %s the index of a forward range over %s", id.Name, id.Name, core.ExprStr(rs.X)), true
				}
			}
		}
	}
	return "", false
}

// numberViaCallback recognises the numbering loop factored out into a helper
// that calls back once per option: num is a parameter of a function literal
// which is itself an argument of a call of a function H of this package, and
// every call H makes of that parameter passes, in num's position, the
// constant 0 or <forward range index>+1; H does nothing else with the
// callback.
func numberViaCallback(pk *packages.Package, fd *ast.FuncDecl, sink *ast.CallExpr, num ast.Expr) (string, bool) {
	info := pk.TypesInfo
	id, ok := core.Unparen(ptrArg(num)).(*ast.Ident)
	if !ok {
		return "", false
	}
	obj := info.ObjectOf(id)
	path := core.PathTo(fd.Body, sink)
	for i := len(path) - 1; i > 0; i-- {
		fl, ok := path[i].(*ast.FuncLit)
		if !ok {
			continue
		}
		pi := litParamIndex(info, fl.Type, obj)
		if pi < 0 {
			continue
		}
		hc, ok := path[i-1].(*ast.CallExpr)
		if !ok {
			return "", false
		}
		ai := -1
		for k, a := range hc.Args {
			if a == ast.Expr(fl) {
				ai = k
			}
		}
		callee := core.CalleeFunc(info, hc)
		if ai < 0 || callee == nil || callee.Pkg() != pk.Types {
			return "", false
		}
		var hd *ast.FuncDecl
		core.AllFuncDecls(pk, func(d *ast.FuncDecl) {
			if info.Defs[d.Name] == types.Object(callee) {
				hd = d
			}
		})
		if hd == nil || hd.Body == nil {
			return "", false
		}
		var cb types.Object
		k := 0
		for _, f := range hd.Type.Params.List {
			for _, nm := range f.Names {
				if k == ai {
					cb = info.ObjectOf(nm)
				}
				k++
			}
		}
		if cb == nil {
			return "", false
		}
		calls, uses, good := 0, 0, true
		var whys []string
		ast.Inspect(hd.Body, func(n ast.Node) bool {
			switch x := n.(type) {
			case *ast.Ident:
				if info.Uses[x] == cb {
					uses++
				}
			case *ast.CallExpr:
				f, ok := core.Unparen(x.Fun).(*ast.Ident)
				if !ok || info.Uses[f] != cb {
					return true
				}
				calls++
				if pi >= len(x.Args) {
					good = false
					return true
				}
				a := x.Args[pi]
				if v, ok := core.ConstInt(info, a); ok && v == 0 {
					whys = append(whys, "0")
				} else if w, ok := isRangeIndexPlusOne(info, hd, a); ok {
					whys = append(whys, w)
				} else {
					good = false
				}
			}
			return true
		})
		if calls == 0 || uses != calls || !good {
			return "", false
		}
		return fmt.Sprintf("parameter of the callback given to %s, which calls it with %s only", callee.Name(), strings.Join(whys, " / ")), true
	}
	return "", false
}

func litParamIndex(info *types.Info, ft *ast.FuncType, obj types.Object) int {
	k := 0
	for _, f := range ft.Params.List {
		for _, nm := range f.Names {
			if info.ObjectOf(nm) == obj {
				return k
			}
			k++
		}
		if len(f.Names) == 0 {
			k++
		}
	}
	return -1
}

// provNoReorder (R-PROV/V3a).
func provNoReorder(r *core.Run) {
	r.Rule("R-PROV/V3", "no sort, reverse or insert on declaration-ordered lists anywhere in sourcewalk or j5convert: the only permitted ordering call is the import list (FileDescriptorProto.Dependency, a set of file names)")
	bad := map[string]bool{"sort.Sort": true, "sort.Stable": true, "sort.Slice": true, "sort.SliceStable": true, "sort.Strings": true, "sort.Ints": true,
		"slices.Sort": true, "slices.SortFunc": true, "slices.SortStableFunc": true, "slices.Reverse": true, "slices.Insert": true, "slices.Delete": true}
	n := 0
	for _, rel := range []string{convRel, walkRel} {
		pk := r.P.Pkg(rel)
		core.AllFuncDecls(pk, func(fd *ast.FuncDecl) {
			ast.Inspect(fd.Body, func(nd ast.Node) bool {
				c, ok := nd.(*ast.CallExpr)
				if !ok {
					return true
				}
				name := core.CalleeName(pk.TypesInfo, c)
				if i := strings.Index(name, "["); i > 0 {
					name = name[:i]
				}
				if !bad[name] {
					return true
				}
				n++
				o := r.Add("R-PROV/V3", fmt.Sprintf("%s.%s | %s(%s)", rel, core.FuncName(fd), name, core.ExprStr(c.Args[0])), c.Pos(), name+" on "+core.ExprStr(c.Args[0]))
				if name == "sort.Strings" && strings.HasSuffix(core.ExprStr(c.Args[0]), ".Dependency") {
					o.Auto("import list: a set of file names, kept sorted for determinism")
				} else {
					o.Fail("%s reorders %s: the position of a declaration (and with it its number or path) then depends on its siblings", name, core.ExprStr(c.Args[0]))
				}
				return true
			})
		})
	}
	if n == 0 {
		r.Fatal("R-PROV/V3: positive control failed: the sort.Strings(Dependency) call in ensureImport was not seen")
	}
}

// provTailAppend (R-PROV/V3b).
func provTailAppend(r *core.Run) {
	r.Rule("R-PROV/V3t", "descriptor lists (MessageType, EnumType, Service, Field, NestedType, Value, Method) only grow by tail append `x = append(x, y)`; the single indexed store is enumBuilder.addValue's Value[0] for number 0")
	lists := map[string]bool{"MessageType": true, "EnumType": true, "Service": true, "Field": true, "NestedType": true, "Value": true, "Method": true}
	pk := r.P.Pkg(convRel)
	info := pk.TypesInfo
	core.AllFuncDecls(pk, func(fd *ast.FuncDecl) {
		ast.Inspect(fd.Body, func(nd ast.Node) bool {
			as, ok := nd.(*ast.AssignStmt)
			if !ok || len(as.Lhs) != 1 || len(as.Rhs) != 1 {
				return true
			}
			var sel *ast.SelectorExpr
			indexed := false
			switch l := as.Lhs[0].(type) {
			case *ast.SelectorExpr:
				sel = l
			case *ast.IndexExpr:
				sel, _ = l.X.(*ast.SelectorExpr)
				indexed = true
			}
			if sel == nil || !lists[sel.Sel.Name] || !strings.Contains(core.TypeStr(info.TypeOf(sel.X)), "descriptorpb.") {
				return true
			}
			o := r.Add("R-PROV/V3t", fmt.Sprintf("j5convert.%s | %s ← %s", core.FuncName(fd), core.ExprStr(as.Lhs[0]), rhsHead(as.Rhs[0])), as.Pos(), "write to descriptor list "+core.ExprStr(as.Lhs[0]))
			if indexed {
				if k, ok := core.ConstInt(info, as.Lhs[0].(*ast.IndexExpr).Index); ok && k == 0 && sel.Sel.Name == "Value" {
					f := rules.FactsAt(info, fd.Body, as)
					// under `<number parameter> == 0`, whatever the parameter is called
					for _, pf := range fd.Type.Params.List {
						if b, isB := info.TypeOf(pf.Type).Underlying().(*types.Basic); !isB || b.Info()&types.IsInteger == 0 {
							continue
						}
						for _, nm := range pf.Names {
							if f.True[nm.Name+" == 0"] || f.True["0 == "+nm.Name] || f.False[nm.Name+" != 0"] || f.False["0 != "+nm.Name] {
								o.Auto("replaces the implicit UNSPECIFIED entry, under %s == 0", nm.Name)
								return true
							}
						}
					}
				}
				o.Fail("indexed store into a descriptor list")
				return true
			}
			if c, ok := core.Unparen(as.Rhs[0]).(*ast.CallExpr); ok && core.CalleeName(info, c) == "builtin.append" && core.ExprStr(c.Args[0]) == core.ExprStr(as.Lhs[0]) {
				o.Auto("tail append")
			} else if _, isLit := core.Unparen(as.Rhs[0]).(*ast.CompositeLit); isLit {
				o.Auto("initial literal")
			} else {
				o.Fail("descriptor list is rebuilt rather than tail-appended")
			}
			return true
		})
	})
	r.Floor("R-PROV/V3t", 6, "addMessage/addEnum/addService/Field/NestedType/Value appends")
}

func rhsHead(e ast.Expr) string {
	s := core.ExprStr(e)
	if len(s) > 50 {
		s = s[:50]
	}
	return s
}

// provNames (R-PROV/V4).
func provNames(r *core.Run) {
	r.Rule("R-PROV/V4", "nested type names depend only on the parent path and the field name: rootType.NestPath/NameInPackage/newRoot contain no index expression, counter or length-derived value (len only inside comparisons); the default nesting name is strcase.ToCamel(<property name>)")
	for _, fn := range []string{"newRoot", "rootType.NestPath", "rootType.NameInPackage"} {
		fd, pk := r.P.FuncDecl(walkRel, fn)
		if fd == nil {
			r.Fatal("anchor: sourcewalk.%s not found", fn)
			continue
		}
		o := r.Add("R-PROV/V4", "sourcewalk."+fn+" | position-free", fd.Pos(), "name derivation in "+fn)
		bad := ""
		parents := map[ast.Node]ast.Node{}
		var stack []ast.Node
		ast.Inspect(fd.Body, func(n ast.Node) bool {
			if n == nil {
				stack = stack[:len(stack)-1]
				return true
			}
			if len(stack) > 0 {
				parents[n] = stack[len(stack)-1]
			}
			stack = append(stack, n)
			return true
		})
		ast.Inspect(fd.Body, func(n ast.Node) bool {
			switch x := n.(type) {
			case *ast.IndexExpr:
				bad = "index expression " + core.ExprStr(x)
			case *ast.IncDecStmt:
				bad = "counter " + core.ExprStr(x.X)
			case *ast.CallExpr:
				if core.CalleeName(pk.TypesInfo, x) == "builtin.len" {
					if b, ok := parents[x].(*ast.BinaryExpr); !ok || (b.Op != token.EQL && b.Op != token.NEQ && b.Op != token.GTR && b.Op != token.LSS) {
						bad = "length-derived value " + core.ExprStr(x)
					}
				}
				if strings.HasPrefix(core.CalleeName(pk.TypesInfo, x), "strconv.") {
					bad = "number formatted into a name"
				}
			}
			return true
		})
		if bad == "" {
			o.Auto("uses only the parent's path and the node's name")
		} else {
			o.Fail("%s: a nested type's name would depend on its position", bad)
		}
	}
	fd, pk := r.P.FuncDecl(walkRel, "propertyNode.accept")
	if fd == nil {
		r.Fatal("anchor: sourcewalk.propertyNode.accept not found")
		return
	}
	o := r.Add("R-PROV/V4", "sourcewalk.propertyNode.accept | default nesting name", fd.Pos(), "default name of inline types")
	// the string handed to buildFieldNode as the default nesting name (directly or through a
	// local): strcase.ToCamel(<the property's schema>.Name)
	info := pk.TypesInfo
	var nameArg ast.Expr
	ast.Inspect(fd.Body, func(n ast.Node) bool {
		c, ok := n.(*ast.CallExpr)
		if !ok {
			return true
		}
		fn := core.CalleeFunc(info, c)
		if fn == nil || core.RecordedName(fn) != "buildFieldNode" {
			return true
		}
		sig := fn.Type().(*types.Signature)
		for i := 0; i < sig.Params().Len() && i < len(c.Args); i++ {
			if b, ok := sig.Params().At(i).Type().Underlying().(*types.Basic); ok && b.Kind() == types.String {
				nameArg = c.Args[i]
			}
		}
		return true
	})
	resolve := func(e ast.Expr) ast.Expr {
		for depth := 0; depth < 4; depth++ {
			id, ok := core.Unparen(e).(*ast.Ident)
			if !ok {
				return e
			}
			var def ast.Expr
			n := 0
			ast.Inspect(fd.Body, func(nd ast.Node) bool {
				if as, ok := nd.(*ast.AssignStmt); ok && len(as.Lhs) == len(as.Rhs) {
					for i, l := range as.Lhs {
						if li, ok := l.(*ast.Ident); ok && (info.Defs[li] != nil && info.Defs[li] == info.Uses[id] || info.Uses[li] != nil && info.Uses[li] == info.Uses[id]) {
							n++
							def = as.Rhs[i]
						}
					}
				}
				return true
			})
			if n != 1 {
				return e
			}
			e = def
		}
		return e
	}
	okName := false
	found := "none"
	if nameArg != nil {
		e := resolve(nameArg)
		found = core.ExprStr(e)
		if c, ok := core.Unparen(e).(*ast.CallExpr); ok && core.CalleeName(info, c) == "github.com/iancoleman/strcase.ToCamel" && len(c.Args) == 1 {
			a := resolve(c.Args[0])
			if s, ok := core.Unparen(a).(*ast.SelectorExpr); ok && s.Sel.Name == "Name" && strings.HasSuffix(core.TypeStr(info.TypeOf(resolve(s.X))), "schema_j5pb.ObjectProperty") {
				okName = true
			}
		}
	}
	if okName {
		o.Auto("%s", found)
	} else {
		o.Fail("default nesting name is %q, expected strcase.ToCamel(<property name>)", found)
	}
}

// parentNorm prints the construct a read sits in with locals replaced by their
// types (rename-proof key text).
func parentNorm(info *types.Info, n ast.Node) string {
	cut := func(s string) string {
		if r := []rune(s); len(r) > 60 {
			return string(r[:60])
		}
		return s
	}
	switch x := n.(type) {
	case ast.Expr:
		return cut(core.NormExpr(info, x))
	case *ast.AssignStmt:
		return cut(core.NormExpr(info, x.Lhs[0])) + " = " + cut(core.NormExpr(info, x.Rhs[0]))
	}
	return fmt.Sprintf("%T", n)
}

func parentStr(n ast.Node) string {
	switch x := n.(type) {
	case ast.Expr:
		return rhsHead(x)
	case *ast.AssignStmt:
		return rhsHead(x.Lhs[0]) + " = " + rhsHead(x.Rhs[0])
	}
	return fmt.Sprintf("%T", n)
}

// provRefs (R-PROV/V5): which declaration a type reference denotes depends
// only on the reference itself. Every lookup of a referenced type hands the
// resolver the reference's own package and schema name; a name computed from
// the context of the referring field (enclosing message, sibling nested
// types) would let an appended declaration capture existing references.
func provRefs(r *core.Run) {
	r.Rule("R-PROV/V5", "every call of TypeResolver.ResolveType in j5convert passes `<ref>.Package` and `<ref>.Schema` — selector chains on the reference being resolved — and nothing computed from where the reference occurs: resolution is context-free, so declarations added elsewhere cannot change what an existing field refers to")
	pk := r.P.Pkg(convRel)
	if pk == nil {
		r.Fatal("anchor: package %s not found", convRel)
		return
	}
	info := pk.TypesInfo
	core.AllFuncDecls(pk, func(fd *ast.FuncDecl) {
		ast.Inspect(fd.Body, func(nd ast.Node) bool {
			c, ok := nd.(*ast.CallExpr)
			if !ok || len(c.Args) != 2 {
				return true
			}
			s, ok := c.Fun.(*ast.SelectorExpr)
			if !ok || s.Sel.Name != "ResolveType" {
				return true
			}
			o := r.Add("R-PROV/V5", fmt.Sprintf("j5convert.%s | %s(%s, %s)", core.FuncName(fd), core.ExprStr(c.Fun), core.ExprStr(c.Args[0]), core.ExprStr(c.Args[1])), c.Pos(), "lookup of a referenced type")
			bad := ""
			for i, want := range []string{"Package", "Schema"} {
				a, ok := core.Unparen(c.Args[i]).(*ast.SelectorExpr)
				if !ok || a.Sel.Name != want {
					bad = fmt.Sprintf("argument %d is %s, not the reference's own .%s", i+1, core.ExprStr(c.Args[i]), want)
					break
				}
				if sel := info.Selections[a]; sel == nil || sel.Kind() != types.FieldVal {
					bad = fmt.Sprintf("argument %d is not a field of the reference", i+1)
				}
			}
			if bad == "" {
				o.Auto("package and schema name are read off the reference")
			} else {
				o.Fail("%s: what a field refers to then depends on its surroundings, and an appended declaration can retarget existing references (same number and name, different message type)", bad)
			}
			return true
		})
	})
	r.Floor("R-PROV/V5", 1, "ResolveType call sites in j5convert")
}

// provEnumPrefix (R-PROV/V6): the proto name of an enum value is the enum's
// prefix plus the option's own name. The prefix has to be a function of the
// enum's declared prefix and name only; if it is computed from the list of
// options (a shared leading word, the longest name …), appending an option can
// change it and with it the name of every existing value.
func provEnumPrefix(r *core.Run) {
	r.Rule("R-PROV/V6", "the value stored in enumBuilder.prefix is computed without reading the enum's option list (followed through local definitions and same-package helpers): existing value names cannot change when an option is appended")
	pk := r.P.Pkg(convRel)
	if pk == nil {
		return
	}
	info := pk.TypesInfo
	readsOptions := func(n ast.Node) ast.Node {
		var hit ast.Node
		ast.Inspect(n, func(x ast.Node) bool {
			if hit != nil {
				return false
			}
			switch y := x.(type) {
			case *ast.SelectorExpr:
				if (y.Sel.Name == "Options" || y.Sel.Name == "GetOptions") && strings.HasSuffix(core.TypeStr(info.TypeOf(y.X)), "schema_j5pb.Enum") {
					hit = y
				}
			}
			return true
		})
		return hit
	}
	var depends func(fd *ast.FuncDecl, e ast.Expr, depth int) ast.Node
	depends = func(fd *ast.FuncDecl, e ast.Expr, depth int) ast.Node {
		if depth > 4 || e == nil {
			return nil
		}
		if h := readsOptions(e); h != nil {
			return h
		}
		var hit ast.Node
		ast.Inspect(e, func(x ast.Node) bool {
			if hit != nil {
				return false
			}
			switch y := x.(type) {
			case *ast.Ident:
				v, ok := info.Uses[y].(*types.Var)
				if !ok || v.IsField() || v.Parent() == pk.Types.Scope() || fd == nil {
					return true
				}
				// every assignment to the local
				ast.Inspect(fd.Body, func(z ast.Node) bool {
					if as, ok := z.(*ast.AssignStmt); ok && len(as.Lhs) == len(as.Rhs) {
						for i, l := range as.Lhs {
							if li, ok := l.(*ast.Ident); ok && (info.Defs[li] == v || info.Uses[li] == v) && as.Rhs[i] != e {
								if h := depends(fd, as.Rhs[i], depth+1); h != nil && hit == nil {
									hit = h
								}
							}
						}
					}
					return true
				})
			case *ast.CallExpr:
				fn := core.CalleeFunc(info, y)
				if fn == nil || fn.Pkg() != pk.Types {
					return true
				}
				if cd := core.DeclOf(pk, fn.Origin()); cd != nil && cd.Body != nil {
					for _, body := range core.TreeOf(pk, cd.Body, 2) {
						if h := readsOptions(body); h != nil && hit == nil {
							hit = h
						}
					}
				}
			}
			return true
		})
		return hit
	}
	n := 0
	core.AllFuncDecls(pk, func(fd *ast.FuncDecl) {
		ast.Inspect(fd.Body, func(nd ast.Node) bool {
			var val ast.Expr
			var pos token.Pos
			switch x := nd.(type) {
			case *ast.CompositeLit:
				if !strings.HasSuffix(core.TypeStr(info.TypeOf(x)), "j5convert.enumBuilder") {
					return true
				}
				for _, el := range x.Elts {
					if kv, ok := el.(*ast.KeyValueExpr); ok && core.ExprStr(kv.Key) == "prefix" {
						val, pos = kv.Value, kv.Pos()
					}
				}
			case *ast.AssignStmt:
				for i, l := range x.Lhs {
					if s, ok := core.Unparen(l).(*ast.SelectorExpr); ok && s.Sel.Name == "prefix" && strings.HasSuffix(core.TypeStr(info.TypeOf(s.X)), "j5convert.enumBuilder") && len(x.Rhs) == len(x.Lhs) {
						val, pos = x.Rhs[i], x.Pos()
					}
				}
			}
			if val == nil {
				return true
			}
			n++
			o := r.Add("R-PROV/V6", "j5convert."+core.FuncName(fd)+" | enumBuilder.prefix", pos, "prefix of the enum's value names")
			if h := depends(fd, val, 0); h != nil {
				o.Fail("the prefix is computed from the enum's option list (read at %s): appending an option can change the prefix and rename every existing value", r.P.Rel(h.Pos()))
			} else {
				o.Auto("computed from the declared prefix and the enum's name only")
			}
			return true
		})
	})
	r.Floor("R-PROV/V6", 1, "the enumBuilder literal in visitEnumNode")
}
