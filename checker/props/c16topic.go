package props

import (
	"go/ast"
	"go/token"
	"go/types"
	"strings"

	"j5verif/checker/core"
)

const structureRel = "internal/structure"

// topicMessageNamedAfterMethod (R-CONST/topicmsg): a topic method of a j5s
// file becomes an rpc and a request message. The reader of the compiled
// descriptors (structure.buildTopicMethod) accepts a topic method only when
// its input message is called `<rpc name>` + a fixed suffix; the producer
// (sourcewalk) therefore has to build the message name from exactly the
// string that names the rpc, with the same suffix. A conversion applied to one
// of the two and not to the other (CamelCase of the message name while the rpc
// keeps the declared name) compiles a topic which the same toolkit then
// refuses to read.
func topicMessageNamedAfterMethod(r *core.Run) {
	r.Rule("R-CONST/topicmsg", "for every TopicMethodNode literal in sourcewalk, the name of the request message (the string argument of the constructor of the node whose NameInPackage() is the Request) is <X>+suffix where <X> is the very expression that is the Name of the method, and the suffix is the one structure.buildTopicMethod appends to the rpc name")

	// consumer: method.Name() + "<suffix>"
	spk := r.P.Pkg(structureRel)
	if spk == nil {
		r.Fatal("anchor: package %s not found", structureRel)
		return
	}
	wantSuffix, found := "", false
	if fd, _ := r.P.FuncDecl(structureRel, "buildTopicMethod"); fd != nil && fd.Body != nil {
		ast.Inspect(fd.Body, func(n ast.Node) bool {
			be, ok := n.(*ast.BinaryExpr)
			if !ok || be.Op != token.ADD {
				return true
			}
			lit, ok := core.ConstString(spk.TypesInfo, be.Y)
			if !ok {
				return true
			}
			if c, ok := core.Unparen(be.X).(*ast.CallExpr); ok {
				if s, ok := c.Fun.(*ast.SelectorExpr); ok && s.Sel.Name == "Name" && strings.HasSuffix(core.TypeStr(spk.TypesInfo.TypeOf(s.X)), "MethodDescriptor") {
					wantSuffix, found = lit, true
				}
			}
			return true
		})
	}
	if !found {
		r.Fatal("R-CONST/topicmsg: %s.buildTopicMethod no longer derives the expected input name as method.Name()+<literal>; re-read the consumer and adapt the rule", structureRel)
		return
	}

	pk := r.P.Pkg(walkRel)
	if pk == nil {
		r.Fatal("anchor: package %s not found", walkRel)
		return
	}
	info := pk.TypesInfo
	n := 0
	core.AllFuncDecls(pk, func(fd *ast.FuncDecl) {
		if fd.Body == nil {
			return
		}
		ast.Inspect(fd.Body, func(nd ast.Node) bool {
			cl, ok := nd.(*ast.CompositeLit)
			if !ok || !strings.HasSuffix(core.TypeStr(info.TypeOf(cl)), "sourcewalk.TopicMethodNode") {
				return true
			}
			n++
			o := r.Add("R-CONST/topicmsg", walkRel+"."+core.FuncName(fd)+" | request message named after the method", cl.Pos(), "topic message name agrees with the rpc name")
			var nameE, reqE ast.Expr
			for _, el := range cl.Elts {
				kv, ok := el.(*ast.KeyValueExpr)
				if !ok {
					continue
				}
				if k, ok := kv.Key.(*ast.Ident); ok {
					switch k.Name {
					case "Name":
						nameE = kv.Value
					case "Request":
						reqE = kv.Value
					}
				}
			}
			if nameE == nil || reqE == nil {
				o.Fail("undecided: the literal does not set both Name and Request by key")
				return true
			}
			msgName := topicRequestName(info, fd, reqE)
			if msgName == nil {
				o.Fail("undecided: the Request is not <node>.NameInPackage() of a node built in this function with a string name argument")
				return true
			}
			base, suffix, ok := splitSuffix(info, fd, msgName)
			if !ok {
				o.Fail("undecided: the message name %s is not of the form <X>+literal or Sprintf(\"%%s<literal>\", X)", core.ExprStr(msgName))
				return true
			}
			if suffix != wantSuffix {
				o.Pos = r.P.Rel(msgName.Pos())
				o.Fail("the request message is named with the suffix %q, %s.buildTopicMethod expects the input to be <rpc name>+%q", suffix, structureRel, wantSuffix)
				return true
			}
			a, b := core.NormExpr(info, core.Unparen(base)), core.NormExpr(info, core.Unparen(nameE))
			if a != b {
				o.Pos = r.P.Rel(msgName.Pos())
				o.Fail("the request message is named %s+%q while the rpc is named %s: %s.buildTopicMethod requires the input of a topic rpc to be called <rpc name>+%q, so a topic whose declared method name is changed by the conversion compiles to descriptors that cannot be read back", core.ExprStr(base), suffix, core.ExprStr(nameE), structureRel, wantSuffix)
				return true
			}
			o.Auto("message name = %s + %q, rpc name = the same expression; consumer suffix %q", core.ExprStr(base), suffix, wantSuffix)
			return true
		})
	})
	r.Floor("R-CONST/topicmsg", 1, "TopicMethodNode literal in "+walkRel)
	_ = n
}

// topicRequestName resolves the Request of a TopicMethodNode literal to the
// expression that names the message: <v>.NameInPackage() where v is assigned
// once in fd from a call with exactly one string argument.
func topicRequestName(info *types.Info, fd *ast.FuncDecl, req ast.Expr) ast.Expr {
	c, ok := core.Unparen(req).(*ast.CallExpr)
	if !ok {
		return nil
	}
	s, ok := c.Fun.(*ast.SelectorExpr)
	if !ok || s.Sel.Name != "NameInPackage" {
		return nil
	}
	id, ok := core.Unparen(s.X).(*ast.Ident)
	if !ok {
		return nil
	}
	def := singleAssign(info, fd, info.ObjectOf(id))
	call, ok := def.(*ast.CallExpr)
	if !ok {
		return nil
	}
	var out ast.Expr
	for _, a := range call.Args {
		if b, ok := info.TypeOf(a).Underlying().(*types.Basic); ok && b.Info()&types.IsString != 0 {
			if out != nil {
				return nil
			}
			out = a
		}
	}
	return out
}

// singleAssign returns the right-hand side of the only assignment of obj in
// fd (for a multi-value call, the call), or nil.
func singleAssign(info *types.Info, fd *ast.FuncDecl, obj types.Object) ast.Expr {
	if obj == nil {
		return nil
	}
	var rhs ast.Expr
	cnt := 0
	ast.Inspect(fd.Body, func(n ast.Node) bool {
		switch st := n.(type) {
		case *ast.AssignStmt:
			for i, l := range st.Lhs {
				if id, ok := l.(*ast.Ident); ok && info.ObjectOf(id) == obj {
					cnt++
					if len(st.Rhs) == len(st.Lhs) {
						rhs = st.Rhs[i]
					} else if len(st.Rhs) == 1 {
						rhs = st.Rhs[0]
					}
				}
			}
		case *ast.ValueSpec:
			for i, id := range st.Names {
				if info.ObjectOf(id) == obj && len(st.Values) > 0 {
					cnt++
					if len(st.Values) == len(st.Names) {
						rhs = st.Values[i]
					} else {
						rhs = st.Values[0]
					}
				}
			}
		case *ast.UnaryExpr:
			if st.Op == token.AND {
				if id, ok := core.Unparen(st.X).(*ast.Ident); ok && info.ObjectOf(id) == obj {
					cnt += 2
				}
			}
		}
		return true
	})
	if cnt != 1 {
		return nil
	}
	return rhs
}

// splitSuffix decomposes a message name into (base, literal suffix): X+"lit",
// fmt.Sprintf("%slit", X), or a local assigned once from one of these.
func splitSuffix(info *types.Info, fd *ast.FuncDecl, e ast.Expr) (ast.Expr, string, bool) {
	e = core.Unparen(e)
	switch x := e.(type) {
	case *ast.Ident:
		if v, ok := info.ObjectOf(x).(*types.Var); ok && !v.IsField() {
			if def := singleAssign(info, fd, v); def != nil {
				return splitSuffix(info, fd, def)
			}
		}
	case *ast.BinaryExpr:
		if x.Op == token.ADD {
			if lit, ok := core.ConstString(info, x.Y); ok {
				return x.X, lit, true
			}
		}
	case *ast.CallExpr:
		if core.CalleeName(info, x) == "fmt.Sprintf" && len(x.Args) == 2 {
			if f, ok := core.ConstString(info, x.Args[0]); ok && strings.HasPrefix(f, "%s") && !strings.Contains(f[2:], "%") {
				return x.Args[1], f[2:], true
			}
		}
	}
	return nil, "", false
}
