package props

import (
	"go/ast"
	"go/token"
	"go/types"
	"regexp"
	"sort"
	"strings"

	"golang.org/x/tools/go/packages"

	"j5verif/checker/core"
)

// entityNameAgreement (R-PROV/entityname): an entity expands to schemas that
// refer to each other by name (State → Keys, Data, Status; Event → EventType;
// the query service → State, Event …). A reference links only if its name is
// computed the way the definition's name is: the rule writes every such name
// as a derivation from the entity's declared name — Camel(‹name›)+"State",
// Camel(‹name›+"State") … — looking through helpers, aliases and Sprintf, and
// requires every local reference to have a definition with the same
// derivation. Two derivations that differ agree on names like "Foo" and
// disagree on others ("UserID", "X"): the entity is then rejected with
// "type … not found".
func entityNameAgreement(r *core.Run) {
	r.Rule("R-PROV/entityname", "in internal/j5s/sourcewalk every name derived from an entity's declared name that is used as a local type reference (schema_j5pb.Ref with an empty package) is derived exactly like the Name of one of the schemas the entity defines (schema_j5pb.Object/Oneof/Enum literals and the virtual object nodes), after inlining helpers (componentName, innerRef, schemaRefField), local aliases and Sprintf(\"%s…\"): Camel(x)+\"S\" and Camel(x+\"S\") are different derivations")
	pk := r.P.Pkg("internal/j5s/sourcewalk")
	if pk == nil {
		r.Fatal("anchor: package internal/j5s/sourcewalk not found")
		return
	}
	ev := &nameEval{pk: pk, info: pk.TypesInfo}
	type site struct {
		nf  string
		pos token.Pos
	}
	var defs, refs []site
	var visit func(fd *ast.FuncDecl, env map[types.Object]string, depth int, at token.Pos)
	visit = func(fd *ast.FuncDecl, env map[types.Object]string, depth int, at token.Pos) {
		if fd.Body == nil || depth > 4 {
			return
		}
		posOf := func(p token.Pos) token.Pos {
			if at != token.NoPos {
				return at // report at the outermost call site
			}
			return p
		}
		ast.Inspect(fd.Body, func(nd ast.Node) bool {
			switch x := nd.(type) {
			case *ast.CompositeLit:
				tn := core.TypeStr(ev.info.TypeOf(x))
				switch {
				case nameDefTypes[tn]:
					if v := litKey(x, "Name"); v != nil {
						if nf, ok := ev.eval(v, env, 0); ok {
							defs = append(defs, site{nf, posOf(v.Pos())})
						}
					}
				case tn == "gen/j5/schema/v1/schema_j5pb.Ref":
					if v := litKey(x, "Schema"); v != nil {
						pkgNF := `""`
						if p := litKey(x, "Package"); p != nil {
							pkgNF, _ = ev.eval(p, env, 0)
						}
						if pkgNF != `""` {
							return true
						}
						if nf, ok := ev.eval(v, env, 0); ok {
							refs = append(refs, site{nf, posOf(v.Pos())})
						}
					}
				}
			case *ast.CallExpr:
				// a same-package helper that receives strings: look inside with the arguments
				fn := core.CalleeFunc(ev.info, x)
				if fn == nil || fn.Pkg() != pk.Types {
					return true
				}
				cd := core.DeclOf(pk, fn.Origin())
				if cd == nil || cd.Body == nil || cd == fd {
					return true
				}
				sub := map[types.Object]string{}
				i := 0
				for _, fl := range cd.Type.Params.List {
					for _, nm := range fl.Names {
						if i < len(x.Args) {
							if b, ok := ev.info.TypeOf(x.Args[i]).Underlying().(*types.Basic); ok && b.Info()&types.IsString != 0 {
								if nf, ok := ev.eval(x.Args[i], env, 0); ok {
									sub[ev.info.Defs[nm]] = nf
								}
							}
						}
						i++
					}
				}
				if len(sub) == 0 {
					return true
				}
				// the receiver stands for itself: ‹*entityNode› is spelled by type in both places
				visit(cd, sub, depth+1, posOf(x.Pos()))
			}
			return true
		})
	}
	core.AllFuncDecls(pk, func(fd *ast.FuncDecl) { visit(fd, nil, 0, token.NoPos) })
	// only names derived from the entity, fully resolved (no open parameter)
	keep := func(s []site) []site {
		var out []site
		for _, x := range s {
			if strings.Contains(strings.ToLower(x.nf), "entity") && !strings.Contains(x.nf, "param:") {
				out = append(out, x)
			}
		}
		return out
	}
	defs, refs = keep(defs), keep(refs)
	defSet := map[string]bool{}
	for _, d := range defs {
		defSet[d.nf] = true
	}
	var defList []string
	for d := range defSet {
		defList = append(defList, d)
	}
	sort.Strings(defList)
	seen := map[string]bool{}
	for _, rf := range refs {
		if seen[rf.nf] {
			continue
		}
		seen[rf.nf] = true
		o := r.Add("R-PROV/entityname", "sourcewalk entity | reference "+rf.nf, rf.pos, "local type reference named "+rf.nf)
		if defSet[rf.nf] {
			o.Auto("a schema of the entity is defined under the same derivation")
		} else {
			o.Fail("no schema of the entity is named by this derivation (definitions: %s): for entity names on which the derivations differ the reference does not resolve and a valid entity is rejected", strings.Join(defList, ", "))
		}
	}
	r.Analysed["entity_name_definitions"] = len(defSet)
	r.Floor("R-PROV/entityname", 5, "Keys, Data, Status, State, EventType, Event references")
}

var nameDefTypes = map[string]bool{
	"gen/j5/schema/v1/schema_j5pb.Object": true, "gen/j5/schema/v1/schema_j5pb.Oneof": true, "gen/j5/schema/v1/schema_j5pb.Enum": true,
	"internal/j5s/sourcewalk.ObjectNode": true, "internal/j5s/sourcewalk.OneofNode": true, "internal/j5s/sourcewalk.EnumNode": true,
}

func litKey(x *ast.CompositeLit, key string) ast.Expr {
	for _, e := range x.Elts {
		if kv, ok := e.(*ast.KeyValueExpr); ok && core.ExprStr(kv.Key) == key {
			return kv.Value
		}
	}
	return nil
}

type nameEval struct {
	pk   *packages.Package
	info *types.Info
}

var camelWord = regexp.MustCompile(`^([A-Z][a-z0-9]*)+$`)

// eval writes a string expression as a derivation: literals in quotes, the
// camel-casing function as Camel(…), concatenation with +, everything else by
// its normalised spelling (locals by type). ok is false for expressions that
// are not strings built this way.
func (ev *nameEval) eval(e ast.Expr, env map[types.Object]string, depth int) (string, bool) {
	if depth > 6 {
		return "", false
	}
	e = core.Unparen(e)
	if tv, ok := ev.info.Types[e]; ok && tv.Value != nil && tv.Type != nil {
		if b, ok := tv.Type.Underlying().(*types.Basic); ok && b.Info()&types.IsString != 0 {
			return tv.Value.ExactString(), true
		}
	}
	switch x := e.(type) {
	case *ast.Ident:
		obj := ev.info.ObjectOf(x)
		if s, ok := env[obj]; ok {
			return s, true
		}
		if def := soleDefinition(ev.info, x); def != nil {
			return ev.eval(def, env, depth+1)
		}
		if v, ok := obj.(*types.Var); ok && !v.IsField() {
			if fd := core.Current.EnclosingDecl(obj.Pos()); fd != nil && paramIndex(ev.info, fd, obj) >= 0 {
				return "param:" + x.Name, true
			}
		}
		return core.NormExpr(ev.info, x), true
	case *ast.SelectorExpr:
		// locals are spelled by type: entity.Name (entity := ent.Schema) and ent.Schema.Name
		// both read ‹*Entity›.Name
		return core.NormExpr(ev.info, x), true
	case *ast.BinaryExpr:
		if x.Op != token.ADD {
			return "", false
		}
		a, ok1 := ev.eval(x.X, env, depth+1)
		b, ok2 := ev.eval(x.Y, env, depth+1)
		if !ok1 || !ok2 {
			return "", false
		}
		return joinNF(a, b), true
	case *ast.CallExpr:
		name := core.CalleeName(ev.info, x)
		switch {
		case name == "github.com/iancoleman/strcase.ToCamel" && len(x.Args) == 1:
			a, ok := ev.eval(x.Args[0], env, depth+1)
			if !ok {
				return "", false
			}
			// camel-casing a literal that is already a camel word gives it back
			if strings.HasPrefix(a, `"`) && strings.HasSuffix(a, `"`) && !strings.Contains(a, "+") && camelWord.MatchString(strings.Trim(a, `"`)) {
				return a, true
			}
			return "Camel(" + a + ")", true
		case name == "fmt.Sprintf" && len(x.Args) >= 1:
			f, ok := core.ConstString(ev.info, x.Args[0])
			if !ok {
				return "", false
			}
			parts := strings.Split(f, "%s")
			if len(parts) != len(x.Args) || strings.Contains(strings.Join(parts, ""), "%") {
				return "", false
			}
			out := ""
			for i, p := range parts {
				if p != "" {
					out = joinNF(out, `"`+p+`"`)
				}
				if i+1 < len(x.Args) {
					a, ok := ev.eval(x.Args[i+1], env, depth+1)
					if !ok {
						return "", false
					}
					out = joinNF(out, a)
				}
			}
			return out, true
		}
		// a helper of the package that returns one expression
		fn := core.CalleeFunc(ev.info, x)
		if fn == nil || fn.Pkg() != ev.pk.Types {
			return core.NormExpr(ev.info, x), true
		}
		cd := core.DeclOf(ev.pk, fn.Origin())
		if cd == nil || cd.Body == nil || len(cd.Body.List) != 1 {
			return core.NormExpr(ev.info, x), true
		}
		ret, ok := cd.Body.List[0].(*ast.ReturnStmt)
		if !ok || len(ret.Results) != 1 {
			return core.NormExpr(ev.info, x), true
		}
		sub := map[types.Object]string{}
		i := 0
		for _, fl := range cd.Type.Params.List {
			for _, nm := range fl.Names {
				if i < len(x.Args) {
					if a, ok := ev.eval(x.Args[i], env, depth+1); ok {
						sub[ev.info.Defs[nm]] = a
					}
				}
				i++
			}
		}
		return ev.eval(ret.Results[0], sub, depth+1)
	}
	return "", false
}

// joinNF concatenates two derivations, merging adjacent literals.
func joinNF(a, b string) string {
	if a == "" {
		return b
	}
	if b == "" {
		return a
	}
	if strings.HasSuffix(a, `"`) && strings.HasPrefix(b, `"`) && !strings.HasSuffix(a, `\"`) {
		return a[:len(a)-1] + b[1:]
	}
	return a + "+" + b
}
