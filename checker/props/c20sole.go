package props

import (
	"go/ast"
	"go/types"
	"strings"

	"golang.org/x/tools/go/cfg"

	"j5verif/checker/core"
	"j5verif/checker/rules"
)

// soleParser (R-FLOW/soleparser): the range argument of the id62 contract —
// "rejects values that do not fit in 16 bytes" — lives in parseBase62 (decided
// by R-FLOW/align: the magnitude is compared with the destination and copied
// right-aligned). Every function of the package that turns a string into a
// UUID has to go through it: a success return reached without a call of
// parseBase62 is a second decoder with a range check of its own, which this
// analysis has not seen (fixed-width arithmetic wraps silently). Also: no
// result of a math/bits operation that reports overflow (carry, borrow, high
// word) may be discarded anywhere in the package.
func soleParser(r *core.Run) {
	r.Rule("R-FLOW/soleparser", "every function of lib/id62 with a string parameter and a (UUID, error) result calls parseBase62 on every path to a return with a nil error; no carry/borrow/high-word result of math/bits.Add*/Sub*/Mul* is assigned to the blank identifier in the package")
	const rel = "lib/id62"
	pk := r.P.Pkg(rel)
	if pk == nil {
		r.Fatal("anchor: package %s not found", rel)
		return
	}
	info := pk.TypesInfo
	if fd, _ := r.P.FuncDecl(rel, "parseBase62"); fd == nil {
		r.Fatal("anchor: id62.parseBase62 not found")
		return
	}
	n := 0
	core.AllFuncDecls(pk, func(fd *ast.FuncDecl) {
		if fd.Body == nil || fd.Type.Results == nil || len(fd.Type.Results.List) != 2 {
			return
		}
		if nt := core.NamedOf(info.TypeOf(fd.Type.Results.List[0].Type)); nt == nil || nt.Obj().Name() != "UUID" || nt.Obj().Pkg() != pk.Types {
			return
		}
		hasString := false
		for _, p := range fd.Type.Params.List {
			if b, ok := info.TypeOf(p.Type).Underlying().(*types.Basic); ok && b.Info()&types.IsString != 0 {
				hasString = true
			}
		}
		if !hasString {
			return
		}
		n++
		o := r.Add("R-FLOW/soleparser", "id62."+core.FuncName(fd)+" | success only through parseBase62", fd.Pos(), "string → UUID goes through the range-checked parser")
		callsParser := func(nd ast.Node) bool {
			found := false
			ast.Inspect(nd, func(x ast.Node) bool {
				if c, ok := x.(*ast.CallExpr); ok && core.CalleeIs(info, c, rel, "parseBase62") {
					found = true
				}
				return !found
			})
			return found
		}
		g := cfg.New(fd.Body, func(*ast.CallExpr) bool { return true })
		type state struct {
			b      *cfg.Block
			passed bool
		}
		seen := map[state]bool{}
		var bad *ast.ReturnStmt
		var walk func(b *cfg.Block, passed bool)
		walk = func(b *cfg.Block, passed bool) {
			if bad != nil || seen[state{b, passed}] {
				return
			}
			seen[state{b, passed}] = true
			for _, nd := range b.Nodes {
				if callsParser(nd) {
					passed = true
				}
				if ret, ok := nd.(*ast.ReturnStmt); ok && len(ret.Results) == 2 && core.IsNilIdent(info, ret.Results[1]) && !passed {
					bad = ret
					return
				}
			}
			for _, s := range b.Succs {
				walk(s, passed)
			}
		}
		if len(g.Blocks) > 0 {
			walk(g.Blocks[0], false)
		}
		if bad != nil {
			o.Pos = r.P.Rel(bad.Pos())
			o.Fail("this success return is reached without a call of parseBase62: the string is decoded by other code, whose rejection of values that do not fit in 16 bytes is not established (fixed-width arithmetic wraps without notice)")
		} else {
			o.Auto("every path to a nil-error return calls parseBase62")
		}
	})
	r.Floor("R-FLOW/soleparser", 1, "id62.Parse")
	// discarded overflow indicators
	core.AllFuncDecls(pk, func(fd *ast.FuncDecl) {
		if fd.Body == nil {
			return
		}
		ast.Inspect(fd.Body, func(nd ast.Node) bool {
			as, ok := nd.(*ast.AssignStmt)
			if !ok || len(as.Rhs) != 1 || len(as.Lhs) != 2 {
				return true
			}
			c, ok := core.Unparen(as.Rhs[0]).(*ast.CallExpr)
			if !ok {
				return true
			}
			name := core.CalleeName(info, c)
			if !strings.HasPrefix(name, "math/bits.") {
				return true
			}
			which := -1
			switch {
			case strings.HasPrefix(name, "math/bits.Add"), strings.HasPrefix(name, "math/bits.Sub"):
				which = 1 // (sum, carryOut)
			case strings.HasPrefix(name, "math/bits.Mul"):
				which = 0 // (hi, lo)
			}
			if which < 0 {
				return true
			}
			o := r.Add("R-FLOW/soleparser", "id62."+core.FuncName(fd)+" | "+strings.TrimPrefix(name, "math/")+" overflow word", as.Pos(), "overflow indicator of "+name)
			if id, ok := as.Lhs[which].(*ast.Ident); ok && id.Name == "_" {
				o.Fail("the %s result of %s is discarded: an overflow of the 128-bit value wraps around instead of being rejected", map[int]string{0: "high-word", 1: "carry"}[which], name)
			} else {
				o.Auto("kept in %s", core.ExprStr(as.Lhs[which]))
			}
			return true
		})
	})
	r.Analysed["string_to_uuid_functions"] = n
}

// signRejected (R-FLOW/sign): big.Int.SetString accepts a leading sign, and
// Int.Bytes returns the magnitude only: "-1" would come out as the identifier
// of "1". A negative value does not fit in 16 unsigned bytes, so every path of
// parseBase62 to a nil error passes a test that the parsed number is not
// negative (or that the text does not start with a sign).
func signRejected(r *core.Run) {
	r.Rule("R-FLOW/sign", "in the function of lib/id62 that parses text with (*big.Int).SetString, every return of a nil error is reached only where the parsed number is known not to be negative (X.Sign() < 0 false, X.Sign() >= 0 true) or the text is known not to start with '-': Int.Bytes drops the sign, so a negative value would alias the identifier of its magnitude")
	pk := r.P.Pkg("lib/id62")
	if pk == nil {
		return
	}
	info := pk.TypesInfo
	n := 0
	core.AllFuncDecls(pk, func(fd *ast.FuncDecl) {
		var recv string
		var textArg string
		ast.Inspect(fd.Body, func(x ast.Node) bool {
			if c, ok := x.(*ast.CallExpr); ok && core.CalleeName(info, c) == "(*math/big.Int).SetString" && len(c.Args) == 2 {
				if s, ok := c.Fun.(*ast.SelectorExpr); ok {
					recv = core.ExprStr(s.X)
					textArg = core.ExprStr(c.Args[0])
				}
			}
			return true
		})
		if recv == "" {
			return
		}
		ast.Inspect(fd.Body, func(x ast.Node) bool {
			ret, ok := x.(*ast.ReturnStmt)
			if !ok || len(ret.Results) == 0 || !core.IsNilIdent(info, ret.Results[len(ret.Results)-1]) {
				return true
			}
			n++
			o := r.Add("R-FLOW/sign", "id62."+core.FuncName(fd)+" | nil-error return", ret.Pos(), "success return of the base62 parser")
			f := rules.FactsAt(info, fd.Body, ret)
			switch {
			case f.False[recv+".Sign() < 0"] || f.True[recv+".Sign() >= 0"] || f.False[recv+".Sign() == -1"] || f.True[recv+".Sign() != -1"]:
				o.Auto("the parsed number is known not to be negative")
			case f.False[textArg+"[0] == '-'"] || f.True[textArg+"[0] != '-'"] || f.False["strings.HasPrefix("+textArg+", \"-\")"]:
				o.Auto("the text is known not to start with a minus sign")
			default:
				o.Fail("success is returned for text that big.Int.SetString read as a negative number: Bytes() drops the sign, so \"-1\" parses to the identifier of \"1\" although a negative value does not fit in 16 bytes")
			}
			return true
		})
	})
	r.Floor("R-FLOW/sign", 1, "parseBase62")
}
