package props

import (
	"go/ast"
	"go/token"
	"go/types"
	"strings"

	"golang.org/x/tools/go/cfg"
	"golang.org/x/tools/go/packages"

	"j5verif/checker/core"
	"j5verif/checker/rules"
)

// soleParser (R-FLOW/soleparser): the range argument of the id62 contract —
// "rejects values that do not fit in 16 bytes" — lives in parseBase62 (decided
// by R-FLOW/align: the magnitude is compared with the destination and copied
// right-aligned). Every function of the package that turns a string into a
// UUID has to go through it: a success return reached without a call of
// parseBase62 is a second decoder with a range check of its own, which this
// analysis has not seen (fixed-width arithmetic wraps silently). Also: no
// result of a math/bits operation that reports overflow (carry, borrow, high
// word) may be discarded anywhere in the package.
func soleParser(r *core.Run) {
	r.Rule("R-FLOW/soleparser", "every function of lib/id62 with a string parameter and a (UUID, error) result calls parseBase62 on every path to a return with a nil error; no carry/borrow/high-word result of math/bits.Add*/Sub*/Mul* is assigned to the blank identifier in the package")
	const rel = "lib/id62"
	pk := r.P.Pkg(rel)
	if pk == nil {
		r.Fatal("anchor: package %s not found", rel)
		return
	}
	info := pk.TypesInfo
	if fd, _ := r.P.FuncDecl(rel, "parseBase62"); fd == nil {
		r.Fatal("anchor: id62.parseBase62 not found")
		return
	}
	n := 0
	core.AllFuncDecls(pk, func(fd *ast.FuncDecl) {
		if fd.Body == nil || fd.Type.Results == nil || len(fd.Type.Results.List) != 2 {
			return
		}
		if nt := core.NamedOf(info.TypeOf(fd.Type.Results.List[0].Type)); nt == nil || nt.Obj().Name() != "UUID" || nt.Obj().Pkg() != pk.Types {
			return
		}
		hasString := false
		for _, p := range fd.Type.Params.List {
			if b, ok := info.TypeOf(p.Type).Underlying().(*types.Basic); ok && b.Info()&types.IsString != 0 {
				hasString = true
			}
		}
		if !hasString {
			return
		}
		n++
		o := r.Add("R-FLOW/soleparser", "id62."+core.FuncName(fd)+" | success only through parseBase62", fd.Pos(), "string → UUID goes through the range-checked parser")
		callsParser := func(nd ast.Node) bool {
			found := false
			ast.Inspect(nd, func(x ast.Node) bool {
				if c, ok := x.(*ast.CallExpr); ok && core.CalleeIs(info, c, rel, "parseBase62") {
					found = true
				}
				return !found
			})
			return found
		}
		g := cfg.New(fd.Body, func(*ast.CallExpr) bool { return true })
		type state struct {
			b      *cfg.Block
			passed bool
		}
		seen := map[state]bool{}
		var bad *ast.ReturnStmt
		var walk func(b *cfg.Block, passed bool)
		walk = func(b *cfg.Block, passed bool) {
			if bad != nil || seen[state{b, passed}] {
				return
			}
			seen[state{b, passed}] = true
			for _, nd := range b.Nodes {
				if callsParser(nd) {
					passed = true
				}
				if ret, ok := nd.(*ast.ReturnStmt); ok && len(ret.Results) == 2 && core.IsNilIdent(info, ret.Results[1]) && !passed {
					bad = ret
					return
				}
			}
			for _, s := range b.Succs {
				walk(s, passed)
			}
		}
		if len(g.Blocks) > 0 {
			walk(g.Blocks[0], false)
		}
		if bad != nil {
			o.Pos = r.P.Rel(bad.Pos())
			o.Fail("this success return is reached without a call of parseBase62: the string is decoded by other code, whose rejection of values that do not fit in 16 bytes is not established (fixed-width arithmetic wraps without notice)")
		} else {
			o.Auto("every path to a nil-error return calls parseBase62")
		}
	})
	r.Floor("R-FLOW/soleparser", 1, "id62.Parse")
	// discarded overflow indicators
	core.AllFuncDecls(pk, func(fd *ast.FuncDecl) {
		if fd.Body == nil {
			return
		}
		ast.Inspect(fd.Body, func(nd ast.Node) bool {
			as, ok := nd.(*ast.AssignStmt)
			if !ok || len(as.Rhs) != 1 || len(as.Lhs) != 2 {
				return true
			}
			c, ok := core.Unparen(as.Rhs[0]).(*ast.CallExpr)
			if !ok {
				return true
			}
			name := core.CalleeName(info, c)
			if !strings.HasPrefix(name, "math/bits.") {
				return true
			}
			which := -1
			switch {
			case strings.HasPrefix(name, "math/bits.Add"), strings.HasPrefix(name, "math/bits.Sub"):
				which = 1 // (sum, carryOut)
			case strings.HasPrefix(name, "math/bits.Mul"):
				which = 0 // (hi, lo)
			}
			if which < 0 {
				return true
			}
			o := r.Add("R-FLOW/soleparser", "id62."+core.FuncName(fd)+" | "+strings.TrimPrefix(name, "math/")+" overflow word", as.Pos(), "overflow indicator of "+name)
			if id, ok := as.Lhs[which].(*ast.Ident); ok && id.Name == "_" {
				o.Fail("the %s result of %s is discarded: an overflow of the 128-bit value wraps around instead of being rejected", map[int]string{0: "high-word", 1: "carry"}[which], name)
			} else {
				o.Auto("kept in %s", core.ExprStr(as.Lhs[which]))
			}
			return true
		})
	})
	r.Analysed["string_to_uuid_functions"] = n
}

// signRejected (R-FLOW/sign): big.Int.SetString accepts a leading sign, and
// Int.Bytes returns the magnitude only: "-1" would come out as the identifier
// of "1". A negative value does not fit in 16 unsigned bytes, so every path of
// parseBase62 to a nil error passes a test that the parsed number is not
// negative (or that the text does not start with a sign).
func signRejected(r *core.Run) {
	r.Rule("R-FLOW/sign", "in the function of lib/id62 that parses text with (*big.Int).SetString, every return of a nil error is reached only where the parsed number is known not to be negative (X.Sign() < 0 false, X.Sign() >= 0 true), the text is known not to start with '-', or the whole text was checked before (a failing regexp match of a ^[class]{n}$ pattern, or a loop that looks every byte up in a table filled from a constant alphabet, returns an error; the class / alphabet has no '-'): Int.Bytes drops the sign, so a negative value would alias the identifier of its magnitude")
	pk := r.P.Pkg("lib/id62")
	if pk == nil {
		return
	}
	info := pk.TypesInfo
	n := 0
	core.AllFuncDecls(pk, func(fd *ast.FuncDecl) {
		var recv string
		var textArg string
		ast.Inspect(fd.Body, func(x ast.Node) bool {
			if c, ok := x.(*ast.CallExpr); ok && core.CalleeName(info, c) == "(*math/big.Int).SetString" && len(c.Args) == 2 {
				if s, ok := c.Fun.(*ast.SelectorExpr); ok {
					recv = core.ExprStr(s.X)
					textArg = core.ExprStr(c.Args[0])
				}
			}
			return true
		})
		if recv == "" {
			return
		}
		ast.Inspect(fd.Body, func(x ast.Node) bool {
			ret, ok := x.(*ast.ReturnStmt)
			if !ok || len(ret.Results) == 0 || !core.IsNilIdent(info, ret.Results[len(ret.Results)-1]) {
				return true
			}
			n++
			o := r.Add("R-FLOW/sign", "id62."+core.FuncName(fd)+" | nil-error return", ret.Pos(), "success return of the base62 parser")
			f := rules.FactsAt(info, fd.Body, ret)
			switch {
			case f.False[recv+".Sign() < 0"] || f.True[recv+".Sign() >= 0"] || f.False[recv+".Sign() == -1"] || f.True[recv+".Sign() != -1"]:
				o.Auto("the parsed number is known not to be negative")
			case f.False[textArg+"[0] == '-'"] || f.True[textArg+"[0] != '-'"] || f.False["strings.HasPrefix("+textArg+", \"-\")"]: // FactsAt drops these when the text variable is re-assigned before the return
				o.Auto("the text is known not to start with a minus sign")
			case charsValidated(pk, info, fd, textArg, ret):
				o.Auto("every character of the text is checked against a set without '-' before the return")
			default:
				o.Fail("success is returned for text that big.Int.SetString read as a negative number: Bytes() drops the sign, so \"-1\" parses to the identifier of \"1\" although a negative value does not fit in 16 bytes")
			}
			return true
		})
	})
	r.Floor("R-FLOW/sign", 1, "parseBase62")
}

// charsValidated: before ret, at the top level of fd, the text is checked character by character
// against a set that has no minus sign, and the failing case returns a non-nil error.
func charsValidated(pk *packages.Package, info *types.Info, fd *ast.FuncDecl, text string, ret *ast.ReturnStmt) bool {
	failsOut := func(body *ast.BlockStmt) bool {
		if body == nil || len(body.List) == 0 {
			return false
		}
		rs, ok := body.List[len(body.List)-1].(*ast.ReturnStmt)
		return ok && len(rs.Results) > 0 && !core.IsNilIdent(info, rs.Results[len(rs.Results)-1])
	}
	// the constant string a package-level variable is built from: regexp.MustCompile(S), or a
	// function literal that ranges over S
	constOf := func(e ast.Expr) (string, string) {
		id, ok := core.Unparen(e).(*ast.Ident)
		if !ok {
			return "", ""
		}
		obj, _ := info.ObjectOf(id).(*types.Var)
		if obj == nil || obj.Parent() != pk.Types.Scope() {
			return "", ""
		}
		for _, file := range pk.Syntax {
			for _, d := range file.Decls {
				gd, ok := d.(*ast.GenDecl)
				if !ok {
					continue
				}
				for _, sp := range gd.Specs {
					vs, ok := sp.(*ast.ValueSpec)
					if !ok {
						continue
					}
					for i, nm := range vs.Names {
						if info.ObjectOf(nm) != types.Object(obj) || i >= len(vs.Values) {
							continue
						}
						c, ok := core.Unparen(vs.Values[i]).(*ast.CallExpr)
						if !ok {
							continue
						}
						strOf := func(a ast.Expr) (string, bool) {
							if s, ok := core.ConstString(info, a); ok {
								return s, true
							}
							if aid, ok := core.Unparen(a).(*ast.Ident); ok {
								if def := pkgVarInit(pk, info, info.ObjectOf(aid)); def != nil {
									return core.ConstString(info, def)
								}
							}
							return "", false
						}
						if core.CalleeName(info, c) == "regexp.MustCompile" && len(c.Args) == 1 {
							if s, ok := strOf(c.Args[0]); ok {
								return "regexp", s
							}
						}
						if fl, ok := c.Fun.(*ast.FuncLit); ok {
							var src string
							ast.Inspect(fl.Body, func(n ast.Node) bool {
								if rg, ok := n.(*ast.RangeStmt); ok {
									if s, ok := strOf(rg.X); ok {
										src = s
									}
								}
								return true
							})
							if src != "" {
								return "table", src
							}
						}
					}
				}
			}
		}
		return "", ""
	}
	classHasMinus := func(pat string) bool {
		// ^[class]{n}$
		if !strings.HasPrefix(pat, "^[") || !strings.HasSuffix(pat, "$") {
			return true
		}
		end := strings.Index(pat, "]")
		if end < 0 {
			return true
		}
		cls := pat[2:end]
		if strings.HasPrefix(cls, "^") || strings.ContainsAny(cls, "\\") {
			return true
		}
		rs := []rune(cls)
		for i := 0; i < len(rs); i++ {
			if i+2 < len(rs) && rs[i+1] == '-' {
				if rs[i] <= '-' && '-' <= rs[i+2] {
					return true
				}
				i += 2
				continue
			}
			if rs[i] == '-' {
				return true
			}
		}
		return false
	}
	mentionsText := func(e ast.Expr) bool {
		hit := false
		ast.Inspect(e, func(n ast.Node) bool {
			if x, ok := n.(ast.Expr); ok && core.ExprStr(x) == text {
				hit = true
			}
			return !hit
		})
		return hit
	}
	for _, st := range fd.Body.List {
		if st.Pos() >= ret.Pos() {
			break
		}
		switch x := st.(type) {
		case *ast.IfStmt:
			// if !P.MatchString(text) { return err }
			u, ok := core.Unparen(x.Cond).(*ast.UnaryExpr)
			if !ok || u.Op != token.NOT || !failsOut(x.Body) {
				continue
			}
			c, ok := core.Unparen(u.X).(*ast.CallExpr)
			if !ok || core.CalleeName(info, c) != "(*regexp.Regexp).MatchString" || len(c.Args) != 1 || !mentionsText(c.Args[0]) {
				continue
			}
			if kind, s := constOf(c.Fun.(*ast.SelectorExpr).X); kind == "regexp" && !classHasMinus(s) {
				return true
			}
		case *ast.ForStmt, *ast.RangeStmt:
			ok := false
			ast.Inspect(x, func(n ast.Node) bool {
				is, isIf := n.(*ast.IfStmt)
				if !isIf || !failsOut(is.Body) {
					return true
				}
				u, isNot := core.Unparen(is.Cond).(*ast.UnaryExpr)
				if !isNot || u.Op != token.NOT {
					return true
				}
				ix, isIx := core.Unparen(u.X).(*ast.IndexExpr)
				if !isIx {
					return true
				}
				if kind, s := constOf(ix.X); kind == "table" && !strings.Contains(s, "-") {
					ok = true
				}
				return true
			})
			// the loop must run over the whole text
			if ok {
				whole := false
				switch l := x.(type) {
				case *ast.RangeStmt:
					whole = mentionsText(l.X)
				case *ast.ForStmt:
					whole = l.Cond != nil && mentionsText(l.Cond)
				}
				if whole {
					return true
				}
			}
		}
	}
	return false
}

// pkgVarInit: the initialiser of a package-level variable or constant.
func pkgVarInit(pk *packages.Package, info *types.Info, obj types.Object) ast.Expr {
	if obj == nil {
		return nil
	}
	for _, file := range pk.Syntax {
		for _, d := range file.Decls {
			if gd, ok := d.(*ast.GenDecl); ok {
				for _, sp := range gd.Specs {
					if vs, ok := sp.(*ast.ValueSpec); ok {
						for i, nm := range vs.Names {
							if info.ObjectOf(nm) == obj && i < len(vs.Values) {
								return vs.Values[i]
							}
						}
					}
				}
			}
		}
	}
	return nil
}
