package props

import (
	"fmt"
	"go/ast"
	"go/token"
	"go/types"
	"math/big"
	"regexp/syntax"
	"strings"

	"j5verif/checker/core"
	"j5verif/checker/rules"
)

func init() { Registry["C20"] = C20 }

// C20 — id62: fixed width, pattern agreement, parse totality and
// right-alignment, purity of NewHash.
func C20(r *core.Run) {
	const rel = "lib/id62"
	pk := r.P.Pkg(rel)
	if pk == nil {
		r.Fatal("anchor: package %s not found", rel)
		return
	}
	info := pk.TypesInfo
	r.Entry = []string{"id62.UUID.String", "id62.Parse", "id62.NewHash"}
	r.Assumef("math/big: Int.Text(b) for 2<=b<=62 renders with the alphabet 0-9a-zA-Z without sign for non-negative values and without leading zeros; Int.SetBytes reads big-endian; Int.Bytes returns the minimal big-endian magnitude")
	r.Assumef("fmt: the verb %%0<w>s left-pads a string to w runes with '0'")

	r.Rule("R-CONST/width", "the rendered width W is one number: every integer compared with len(text) in base62String, the width in its padding verb (which must be zero-padding) and the repeat count of PatternString agree; PatternString is ^[alphabet]{W}$ with the alphabet big.Int.Text(62) uses")
	r.Rule("R-PANIC/D-arith", "the explicit panic in base62String is unreachable: it is guarded by len(text) > W, every caller passes all N bytes of a UUID array, and 256^N <= base^W (computed here from N, base and W extracted from the source)")
	r.Rule("R-CONST/base", "render and parse use the same radix, within [2,62]")
	r.Rule("R-FLOW/align", "parseBase62: on every path to a nil-error return the parsed magnitude has been copied right-aligned (dst = into[len(into)-len(v):] when shorter, dst = into when equal) and a longer magnitude returns a non-nil error; the slice bound is then in range")
	r.Rule("R-CONST/pattern-source", "PatternString is never assigned outside its declaration, its users reference the object (no duplicated literal in the module)")
	r.Rule("R-PURE", "NewHash's call tree reads no package-level variable and calls only hashing primitives")
	// "parsing never panics on any string": the general panic inventory over everything the package's entry points reach
	panicScope(r, rules.E(rel, "Parse"), rules.E(rel, "UUID.String"), rules.E(rel, "NewHash"), rules.E(rel, "New"), rules.E(rel, "NewString"), rules.E(rel, "UUID.UUIDString"), rules.E(rel, "UUID.Base64String"))

	// ----- N: array length of UUID
	uuidT := r.P.LookupType(core.Module+"/"+rel, "UUID")
	var N int64 = -1
	if uuidT != nil {
		if a, ok := uuidT.Underlying().(*types.Array); ok {
			if b, ok := a.Elem().(*types.Basic); ok && b.Kind() == types.Uint8 {
				N = a.Len()
			}
		}
	}
	if N < 0 {
		r.Fatal("anchor: id62.UUID is not a byte array")
		return
	}
	r.Analysed["uuid_bytes"] = int(N)

	// ----- base62String
	fd, _ := r.P.FuncDecl(rel, "base62String")
	if fd == nil || fd.Body == nil {
		r.Fatal("anchor: id62.base62String not found")
		return
	}
	var widths []int64
	var widthPos []token.Pos
	var base int64 = -1
	var textVar string
	var fmtW int64 = -1
	var fmtZero bool
	var fmtPos token.Pos
	var panics []*ast.CallExpr
	ast.Inspect(fd.Body, func(n ast.Node) bool {
		switch x := n.(type) {
		case *ast.AssignStmt:
			if len(x.Rhs) == 1 && len(x.Lhs) == 1 {
				if c, ok := x.Rhs[0].(*ast.CallExpr); ok && core.CalleeName(info, c) == "(*math/big.Int).Text" {
					if id, ok := x.Lhs[0].(*ast.Ident); ok {
						textVar = id.Name
					}
					if v, ok := core.ConstInt(info, c.Args[0]); ok {
						base = v
					}
				}
			}
		case *ast.CallExpr:
			switch core.CalleeName(info, x) {
			case "builtin.panic":
				panics = append(panics, x)
			case "fmt.Sprintf":
				if s, ok := core.ConstString(info, x.Args[0]); ok {
					fmtPos = x.Pos()
					fmtZero, fmtW = parsePadVerb(s)
					// "%0*s" with the width as a constant argument
					if s == "%0*s" && len(x.Args) == 3 {
						if v, ok := core.ConstInt(info, x.Args[1]); ok {
							fmtZero, fmtW = true, v
						}
					}
				}
			}
		}
		return true
	})
	if textVar == "" || base < 0 {
		r.Fatal("base62String: no `x := <big.Int>.Text(<const>)` found (unrecognised rendering idiom)")
		return
	}
	ast.Inspect(fd.Body, func(n ast.Node) bool {
		if b, ok := n.(*ast.BinaryExpr); ok {
			if core.IsLenOf(info, b.X, textVar) {
				if v, ok := core.ConstInt(info, b.Y); ok {
					widths = append(widths, v)
					widthPos = append(widthPos, b.Pos())
				}
			}
		}
		return true
	})
	// pattern
	patObj := r.P.LookupObj(core.Module+"/"+rel, "PatternString")
	var patW int64 = -1
	var patStr string
	var patPos token.Pos
	if patObj != nil {
		patPos = patObj.Pos()
		for _, f := range pk.Syntax {
			ast.Inspect(f, func(n ast.Node) bool {
				vs, ok := n.(*ast.ValueSpec)
				if !ok {
					return true
				}
				for i, nm := range vs.Names {
					if info.Defs[nm] == patObj && i < len(vs.Values) {
						if s, ok := core.ConstString(info, vs.Values[i]); ok {
							patStr = s
						}
					}
				}
				return true
			})
		}
	}
	if patStr == "" {
		r.Fatal("anchor: id62.PatternString has no constant string initialiser")
		return
	}
	alphaOK := false
	if re, err := syntax.Parse(patStr, syntax.Perl); err == nil {
		re = re.Simplify()
		_ = re
		re2, _ := syntax.Parse(patStr, syntax.Perl)
		if re2.Op == syntax.OpConcat && len(re2.Sub) == 3 && re2.Sub[0].Op == syntax.OpBeginText && re2.Sub[2].Op == syntax.OpEndText {
			rep := re2.Sub[1]
			if rep.Op == syntax.OpRepeat && rep.Min == rep.Max && len(rep.Sub) == 1 && rep.Sub[0].Op == syntax.OpCharClass {
				patW = int64(rep.Min)
				rn := rep.Sub[0].Rune
				alphaOK = len(rn) == 6 && rn[0] == '0' && rn[1] == '9' && rn[2] == 'A' && rn[3] == 'Z' && rn[4] == 'a' && rn[5] == 'z'
			}
		}
	}

	var W int64 = -1
	if len(widths) > 0 {
		W = widths[0]
	}
	for i, w := range widths {
		o := r.Add("R-CONST/width", fmt.Sprintf("id62.base62String | len(%s) cmp #%d", textVar, i), widthPos[i], fmt.Sprintf("width constant %d compared with len(%s)", w, textVar))
		if w == W {
			o.Auto("equals the width W=%d used by the other sites", W)
		} else {
			o.Fail("width %d differs from %d used elsewhere in the function", w, W)
		}
	}
	o := r.Add("R-CONST/width", "id62.base62String | pad verb", fmtPos, "padding verb of the short-value path")
	switch {
	case !fmtPos.IsValid():
		o.Fail("no fmt.Sprintf with a constant %%0<W>s verb found (unrecognised padding idiom)")
	case !fmtZero:
		o.Fail("padding verb does not zero-pad: a short value would be padded with a character outside the alphabet (or with one that changes the value)")
	case fmtW != W:
		o.Fail("padding width %d != W=%d", fmtW, W)
	default:
		o.Auto("verb is %%0%ds: zero-padded to W", fmtW)
	}
	o = r.Add("R-CONST/width", "id62.PatternString | shape", patPos, fmt.Sprintf("pattern %q", patStr))
	switch {
	case patW < 0:
		o.Fail("pattern is not of the form ^[class]{W}$")
	case !alphaOK:
		o.Fail("character class is not exactly 0-9A-Za-z, the alphabet of big.Int.Text(62)")
	case patW != W:
		o.Fail("pattern repeat count %d != rendered width %d", patW, W)
	default:
		o.Auto("^[0-9A-Za-z]{%d}$ matches the alphabet and width W", patW)
	}

	// callers of base62String pass x[:] with x of array type [N]byte
	callersOK := true
	ncallers := 0
	core.AllFuncDecls(pk, func(f *ast.FuncDecl) {
		ast.Inspect(f.Body, func(n ast.Node) bool {
			c, ok := n.(*ast.CallExpr)
			if !ok || core.CalleeName(info, c) != core.Module+"/"+rel+".base62String" {
				return true
			}
			ncallers++
			ok2 := false
			if se, ok := core.Unparen(c.Args[0]).(*ast.SliceExpr); ok && se.Low == nil && se.High == nil {
				if a, ok := info.TypeOf(se.X).Underlying().(*types.Array); ok && a.Len() == N {
					ok2 = true
				}
			}
			if !ok2 {
				callersOK = false
			}
			return true
		})
	})
	// D-arith
	for i, pc := range panics {
		o := r.Add("R-PANIC/D-arith", fmt.Sprintf("id62.base62String | panic #%d", i), pc.Pos(), "explicit panic in the renderer")
		guard := guardedByLenGreater(info, fd, pc, textVar)
		lhs := new(big.Int).Exp(big.NewInt(256), big.NewInt(N), nil)
		rhs := new(big.Int).Exp(big.NewInt(base), big.NewInt(max64(guard, 0)), nil)
		switch {
		case guard < 0:
			o.Fail("panic is not guarded by len(%s) > <const>", textVar)
		case !callersOK || ncallers == 0:
			o.Fail("a caller passes something other than all %d bytes of a UUID array (callers: %d)", N, ncallers)
		case lhs.Cmp(rhs) > 0:
			o.Fail("256^%d > %d^%d: some %d-byte value renders to more than %d digits and reaches the panic", N, base, guard, N, guard)
		default:
			o.Auto("256^%d <= %d^%d, so no %d-byte value has more than %d digits; %d caller(s) pass a full [%d]byte", N, base, guard, N, guard, ncallers, N)
		}
	}
	r.Floor("R-PANIC/D-arith", 0, "")

	// ----- base agreement
	pfd, _ := r.P.FuncDecl(rel, "parseBase62")
	if pfd == nil {
		r.Fatal("anchor: id62.parseBase62 not found")
		return
	}
	var pbase int64 = -1
	var pbasePos token.Pos
	ast.Inspect(pfd.Body, func(n ast.Node) bool {
		if c, ok := n.(*ast.CallExpr); ok && core.CalleeName(info, c) == "(*math/big.Int).SetString" {
			pbasePos = c.Pos()
			if v, ok := core.ConstInt(info, c.Args[1]); ok {
				pbase = v
			}
		}
		return true
	})
	o = r.Add("R-CONST/base", "id62 | Text vs SetString radix", pbasePos, fmt.Sprintf("render radix %d, parse radix %d", base, pbase))
	if base == pbase && base >= 2 && base <= 62 {
		o.Auto("both %d, inside big.Int's supported range", base)
	} else {
		o.Fail("radices differ or are outside [2,62] (big.Int panics outside that range)")
	}

	// ----- alignment / rejection in parseBase62
	checkAlign(r, info, pfd)

	// Parse passes uuid[:]
	if fdp, _ := r.P.FuncDecl(rel, "Parse"); fdp != nil {
		ast.Inspect(fdp.Body, func(n ast.Node) bool {
			c, ok := n.(*ast.CallExpr)
			if !ok || core.CalleeName(info, c) != core.Module+"/"+rel+".parseBase62" {
				return true
			}
			o := r.Add("R-FLOW/align", "id62.Parse | destination", c.Pos(), "destination handed to parseBase62")
			if se, ok := core.Unparen(c.Args[1]).(*ast.SliceExpr); ok && se.Low == nil && se.High == nil {
				if a, ok := info.TypeOf(se.X).Underlying().(*types.Array); ok && a.Len() == N {
					o.Auto("all %d bytes of a fresh UUID", N)
					return true
				}
			}
			o.Fail("destination is not the whole [%d]byte array", N)
			return true
		})
	} else {
		r.Fatal("anchor: id62.Parse not found")
	}

	// ----- pattern single-sourcing across the module
	writes, lits, uses := 0, 0, 0
	for path, p2 := range r.P.ByPkg {
		if !core.IsSource(path) {
			continue
		}
		for _, f := range p2.Syntax {
			ast.Inspect(f, func(n ast.Node) bool {
				switch x := n.(type) {
				case *ast.AssignStmt:
					for _, l := range x.Lhs {
						if core.UsedObj(p2.TypesInfo, l) == patObj {
							writes++
							r.Add("R-CONST/pattern-source", fmt.Sprintf("%s | write to PatternString", strings.TrimPrefix(path, core.Module+"/")), x.Pos(), "assignment to id62.PatternString").Fail("the published pattern is mutable state; it must only be set by its declaration")
						}
					}
				case *ast.UnaryExpr:
					if x.Op == token.AND && core.UsedObj(p2.TypesInfo, x.X) == patObj {
						writes++
						r.Add("R-CONST/pattern-source", fmt.Sprintf("%s | &PatternString", strings.TrimPrefix(path, core.Module+"/")), x.Pos(), "address of id62.PatternString taken").Fail("address escapes; writes can no longer be excluded")
					}
				case *ast.BasicLit:
					if x.Kind == token.STRING {
						if s, ok := core.ConstString(p2.TypesInfo, x); ok && path != core.Module+"/"+rel && (s == patStr || strings.Contains(s, fmt.Sprintf("A-Za-z]{%d}", W))) {
							lits++
							r.Add("R-CONST/pattern-source", fmt.Sprintf("%s | duplicated literal", strings.TrimPrefix(path, core.Module+"/")), x.Pos(), "string literal duplicating the ID62 pattern").Fail("a second copy of the pattern can drift from id62.PatternString")
						}
					}
				case *ast.SelectorExpr:
					if path != core.Module+"/"+rel && p2.TypesInfo.Uses[x.Sel] == patObj {
						uses++
						fdn := core.EnclosingFunc(p2, x.Pos())
						name := "package-level"
						if fdn != nil {
							name = core.FuncName(fdn)
						}
						r.Add("R-CONST/pattern-source", fmt.Sprintf("%s.%s | use", strings.TrimPrefix(path, core.Module+"/"), name), x.Pos(), "use of the pattern").Auto("references the object id62.PatternString")
					}
				}
				return true
			})
		}
	}
	r.Analysed["pattern_uses"] = uses
	r.Floor("R-CONST/pattern-source", 2, "compiler emits it, reflector recognises it")
	// the two roles must exist: emitted as a validation pattern, recognised on read-back
	roleEmit, roleRead := false, false
	for _, ob := range r.Obligs {
		if ob.Rule == "R-CONST/pattern-source" && strings.Contains(ob.Key, "internal/j5s/j5convert") {
			roleEmit = true
		}
		if ob.Rule == "R-CONST/pattern-source" && strings.Contains(ob.Key, "lib/j5schema") {
			roleRead = true
		}
	}
	if !roleEmit || !roleRead {
		r.Fatal("R-CONST/pattern-source: expected a use in internal/j5s/j5convert (emit=%v) and in lib/j5schema (recognise=%v)", roleEmit, roleRead)
	}

	// ----- purity of NewHash
	checkPure(r, rel, "NewHash")
	soleParser(r)
	signRejected(r)
	// the destination slice of parseBase62 is what R-FLOW/align decides, with the names a refactoring gives
	// the two lengths and their difference followed; the general inventory only knows the literal form
	alignOpen := false
	for _, o := range r.Obligs {
		if o.Rule == "R-FLOW/align" && o.Open() {
			alignOpen = true
		}
	}
	if !alignOpen {
		for _, o := range r.Obligs {
			if o.Rule == "R-PANIC/P2" && o.Open() && strings.Contains(o.Key, "lib/id62.parseBase62 | slice ") {
				o.Status = "auto:decided by R-FLOW/align in the same check: the slice is reached only under a relation between the two lengths that excludes '>'"
				o.Why = ""
			}
		}
	}
}

func max64(a, b int64) int64 {
	if a > b {
		return a
	}
	return b
}

// parsePadVerb recognises exactly "%0<w>s" / "%<w>s".
func parsePadVerb(s string) (zero bool, w int64) {
	if !strings.HasPrefix(s, "%") || !strings.HasSuffix(s, "s") {
		return false, -1
	}
	mid := s[1 : len(s)-1]
	if mid == "" {
		return false, -1
	}
	if strings.HasPrefix(mid, "0") {
		zero = true
		mid = mid[1:]
	}
	var n int64
	if mid == "" {
		return zero, -1
	}
	for _, c := range mid {
		if c < '0' || c > '9' {
			return false, -1
		}
		n = n*10 + int64(c-'0')
	}
	return zero, n
}

// guardedByLenGreater returns K if the node is inside the taken arm of an
// `if len(v) > K` (or `K < len(v)`, `len(v) >= K+1`) statement, else -1.
func guardedByLenGreater(info *types.Info, fd *ast.FuncDecl, target ast.Node, v string) int64 {
	// dominating facts (if, else-if chains, tagless switch clauses): len(v) >= m
	if m := rules.FactsAt(info, fd.Body, target).MinLen[v]; m > 0 {
		return int64(m - 1)
	}
	path := core.PathTo(fd.Body, target)
	for i := len(path) - 1; i > 0; i-- {
		ifs, ok := path[i-1].(*ast.IfStmt)
		if !ok || path[i] != ifs.Body {
			continue
		}
		if b, ok := core.Unparen(ifs.Cond).(*ast.BinaryExpr); ok {
			if core.IsLenOf(info, b.X, v) {
				if k, ok := core.ConstInt(info, b.Y); ok {
					switch b.Op {
					case token.GTR:
						return k
					case token.GEQ:
						return k - 1
					}
				}
			}
			if core.IsLenOf(info, b.Y, v) {
				if k, ok := core.ConstInt(info, b.X); ok {
					switch b.Op {
					case token.LSS:
						return k
					case token.LEQ:
						return k - 1
					}
				}
			}
		}
	}
	return -1
}

// rel3 is a set over {<,=,>} describing len(v) ? len(into).
type rel3 uint8

const (
	rLT rel3 = 1 << iota
	rEQ
	rGT
	rAll = rLT | rEQ | rGT
)

func (s rel3) String() string {
	var p []string
	if s&rLT != 0 {
		p = append(p, "<")
	}
	if s&rEQ != 0 {
		p = append(p, "=")
	}
	if s&rGT != 0 {
		p = append(p, ">")
	}
	return "{" + strings.Join(p, ",") + "}"
}

// checkAlign walks parseBase62's statement list with the abstract state
// (relation set, copied?) and checks every return.
func checkAlign(r *core.Run, info *types.Info, fd *ast.FuncDecl) {
	// identify v := i.Bytes() and the destination parameter
	var v, into string
	ast.Inspect(fd.Body, func(n ast.Node) bool {
		if as, ok := n.(*ast.AssignStmt); ok && len(as.Lhs) == 1 && len(as.Rhs) == 1 {
			if c, ok := as.Rhs[0].(*ast.CallExpr); ok && core.CalleeName(info, c) == "(*math/big.Int).Bytes" {
				if id, ok := as.Lhs[0].(*ast.Ident); ok {
					v = id.Name
				}
			}
		}
		return true
	})
	if fd.Type.Params != nil {
		for _, f := range fd.Type.Params.List {
			if _, ok := info.TypeOf(f.Type).Underlying().(*types.Slice); ok && len(f.Names) == 1 {
				into = f.Names[0].Name
			}
		}
	}
	if v == "" && into != "" && checkFillBytes(r, info, fd, into) {
		return
	}
	if v == "" || into == "" {
		r.Fatal("parseBase62: cannot identify `v := <big.Int>.Bytes()` (or a guarded FillBytes) and the []byte destination parameter")
		return
	}
	type state struct {
		rel    rel3
		copied bool
		live   bool
	}
	nret := 0
	var walk func(stmts []ast.Stmt, st state) state
	relOf := func(cond ast.Expr) (rel3, bool) {
		b, ok := core.Unparen(cond).(*ast.BinaryExpr)
		if !ok {
			return 0, false
		}
		flip := false
		switch {
		case lenOrAlias(info, fd, b.X, v) && lenOrAlias(info, fd, b.Y, into):
		case lenOrAlias(info, fd, b.X, into) && lenOrAlias(info, fd, b.Y, v):
			flip = true
		default:
			return 0, false
		}
		var s rel3
		switch b.Op {
		case token.LSS:
			s = rLT
		case token.LEQ:
			s = rLT | rEQ
		case token.GTR:
			s = rGT
		case token.GEQ:
			s = rGT | rEQ
		case token.EQL:
			s = rEQ
		case token.NEQ:
			s = rLT | rGT
		default:
			return 0, false
		}
		if flip {
			var f rel3
			if s&rLT != 0 {
				f |= rGT
			}
			if s&rGT != 0 {
				f |= rLT
			}
			f |= s & rEQ
			s = f
		}
		return s, true
	}
	checkCopy := func(c *ast.CallExpr, st state) {
		// copy(dst, v)
		if len(c.Args) != 2 {
			return
		}
		if id, ok := core.Unparen(c.Args[1]).(*ast.Ident); !ok || id.Name != v {
			return
		}
		o := r.Add("R-FLOW/align", "id62.parseBase62 | copy under "+st.rel.String(), c.Pos(), fmt.Sprintf("copy(%s, %s) where len(%s) ? len(%s) ∈ %s", core.ExprStr(c.Args[0]), v, v, into, st.rel))
		dst := core.Unparen(c.Args[0])
		switch d := dst.(type) {
		case *ast.Ident:
			if d.Name == into {
				if st.rel&^rEQ == 0 {
					o.Auto("whole destination, lengths equal")
				} else {
					o.Fail("left-aligned copy while the value may be shorter than the destination: a leading zero byte is lost (parse(render(id)) != id for ids with a zero first byte)")
				}
				return
			}
		case *ast.SliceExpr:
			if id, ok := d.X.(*ast.Ident); ok && id.Name == into && d.High == nil && d.Low != nil {
				low := core.Unparen(d.Low)
				if lid, isID := low.(*ast.Ident); isID {
					// padding := len(into) - len(v); into[padding:]
					if def := soleDefinition(info, lid); def != nil {
						low = core.Unparen(def)
					}
				}
				if b, ok := low.(*ast.BinaryExpr); ok && b.Op == token.SUB && lenOrAlias(info, fd, b.X, into) && lenOrAlias(info, fd, b.Y, v) {
					if st.rel&rGT == 0 {
						o.Auto("right-aligned; low bound len(%s)-len(%s) >= 0 because the relation excludes '>'", into, v)
					} else {
						o.Fail("slice low bound len(%s)-len(%s) may be negative here: panic on an over-long value", into, v)
					}
					return
				}
			}
		}
		o.Fail("unrecognised destination expression (neither %s nor %s[len(%s)-len(%s):])", into, into, into, v)
	}
	walk = func(stmts []ast.Stmt, st state) state {
		for _, s := range stmts {
			if !st.live {
				break
			}
			switch x := s.(type) {
			case *ast.IfStmt:
				if x.Init != nil {
					st = walk([]ast.Stmt{x.Init}, st)
				}
				cr, ok := relOf(x.Cond)
				thenSt, elseSt := st, st
				if ok {
					thenSt.rel = st.rel & cr
					elseSt.rel = st.rel &^ cr
				}
				thenSt.live = thenSt.rel != 0 || !ok
				elseSt.live = elseSt.rel != 0 || !ok
				a := walk(x.Body.List, thenSt)
				var b state
				switch e := x.Else.(type) {
				case nil:
					b = elseSt
				case *ast.BlockStmt:
					b = walk(e.List, elseSt)
				case *ast.IfStmt:
					b = walk([]ast.Stmt{e}, elseSt)
				}
				// join
				switch {
				case a.live && b.live:
					st = state{rel: a.rel | b.rel, copied: a.copied && b.copied, live: true}
				case a.live:
					st = a
				case b.live:
					st = b
				default:
					st.live = false
				}
			case *ast.ReturnStmt:
				nret++
				if len(x.Results) == 1 {
					isNil := core.IsNilIdent(info, x.Results[0])
					o := r.Add("R-FLOW/align", fmt.Sprintf("id62.parseBase62 | return #%d", nret), x.Pos(), fmt.Sprintf("return %s with relation %s, copied=%v", core.ExprStr(x.Results[0]), st.rel, st.copied))
					switch {
					case !isNil:
						o.Auto("error return")
					case st.rel&rGT != 0:
						o.Fail("success is returned although the value may be longer than the destination (over-long input accepted)")
					case !st.copied:
						o.Fail("success is returned on a path that never copied the value")
					default:
						o.Auto("value fits and was copied")
					}
				}
				st.live = false
			case *ast.ExprStmt:
				if c, ok := x.X.(*ast.CallExpr); ok && core.CalleeName(info, c) == "builtin.copy" {
					checkCopy(c, st)
					st.copied = true
				}
			case *ast.BlockStmt:
				st = walk(x.List, st)
			case *ast.SwitchStmt:
				// a switch is the if / else-if chain of its clauses
				if chain := core.SwitchAsIfChain(x); chain != nil {
					st = walk([]ast.Stmt{chain}, st)
				} else {
					r.Fatal("parseBase62: this switch (fallthrough, or init statement) is not handled by the alignment walker (unrecognised idiom)")
				}
			case *ast.ForStmt, *ast.RangeStmt:
				// a loop that touches neither the parsed value nor the destination (a validation pass over the
				// text) leaves the relation alone; its returns are judged under the current state
				var body *ast.BlockStmt
				if f, ok := x.(*ast.ForStmt); ok {
					body = f.Body
				} else {
					body = x.(*ast.RangeStmt).Body
				}
				touches := false
				ast.Inspect(x, func(n ast.Node) bool {
					if id, ok := n.(*ast.Ident); ok && (id.Name == v || id.Name == into) {
						if _, isVar := info.ObjectOf(id).(*types.Var); isVar {
							touches = true
						}
					}
					return true
				})
				if touches {
					r.Fatal("parseBase62: a loop over the parsed value or the destination is not handled by the alignment walker (unrecognised idiom)")
				} else {
					walk(body.List, st)
				}
			case *ast.BranchStmt:
				// break / continue inside such a loop
			case *ast.TypeSwitchStmt, *ast.SelectStmt, *ast.GoStmt, *ast.DeferStmt, *ast.LabeledStmt:
				r.Fatal("parseBase62: statement form %T is not handled by the alignment walker (unrecognised idiom)", x)
			}
		}
		return st
	}
	walk(fd.Body.List, state{rel: rAll, live: true})
	r.Floor("R-FLOW/align", 4, "two copies and at least two returns")
}

// checkPure: the call tree of rel.name reads no package-level variable and
// calls only allow-listed hashing primitives, builtins and conversions.
func checkPure(r *core.Run, rel, name string) {
	allowed := map[string]bool{
		"crypto/sha1.New": true, "crypto/sha256.New": true, "crypto/md5.New": true,
		"(hash.Hash).Reset": true, "(hash.Hash).Sum": true, "(io.Writer).Write": true, "(hash.Hash).Write": true,
		"builtin.copy": true, "builtin.len": true, "builtin.append": true,
	}
	seen := map[string]bool{}
	var visit func(rel, name string)
	visit = func(rel, name string) {
		if seen[rel+"."+name] {
			return
		}
		seen[rel+"."+name] = true
		fd, pk := r.P.FuncDecl(rel, name)
		if fd == nil || fd.Body == nil {
			r.Fatal("R-PURE: anchor %s.%s not found", rel, name)
			return
		}
		info := pk.TypesInfo
		ast.Inspect(fd.Body, func(n ast.Node) bool {
			switch x := n.(type) {
			case *ast.Ident:
				if v, ok := info.Uses[x].(*types.Var); ok && v.Pkg() != nil && v.Parent() == v.Pkg().Scope() {
					r.Add("R-PURE", fmt.Sprintf("%s.%s | global %s", rel, name, core.ObjPath(v)), x.Pos(), "read/write of package-level variable "+core.ObjPath(v)).Fail("hash-derived ids must depend on namespace and inputs only")
				}
			case *ast.GoStmt:
				r.Add("R-PURE", fmt.Sprintf("%s.%s | go", rel, name), x.Pos(), "goroutine").Fail("not a pure function")
			case *ast.CallExpr:
				if core.IsConversion(info, x) {
					return true
				}
				cn := core.CalleeName(info, x)
				o := r.Add("R-PURE", fmt.Sprintf("%s.%s | call %s", rel, name, cn), x.Pos(), "call "+cn)
				switch {
				case allowed[cn]:
					o.Auto("hashing primitive / builtin")
				case cn == "":
					o.Fail("dynamic call: effect unknown")
				default:
					f := core.CalleeFunc(info, x)
					if f != nil && f.Pkg() != nil && core.IsSource(f.Pkg().Path()) && f.Type().(*types.Signature).Recv() == nil {
						o.Auto("module helper, analysed recursively")
						visit(strings.TrimPrefix(f.Pkg().Path(), core.Module+"/"), f.Name())
					} else {
						o.Fail("call outside the allow-list of pure hashing primitives")
					}
				}
			}
			return true
		})
	}
	visit(rel, name)
	r.Floor("R-PURE", 3, "sha1.New, Write, Sum")
}

// checkFillBytes handles the alternative idiom `i.FillBytes(into)`: FillBytes
// right-aligns and zero-fills (library fact) but panics when the value needs
// more than len(into) bytes, so it must be preceded, at the top level of the
// function, by an error return under a condition that is implied by "needs
// more than len(into) bytes". Returns false when the idiom is absent.
func checkFillBytes(r *core.Run, info *types.Info, fd *ast.FuncDecl, into string) bool {
	found := false
	guarded := false
	why := "no preceding size guard"
	sufficient := func(cond ast.Expr) (bool, string) {
		b, ok := core.Unparen(cond).(*ast.BinaryExpr)
		if !ok || b.Op != token.GTR {
			return false, "guard is not of the form <size> > <capacity>"
		}
		lhs, rhs := core.Unparen(b.X), core.Unparen(b.Y)
		isBitLen := func(e ast.Expr) bool {
			c, ok := core.Unparen(e).(*ast.CallExpr)
			return ok && core.CalleeName(info, c) == "(*math/big.Int).BitLen"
		}
		// len(i.Bytes()) > len(into)
		if c, ok := lhs.(*ast.CallExpr); ok && core.CalleeName(info, c) == "builtin.len" && len(c.Args) == 1 {
			if c2, ok := core.Unparen(c.Args[0]).(*ast.CallExpr); ok && core.CalleeName(info, c2) == "(*math/big.Int).Bytes" && core.IsLenOf(info, rhs, into) {
				return true, ""
			}
		}
		// (i.BitLen()+7)/8 > len(into)
		if d, ok := lhs.(*ast.BinaryExpr); ok && d.Op == token.QUO && core.IsLenOf(info, rhs, into) {
			if k, ok := core.ConstInt(info, d.Y); ok && k == 8 {
				if a, ok := core.Unparen(d.X).(*ast.BinaryExpr); ok && a.Op == token.ADD && isBitLen(a.X) {
					if k7, ok := core.ConstInt(info, a.Y); ok && k7 == 7 {
						return true, ""
					}
				}
				if isBitLen(d.X) {
					return false, "BitLen()/8 rounds down: values with 8*len+1 .. 8*len+7 bits pass the guard and FillBytes panics"
				}
			}
		}
		// i.BitLen() > len(into)*8
		if isBitLen(lhs) {
			if m, ok := rhs.(*ast.BinaryExpr); ok && m.Op == token.MUL {
				if k, ok := core.ConstInt(info, m.Y); ok && k == 8 && core.IsLenOf(info, m.X, into) {
					return true, ""
				}
				if k, ok := core.ConstInt(info, m.X); ok && k == 8 && core.IsLenOf(info, m.Y, into) {
					return true, ""
				}
			}
		}
		return false, "unrecognised size guard"
	}
	var fillPos token.Pos
	for _, st := range fd.Body.List {
		switch x := st.(type) {
		case *ast.IfStmt:
			if x.Else == nil && len(x.Body.List) > 0 {
				if ret, ok := x.Body.List[len(x.Body.List)-1].(*ast.ReturnStmt); ok && len(ret.Results) == 1 && !core.IsNilIdent(info, ret.Results[0]) {
					if ok, w := sufficient(x.Cond); ok {
						guarded = true
					} else if w != "" && !strings.Contains(core.ExprStr(x.Cond), "ok") {
						why = w
					}
				}
			}
		case *ast.ExprStmt:
			if c, ok := x.X.(*ast.CallExpr); ok && core.CalleeName(info, c) == "(*math/big.Int).FillBytes" {
				found = true
				fillPos = c.Pos()
				o := r.Add("R-FLOW/align", "id62.parseBase62 | FillBytes", c.Pos(), "FillBytes("+core.ExprStr(c.Args[0])+")")
				id, isId := core.Unparen(c.Args[0]).(*ast.Ident)
				switch {
				case !isId || id.Name != into:
					o.Fail("destination is not the whole %s slice", into)
				case !guarded:
					o.Fail("FillBytes panics when the value does not fit and the preceding guard does not exclude that: %s", why)
				default:
					o.Auto("right-aligned by FillBytes; an error return under a sufficient size guard precedes it")
				}
			}
		}
	}
	_ = fillPos
	if found {
		// the success return must come after FillBytes at top level
		last, ok := fd.Body.List[len(fd.Body.List)-1].(*ast.ReturnStmt)
		o := r.Add("R-FLOW/align", "id62.parseBase62 | final return", fd.Body.Rbrace, "final return")
		if ok && len(last.Results) == 1 && core.IsNilIdent(info, last.Results[0]) {
			o.Auto("success only after FillBytes")
		} else {
			o.Fail("unrecognised function tail")
		}
		r.Floor("R-FLOW/align", 2, "FillBytes idiom")
	}
	return found
}

// lenOrAlias: e is len(<name>), or a local defined once as len(<name>)
// (`have := len(valBytes)`).
func lenOrAlias(info *types.Info, fd *ast.FuncDecl, e ast.Expr, name string) bool {
	if core.IsLenOf(info, e, name) {
		return true
	}
	id, ok := core.Unparen(e).(*ast.Ident)
	if !ok {
		return false
	}
	obj := info.Uses[id]
	var def ast.Expr
	n := 0
	ast.Inspect(fd.Body, func(nd ast.Node) bool {
		if as, ok := nd.(*ast.AssignStmt); ok && len(as.Lhs) == len(as.Rhs) {
			for i, l := range as.Lhs {
				if li, ok := l.(*ast.Ident); ok && obj != nil && (info.Defs[li] == obj || info.Uses[li] == obj) {
					n++
					def = as.Rhs[i]
				}
			}
		}
		return true
	})
	return n == 1 && def != nil && core.IsLenOf(info, def, name)
}
