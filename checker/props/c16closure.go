package props

import (
	"fmt"
	"go/ast"
	"go/token"
	"go/types"
	"sort"
	"strings"

	"j5verif/checker/core"
)

// refClosure (R-FLOW/closure): the client API lists every schema a method or
// entity can reach. collectPackageRefs finds them with type switches over
// FieldSchema / RootSchema; in each clause whose type carries a reference (a
// field of type *RefSchema) or a nested field schema (a field of an interface
// type implemented by the switch's other cases), the walk has to be continued
// with that field on every path that leaves the clause without an error. A
// clause that can return nil (or fall out) first drops everything behind that
// reference from the exported schema set, and the documents still name it.
func refClosure(r *core.Run) {
	r.Rule("R-FLOW/closure", "in collectPackageRefs every clause of a type switch over FieldSchema whose type holds a *RefSchema or a nested FieldSchema passes that field to a call (the continued walk) on every path that leaves the clause without a non-nil error: nothing reachable is skipped on the strength of another attribute")
	const rel = "internal/j5client"
	fd, pk := r.P.FuncDecl(rel, "collectPackageRefs")
	if fd == nil {
		r.Fatal("anchor: %s.collectPackageRefs not found", rel)
		return
	}
	info := pk.TypesInfo
	// fields of the clause type that continue the walk
	walkFields := func(t types.Type, swT types.Type) []string {
		if p, ok := t.(*types.Pointer); ok {
			t = p.Elem()
		}
		st, ok := t.Underlying().(*types.Struct)
		if !ok {
			return nil
		}
		var out []string
		for i := 0; i < st.NumFields(); i++ {
			f := st.Field(i)
			ft := f.Type()
			if p, ok := ft.(*types.Pointer); ok {
				if n := core.NamedOf(p.Elem()); n != nil && n.Obj().Name() == "RefSchema" {
					out = append(out, f.Name())
				}
			}
			if types.Identical(ft, swT) {
				out = append(out, f.Name())
			}
		}
		sort.Strings(out)
		return out
	}
	n := 0
	for _, body := range core.TreeOf(pk, fd.Body, 2) {
		ast.Inspect(body, func(nd ast.Node) bool {
			ts, ok := nd.(*ast.TypeSwitchStmt)
			if !ok {
				return true
			}
			// the switched value and the variable bound in the clauses
			var bound *ast.Ident
			var subject ast.Expr
			switch a := ts.Assign.(type) {
			case *ast.AssignStmt:
				if len(a.Lhs) == 1 && len(a.Rhs) == 1 {
					bound, _ = a.Lhs[0].(*ast.Ident)
					if ta, ok := a.Rhs[0].(*ast.TypeAssertExpr); ok {
						subject = ta.X
					}
				}
			case *ast.ExprStmt:
				if ta, ok := a.X.(*ast.TypeAssertExpr); ok {
					subject = ta.X
				}
			}
			if subject == nil {
				return true
			}
			swT := info.TypeOf(subject)
			if nt := core.NamedOf(swT); nt == nil || nt.Obj().Name() != "FieldSchema" {
				return true
			}
			for _, cl := range ts.Body.List {
				cc := cl.(*ast.CaseClause)
				if len(cc.List) != 1 {
					continue
				}
				ct := info.TypeOf(cc.List[0])
				fields := walkFields(ct, swT)
				if len(fields) == 0 {
					continue
				}
				n++
				o := r.Add("R-FLOW/closure", fmt.Sprintf("j5client.collectPackageRefs | case %s continues through %v", core.TypeStr(ct), fields), cc.Pos(), "reference walk continues in every clause")
				if bound == nil {
					o.Fail("the clause does not bind the value: %v cannot be followed", fields)
					continue
				}
				clauseObj := info.Implicits[cc]
				isWalk := func(e ast.Node) bool {
					found := false
					ast.Inspect(e, func(x ast.Node) bool {
						c, ok := x.(*ast.CallExpr)
						if !ok {
							return true
						}
						for _, a := range c.Args {
							if s, ok := core.Unparen(a).(*ast.SelectorExpr); ok {
								if id, ok := core.Unparen(s.X).(*ast.Ident); ok && info.Uses[id] == clauseObj {
									for _, f := range fields {
										if s.Sel.Name == f {
											found = true
										}
									}
								}
							}
						}
						return true
					})
					return found
				}
				// must(list): (walk executed on every path that reaches the end, a success exit before the walk)
				var must func(list []ast.Stmt) (done bool, early ast.Node)
				must = func(list []ast.Stmt) (bool, ast.Node) {
					for _, st := range list {
						switch x := st.(type) {
						case *ast.ReturnStmt:
							if isWalk(x) {
								return true, nil
							}
							if len(x.Results) == 0 || core.IsNilIdent(info, x.Results[len(x.Results)-1]) {
								return false, x
							}
							return true, nil // error exit: nothing owed
						case *ast.IfStmt:
							if x.Init != nil && isWalk(x.Init) || isWalk(x.Cond) {
								return true, nil
							}
							dThen, eThen := must(x.Body.List)
							if eThen != nil {
								return false, eThen
							}
							dElse := false
							switch e := x.Else.(type) {
							case *ast.BlockStmt:
								var eElse ast.Node
								dElse, eElse = must(e.List)
								if eElse != nil {
									return false, eElse
								}
							case *ast.IfStmt:
								var eElse ast.Node
								dElse, eElse = must([]ast.Stmt{e})
								if eElse != nil {
									return false, eElse
								}
							}
							if dThen && dElse {
								return true, nil
							}
						case *ast.BlockStmt:
							d, e := must(x.List)
							if e != nil {
								return false, e
							}
							if d {
								return true, nil
							}
						case *ast.BranchStmt:
							return false, x
						default:
							if isWalk(st) {
								return true, nil
							}
						}
					}
					return false, nil
				}
				done, early := must(cc.Body)
				switch {
				case early != nil:
					o.Pos = r.P.Rel(early.Pos())
					o.Fail("the clause can be left here without an error before %v of the %s has been walked: schemas reachable only through it are missing from the client API while the documents still refer to them", fields, core.TypeStr(ct))
				case !done:
					o.Fail("the clause can end without having walked %v of the %s", fields, core.TypeStr(ct))
				default:
					o.Auto("%v is handed to the continued walk before any error-free exit", fields)
				}
			}
			return true
		})
	}
	r.Analysed["reference_walk_clauses"] = n
	r.Floor("R-FLOW/closure", 5, "object, oneof, enum, array and map clauses of walkRefs")
}

// methodSchemasIndependent (R-FLOW/closure, method clause): the schemas of a
// method are those of its request body, its path parameters, its query
// parameters and its response body. For a verb with a body the path
// parameters are *removed* from the body, so the four are disjoint sources:
// each is walked whatever the others hold. The rule finds the function of
// collectPackageRefs that takes a *Method and requires, per schema-bearing
// field, a walk (range operand or call argument) whose enclosing conditions
// mention no other of these fields.
func methodSchemasIndependent(r *core.Run) {
	fd, pk := r.P.FuncDecl("internal/j5client", "collectPackageRefs")
	if fd == nil {
		r.Fatal("anchor: j5client.collectPackageRefs not found")
		return
	}
	info := pk.TypesInfo
	// schema-bearing fields of Request and Method
	bearing := map[types.Object]string{}
	for _, tn := range []string{"Request", "Method"} {
		named := r.P.LookupType(core.Module+"/internal/j5client", tn)
		if named == nil {
			r.Fatal("anchor: j5client.%s not found", tn)
			return
		}
		st, _ := named.Underlying().(*types.Struct)
		for i := 0; st != nil && i < st.NumFields(); i++ {
			f := st.Field(i)
			ts := core.TypeStr(f.Type())
			if strings.HasSuffix(ts, "j5schema.ObjectSchema") || strings.HasSuffix(ts, "j5schema.ObjectProperty") {
				bearing[f] = tn + "." + f.Name()
			}
		}
	}
	if len(bearing) < 4 {
		r.Fatal("R-FLOW/closure: expected Request.Body/PathParameters/QueryParameters and Method.ResponseBody, found %d schema-bearing fields", len(bearing))
		return
	}
	// the walker: function literal (or the declaration itself) with a *Method parameter
	var body *ast.BlockStmt
	for _, d := range core.TreeDecls(pk, fd, 2) {
		ast.Inspect(d, func(n ast.Node) bool {
			var ft *ast.FuncType
			var b *ast.BlockStmt
			switch x := n.(type) {
			case *ast.FuncLit:
				ft, b = x.Type, x.Body
			case *ast.FuncDecl:
				ft, b = x.Type, x.Body
			default:
				return true
			}
			if body != nil || ft.Params == nil || b == nil {
				return true
			}
			for _, p := range ft.Params.List {
				if strings.HasSuffix(core.TypeStr(info.TypeOf(p.Type)), "j5client.Method") {
					body = b
				}
			}
			return true
		})
	}
	if body == nil {
		r.Fatal("R-FLOW/closure: no function taking a *Method in collectPackageRefs")
		return
	}
	fieldOf := func(e ast.Expr) string {
		if s, ok := core.Unparen(e).(*ast.SelectorExpr); ok {
			if name, ok := bearing[info.ObjectOf(s.Sel)]; ok {
				return name
			}
		}
		return ""
	}
	// locals that only name one of the fields
	alias := map[types.Object]string{}
	ast.Inspect(body, func(n ast.Node) bool {
		if as, ok := n.(*ast.AssignStmt); ok && as.Tok == token.DEFINE && len(as.Lhs) == len(as.Rhs) {
			for i, l := range as.Lhs {
				if id, ok := l.(*ast.Ident); ok {
					if f := fieldOf(as.Rhs[i]); f != "" {
						alias[info.ObjectOf(id)] = f
					}
				}
			}
		}
		return true
	})
	nameOf := func(e ast.Expr) string {
		if f := fieldOf(e); f != "" {
			return f
		}
		if id, ok := core.Unparen(e).(*ast.Ident); ok {
			return alias[info.ObjectOf(id)]
		}
		return ""
	}
	mentioned := func(e ast.Expr) map[string]bool {
		out := map[string]bool{}
		ast.Inspect(e, func(n ast.Node) bool {
			if x, ok := n.(ast.Expr); ok {
				if f := nameOf(x); f != "" {
					out[f] = true
				}
			}
			return true
		})
		return out
	}
	type use struct {
		pos   token.Pos
		other string
	}
	uses := map[string][]use{}
	var stack []ast.Node
	ast.Inspect(body, func(n ast.Node) bool {
		if n == nil {
			stack = stack[:len(stack)-1]
			return true
		}
		stack = append(stack, n)
		var operands []ast.Expr
		switch x := n.(type) {
		case *ast.RangeStmt:
			operands = append(operands, x.X)
		case *ast.CallExpr:
			operands = append(operands, x.Args...)
		}
		for _, op := range operands {
			f := nameOf(op)
			if f == "" {
				continue
			}
			other := ""
			for _, anc := range stack[:len(stack)-1] {
				is, ok := anc.(*ast.IfStmt)
				if !ok {
					continue
				}
				for m := range mentioned(is.Cond) {
					if m != f {
						other = m
					}
				}
			}
			uses[f] = append(uses[f], use{op.Pos(), other})
		}
		return true
	})
	var names []string
	for _, nm := range bearing {
		names = append(names, nm)
	}
	sort.Strings(names)
	for _, nm := range names {
		o := r.Add("R-FLOW/closure", "j5client.collectPackageRefs | method walk of "+nm, body.Pos(), "schemas of a method: "+nm)
		us := uses[nm]
		free := false
		other := ""
		for _, u := range us {
			if u.other == "" {
				free = true
				o.Pos = r.P.Rel(u.pos)
			} else {
				other = u.other
				o.Pos = r.P.Rel(u.pos)
			}
		}
		switch {
		case len(us) == 0:
			o.Fail("%s is never walked: a schema referenced only from there is missing from the client API", nm)
		case !free:
			o.Fail("%s is walked only under a condition on %s: for a verb with a body the path parameters are taken out of the body, so a schema referenced only from a path parameter of such a method is missing from the client API (a dangling $ref in the OpenAPI document)", nm, other)
		default:
			o.Auto("walked whatever the other request parts hold")
		}
	}
}
