package props

import (
	"fmt"
	"go/ast"
	"go/types"
	"sort"

	"j5verif/checker/core"
)

// refClosure (R-FLOW/closure): the client API lists every schema a method or
// entity can reach. collectPackageRefs finds them with type switches over
// FieldSchema / RootSchema; in each clause whose type carries a reference (a
// field of type *RefSchema) or a nested field schema (a field of an interface
// type implemented by the switch's other cases), the walk has to be continued
// with that field on every path that leaves the clause without an error. A
// clause that can return nil (or fall out) first drops everything behind that
// reference from the exported schema set, and the documents still name it.
func refClosure(r *core.Run) {
	r.Rule("R-FLOW/closure", "in collectPackageRefs every clause of a type switch over FieldSchema whose type holds a *RefSchema or a nested FieldSchema passes that field to a call (the continued walk) on every path that leaves the clause without a non-nil error: nothing reachable is skipped on the strength of another attribute")
	const rel = "internal/j5client"
	fd, pk := r.P.FuncDecl(rel, "collectPackageRefs")
	if fd == nil {
		r.Fatal("anchor: %s.collectPackageRefs not found", rel)
		return
	}
	info := pk.TypesInfo
	// fields of the clause type that continue the walk
	walkFields := func(t types.Type, swT types.Type) []string {
		if p, ok := t.(*types.Pointer); ok {
			t = p.Elem()
		}
		st, ok := t.Underlying().(*types.Struct)
		if !ok {
			return nil
		}
		var out []string
		for i := 0; i < st.NumFields(); i++ {
			f := st.Field(i)
			ft := f.Type()
			if p, ok := ft.(*types.Pointer); ok {
				if n := core.NamedOf(p.Elem()); n != nil && n.Obj().Name() == "RefSchema" {
					out = append(out, f.Name())
				}
			}
			if types.Identical(ft, swT) {
				out = append(out, f.Name())
			}
		}
		sort.Strings(out)
		return out
	}
	n := 0
	for _, body := range core.TreeOf(pk, fd.Body, 2) {
		ast.Inspect(body, func(nd ast.Node) bool {
			ts, ok := nd.(*ast.TypeSwitchStmt)
			if !ok {
				return true
			}
			// the switched value and the variable bound in the clauses
			var bound *ast.Ident
			var subject ast.Expr
			switch a := ts.Assign.(type) {
			case *ast.AssignStmt:
				if len(a.Lhs) == 1 && len(a.Rhs) == 1 {
					bound, _ = a.Lhs[0].(*ast.Ident)
					if ta, ok := a.Rhs[0].(*ast.TypeAssertExpr); ok {
						subject = ta.X
					}
				}
			case *ast.ExprStmt:
				if ta, ok := a.X.(*ast.TypeAssertExpr); ok {
					subject = ta.X
				}
			}
			if subject == nil {
				return true
			}
			swT := info.TypeOf(subject)
			if nt := core.NamedOf(swT); nt == nil || nt.Obj().Name() != "FieldSchema" {
				return true
			}
			for _, cl := range ts.Body.List {
				cc := cl.(*ast.CaseClause)
				if len(cc.List) != 1 {
					continue
				}
				ct := info.TypeOf(cc.List[0])
				fields := walkFields(ct, swT)
				if len(fields) == 0 {
					continue
				}
				n++
				o := r.Add("R-FLOW/closure", fmt.Sprintf("j5client.collectPackageRefs | case %s continues through %v", core.TypeStr(ct), fields), cc.Pos(), "reference walk continues in every clause")
				if bound == nil {
					o.Fail("the clause does not bind the value: %v cannot be followed", fields)
					continue
				}
				clauseObj := info.Implicits[cc]
				isWalk := func(e ast.Node) bool {
					found := false
					ast.Inspect(e, func(x ast.Node) bool {
						c, ok := x.(*ast.CallExpr)
						if !ok {
							return true
						}
						for _, a := range c.Args {
							if s, ok := core.Unparen(a).(*ast.SelectorExpr); ok {
								if id, ok := core.Unparen(s.X).(*ast.Ident); ok && info.Uses[id] == clauseObj {
									for _, f := range fields {
										if s.Sel.Name == f {
											found = true
										}
									}
								}
							}
						}
						return true
					})
					return found
				}
				// must(list): (walk executed on every path that reaches the end, a success exit before the walk)
				var must func(list []ast.Stmt) (done bool, early ast.Node)
				must = func(list []ast.Stmt) (bool, ast.Node) {
					for _, st := range list {
						switch x := st.(type) {
						case *ast.ReturnStmt:
							if isWalk(x) {
								return true, nil
							}
							if len(x.Results) == 0 || core.IsNilIdent(info, x.Results[len(x.Results)-1]) {
								return false, x
							}
							return true, nil // error exit: nothing owed
						case *ast.IfStmt:
							if x.Init != nil && isWalk(x.Init) || isWalk(x.Cond) {
								return true, nil
							}
							dThen, eThen := must(x.Body.List)
							if eThen != nil {
								return false, eThen
							}
							dElse := false
							switch e := x.Else.(type) {
							case *ast.BlockStmt:
								var eElse ast.Node
								dElse, eElse = must(e.List)
								if eElse != nil {
									return false, eElse
								}
							case *ast.IfStmt:
								var eElse ast.Node
								dElse, eElse = must([]ast.Stmt{e})
								if eElse != nil {
									return false, eElse
								}
							}
							if dThen && dElse {
								return true, nil
							}
						case *ast.BlockStmt:
							d, e := must(x.List)
							if e != nil {
								return false, e
							}
							if d {
								return true, nil
							}
						case *ast.BranchStmt:
							return false, x
						default:
							if isWalk(st) {
								return true, nil
							}
						}
					}
					return false, nil
				}
				done, early := must(cc.Body)
				switch {
				case early != nil:
					o.Pos = r.P.Rel(early.Pos())
					o.Fail("the clause can be left here without an error before %v of the %s has been walked: schemas reachable only through it are missing from the client API while the documents still refer to them", fields, core.TypeStr(ct))
				case !done:
					o.Fail("the clause can end without having walked %v of the %s", fields, core.TypeStr(ct))
				default:
					o.Auto("%v is handed to the continued walk before any error-free exit", fields)
				}
			}
			return true
		})
	}
	r.Analysed["reference_walk_clauses"] = n
	r.Floor("R-FLOW/closure", 5, "object, oneof, enum, array and map clauses of walkRefs")
}
