package props

import (
	"go/ast"
	"strings"

	"j5verif/checker/core"
)

// nestedSkipsMapEntries (R-EXH/mapentry): protobuf declares, for every map
// field, a synthetic nested message `<Field>Entry` in the message that owns the
// field. Code that enumerates the nested messages of a message
// (MessageDescriptor.Messages()) to treat each as a schema or to print it has
// to tell those apart with IsMapEntry(): an entry message is not a type of the
// schema (the reflector refuses it as a root: "propSet root is a map entry"),
// and printed as a message it duplicates the map field.
func nestedSkipsMapEntries(r *core.Run, rels ...string) {
	r.Rule("R-EXH/mapentry", "every enumeration of the nested messages of a message (protoreflect.MessageDescriptor.Messages()) sits in a function (or its same-package helpers, two levels) that tests IsMapEntry(): synthetic map-entry messages are not schema types")
	calls := 0
	for _, rel := range rels {
		pk := r.P.Pkg(rel)
		if pk == nil {
			r.Fatal("anchor: package %s not found", rel)
			continue
		}
		info := pk.TypesInfo
		core.AllFuncDecls(pk, func(fd *ast.FuncDecl) {
			if fd.Body == nil {
				return
			}
			ast.Inspect(fd.Body, func(n ast.Node) bool {
				c, ok := n.(*ast.CallExpr)
				if !ok || len(c.Args) != 0 {
					return true
				}
				sel, ok := c.Fun.(*ast.SelectorExpr)
				if !ok || sel.Sel.Name != "Messages" {
					return true
				}
				if !strings.HasSuffix(core.TypeStr(info.TypeOf(sel.X)), "protoreflect.MessageDescriptor") {
					return true
				}
				calls++
				o := r.Add("R-EXH/mapentry", rel+"."+core.FuncName(fd)+" | nested messages of "+core.NormExpr(info, sel.X), c.Pos(), "nested message enumeration tells map entries apart")
				tested := false
				for _, body := range core.TreeOf(pk, fd.Body, 2) {
					ast.Inspect(body, func(m ast.Node) bool {
						if cc, ok := m.(*ast.CallExpr); ok {
							if s, ok := cc.Fun.(*ast.SelectorExpr); ok && s.Sel.Name == "IsMapEntry" {
								tested = true
							}
						}
						return !tested
					})
				}
				if tested {
					o.Auto("IsMapEntry() is tested in the function that walks the nested messages")
				} else {
					o.Fail("the nested messages of a message are enumerated without an IsMapEntry() test: the synthetic entry message of every map field is taken for a schema type")
				}
				return true
			})
		})
	}
	r.Analysed["nested_message_enumerations"] = calls
}
