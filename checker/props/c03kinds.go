package props

import (
	"go/ast"
	"go/token"
	"go/types"
	"sort"
	"strings"

	"j5verif/checker/core"
	"j5verif/checker/rules"
)

// kindSpellings (R-FLOW/kinds): which Go values each scalar kind's setter arm
// accepts decides two clauses of the decoding contract at once.
//
//   - a JSON token of the wrong type is rejected: the decoder hands a JSON
//     string to the setter as a Go string, a number as json.Number (pre-converted
//     to int64 for integers), a boolean as bool. A bool field therefore must
//     not accept strings or numbers, and the text kinds (string, key, bytes,
//     timestamp, date) must not accept booleans or numbers.
//   - a scalar supplied as a URL query parameter arrives as text: every kind
//     either accepts a Go string in its arm, or the query decoder converts the
//     text for that kind before it calls the setter.
func kindSpellings(r *core.Run) {
	r.Rule("R-FLOW/kinds", "per scalar kind arm of scalarReflectFromGo (case *schema_j5pb.Field_X, including helpers it calls): (strict) the Go types its value switch accepts contain none that a JSON token of the wrong type decodes to — bool fields: no string, json.Number, integer or float type; string/key/bytes/timestamp/date fields: no bool, json.Number, integer or float type; (query) the arm accepts `string`, or decodeQuery (with its helpers) tests for that kind (`.(*schema_j5pb.Field_X)`) to convert the parameter text itself")
	fd, pk := r.P.FuncDecl("lib/j5reflect", "scalarReflectFromGo")
	if fd == nil {
		r.Fatal("anchor: j5reflect.scalarReflectFromGo not found")
		return
	}
	info := pk.TypesInfo
	// kinds the query decoder converts itself
	qfd, qpk := r.P.FuncDecl(codecRel, "Codec.decodeQuery")
	if qfd == nil {
		r.Fatal("anchor: codec.Codec.decodeQuery not found")
		return
	}
	queryKinds := map[string]bool{}
	core.InspectTree(qpk, qfd.Body, func(n ast.Node) bool {
		var te ast.Expr
		switch x := n.(type) {
		case *ast.TypeAssertExpr:
			te = x.Type
		case *ast.CaseClause:
			for _, e := range x.List {
				if k := fieldKindName(qpk.TypesInfo.TypeOf(e)); k != "" {
					queryKinds[k] = true
				}
			}
		}
		if te != nil {
			if k := fieldKindName(qpk.TypesInfo.TypeOf(te)); k != "" {
				queryKinds[k] = true
			}
		}
		return true
	})
	// the kind switch: the type switch of the function whose cases are Field_X wrappers
	var kindSwitch *ast.TypeSwitchStmt
	ast.Inspect(fd.Body, func(n ast.Node) bool {
		ts, ok := n.(*ast.TypeSwitchStmt)
		if !ok || kindSwitch != nil {
			return true
		}
		for _, st := range ts.Body.List {
			for _, e := range st.(*ast.CaseClause).List {
				if fieldKindName(info.TypeOf(e)) != "" {
					kindSwitch = ts
				}
			}
		}
		return true
	})
	if kindSwitch == nil {
		r.Fatal("R-FLOW/kinds: no switch over *schema_j5pb.Field_X kinds found in scalarReflectFromGo")
		return
	}
	wrongFor := func(kind string) []string {
		num := []string{"encoding/json.Number", "int", "int8", "int16", "int32", "int64", "uint", "uint8", "uint16", "uint32", "uint64", "float32", "float64"}
		switch kind {
		case "Field_Bool":
			return append([]string{"string"}, num...)
		case "Field_String_", "Field_Key", "Field_Bytes", "Field_Timestamp", "Field_Date":
			return append([]string{"bool"}, num...)
		}
		return nil
	}
	n := 0
	for _, st := range kindSwitch.Body.List {
		cc := st.(*ast.CaseClause)
		for _, e := range cc.List {
			kind := fieldKindName(info.TypeOf(e))
			if kind == "" || kind == "Field_Any" {
				continue
			}
			// Go types accepted by value switches inside the arm (helpers included)
			accepted := map[string]bool{}
			for _, body := range cc.Body {
				core.InspectTree(pk, body, func(x ast.Node) bool {
					ts, ok := x.(*ast.TypeSwitchStmt)
					if !ok {
						return true
					}
					for _, c := range ts.Body.List {
						for _, te := range c.(*ast.CaseClause).List {
							t := info.TypeOf(te)
							if t == nil || fieldKindName(t) != "" {
								continue
							}
							accepted[strings.TrimPrefix(core.TypeStr(t), "*")] = true
						}
					}
					return true
				})
			}
			if len(accepted) == 0 {
				continue // kinds handled without a switch over the Go value (enum names …)
			}
			n++
			var got []string
			for t := range accepted {
				got = append(got, t)
			}
			sort.Strings(got)
			o := r.Add("R-FLOW/kinds", "j5reflect.scalarReflectFromGo | "+kind+" | strict", cc.Pos(), "Go types accepted for "+kind)
			var bad []string
			for _, w := range wrongFor(kind) {
				if accepted[w] {
					bad = append(bad, w)
				}
			}
			if len(bad) > 0 {
				o.Fail("the %s arm accepts %s: a JSON token of the wrong type for this field is coerced instead of rejected", kind, strings.Join(bad, ", "))
			} else {
				o.Auto("accepts %s", strings.Join(got, ", "))
			}
			o2 := r.Add("R-FLOW/kinds", "j5reflect.scalarReflectFromGo | "+kind+" | query", cc.Pos(), "text spelling of "+kind+" for query parameters")
			switch {
			case accepted["string"]:
				o2.Auto("the arm accepts the text form")
			case queryKinds[kind]:
				o2.Auto("decodeQuery converts the parameter text for this kind itself")
			default:
				o2.Fail("the %s arm accepts no string and decodeQuery does not convert the text for this kind: a %s scalar cannot be supplied as a URL query parameter", kind, strings.TrimPrefix(strings.TrimSuffix(kind, "_"), "Field_"))
			}
		}
	}
	r.Analysed["scalar_kind_arms"] = n
	r.Floor("R-FLOW/kinds", 16, "two clauses for each of bool, string, key, integer, float, bytes, timestamp, decimal, date")
}

// fieldKindName: "Field_Bool" for *schema_j5pb.Field_Bool, "" otherwise.
func fieldKindName(t types.Type) string {
	if t == nil {
		return ""
	}
	s := core.TypeStr(t)
	i := strings.LastIndex(s, "schema_j5pb.Field_")
	if i < 0 || !strings.HasPrefix(s, "*") {
		return ""
	}
	return s[i+len("schema_j5pb."):]
}

// floatBits (R-FLOW/F2f): text of a FLOAT32 field is parsed with 32 bits.
// Parsed as a float64 and narrowed afterwards, the shortest text of the
// largest float32 (3.4028235e+38) lies above float64(MaxFloat32) and is
// rejected as out of range, and a few values round twice.
func floatBits(r *core.Run) {
	r.Rule("R-FLOW/F2f", "in the Field_Float arm of scalarReflectFromGo (helpers included), which stores FLOAT32 fields with ValueOfFloat32: every text parse (strconv.ParseFloat, json.Number.Float64) either takes a bit-size variable that is set to 32 under a test for the FLOAT32 format, or sits itself under such a test with the constant 32; a parse fixed at 64 bits feeds both formats")
	fd, pk := r.P.FuncDecl("lib/j5reflect", "scalarReflectFromGo")
	if fd == nil {
		r.Fatal("anchor: j5reflect.scalarReflectFromGo not found")
		return
	}
	info := pk.TypesInfo
	var arm *ast.CaseClause
	ast.Inspect(fd.Body, func(n ast.Node) bool {
		if cc, ok := n.(*ast.CaseClause); ok && arm == nil {
			for _, e := range cc.List {
				if fieldKindName(info.TypeOf(e)) == "Field_Float" {
					arm = cc
				}
			}
		}
		return true
	})
	if arm == nil {
		r.Fatal("R-FLOW/F2f: no Field_Float arm in scalarReflectFromGo")
		return
	}
	stores32 := false
	type parse struct {
		call *ast.CallExpr
		bits ast.Expr // nil: fixed at 64 (Float64())
	}
	var parses []parse
	var roots []ast.Node
	for _, st := range arm.Body {
		roots = append(roots, core.TreeOf(pk, st, 3)...)
	}
	for _, root := range roots {
		ast.Inspect(root, func(n ast.Node) bool {
			c, ok := n.(*ast.CallExpr)
			if !ok {
				return true
			}
			switch name := core.CalleeName(info, c); {
			case strings.HasSuffix(name, "protoreflect.ValueOfFloat32"):
				stores32 = true
			case name == "strconv.ParseFloat" && len(c.Args) == 2:
				parses = append(parses, parse{c, c.Args[1]})
			case name == "(encoding/json.Number).Float64":
				parses = append(parses, parse{c, nil})
			}
			return true
		})
	}
	if !stores32 {
		return
	}
	// is e known to be 32 for the FLOAT32 format?
	is32Const := func(e ast.Expr) bool {
		k, ok := core.ConstInt(info, e)
		return ok && k == 32
	}
	underFloat32 := func(n ast.Node) bool {
		for _, root := range roots {
			for _, rg := range core.GuardedRegions(root) {
				if len(rg.Body) == 0 || !(rg.Body[0].Pos() <= n.Pos() && n.End() <= rg.Body[len(rg.Body)-1].End()) {
					continue
				}
				if _, c, ok := core.EqConst(info, rg.Cond); ok {
					if obj := core.UsedObj(info, c); obj != nil && strings.HasSuffix(obj.Name(), "FORMAT_FLOAT32") {
						return true
					}
				}
			}
		}
		return false
	}
	for i, p := range parses {
		_ = i
		o := r.Add("R-FLOW/F2f", "j5reflect.scalarReflectFromGo | Field_Float | "+core.NormExpr(info, p.call.Fun)+" bits", p.call.Pos(), "bit size of the float text parse")
		switch {
		case p.bits == nil:
			o.Fail("json.Number.Float64 parses with 64 bits whatever the format: for a FLOAT32 field the text of the largest float32 is then out of range and some values round twice")
		case is32Const(p.bits):
			if underFloat32(p.call) {
				o.Auto("32 bits under the FLOAT32 test")
			} else {
				o.Fail("parsed with 32 bits outside a test for the FLOAT32 format")
			}
		default:
			if k, isConst := core.ConstInt(info, p.bits); isConst {
				if underFloat32(p.call) {
					o.Fail("parsed with %d bits under the FLOAT32 test", k)
				} else {
					o.Fail("parsed with the constant %d bits for every format: for a FLOAT32 field the shortest text of the largest float32 (3.4028235e+38) is rejected as out of range, and some values round twice", k)
				}
				continue
			}
			id, ok := core.Unparen(p.bits).(*ast.Ident)
			set32 := false
			if ok {
				obj := info.ObjectOf(id)
				for _, root := range roots {
					ast.Inspect(root, func(n ast.Node) bool {
						as, isAs := n.(*ast.AssignStmt)
						if !isAs || len(as.Lhs) != len(as.Rhs) {
							return true
						}
						for j, l := range as.Lhs {
							if lid, isID := l.(*ast.Ident); isID && info.ObjectOf(lid) == obj && is32Const(as.Rhs[j]) && underFloat32(as) {
								set32 = true
							}
						}
						return true
					})
				}
			}
			if set32 {
				o.Auto("bit size %s, set to 32 under the FLOAT32 test", core.ExprStr(p.bits))
			} else {
				o.Fail("the bit size %s is not shown to be 32 for the FLOAT32 format", core.ExprStr(p.bits))
			}
		}
	}
	r.Floor("R-FLOW/F2f", 1, "the text parses of the float arm")
}

// dateExists (R-ERR/E4d): a date text is accepted only when the date exists.
// Three numbers separated by dashes are not a date: month 13, February 30 or a
// year beyond the int32 the message holds must be rejected, not stored.
func dateExists(r *core.Run) {
	r.Rule("R-ERR/E4d", "date_j5t.DateFromString (helpers included) rejects text that is not an existing date: it parses with time.Parse and the layout 2006-01-02, or builds a time.Date from the three numbers and returns an error when the Month() or Day() of the result differ from them (time.Date normalises a date that does not exist into another one)")
	fd, pk := r.P.FuncDecl("j5types/date_j5t", "DateFromString")
	if fd == nil {
		r.Fatal("anchor: date_j5t.DateFromString not found")
		return
	}
	info := pk.TypesInfo
	o := r.Add("R-ERR/E4d", "date_j5t.DateFromString | the date exists", fd.Pos(), "validation of the parsed date")
	how := ""
	core.InspectTree(pk, fd.Body, func(n ast.Node) bool {
		switch x := n.(type) {
		case *ast.CallExpr:
			if core.CalleeName(info, x) == "time.Parse" && len(x.Args) == 2 {
				if lay, ok := core.ConstString(info, x.Args[0]); ok && lay == "2006-01-02" {
					how = "time.Parse with the layout 2006-01-02"
				}
			}
		case *ast.IfStmt:
			month, day := false, false
			ast.Inspect(x.Cond, func(y ast.Node) bool {
				if c, ok := y.(*ast.CallExpr); ok {
					switch core.CalleeName(info, c) {
					case "(time.Time).Month":
						month = true
					case "(time.Time).Day":
						day = true
					}
				}
				return true
			})
			if month && day && len(x.Body.List) > 0 {
				if ret, ok := x.Body.List[len(x.Body.List)-1].(*ast.ReturnStmt); ok && len(ret.Results) > 0 && !core.IsNilIdent(info, ret.Results[len(ret.Results)-1]) {
					how = "the components are compared with the Month() and Day() of the normalised time.Date"
				}
			}
		}
		return true
	})
	if how != "" {
		o.Auto("%s", how)
	} else {
		o.Fail("three numbers are stored as they come: \"2020-13-45\" and \"2020-02-30\" decode to dates that do not exist, and a year beyond int32 wraps")
	}
}

// timestampInRange (R-ERR/E4t): RFC3339 text can name instants a protobuf
// Timestamp cannot hold (year 0000; the type starts at 0001-01-01). A decoder
// that stores such a value produces a message other code rejects as invalid.
// Every function of lib/j5reflect that turns parsed text (time.Parse) into a
// Timestamp (timestamppb.New) has to ask the result whether it is valid and
// return the error.
func timestampInRange(r *core.Run) {
	r.Rule("R-ERR/E4t", "in lib/j5reflect every function that calls time.Parse and builds a message with timestamppb.New calls CheckValid on that message in an `if` whose body returns a non-nil error: an instant outside the range of google.protobuf.Timestamp is an invalid timestamp and is rejected")
	pk := r.P.Pkg("lib/j5reflect")
	if pk == nil {
		r.Fatal("anchor: package lib/j5reflect not found")
		return
	}
	info := pk.TypesInfo
	n := 0
	core.AllFuncDecls(pk, func(fd *ast.FuncDecl) {
		if fd.Body == nil {
			return
		}
		parses := false
		var made []*ast.AssignStmt
		ast.Inspect(fd.Body, func(x ast.Node) bool {
			switch y := x.(type) {
			case *ast.CallExpr:
				if core.CalleeName(info, y) == "time.Parse" {
					parses = true
				}
			case *ast.AssignStmt:
				if len(y.Lhs) == 1 && len(y.Rhs) == 1 {
					if c, ok := core.Unparen(y.Rhs[0]).(*ast.CallExpr); ok && core.CalleeName(info, c) == "google.golang.org/protobuf/types/known/timestamppb.New" {
						made = append(made, y)
					}
				}
			}
			return true
		})
		if !parses {
			return
		}
		for _, as := range made {
			n++
			o := r.Add("R-ERR/E4t", "lib/j5reflect."+core.FuncName(fd)+" | parsed timestamp is in range", as.Pos(), "range check of a parsed timestamp")
			id, _ := as.Lhs[0].(*ast.Ident)
			ok := false
			if id != nil {
				obj := info.ObjectOf(id)
				ast.Inspect(fd.Body, func(x ast.Node) bool {
					is, isIf := x.(*ast.IfStmt)
					if !isIf || is.Pos() < as.Pos() {
						return true
					}
					checks := false
					ast.Inspect(is, func(m ast.Node) bool {
						if m == is.Body {
							return false
						}
						if c, isCall := m.(*ast.CallExpr); isCall {
							if sel, isSel := c.Fun.(*ast.SelectorExpr); isSel && (sel.Sel.Name == "CheckValid" || sel.Sel.Name == "IsValid") {
								if rid, isID := core.Unparen(sel.X).(*ast.Ident); isID && info.ObjectOf(rid) == obj {
									checks = true
								}
							}
						}
						return true
					})
					if checks && len(is.Body.List) > 0 {
						if rs, isRet := is.Body.List[len(is.Body.List)-1].(*ast.ReturnStmt); isRet && len(rs.Results) > 0 && !core.IsNilIdent(info, rs.Results[len(rs.Results)-1]) {
							ok = true
						}
					}
					return true
				})
				// `err = ts.CheckValid()` directly followed by `if err != nil { return …, err }`
				ast.Inspect(fd.Body, func(x ast.Node) bool {
					blk, isBlk := x.(*ast.BlockStmt)
					if !isBlk {
						return true
					}
					for i, st := range blk.List {
						asg, isAs := st.(*ast.AssignStmt)
						if !isAs || len(asg.Lhs) != 1 || len(asg.Rhs) != 1 || i+1 >= len(blk.List) {
							continue
						}
						c, isCall := core.Unparen(asg.Rhs[0]).(*ast.CallExpr)
						if !isCall {
							continue
						}
						sel, isSel := c.Fun.(*ast.SelectorExpr)
						if !isSel || (sel.Sel.Name != "CheckValid" && sel.Sel.Name != "IsValid") {
							continue
						}
						if rid, isID := core.Unparen(sel.X).(*ast.Ident); !isID || info.ObjectOf(rid) != obj {
							continue
						}
						nx, isIf := blk.List[i+1].(*ast.IfStmt)
						if !isIf || len(nx.Body.List) == 0 {
							continue
						}
						b, isBin := core.Unparen(nx.Cond).(*ast.BinaryExpr)
						if !isBin || b.Op != token.NEQ || core.ExprStr(b.X) != core.ExprStr(asg.Lhs[0]) || !core.IsNilIdent(info, b.Y) {
							continue
						}
						if rs, isRet := nx.Body.List[len(nx.Body.List)-1].(*ast.ReturnStmt); isRet && len(rs.Results) > 0 && !core.IsNilIdent(info, rs.Results[len(rs.Results)-1]) {
							ok = true
						}
					}
					return true
				})
			}
			if ok {
				o.Auto("CheckValid is consulted and its error returned")
			} else {
				o.Fail("the Timestamp built from parsed text is stored without asking whether it is valid: \"0000-01-01T00:00:00Z\" decodes to seconds below the minimum of google.protobuf.Timestamp instead of being rejected as an invalid timestamp")
			}
		}
	})
	if n == 0 {
		r.Fatal("R-ERR/E4t: no function of lib/j5reflect parses text into a Timestamp (timestampFromString)")
	}
}

// documentEnds (R-ERR/E4e): a document is one JSON value. encoding/json's
// token reader stops after the closing brace of the root object; text that
// follows (`{…} garbage`, a second object) is neither decoded nor rejected
// unless the decoder asks for the next token and accepts io.EOF only.
func documentEnds(r *core.Run) {
	r.Rule("R-ERR/E4e", "every function of internal/codec that creates a json.Decoder for a document compares an error of that decoder with io.EOF after decoding the root value, and no return hands back the result of the root decode directly (which would skip that comparison): trailing data after the document is rejected")
	pk := r.P.Pkg(codecRel)
	if pk == nil {
		r.Fatal("anchor: package %s not found", codecRel)
		return
	}
	info := pk.TypesInfo
	n := 0
	core.AllFuncDecls(pk, func(fd *ast.FuncDecl) {
		if fd.Body == nil {
			return
		}
		var mk *ast.CallExpr
		ast.Inspect(fd.Body, func(x ast.Node) bool {
			if c, ok := x.(*ast.CallExpr); ok && core.CalleeName(info, c) == "encoding/json.NewDecoder" {
				mk = c
			}
			return true
		})
		if mk == nil {
			return
		}
		n++
		o := r.Add("R-ERR/E4e", codecRel+"."+core.FuncName(fd)+" | nothing follows the document", mk.Pos(), "end of the document")
		eof := false
		var bypass *ast.ReturnStmt
		core.InspectTree(pk, fd.Body, func(x ast.Node) bool {
			if is, ok := x.(*ast.IfStmt); ok {
				ast.Inspect(is.Cond, func(m ast.Node) bool {
					if s, ok := m.(*ast.SelectorExpr); ok && s.Sel.Name == "EOF" {
						if o := info.ObjectOf(s.Sel); o != nil && o.Pkg() != nil && o.Pkg().Path() == "io" {
							eof = true
						}
					}
					return true
				})
			}
			return true
		})
		ast.Inspect(fd.Body, func(x ast.Node) bool {
			switch y := x.(type) {
			case *ast.IfStmt:
				ast.Inspect(y.Cond, func(m ast.Node) bool {
					if s, ok := m.(*ast.SelectorExpr); ok && s.Sel.Name == "EOF" {
						if o := info.ObjectOf(s.Sel); o != nil && o.Pkg() != nil && o.Pkg().Path() == "io" {
							eof = true
						}
					}
					return true
				})
			case *ast.ReturnStmt:
				for _, res := range y.Results {
					if c, ok := core.Unparen(res).(*ast.CallExpr); ok {
						if fn := core.CalleeFunc(info, c); fn != nil && fn.Pkg() == pk.Types {
							if sig, ok := fn.Type().(*types.Signature); ok && sig.Recv() != nil && strings.HasSuffix(core.TypeStr(sig.Recv().Type()), "codec.decoder") {
								bypass = y
							}
						}
					}
				}
			}
			return true
		})
		switch {
		case bypass != nil:
			o.Pos = r.P.Rel(bypass.Pos())
			o.Fail("the result of the root decode is returned directly: whatever follows the root value (`{…} garbage`, a second document) is silently ignored")
		case !eof:
			o.Fail("the decoder is never asked whether the input ends after the root value (no comparison with io.EOF): trailing data is silently ignored")
		default:
			o.Auto("the token after the root value must be io.EOF")
		}
	})
	if n == 0 {
		r.Fatal("R-ERR/E4e: no function of %s creates a json.Decoder", codecRel)
	}
}

// nullArmNotCounted (R-ERR/E4n): "explicit nulls for absent members" are a
// documented spelling of absence. In a oneof the decoder counts the keys it
// met and rejects more than one; a key whose value is null must not be
// counted, or {"a": null, "b": 1} is rejected although it names one arm.
func nullArmNotCounted(r *core.Run) {
	r.Rule("R-ERR/E4n", "in decoder.decodeOneofInner the statement that adds a member's key to the list whose length decides `more than one key` runs only where the member is known to hold a value: it lies inside an `if` on the matched property's IsSet() placed after the value was decoded (a null decodes to nothing)")
	fd, pk := r.P.FuncDecl(codecRel, "decoder.decodeOneofInner")
	if fd == nil {
		r.Fatal("anchor: codec.decoder.decodeOneofInner not found")
		return
	}
	info := pk.TypesInfo
	// the counted list: the captured []string the member callback appends its key parameter to
	var counted types.Object
	ast.Inspect(fd.Body, func(n ast.Node) bool {
		fl, ok := n.(*ast.FuncLit)
		if !ok || fl.Type.Params == nil || len(fl.Type.Params.List) != 1 || len(fl.Type.Params.List[0].Names) != 1 {
			return true
		}
		kobj := info.ObjectOf(fl.Type.Params.List[0].Names[0])
		if b, ok := kobj.Type().Underlying().(*types.Basic); !ok || b.Kind() != types.String {
			return true
		}
		ast.Inspect(fl.Body, func(m ast.Node) bool {
			as, ok := m.(*ast.AssignStmt)
			if !ok || len(as.Lhs) != 1 || len(as.Rhs) != 1 {
				return true
			}
			c, ok := core.Unparen(as.Rhs[0]).(*ast.CallExpr)
			if !ok || core.CalleeName(info, c) != "builtin.append" || len(c.Args) != 2 {
				return true
			}
			if id, ok := core.Unparen(c.Args[1]).(*ast.Ident); !ok || info.ObjectOf(id) != kobj {
				return true
			}
			if id, ok := as.Lhs[0].(*ast.Ident); ok {
				if v := info.ObjectOf(id); v != nil && !(fl.Pos() <= v.Pos() && v.Pos() <= fl.End()) {
					counted = v
				}
			}
			return true
		})
		return true
	})
	o := r.Add("R-ERR/E4n", codecRel+".decoder.decodeOneofInner | null members are not counted", fd.Pos(), "which keys count towards `more than one key`")
	if counted == nil {
		o.Fail("the list of keys the member callback collects was not found")
		return
	}
	var stack []ast.Node
	found, guarded := false, false
	ast.Inspect(fd.Body, func(n ast.Node) bool {
		if n == nil {
			stack = stack[:len(stack)-1]
			return true
		}
		stack = append(stack, n)
		as, ok := n.(*ast.AssignStmt)
		if !ok || len(as.Lhs) != 1 || len(as.Rhs) != 1 {
			return true
		}
		id, ok := as.Lhs[0].(*ast.Ident)
		if !ok || info.ObjectOf(id) != counted {
			return true
		}
		c, ok := core.Unparen(as.Rhs[0]).(*ast.CallExpr)
		if !ok || core.CalleeName(info, c) != "builtin.append" {
			return true
		}
		found = true
		o.Pos = r.P.Rel(as.Pos())
		for _, anc := range stack {
			is, ok := anc.(*ast.IfStmt)
			if !ok || !(is.Body.Pos() <= as.Pos() && as.End() <= is.Body.End()) {
				continue
			}
			ast.Inspect(is.Cond, func(m ast.Node) bool {
				if call, ok := m.(*ast.CallExpr); ok {
					if sel, ok := call.Fun.(*ast.SelectorExpr); ok && sel.Sel.Name == "IsSet" && strings.HasSuffix(core.TypeStr(info.TypeOf(sel.X)), "j5reflect.Property") {
						// the value was decoded before the test
						decodedBefore := false
						ast.Inspect(fd.Body, func(k ast.Node) bool {
							if dc, ok := k.(*ast.CallExpr); ok && dc.End() <= is.Pos() && strings.HasSuffix(core.CalleeName(info, dc), "decoder).decodeValue") {
								decodedBefore = true
							}
							return true
						})
						if decodedBefore {
							guarded = true
						}
					}
				}
				return true
			})
		}
		return true
	})
	switch {
	case !found:
		o.Fail("no append to the counted list found")
	case guarded:
		o.Auto("the key is counted only when the member holds a value after decoding")
	default:
		o.Fail("every key is counted, also one whose value is null: {\"a\": null, \"b\": 1} is rejected as `multiple keys` although an explicit null is the documented spelling of an absent member")
	}
}

// queryOrderFree (R-DET/N1 over the query decoder): url.Values is a map. The
// parameters of one request are applied one after the other — a parameter
// addresses a member of a container another parameter may create or fill, and
// the first error ends the call — so the order in which they are applied is
// visible in the result. It must not be the iteration order of the map.
func queryOrderFree(r *core.Run, sc *rules.Scope) {
	sub := *sc
	sub.Funcs = nil
	for _, f := range sc.Funcs {
		if f.Pkg.PkgPath == core.Module+"/"+codecRel && strings.HasSuffix(r.P.Fset.Position(f.Node.Pos()).Filename, "/query.go") {
			sub.Funcs = append(sub.Funcs, f)
		}
	}
	if len(sub.Funcs) == 0 {
		r.Fatal("R-DET/N1: the query decoder (internal/codec/query.go) is not in scope")
		return
	}
	rules.Determinism(r, &sub, "det_sites")
}

// containersOpenStrictly (R-ERR/E4o): `null` is the documented spelling of an
// *absent member*. Where the thing being decoded already exists — an element
// appended to an array, a value created in a map, the root message — there is
// nothing to be absent, and a null there is a member that cannot be
// represented: it has to be rejected, not stored as an empty object. The
// decoder's functions come in two kinds: those that are given a Property
// (they may skip a null before they create the field) and those that are
// given the container itself (PropertySet / Oneof). The second kind must
// never reach the null-tolerant opener.
func containersOpenStrictly(r *core.Run) {
	r.Rule("R-ERR/E4o", "a function of internal/codec that decodes braces into a container it is handed ready-made (a parameter of interface type j5reflect.PropertySet or j5reflect.Oneof, and its call tree reads a '{') does not reach the opener that accepts null (the function that returns `isNull bool`): null for an array element, a map value or the document is rejected")
	pk := r.P.Pkg(codecRel)
	if pk == nil {
		r.Fatal("anchor: package %s not found", codecRel)
		return
	}
	info := pk.TypesInfo
	// the null-tolerant opener: a method of decoder with results (bool, error)
	lenient := map[*types.Func]bool{}
	strict := map[*types.Func]bool{}
	core.AllFuncDecls(pk, func(fd *ast.FuncDecl) {
		fn, _ := info.Defs[fd.Name].(*types.Func)
		if fn == nil || fd.Recv == nil || fd.Type.Params == nil || len(fd.Type.Params.List) != 1 {
			return
		}
		if core.TypeStr(info.TypeOf(fd.Type.Params.List[0].Type)) != "rune" {
			return
		}
		sig := fn.Type().(*types.Signature)
		switch sig.Results().Len() {
		case 2:
			if b, ok := sig.Results().At(0).Type().Underlying().(*types.Basic); ok && b.Kind() == types.Bool {
				lenient[fn] = true
			}
		case 1:
			strict[fn] = true
		}
	})
	if len(lenient) == 0 || len(strict) == 0 {
		r.Fatal("R-ERR/E4o: the strict and the null-tolerant delimiter readers of the decoder were not found")
		return
	}
	n := 0
	core.AllFuncDecls(pk, func(fd *ast.FuncDecl) {
		if fd.Body == nil || fd.Type.Params == nil {
			return
		}
		takes := false
		for _, p := range fd.Type.Params.List {
			ts := core.TypeStr(info.TypeOf(p.Type))
			if strings.HasSuffix(ts, "j5reflect.PropertySet") || strings.HasSuffix(ts, "j5reflect.Oneof") {
				takes = true
			}
		}
		if !takes {
			return
		}
		var viaLenient, viaStrict ast.Node
		for _, d := range core.TreeDecls(pk, fd, 2) {
			if d != fd {
				// a callee that itself takes a Property decides for the property it is given
				skip := false
				if d.Type.Params != nil {
					for _, p := range d.Type.Params.List {
						if strings.HasSuffix(core.TypeStr(info.TypeOf(p.Type)), "j5reflect.Property") {
							skip = true
						}
					}
				}
				if skip {
					continue
				}
			}
			ast.Inspect(d.Body, func(m ast.Node) bool {
				if _, isLit := m.(*ast.FuncLit); isLit {
					return false // the member callbacks decode members, each with its own opener
				}
				if c, ok := m.(*ast.CallExpr); ok {
					if fn := core.CalleeFunc(info, c); fn != nil {
						if lenient[fn.Origin()] && viaLenient == nil {
							viaLenient = c
						}
						if strict[fn.Origin()] && viaStrict == nil {
							viaStrict = c
						}
					}
				}
				return true
			})
		}
		if viaLenient == nil && viaStrict == nil {
			return // reads no braces itself (decodeObjectInner)
		}
		n++
		o := r.Add("R-ERR/E4o", codecRel+"."+core.FuncName(fd)+" | opens its container strictly", fd.Pos(), "opener used for a ready-made container")
		if viaLenient != nil {
			o.Pos = r.P.Rel(viaLenient.Pos())
			o.Fail("the container exists already (it was appended to its array, created in its map, or is the root message) and the opener accepts null: `[{…}, null]`, `{\"k\": null}` and the document `null` are stored as empty objects instead of being rejected")
		} else {
			o.Auto("only the strict '{' reader is reached")
		}
	})
	r.Floor("R-ERR/E4o", 2, "decodeObject, decodeOneof")
}

// presenceIsNotContent (R-SYM/presence): the decoder decides "this member was
// given" with Property.IsSet (the oneof key count, E4n), the encoder decides
// "this member is written" with it. Presence is that the member's field
// exists — `{}` for an object or a nested oneof is a given member with no
// content. Field.IsSet of a container means "has content". A Property.IsSet
// that asks the field makes an empty container absent: two arms of a oneof, one
// of them `{}`, are then accepted as one.
func presenceIsNotContent(r *core.Run) {
	r.Rule("R-SYM/presence", "the IsSet method of j5reflect's property type (the implementation behind Property.IsSet) does not call IsSet / HasAnyValue of the field it holds, directly or through helpers of the package: presence of a member does not depend on the member's content")
	fd, pk := r.P.FuncDecl("lib/j5reflect", "property.IsSet")
	if fd == nil || fd.Body == nil {
		r.Fatal("anchor: j5reflect.property.IsSet not found")
		return
	}
	info := pk.TypesInfo
	o := r.Add("R-SYM/presence", "lib/j5reflect.property.IsSet | presence does not ask the content", fd.Pos(), "meaning of Property.IsSet")
	var bad *ast.CallExpr
	core.InspectTree(pk, fd.Body, func(n ast.Node) bool {
		c, ok := n.(*ast.CallExpr)
		if !ok {
			return true
		}
		if s, ok := c.Fun.(*ast.SelectorExpr); ok && (s.Sel.Name == "IsSet" || s.Sel.Name == "HasAnyValue" || s.Sel.Name == "HasAvailableProperty") {
			if f := core.CalleeFunc(info, c); f != nil && f.Pkg() == pk.Types {
				bad = c
			}
		}
		return true
	})
	if bad != nil {
		o.Pos = r.P.Rel(bad.Pos())
		o.Fail("Property.IsSet asks the field (%s): for an object or a nested oneof that means \"has content\", so a member given as {} counts as absent — the decoder's one-key check of a oneof lets {\"a\":{},\"b\":…} through and the last arm silently replaces the other", core.NormExpr(info, bad))
	} else {
		o.Auto("decided by the presence flag alone")
	}
}
