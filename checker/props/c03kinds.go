package props

import (
	"go/ast"
	"go/types"
	"sort"
	"strings"

	"j5verif/checker/core"
)

// kindSpellings (R-FLOW/kinds): which Go values each scalar kind's setter arm
// accepts decides two clauses of the decoding contract at once.
//
//   - a JSON token of the wrong type is rejected: the decoder hands a JSON
//     string to the setter as a Go string, a number as json.Number (pre-converted
//     to int64 for integers), a boolean as bool. A bool field therefore must
//     not accept strings or numbers, and the text kinds (string, key, bytes,
//     timestamp, date) must not accept booleans or numbers.
//   - a scalar supplied as a URL query parameter arrives as text: every kind
//     either accepts a Go string in its arm, or the query decoder converts the
//     text for that kind before it calls the setter.
func kindSpellings(r *core.Run) {
	r.Rule("R-FLOW/kinds", "per scalar kind arm of scalarReflectFromGo (case *schema_j5pb.Field_X, including helpers it calls): (strict) the Go types its value switch accepts contain none that a JSON token of the wrong type decodes to — bool fields: no string, json.Number, integer or float type; string/key/bytes/timestamp/date fields: no bool, json.Number, integer or float type; (query) the arm accepts `string`, or decodeQuery (with its helpers) tests for that kind (`.(*schema_j5pb.Field_X)`) to convert the parameter text itself")
	fd, pk := r.P.FuncDecl("lib/j5reflect", "scalarReflectFromGo")
	if fd == nil {
		r.Fatal("anchor: j5reflect.scalarReflectFromGo not found")
		return
	}
	info := pk.TypesInfo
	// kinds the query decoder converts itself
	qfd, qpk := r.P.FuncDecl(codecRel, "Codec.decodeQuery")
	if qfd == nil {
		r.Fatal("anchor: codec.Codec.decodeQuery not found")
		return
	}
	queryKinds := map[string]bool{}
	core.InspectTree(qpk, qfd.Body, func(n ast.Node) bool {
		var te ast.Expr
		switch x := n.(type) {
		case *ast.TypeAssertExpr:
			te = x.Type
		case *ast.CaseClause:
			for _, e := range x.List {
				if k := fieldKindName(qpk.TypesInfo.TypeOf(e)); k != "" {
					queryKinds[k] = true
				}
			}
		}
		if te != nil {
			if k := fieldKindName(qpk.TypesInfo.TypeOf(te)); k != "" {
				queryKinds[k] = true
			}
		}
		return true
	})
	// the kind switch: the type switch of the function whose cases are Field_X wrappers
	var kindSwitch *ast.TypeSwitchStmt
	ast.Inspect(fd.Body, func(n ast.Node) bool {
		ts, ok := n.(*ast.TypeSwitchStmt)
		if !ok || kindSwitch != nil {
			return true
		}
		for _, st := range ts.Body.List {
			for _, e := range st.(*ast.CaseClause).List {
				if fieldKindName(info.TypeOf(e)) != "" {
					kindSwitch = ts
				}
			}
		}
		return true
	})
	if kindSwitch == nil {
		r.Fatal("R-FLOW/kinds: no switch over *schema_j5pb.Field_X kinds found in scalarReflectFromGo")
		return
	}
	wrongFor := func(kind string) []string {
		num := []string{"encoding/json.Number", "int", "int8", "int16", "int32", "int64", "uint", "uint8", "uint16", "uint32", "uint64", "float32", "float64"}
		switch kind {
		case "Field_Bool":
			return append([]string{"string"}, num...)
		case "Field_String_", "Field_Key", "Field_Bytes", "Field_Timestamp", "Field_Date":
			return append([]string{"bool"}, num...)
		}
		return nil
	}
	n := 0
	for _, st := range kindSwitch.Body.List {
		cc := st.(*ast.CaseClause)
		for _, e := range cc.List {
			kind := fieldKindName(info.TypeOf(e))
			if kind == "" || kind == "Field_Any" {
				continue
			}
			// Go types accepted by value switches inside the arm (helpers included)
			accepted := map[string]bool{}
			for _, body := range cc.Body {
				core.InspectTree(pk, body, func(x ast.Node) bool {
					ts, ok := x.(*ast.TypeSwitchStmt)
					if !ok {
						return true
					}
					for _, c := range ts.Body.List {
						for _, te := range c.(*ast.CaseClause).List {
							t := info.TypeOf(te)
							if t == nil || fieldKindName(t) != "" {
								continue
							}
							accepted[strings.TrimPrefix(core.TypeStr(t), "*")] = true
						}
					}
					return true
				})
			}
			if len(accepted) == 0 {
				continue // kinds handled without a switch over the Go value (enum names …)
			}
			n++
			var got []string
			for t := range accepted {
				got = append(got, t)
			}
			sort.Strings(got)
			o := r.Add("R-FLOW/kinds", "j5reflect.scalarReflectFromGo | "+kind+" | strict", cc.Pos(), "Go types accepted for "+kind)
			var bad []string
			for _, w := range wrongFor(kind) {
				if accepted[w] {
					bad = append(bad, w)
				}
			}
			if len(bad) > 0 {
				o.Fail("the %s arm accepts %s: a JSON token of the wrong type for this field is coerced instead of rejected", kind, strings.Join(bad, ", "))
			} else {
				o.Auto("accepts %s", strings.Join(got, ", "))
			}
			o2 := r.Add("R-FLOW/kinds", "j5reflect.scalarReflectFromGo | "+kind+" | query", cc.Pos(), "text spelling of "+kind+" for query parameters")
			switch {
			case accepted["string"]:
				o2.Auto("the arm accepts the text form")
			case queryKinds[kind]:
				o2.Auto("decodeQuery converts the parameter text for this kind itself")
			default:
				o2.Fail("the %s arm accepts no string and decodeQuery does not convert the text for this kind: a %s scalar cannot be supplied as a URL query parameter", kind, strings.TrimPrefix(strings.TrimSuffix(kind, "_"), "Field_"))
			}
		}
	}
	r.Analysed["scalar_kind_arms"] = n
	r.Floor("R-FLOW/kinds", 16, "two clauses for each of bool, string, key, integer, float, bytes, timestamp, decimal, date")
}

// fieldKindName: "Field_Bool" for *schema_j5pb.Field_Bool, "" otherwise.
func fieldKindName(t types.Type) string {
	if t == nil {
		return ""
	}
	s := core.TypeStr(t)
	i := strings.LastIndex(s, "schema_j5pb.Field_")
	if i < 0 || !strings.HasPrefix(s, "*") {
		return ""
	}
	return s[i+len("schema_j5pb."):]
}
