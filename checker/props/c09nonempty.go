package props

import (
	"go/ast"
	"go/token"
	"go/types"
	"strings"

	"j5verif/checker/core"
)

// statementsRenderSomething (R-COVER/nonempty): the formatter turns every
// statement into one fragment of text. A fragment built by joining a list of
// lines is a bare newline when the list is empty — the statement is gone from
// the output and what is left is an ordinary blank line, which the next run
// treats by the blank-line rules. Every list of lines handed to the multi-line
// emitter that comes out of a function call is therefore known to be
// non-empty at the call.
func statementsRenderSomething(r *core.Run) {
	r.Rule("R-COVER/nonempty", "in the formatter, every []string that is computed by a call and handed to a function which joins it into the text of a fragment (strings.Join into FmtDiff.NewText) is preceded, between its definition and the hand-over, by `if len(x) == 0 { x = <non-empty literal> }` (or comes from a literal): a statement never renders to nothing")
	pk := r.P.Pkg(parserRel)
	if pk == nil {
		r.Fatal("anchor: package %s not found", parserRel)
		return
	}
	info := pk.TypesInfo
	// emitters: functions with a []string parameter that is the first argument of strings.Join
	emitters := map[*types.Func]int{}
	core.AllFuncDecls(pk, func(fd *ast.FuncDecl) {
		fn, _ := info.Defs[fd.Name].(*types.Func)
		if fn == nil || fd.Body == nil || fd.Type.Params == nil {
			return
		}
		idx := 0
		for _, p := range fd.Type.Params.List {
			for _, nm := range p.Names {
				obj := info.ObjectOf(nm)
				if sl, ok := obj.Type().Underlying().(*types.Slice); ok {
					if b, ok := sl.Elem().Underlying().(*types.Basic); ok && b.Kind() == types.String {
						joined := false
						ast.Inspect(fd.Body, func(n ast.Node) bool {
							if c, ok := n.(*ast.CallExpr); ok && core.CalleeName(info, c) == "strings.Join" && len(c.Args) == 2 {
								if id, ok := core.Unparen(c.Args[0]).(*ast.Ident); ok && info.ObjectOf(id) == obj {
									joined = true
								}
							}
							return true
						})
						if joined {
							emitters[fn] = idx
						}
					}
				}
				idx++
			}
		}
	})
	if len(emitters) == 0 {
		r.Fatal("R-COVER/nonempty: no function of %s joins a []string parameter into fragment text (multiLineToken)", parserRel)
		return
	}
	n := 0
	core.AllFuncDecls(pk, func(fd *ast.FuncDecl) {
		if fd.Body == nil {
			return
		}
		ast.Inspect(fd.Body, func(nd ast.Node) bool {
			c, ok := nd.(*ast.CallExpr)
			if !ok {
				return true
			}
			fn := core.CalleeFunc(info, c)
			if fn == nil {
				return true
			}
			ai, ok := emitters[fn.Origin()]
			if !ok || ai >= len(c.Args) {
				return true
			}
			arg := core.Unparen(c.Args[ai])
			n++
			o := r.Add("R-COVER/nonempty", parserRel+"."+core.FuncName(fd)+" | lines handed to "+fn.Name(), c.Pos(), "lines of a multi-line fragment")
			if cl, ok := arg.(*ast.CompositeLit); ok && len(cl.Elts) > 0 {
				o.Auto("a non-empty literal")
				return true
			}
			id, ok := arg.(*ast.Ident)
			if !ok {
				o.Fail("the list is computed in place: nothing shows that it is not empty")
				return true
			}
			obj := info.ObjectOf(id)
			guarded := false
			ast.Inspect(fd.Body, func(m ast.Node) bool {
				is, ok := m.(*ast.IfStmt)
				if !ok || is.End() > c.Pos() {
					return true
				}
				b, ok := core.Unparen(is.Cond).(*ast.BinaryExpr)
				if !ok || b.Op != token.EQL {
					return true
				}
				lc, ok := core.Unparen(b.X).(*ast.CallExpr)
				if !ok || core.CalleeName(info, lc) != "builtin.len" {
					return true
				}
				if lid, ok := core.Unparen(lc.Args[0]).(*ast.Ident); !ok || info.ObjectOf(lid) != obj {
					return true
				}
				if k, ok := core.ConstInt(info, b.Y); !ok || k != 0 {
					return true
				}
				for _, st := range is.Body.List {
					if as, ok := st.(*ast.AssignStmt); ok && len(as.Lhs) == 1 && len(as.Rhs) == 1 {
						if l, ok := as.Lhs[0].(*ast.Ident); ok && info.ObjectOf(l) == obj {
							if cl, ok := core.Unparen(as.Rhs[0]).(*ast.CompositeLit); ok && len(cl.Elts) > 0 {
								guarded = true
							}
						}
					}
				}
				return true
			})
			if guarded {
				o.Auto("an empty list is replaced by a non-empty one before the hand-over")
			} else {
				o.Fail("the list may be empty (a description without words re-flows to no lines): the fragment is then a bare newline, the statement disappears from the output and the next run removes or collapses the blank line it left — not the same document, not idempotent")
			}
			return true
		})
	})
	if n == 0 {
		r.Fatal("R-COVER/nonempty: no call of a multi-line emitter found")
	}
}

// descriptionWordsBySpace (R-CONST/words): a description is re-flowed word by
// word. What counts as a word has to agree with what survives a round trip:
// the emitter trims trailing blanks from every line and the lexer reads the
// text back without them, so runs of blanks, trailing blanks and tabs are not
// words. Splitting at every single space yields empty "words" for them, which
// count towards the line width on the first run and are gone on the second —
// the same description wraps differently the second time.
func descriptionWordsBySpace(r *core.Run) {
	r.Rule("R-CONST/words", "the function that re-flows a description takes the words of a line with strings.Fields (any run of white space separates, none is a word); strings.Split(line, \" \") makes empty words of repeated and trailing blanks, which count for the width once and vanish with the trim of the output")
	fd, pk := r.P.FuncDecl(parserRel, "reformatDescription")
	if fd == nil {
		r.Fatal("anchor: parser.reformatDescription not found")
		return
	}
	info := pk.TypesInfo
	n := 0
	core.InspectTree(pk, fd.Body, func(nd ast.Node) bool {
		rs, ok := nd.(*ast.RangeStmt)
		if !ok {
			return true
		}
		// the loop over words: its body appends / concatenates the element to the pending line
		src := core.Unparen(rs.X)
		if id, ok := src.(*ast.Ident); ok {
			if def := soleDefinition(info, id); def != nil {
				src = core.Unparen(def)
			}
		}
		c, ok := src.(*ast.CallExpr)
		if !ok {
			return true
		}
		name := core.CalleeName(info, c)
		switch name {
		case "strings.Fields":
			n++
			r.Add("R-CONST/words", parserRel+".reformatDescription | words of a line", c.Pos(), "splitting a description line into words").Auto("strings.Fields")
		case "strings.Split", "strings.SplitN":
			if sep, ok := core.ConstString(info, c.Args[1]); ok && sep == " " {
				n++
				r.Add("R-CONST/words", parserRel+".reformatDescription | words of a line", c.Pos(), "splitting a description line into words").Fail("words are split at every single space: a double or trailing blank (or a tab between blanks) becomes an empty word that counts for the width and disappears when the line is trimmed — formatting the output again wraps the description differently")
			}
		}
		return true
	})
	if n == 0 {
		r.Fatal("R-CONST/words: no loop over the words of a line found in reformatDescription")
	}
}

// headerDescriptionOneToken (R-SYM/headerdesc): the formatter prints a block
// header as one line of tokens and appends the tokens of the header's
// description to it as they are. Each DESCRIPTION token renders as `| text`,
// so two of them on one line read back as one description whose text contains
// a bar — other words than the source had. A description stored in a block
// header therefore holds exactly one token (a standalone description, which
// the formatter re-flows over lines, may hold many).
func headerDescriptionOneToken(r *core.Run) {
	r.Rule("R-SYM/headerdesc", "where the formatter appends <header>.Description.Tokens to the single line of a block header, every Description the parser stores in a BlockHeader is a literal whose Tokens is a one-element list: a header description of several tokens would be glued onto one line as `| a| b` and read back with other words")
	pk := r.P.Pkg(parserRel)
	if pk == nil {
		r.Fatal("anchor: package %s not found", parserRel)
		return
	}
	info := pk.TypesInfo
	// premise: the formatter spreads Description.Tokens into a token list
	premise := false
	core.AllFuncDecls(pk, func(fd *ast.FuncDecl) {
		if fd.Body == nil {
			return
		}
		ast.Inspect(fd.Body, func(n ast.Node) bool {
			c, ok := n.(*ast.CallExpr)
			if !ok || !c.Ellipsis.IsValid() || len(c.Args) == 0 {
				return true
			}
			if sel, ok := core.Unparen(c.Args[len(c.Args)-1]).(*ast.SelectorExpr); ok && sel.Sel.Name == "Tokens" {
				if inner, ok := core.Unparen(sel.X).(*ast.SelectorExpr); ok && inner.Sel.Name == "Description" {
					premise = true
				}
			}
			return true
		})
	})
	n := 0
	core.AllFuncDecls(pk, func(fd *ast.FuncDecl) {
		if fd.Body == nil {
			return
		}
		ast.Inspect(fd.Body, func(nd ast.Node) bool {
			as, ok := nd.(*ast.AssignStmt)
			if !ok || len(as.Lhs) != 1 || len(as.Rhs) != 1 {
				return true
			}
			l, ok := core.Unparen(as.Lhs[0]).(*ast.SelectorExpr)
			if !ok || l.Sel.Name != "Description" || !strings.HasSuffix(core.TypeStr(info.TypeOf(l.X)), "parser.BlockHeader") {
				return true
			}
			n++
			o := r.Add("R-SYM/headerdesc", parserRel+"."+core.FuncName(fd)+" | header description", as.Pos(), "description stored in a block header")
			if !premise {
				o.Auto("the formatter does not put the description's tokens on the header's line")
				return true
			}
			// &desc / &Description{…}
			rhs := core.Unparen(as.Rhs[0])
			if u, ok := rhs.(*ast.UnaryExpr); ok {
				rhs = core.Unparen(u.X)
			}
			if id, ok := rhs.(*ast.Ident); ok {
				// the one `desc := …` / `desc = …` of the local (its address is taken right here)
				obj := info.ObjectOf(id)
				var def ast.Expr
				defs := 0
				ast.Inspect(fd.Body, func(m ast.Node) bool {
					if das, ok := m.(*ast.AssignStmt); ok && len(das.Lhs) == len(das.Rhs) {
						for i, dl := range das.Lhs {
							if did, ok := dl.(*ast.Ident); ok && info.ObjectOf(did) == obj {
								def = das.Rhs[i]
								defs++
							}
						}
					}
					return true
				})
				rhs = nil
				if defs == 1 && def != nil {
					rhs = core.Unparen(def)
				}
			}
			cl, isLit := rhs.(*ast.CompositeLit)
			one := false
			if isLit {
				if tk := litKey(cl, "Tokens"); tk != nil {
					if tl, ok := core.Unparen(tk).(*ast.CompositeLit); ok && len(tl.Elts) == 1 {
						one = true
					}
				}
			}
			if one {
				o.Auto("a literal with a one-element token list")
			} else {
				o.Fail("the description stored in the header is not a literal with exactly one token (it comes from a function that may collect several `|` lines): the formatter puts all its tokens on the header's line, `| first| second`, and the text read back has other words")
			}
			return true
		})
	})
	r.Floor("R-SYM/headerdesc", 1, "walkStatement")
}

// tagMarksRendered (R-COVER/tagmark): tags and qualifiers of a block header are
// both TagValues and the parser reads both with popTag, which accepts a
// leading `!` or `?`. The formatter therefore renders every TagValue of the
// header through code that writes the mark: an element of a []TagValue list
// handed to a function whose call tree never reads the mark comes out without
// it — `a b:!c` becomes `a b:c`, another document.
func tagMarksRendered(r *core.Run) {
	r.Rule("R-COVER/tagmark", "in the formatter, inside every loop over a []TagValue field of a BlockHeader, each call that is handed the element reaches (within two levels of same-package callees) a read of the element type's Mark or MarkToken: the mark of a tag or qualifier is written back wherever the parser accepts one")
	pk := r.P.Pkg(parserRel)
	if pk == nil {
		r.Fatal("anchor: package %s not found", parserRel)
		return
	}
	info := pk.TypesInfo
	readsMark := func(fn *types.Func) bool {
		fd := core.DeclOf(pk, fn)
		if fd == nil {
			return false
		}
		hit := false
		for _, d := range core.TreeDecls(pk, fd, 2) {
			if d.Body == nil {
				continue
			}
			ast.Inspect(d.Body, func(n ast.Node) bool {
				if s, ok := n.(*ast.SelectorExpr); ok && (s.Sel.Name == "Mark" || s.Sel.Name == "MarkToken") && strings.HasSuffix(core.TypeStr(info.TypeOf(s.X)), "parser.TagValue") {
					hit = true
				}
				return !hit
			})
		}
		return hit
	}
	n := 0
	core.AllFuncDecls(pk, func(fd *ast.FuncDecl) {
		if fd.Body == nil || !strings.HasSuffix(r.P.Fset.Position(fd.Pos()).Filename, "fmt.go") && core.RecvName(fd) != "fmter" {
			return
		}
		ast.Inspect(fd.Body, func(nd ast.Node) bool {
			rs, ok := nd.(*ast.RangeStmt)
			if !ok {
				return true
			}
			sl, ok := info.TypeOf(rs.X).Underlying().(*types.Slice)
			if !ok || !strings.HasSuffix(core.TypeStr(sl.Elem()), "parser.TagValue") {
				return true
			}
			val, ok := rs.Value.(*ast.Ident)
			if !ok {
				return true
			}
			vobj := info.ObjectOf(val)
			n++
			o := r.Add("R-COVER/tagmark", parserRel+"."+core.FuncName(fd)+" | marks of "+core.NormExpr(info, rs.X), rs.Pos(), "rendering of "+core.ExprStr(rs.X))
			var bad *ast.CallExpr
			used := false
			ast.Inspect(rs.Body, func(m ast.Node) bool {
				c, ok := m.(*ast.CallExpr)
				if !ok {
					return true
				}
				for _, a := range c.Args {
					if id, ok := core.Unparen(a).(*ast.Ident); ok && info.ObjectOf(id) == vobj {
						used = true
						if fn := core.CalleeFunc(info, c); fn == nil || fn.Pkg() != pk.Types || !readsMark(fn.Origin()) {
							bad = c
						}
					}
				}
				return true
			})
			switch {
			case bad != nil:
				o.Pos = r.P.Rel(bad.Pos())
				o.Fail("the elements are rendered by %s, which never reads their mark: a `!` or `?` the parser accepted in this position is not written back, the formatted file denotes another document", core.ExprStr(bad.Fun))
			case !used:
				o.Fail("the elements are not handed to a rendering function in this loop")
			default:
				o.Auto("rendered through a function that writes the mark")
			}
			return true
		})
	})
	r.Floor("R-COVER/tagmark", 1, "tags and qualifiers in doBlockHeader (one loop when a helper renders both)")
}
