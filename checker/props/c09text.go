package props

import (
	"go/ast"
	"go/token"
	"go/types"
	"strings"

	"golang.org/x/tools/go/packages"

	"j5verif/checker/core"
)

// renderedTextOpaque (R-WHO/fmttext): the formatter decides layout from tokens
// and statements. Once a line is rendered into FmtDiff.NewText, statement text
// and free text (descriptions, strings, comments) cannot be told apart any
// more: a description line ending in "{" looks like a block opener. So the
// rendered text is only ever moved around or compared as a whole with the
// source lines it replaces; nothing looks inside it.
func renderedTextOpaque(r *core.Run) {
	r.Rule("R-WHO/fmttext", "every read of parser.FmtDiff.NewText in the module is a whole-value use — copied (assignment, composite literal, append, return), concatenated (+, +=) or compared for equality; it is never an argument of another function (strings.HasSuffix, len, a helper), indexed, sliced or ranged over: no layout decision reads back rendered text")
	n := 0
	for path, pk := range r.P.ByPkg {
		if !core.IsSource(path) {
			continue
		}
		pk := pk
		for _, f := range pk.Syntax {
			if strings.HasSuffix(r.P.Fset.Position(f.Pos()).Filename, "_test.go") {
				continue
			}
			forEachNewTextRead(pk, f, func(sel *ast.SelectorExpr, parent ast.Node, fd *ast.FuncDecl) {
				n++
				use, ok := wholeValueUse(pk.TypesInfo, sel, parent)
				name := "(file scope)"
				if fd != nil {
					name = core.FuncName(fd)
				}
				o := r.Add("R-WHO/fmttext", strings.TrimPrefix(path, core.Module+"/")+"."+name+" | NewText "+use, sel.Pos(), "read of rendered text ("+use+")")
				if ok {
					o.Auto("whole-value use: %s", use)
				} else {
					o.Fail("the rendered text is inspected (%s): text that came from a description, string or comment is taken for layout — a description ending in \"{\" or starting with \"}\" changes where blank lines go, and with them paragraph breaks", use)
				}
			})
		}
	}
	r.Floor("R-WHO/fmttext", 3, "Fmt, FmtDiffs, mergeSharedLines")
}

func forEachNewTextRead(pk *packages.Package, f *ast.File, visit func(sel *ast.SelectorExpr, parent ast.Node, fd *ast.FuncDecl)) {
	info := pk.TypesInfo
	var stack []ast.Node
	ast.Inspect(f, func(n ast.Node) bool {
		if n == nil {
			stack = stack[:len(stack)-1]
			return true
		}
		stack = append(stack, n)
		sel, ok := n.(*ast.SelectorExpr)
		if !ok || sel.Sel.Name != "NewText" {
			return true
		}
		v, ok := info.Uses[sel.Sel].(*types.Var)
		if !ok || !v.IsField() || v.Pkg() == nil || !strings.HasSuffix(v.Pkg().Path(), "internal/bcl/internal/parser") {
			return true
		}
		parent := stack[len(stack)-2]
		// skip parentheses
		for i := len(stack) - 2; i >= 0; i-- {
			if _, isParen := stack[i].(*ast.ParenExpr); !isParen {
				parent = stack[i]
				break
			}
		}
		// pure writes are not reads
		if as, ok := parent.(*ast.AssignStmt); ok && as.Tok == token.ASSIGN {
			for _, l := range as.Lhs {
				if core.Unparen(l) == ast.Expr(sel) {
					return true
				}
			}
		}
		var fd *ast.FuncDecl
		for _, s := range stack {
			if d, ok := s.(*ast.FuncDecl); ok {
				fd = d
			}
		}
		visit(sel, parent, fd)
		return true
	})
}

func wholeValueUse(info *types.Info, sel *ast.SelectorExpr, parent ast.Node) (string, bool) {
	switch p := parent.(type) {
	case *ast.AssignStmt:
		if p.Tok == token.ADD_ASSIGN {
			return "concatenated", true
		}
		return "copied", true
	case *ast.KeyValueExpr, *ast.CompositeLit, *ast.ReturnStmt, *ast.ValueSpec:
		return "copied", true
	case *ast.BinaryExpr:
		switch p.Op {
		case token.ADD:
			return "concatenated", true
		case token.EQL, token.NEQ:
			return "compared as a whole", true
		}
		return "operand of " + p.Op.String(), false
	case *ast.CallExpr:
		if id, ok := p.Fun.(*ast.Ident); ok && id.Name == "append" {
			if _, isBuiltin := info.Uses[id].(*types.Builtin); isBuiltin {
				return "copied", true
			}
		}
		if core.IsConversion(info, p) {
			return "converted (" + core.ExprStr(p.Fun) + ")", false
		}
		return "argument of " + core.CalleeName(info, p), false
	case *ast.IndexExpr:
		return "indexed", false
	case *ast.SliceExpr:
		return "sliced", false
	case *ast.RangeStmt:
		return "ranged over", false
	}
	return "used in an unrecognised position", false
}
