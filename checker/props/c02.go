package props

import (
	"fmt"
	"go/ast"
	"go/token"
	"go/types"
	"golang.org/x/tools/go/packages"
	"strings"

	"j5verif/checker/core"
	"j5verif/checker/rules"
)

func init() { Registry["C02"] = C02 }

const (
	schemaPB    = core.Module + "/gen/j5/schema/v1/schema_j5pb"
	sourcedefPB = core.Module + "/gen/j5/sourcedef/v1/sourcedef_j5pb"
	clientPB    = core.Module + "/gen/j5/client/v1/client_j5pb"
)

var scalarKinds = map[string]string{}

func init() {
	for _, k := range []string{"Field_Any", "Field_Bool", "Field_Bytes", "Field_Date", "Field_Decimal", "Field_Float", "Field_Integer", "Field_Key", "Field_String_", "Field_Timestamp"} {
		scalarKinds[k] = "leaf kind: the default arm passes the wrapper through unchanged (buildFieldNode) / delegates to buildField (buildProperty)"
	}
}

// C02 — j5s compiles to exactly the protobuf contract the source declares
// (structural clauses).
func C02(r *core.Run) {
	r.Entry = []string{"sourcewalk.FileNode.RangeRootElements", "sourcewalk.mapProperties", "j5convert.buildProperty", "j5convert.buildField", "j5convert.visitEnumNode", "j5convert.visitServiceMethodNode"}
	// numbers and names: same provenance rules as C13
	provNumbers(r)
	provEnumNumbers(r)
	enumNumberingAgrees(r)
	provNoReorder(r)
	provTailAppend(r)
	provNames(r)
	provRefs(r)
	importNames(r)
	topicNames(r)
	pathVariablesPerSegment(r)     // ":name" rewritten to "{snake_name}", segment by segment
	refsCollectedEverywhere(r)     // a type referred to from a service or topic block resolves like any other
	subPackageFileNameInjective(r) // services and topics of every source file are emitted: no two files share an output name
	rules.MemoKeys(r, []string{convRel, walkRel, "internal/j5s/protobuild", "internal/j5s/j5parse"}, "memo_sites")
	packageListingByDirectory(r) // a type reference resolves within the package it names, not in a neighbour with the same prefix
	// what is generated for one declared element does not depend on its neighbours
	iterationIndependence(r, convRel, "*")
	iterationIndependence(r, walkRel, "*")
	// every declared kind is handled
	rules.TypeSwitchCovers(r, convRel, "buildField", schemaPB, "isField_Type", map[string]string{
		"Field_Array": "arrays are unwrapped by buildProperty, which calls buildField on the item schema (no arrays of arrays in proto3)",
		"Field_Map":   "maps are unwrapped by buildProperty, which calls buildField on the value schema",
	}, 1)
	kindsPlusContainers := map[string]string{}
	for k, v := range scalarKinds {
		kindsPlusContainers[k] = v
	}
	for _, k := range []string{"Field_Object", "Field_Oneof", "Field_Enum"} {
		kindsPlusContainers[k] = "handled by buildField through the default arm of buildProperty"
	}
	rules.TypeSwitchCovers(r, convRel, "buildProperty", schemaPB, "isField_Type", kindsPlusContainers, 1)
	rules.TypeSwitchCovers(r, walkRel, "buildFieldNode", schemaPB, "isField_Type", scalarKinds, 1)
	rules.TypeSwitchCovers(r, walkRel, "FileNode.RangeRootElements", sourcedefPB, "isRootElement_Type", nil, 1)
	rules.TypeSwitchCovers(r, walkRel, "nestedSet.RangeNestedSchemas", sourcedefPB, "isNestedSchema_Type", nil, 1)
	rules.TypeSwitchCovers(r, walkRel, "topicRef.accept", sourcedefPB, "isTopicType_Type", nil, 1)
	rules.TypeSwitchCovers(r, walkRel, "replaceNestedObject", schemaPB, "isObjectField_Schema", nil, 1)
	rules.TypeSwitchCovers(r, walkRel, "replaceNestedOneof", schemaPB, "isOneofField_Schema", nil, 1)
	rules.TypeSwitchCovers(r, walkRel, "replaceNestedEnum", schemaPB, "isEnumField_Schema", nil, 1)
	rules.ConstSwitchCovers(r, convRel, "conversionVisitor.visitServiceMethodNode", clientPB, "HTTPMethod", map[string]string{
		"*_UNSPECIFIED": "not a real verb: reaches the default arm, which reports an error",
	}, 1)
	rules.ConstSwitchCovers(r, convRel, "buildField", schemaPB, "IntegerField_Format", map[string]string{
		"*_UNSPECIFIED": "reaches the default arm, which reports an error",
	}, 2)
	rules.ConstSwitchCovers(r, convRel, "buildField", schemaPB, "FloatField_Format", map[string]string{"*_UNSPECIFIED": "rejected with an error by the first format switch of the float arm (the list-rule switch below it is only reached for the two real formats)"}, 1)
	fieldAttributes(r)
	httpPathRewrite(r)
}

// fieldAttributes: the attribute stores at the end of buildProperty.
func fieldAttributes(r *core.Run) {
	r.Rule("R-FLOW/attr", "buildProperty's success path assigns Name = snake(declared name), JsonName = declared name and Number = positional number after the type-specific arm; Proto3Optional is set only under ExplicitlyOptional (and rejected together with required); the array and map arms set LABEL_REPEATED")
	fd, pk := r.P.FuncDecl(convRel, "buildProperty")
	if fd == nil {
		r.Fatal("anchor: j5convert.buildProperty not found")
		return
	}
	info := pk.TypesInfo
	top := fd.Body.List
	last, ok := top[len(top)-1].(*ast.ReturnStmt)
	o := r.Add("R-FLOW/attr", "j5convert.buildProperty | tail assigns Name/JsonName/Number", fd.Pos(), "identity attributes of the emitted field")
	if !ok || len(last.Results) != 2 || !core.IsNilIdent(info, last.Results[1]) {
		o.Fail("the function does not end with `return <desc>, nil`")
	} else {
		// values are compared with the locals printed as their types: what they are called does not matter
		got := map[string]string{}
		nameVar := ""
		for _, st := range top {
			if as, ok := st.(*ast.AssignStmt); ok && len(as.Lhs) == 1 {
				if s, ok := as.Lhs[0].(*ast.SelectorExpr); ok && core.ExprStr(s.X) == core.ExprStr(last.Results[0]) {
					got[s.Sel.Name] = core.NormExpr(info, ptrOnly(info, as.Rhs[0]))
					if s.Sel.Name == "Name" {
						nameVar = core.ExprStr(ptrOnly(info, as.Rhs[0]))
					}
				}
			}
		}
		nameSrc := got["Name"]
		ast.Inspect(fd.Body, func(n ast.Node) bool {
			if as, ok := n.(*ast.AssignStmt); ok && len(as.Lhs) == 1 && core.ExprStr(as.Lhs[0]) == nameVar {
				nameSrc = core.NormExpr(info, as.Rhs[0])
			}
			return true
		})
		switch {
		case nameSrc != "strcase.ToSnake(‹*ObjectProperty›.Name)":
			o.Fail("Name is %s = %s, expected the snake_case of the declared name", nameVar, nameSrc)
		case got["JsonName"] != "‹*ObjectProperty›.Name":
			o.Fail("JsonName is %q, expected the declared name", got["JsonName"])
		case got["Number"] != "‹*PropertyNode›.Number":
			o.Fail("Number is %q, expected the positional number", got["Number"])
		default:
			o.Auto("Name ← snake(declared name), JsonName ← declared name, Number ← positional number, all on the unconditional tail")
		}
	}
	// the synthetic map-entry message is named after the proto field name (protoc derives
	// <CamelCase(field name)>Entry from the name the field has in the descriptor)
	core.InspectTree(pk, fd.Body, func(n ast.Node) bool {
		c, ok := n.(*ast.CallExpr)
		if !ok || len(c.Args) != 1 || !core.CalleeIs(info, c, convRel, "mapName") {
			return true
		}
		o := r.Add("R-FLOW/attr", "j5convert.buildProperty | map entry name source", c.Pos(), "name of the synthetic map entry message")
		got := resolvedNorm(r, pk, c.Args[0], 3)
		if got == "strcase.ToSnake(‹*ObjectProperty›.Name)" {
			o.Auto("mapName(<snake_case field name>): the name the field carries in the descriptor")
		} else {
			o.Fail("the map entry message is named from %s, not from the snake_case name the field is given in the descriptor: where the two differ (digits, acronyms) the linker does not recognise the nested message as the field's map entry", got)
		}
		return true
	})
	// Proto3Optional only under ExplicitlyOptional
	ast.Inspect(core.TreeBody(pk, fd, "buildField"), func(n ast.Node) bool {
		as, ok := n.(*ast.AssignStmt)
		if !ok || len(as.Lhs) != 1 {
			return true
		}
		s, ok := as.Lhs[0].(*ast.SelectorExpr)
		if !ok {
			return true
		}
		switch s.Sel.Name {
		case "Proto3Optional":
			o := r.Add("R-FLOW/attr", "j5convert.buildProperty | Proto3Optional", as.Pos(), "proto3 optional marker")
			f := rules.FactsAt(info, fd.Body, as)
			optional, notRequired := false, false
			for k := range f.True {
				if strings.HasSuffix(k, ".ExplicitlyOptional") {
					optional = true
				}
			}
			if v := requiredFlag(info, pk, fd); v != nil && f.False[v.Name()] {
				notRequired = true
			}
			// and nothing else decides it: every `if` around the store tests the optional flag or the
			// required flag — a further condition drops the marker for some explicitly optional fields
			foreign := ""
			flag := requiredFlag(info, pk, fd)
			for _, p := range core.PathTo(fd.Body, as) {
				is, ok := p.(*ast.IfStmt)
				if !ok || !(is.Body.Pos() <= as.Pos() && as.End() <= is.Body.End()) {
					continue
				}
				own := strings.Contains(core.ExprStr(is.Cond), ".ExplicitlyOptional")
				ast.Inspect(is.Cond, func(n ast.Node) bool {
					if id, ok := n.(*ast.Ident); ok && flag != nil && info.Uses[id] == flag {
						own = true
					}
					return true
				})
				if !own {
					foreign = core.ExprStr(is.Cond)
				}
			}
			if optional && notRequired && foreign != "" {
				o.Fail("Proto3Optional is also conditioned by %s: an explicitly optional property for which that is false compiles without the marker, and the schema read back is no longer explicitly optional", foreign)
			} else if optional && notRequired {
				o.Auto("set only when the property is explicitly optional and not required")
			} else {
				o.Fail("Proto3Optional is not guarded by ExplicitlyOptional && !required")
			}
		case "Label":
			o := r.Add("R-FLOW/attr", "j5convert.buildProperty | Label in "+clauseLabel(info, fd, enclosingClause(fd, as)), as.Pos(), "cardinality label")
			if strings.Contains(core.ExprStr(as.Rhs[0]), "LABEL_REPEATED") {
				o.Auto("LABEL_REPEATED")
			} else {
				o.Fail("label is %s", core.ExprStr(as.Rhs[0]))
			}
		}
		return true
	})
	// map arm literal label
	ast.Inspect(core.TreeBody(pk, fd, "buildField"), func(n ast.Node) bool {
		kv, ok := n.(*ast.KeyValueExpr)
		if ok && core.ExprStr(kv.Key) == "Label" {
			o := r.Add("R-FLOW/attr", "j5convert.buildProperty | Label literal in "+clauseLabel(info, fd, enclosingClause(fd, kv)), kv.Pos(), "cardinality label")
			if strings.Contains(core.ExprStr(kv.Value), "LABEL_REPEATED") {
				o.Auto("LABEL_REPEATED")
			} else {
				o.Fail("label is %s", core.ExprStr(kv.Value))
			}
		}
		return true
	})
	r.Floor("R-FLOW/attr", 4, "tail, optional, two labels")
}

// httpPathRewrite: ":name" → "{snake_name}".
func httpPathRewrite(r *core.Run) {
	r.Rule("R-CONST/httppath", "visitServiceMethodNode splits the resolved path on '/', recognises parameters by the ':' prefix and rewrites each to \"{\" + snake(name) + \"}\", storing it back at the same index before joining with '/'")
	fd, pk := r.P.FuncDecl(convRel, "conversionVisitor.visitServiceMethodNode")
	if fd == nil {
		r.Fatal("anchor: j5convert.visitServiceMethodNode not found")
		return
	}
	info := pk.TypesInfo
	var split, prefix, join string
	body := core.TreeBody(pk, fd)
	// locals defined once, for tracing a name through one assignment
	defOf := func(id *ast.Ident) ast.Expr {
		obj := info.Uses[id]
		var def ast.Expr
		n := 0
		ast.Inspect(body, func(x ast.Node) bool {
			if as, ok := x.(*ast.AssignStmt); ok && len(as.Lhs) == len(as.Rhs) {
				for i, l := range as.Lhs {
					if li, ok := l.(*ast.Ident); ok && (info.Defs[li] == obj || info.Uses[li] == obj) {
						n++
						def = as.Rhs[i]
					}
				}
			}
			return true
		})
		if n == 1 {
			return def
		}
		return nil
	}
	isSnakeOfTail := func(e ast.Expr) bool {
		if id, ok := core.Unparen(e).(*ast.Ident); ok {
			if d := defOf(id); d != nil {
				e = d
			}
		}
		c, ok := core.Unparen(e).(*ast.CallExpr)
		if !ok || !strings.HasSuffix(core.CalleeName(info, c), "strcase.ToSnake") || len(c.Args) != 1 {
			return false
		}
		arg := core.Unparen(c.Args[0])
		if id, ok := arg.(*ast.Ident); ok {
			if d := defOf(id); d != nil {
				arg = core.Unparen(d)
			}
		}
		switch a := arg.(type) {
		case *ast.SliceExpr: // part[1:]
			if a.Low == nil || a.High != nil {
				return false
			}
			k, isC := core.ConstInt(info, a.Low)
			return isC && k == 1
		case *ast.CallExpr: // strings.TrimPrefix(part, ":")
			if core.CalleeName(info, a) == "strings.TrimPrefix" && len(a.Args) == 2 {
				s, isC := core.ConstString(info, a.Args[1])
				return isC && s == ":"
			}
		}
		return false
	}
	rewriteOK, rewrite := false, ""
	ast.Inspect(body, func(n ast.Node) bool {
		switch x := n.(type) {
		case *ast.RangeStmt:
			// for idx, part := range parts { … parts[idx] = "{" + snake(part[1:]) + "}" }
			key, _ := x.Key.(*ast.Ident)
			if key == nil {
				return true
			}
			ast.Inspect(x.Body, func(y ast.Node) bool {
				as, ok := y.(*ast.AssignStmt)
				if !ok || len(as.Lhs) != 1 || len(as.Rhs) != 1 {
					return true
				}
				ix, ok := as.Lhs[0].(*ast.IndexExpr)
				if !ok || core.ExprStr(ix.X) != core.ExprStr(x.X) {
					return true
				}
				rewrite = core.ExprStr(as.Lhs[0]) + " = " + core.ExprStr(as.Rhs[0])
				if id, ok := ix.Index.(*ast.Ident); !ok || info.Uses[id] != info.Defs[key] {
					return true
				}
				// "{" + V + "}"
				outer, ok := core.Unparen(as.Rhs[0]).(*ast.BinaryExpr)
				if !ok || outer.Op != token.ADD {
					return true
				}
				inner, ok := core.Unparen(outer.X).(*ast.BinaryExpr)
				if !ok || inner.Op != token.ADD {
					return true
				}
				l, okL := core.ConstString(info, inner.X)
				rr, okR := core.ConstString(info, outer.Y)
				if okL && okR && l == "{" && rr == "}" && isSnakeOfTail(inner.Y) {
					rewriteOK = true
					// the slice being rewritten: where it comes from, where it goes, how parameters are recognised
					sliceName := core.ExprStr(x.X)
					if id, ok := core.Unparen(x.X).(*ast.Ident); ok {
						if d := defOf(id); d != nil {
							if c, ok := core.Unparen(d).(*ast.CallExpr); ok && core.CalleeName(info, c) == "strings.Split" {
								split, _ = core.ConstString(info, c.Args[1])
							}
						}
					}
					ast.Inspect(body, func(z ast.Node) bool {
						if c, ok := z.(*ast.CallExpr); ok && core.CalleeName(info, c) == "strings.Join" && len(c.Args) == 2 && core.ExprStr(c.Args[0]) == sliceName {
							join, _ = core.ConstString(info, c.Args[1])
						}
						return true
					})
					ast.Inspect(x.Body, func(z ast.Node) bool {
						if c, ok := z.(*ast.CallExpr); ok && core.CalleeName(info, c) == "strings.HasPrefix" && len(c.Args) == 2 && x.Value != nil && core.ExprStr(c.Args[0]) == core.ExprStr(x.Value) {
							prefix, _ = core.ConstString(info, c.Args[1])
						}
						return true
					})
				}
				return true
			})
		}
		return true
	})
	o := r.Add("R-CONST/httppath", "j5convert.visitServiceMethodNode | path parameter rewrite", fd.Pos(), "path rewrite")
	if split == "/" && prefix == ":" && join == "/" && rewriteOK {
		o.Auto("split %q, prefix %q, %s, join %q", split, prefix, rewrite, join)
	} else {
		o.Fail("split=%q prefix=%q join=%q rewrite=%q does not implement :name → {snake_name} stored back at the element's own index", split, prefix, join, rewrite)
	}
	_ = fmt.Sprintf
}

// importNames (R-CONST/importnames): which names an import brings into scope.
// README "Imports": a package is referred to by its name without the version,
// or — when the import gives an alias — by the alias instead. Every store into
// the import table is classified by its key; a key derived by splitting the
// package path may only be stored on paths where the alias is known to be
// empty, otherwise an aliased import also claims (and, the table being
// last-writer-wins, may steal) another package's short name.
func importNames(r *core.Run) {
	r.Rule("R-CONST/importnames", "in j5Imports every store into the import table whose key is derived from the package path (not the alias, not the full path) is guarded on all control-flow paths by `imp.Alias == \"\"`: an aliased import registers its alias, not the default short name")
	fd, pk := r.P.FuncDecl(convRel, "j5Imports")
	if fd == nil {
		r.Fatal("anchor: j5convert.j5Imports not found")
		return
	}
	info := pk.TypesInfo
	isAliasSel := func(e ast.Expr) bool {
		s, ok := core.Unparen(e).(*ast.SelectorExpr)
		return ok && s.Sel.Name == "Alias"
	}
	// full-path keys: identifiers defined from imp.Path or PackageFromFilename(imp.Path)
	full := map[types.Object]bool{}
	ast.Inspect(fd.Body, func(n ast.Node) bool {
		as, ok := n.(*ast.AssignStmt)
		if !ok || len(as.Lhs) != 1 || len(as.Rhs) != 1 {
			return true
		}
		id, ok := as.Lhs[0].(*ast.Ident)
		if !ok {
			return true
		}
		rhs := core.Unparen(as.Rhs[0])
		isPath := false
		if s, ok := rhs.(*ast.SelectorExpr); ok && s.Sel.Name == "Path" {
			isPath = true
		}
		if c, ok := rhs.(*ast.CallExpr); ok && strings.HasSuffix(core.CalleeName(info, c), "PackageFromFilename") {
			isPath = true
		}
		if isPath {
			if o := info.Defs[id]; o != nil {
				full[o] = true
			} else if o := info.Uses[id]; o != nil {
				full[o] = true
			}
		}
		return true
	})
	excl := func(cond ast.Expr, branch bool) bool {
		b, ok := core.Unparen(cond).(*ast.BinaryExpr)
		if !ok {
			return false
		}
		var other ast.Expr
		switch {
		case isAliasSel(b.X):
			other = b.Y
		case isAliasSel(b.Y):
			other = b.X
		default:
			return false
		}
		if s, ok := core.ConstString(info, other); !ok || s != "" {
			return false
		}
		// alias == "" on the true branch, alias != "" on the false branch
		return (b.Op.String() == "==" && branch) || (b.Op.String() == "!=" && !branch)
	}
	n := 0
	ast.Inspect(fd.Body, func(nd ast.Node) bool {
		as, ok := nd.(*ast.AssignStmt)
		if !ok {
			return true
		}
		for _, l := range as.Lhs {
			ix, ok := l.(*ast.IndexExpr)
			if !ok {
				continue
			}
			if _, isMap := info.TypeOf(ix.X).Underlying().(*types.Map); !isMap {
				continue
			}
			key := core.Unparen(ix.Index)
			kind := "derived"
			if isAliasSel(key) {
				kind = "alias"
			} else if id, ok := key.(*ast.Ident); ok && full[info.Uses[id]] {
				kind = "full"
			}
			n++
			o := r.Add("R-CONST/importnames", fmt.Sprintf("j5Imports | %s[%s] (%s key)", core.ExprStr(ix.X), core.ExprStr(ix.Index), kind), as.Pos(), "import table entry under a "+kind+" key")
			switch kind {
			case "alias":
				o.Auto("the alias the import declares")
			case "full":
				o.Auto("the full package path: unique per package")
			default:
				if rules.ReachableAvoiding(fd.Body, as, excl) {
					o.Fail("the derived short name is also registered for imports that declare an alias: `import a.bar.v1` followed by `import b.bar.v1:other` makes `bar.X` resolve to b.bar.v1")
				} else {
					o.Auto("stored only on paths where the alias is empty")
				}
			}
		}
		return true
	})
	r.Floor("R-CONST/importnames", 3, "stores into the import table")
	_ = n
}

// requiredFlag: the local of buildProperty that starts as the declared
// Required flag (`x := <property>.Required`), whatever it is called.
func requiredFlag(info *types.Info, pk *packages.Package, fd *ast.FuncDecl) types.Object {
	var out types.Object
	ast.Inspect(core.TreeBody(pk, fd, "buildField"), func(n ast.Node) bool {
		as, ok := n.(*ast.AssignStmt)
		if !ok || as.Tok != token.DEFINE || len(as.Lhs) != 1 || len(as.Rhs) != 1 {
			return true
		}
		if core.NormExpr(info, as.Rhs[0]) == "‹*ObjectProperty›.Required" {
			if id, ok := as.Lhs[0].(*ast.Ident); ok {
				out = info.Defs[id]
			}
		}
		return true
	})
	return out
}

// resolvedNorm prints an expression with locals replaced by their types, after
// replacing a local that has a single definition by that definition and a
// parameter of an unexported helper by the argument of its call sites (which
// have to agree).
func resolvedNorm(r *core.Run, pk *packages.Package, e ast.Expr, depth int) string {
	info := pk.TypesInfo
	for ; depth > 0; depth-- {
		id, ok := core.Unparen(e).(*ast.Ident)
		if !ok {
			break
		}
		v, ok := info.Uses[id].(*types.Var)
		if !ok {
			break
		}
		fd := r.P.EnclosingDecl(id.Pos())
		if fd == nil {
			break
		}
		if a := aliasExprOf(info, fd, e); a != nil {
			e = a
			continue
		}
		// a parameter: the arguments at the call sites
		idx, i := -1, 0
		for _, f := range fd.Type.Params.List {
			for _, nm := range f.Names {
				if info.Defs[nm] == v {
					idx = i
				}
				i++
			}
		}
		if idx < 0 {
			break
		}
		self := info.Defs[fd.Name]
		var args []ast.Expr
		core.AllFuncDecls(pk, func(cfd *ast.FuncDecl) {
			ast.Inspect(cfd.Body, func(n ast.Node) bool {
				if c, ok := n.(*ast.CallExpr); ok && idx < len(c.Args) {
					if fn := core.CalleeFunc(info, c); fn != nil && types.Object(fn.Origin()) == self {
						args = append(args, c.Args[idx])
					}
				}
				return true
			})
		})
		if len(args) == 0 {
			break
		}
		first := resolvedNorm(r, pk, args[0], depth-1)
		for _, a := range args[1:] {
			if resolvedNorm(r, pk, a, depth-1) != first {
				return "different values at different call sites"
			}
		}
		return first
	}
	return core.NormExpr(info, e)
}

// ptrOnly unwraps pointer-making helpers (gl.Ptr, proto.String, …) and type
// conversions, nothing else.
func ptrOnly(info *types.Info, e ast.Expr) ast.Expr {
	for {
		c, ok := core.Unparen(e).(*ast.CallExpr)
		if !ok || len(c.Args) != 1 {
			return e
		}
		if core.IsConversion(info, c) {
			e = c.Args[0]
			continue
		}
		name := core.CalleeName(info, c)
		short := name[strings.LastIndex(name, ".")+1:]
		if i := strings.Index(short, "["); i > 0 {
			short = short[:i]
		}
		switch short {
		case "Ptr", "String", "Int32", "Int64", "Uint32", "Uint64", "Bool", "Float32", "Float64":
			e = c.Args[0]
			continue
		}
		return e
	}
}
