package props

import (
	"go/ast"
	"go/token"
	"go/types"
	"strings"

	"j5verif/checker/core"
)

// siblingCountChoices (R-PROV/V7): what is generated for a declaration must
// not depend on how many siblings it has — appending one more would change
// the output for the ones already there. A test of the number of declarations
// against a non-zero constant (`len(topic.methods) == 1`) is therefore only
// allowed to decide between an output and an error: one of its two outcomes
// consists of error returns only.
func siblingCountChoices(r *core.Run) {
	r.Rule("R-PROV/V7", "in sourcewalk and j5convert every `if` whose condition compares len(X) with a non-zero constant, X being a list of source declarations (elements are generated sourcedef/schema messages), has an outcome — its body, or its else branch — that only returns errors: the number of sibling declarations never selects between two successful outputs")
	n := 0
	for _, rel := range []string{walkRel, convRel} {
		pk := r.P.Pkg(rel)
		if pk == nil {
			continue
		}
		info := pk.TypesInfo
		isDeclList := func(e ast.Expr) bool {
			t := info.TypeOf(e)
			if t == nil {
				return false
			}
			sl, ok := t.Underlying().(*types.Slice)
			if !ok {
				return false
			}
			s := core.TypeStr(sl.Elem())
			return strings.HasPrefix(s, "*") && (strings.Contains(s, "sourcedef_j5pb.") || strings.Contains(s, "schema_j5pb."))
		}
		countTest := func(cond ast.Expr) (ast.Expr, bool) {
			var hit ast.Expr
			ast.Inspect(cond, func(x ast.Node) bool {
				b, ok := x.(*ast.BinaryExpr)
				if !ok || hit != nil {
					return true
				}
				switch b.Op {
				case token.EQL, token.NEQ, token.LSS, token.LEQ, token.GTR, token.GEQ:
				default:
					return true
				}
				for _, pair := range [][2]ast.Expr{{b.X, b.Y}, {b.Y, b.X}} {
					c, ok := core.Unparen(pair[0]).(*ast.CallExpr)
					if !ok || len(c.Args) != 1 {
						continue
					}
					if id, ok := c.Fun.(*ast.Ident); !ok || id.Name != "len" {
						continue
					}
					k, isConst := core.ConstInt(info, pair[1])
					if !isConst || !isDeclList(c.Args[0]) {
						continue
					}
					// emptiness tests say nothing about siblings of an existing declaration
					if k == 0 || (k == 1 && (b.Op == token.LSS || b.Op == token.GEQ) && pair[0] == b.X) {
						continue
					}
					hit = b
				}
				return true
			})
			return hit, hit != nil
		}
		errorsOnly := func(stmts []ast.Stmt) bool {
			if len(stmts) == 0 {
				return false
			}
			rets, ok := 0, true
			for _, st := range stmts {
				ast.Inspect(st, func(x ast.Node) bool {
					if _, isLit := x.(*ast.FuncLit); isLit {
						return false
					}
					if ret, isRet := x.(*ast.ReturnStmt); isRet {
						rets++
						if len(ret.Results) == 0 || core.IsNilIdent(info, ret.Results[len(ret.Results)-1]) || core.TypeStr(info.TypeOf(ret.Results[len(ret.Results)-1])) == "" {
							ok = false
						}
						if t := info.TypeOf(ret.Results[len(ret.Results)-1]); t == nil || !types.Implements(t, errorIface()) {
							ok = false
						}
					}
					return true
				})
			}
			_, lastIsRet := stmts[len(stmts)-1].(*ast.ReturnStmt)
			return ok && rets > 0 && lastIsRet
		}
		core.AllFuncDecls(pk, func(fd *ast.FuncDecl) {
			if strings.HasSuffix(r.P.Fset.Position(fd.Pos()).Filename, ".pb.go") {
				return
			}
			handle := func(ifs *ast.IfStmt) {
				test, ok := countTest(ifs.Cond)
				if !ok {
					return
				}
				n++
				pos := ifs.Pos()
				if !pos.IsValid() {
					pos = test.Pos()
				}
				o := r.Add("R-PROV/V7", rel+"."+core.FuncName(fd)+" | "+core.NormExpr(info, test), pos, "choice by the number of sibling declarations")
				bodyErr := errorsOnly(ifs.Body.List)
				elseErr := false
				if blk, isBlk := ifs.Else.(*ast.BlockStmt); isBlk {
					elseErr = errorsOnly(blk.List)
				}
				switch {
				case bodyErr:
					o.Auto("the branch taken under the condition only returns errors")
				case elseErr:
					o.Auto("the other branch only returns errors")
				default:
					o.Fail("both outcomes of `%s` succeed: what is generated for a declaration depends on how many siblings it has, so appending another one changes the names or shapes already generated", core.ExprStr(test))
				}
			}
			ast.Inspect(fd.Body, func(x ast.Node) bool {
				switch y := x.(type) {
				case *ast.IfStmt:
					handle(y)
				case *ast.SwitchStmt:
					// a tagless switch is the same chain of tests
					if y.Tag == nil {
						if chain := core.SwitchAsIfChain(y); chain != nil {
							for cur, ok := chain.(*ast.IfStmt); ok; cur, ok = cur.Else.(*ast.IfStmt) {
								handle(cur)
							}
						}
					}
				}
				return true
			})
		})
	}
	r.Floor("R-PROV/V7", 1, "the unnamed single message of a topic")
}

func errorIface() *types.Interface {
	return types.Universe.Lookup("error").Type().Underlying().(*types.Interface)
}
