package props

import (
	"go/ast"
	"go/token"
	"go/types"
	"sort"
	"strings"

	"j5verif/checker/core"
)

// siblingCountChoices (R-PROV/V7): what is generated for a declaration must
// not depend on how many siblings it has — appending one more would change
// the output for the ones already there. A test of the number of declarations
// against a non-zero constant (`len(topic.methods) == 1`) is therefore only
// allowed to decide between an output and an error: one of its two outcomes
// consists of error returns only.
func siblingCountChoices(r *core.Run) {
	r.Rule("R-PROV/V7", "in sourcewalk and j5convert every `if` whose condition compares len(X) with a non-zero constant, X being a list of source declarations (elements are generated sourcedef/schema messages), has an outcome — its body, or its else branch — that only returns errors: the number of sibling declarations never selects between two successful outputs")
	n := 0
	for _, rel := range []string{walkRel, convRel} {
		pk := r.P.Pkg(rel)
		if pk == nil {
			continue
		}
		info := pk.TypesInfo
		isDeclList := func(e ast.Expr) bool {
			t := info.TypeOf(e)
			if t == nil {
				return false
			}
			sl, ok := t.Underlying().(*types.Slice)
			if !ok {
				return false
			}
			s := core.TypeStr(sl.Elem())
			return strings.HasPrefix(s, "*") && (strings.Contains(s, "sourcedef_j5pb.") || strings.Contains(s, "schema_j5pb."))
		}
		countTest := func(cond ast.Expr) (ast.Expr, bool) {
			var hit ast.Expr
			ast.Inspect(cond, func(x ast.Node) bool {
				b, ok := x.(*ast.BinaryExpr)
				if !ok || hit != nil {
					return true
				}
				switch b.Op {
				case token.EQL, token.NEQ, token.LSS, token.LEQ, token.GTR, token.GEQ:
				default:
					return true
				}
				for _, pair := range [][2]ast.Expr{{b.X, b.Y}, {b.Y, b.X}} {
					c, ok := core.Unparen(pair[0]).(*ast.CallExpr)
					if !ok || len(c.Args) != 1 {
						continue
					}
					if id, ok := c.Fun.(*ast.Ident); !ok || id.Name != "len" {
						continue
					}
					k, isConst := core.ConstInt(info, pair[1])
					if !isConst || !isDeclList(c.Args[0]) {
						continue
					}
					// emptiness tests say nothing about siblings of an existing declaration
					if k == 0 || (k == 1 && (b.Op == token.LSS || b.Op == token.GEQ) && pair[0] == b.X) {
						continue
					}
					hit = b
				}
				return true
			})
			return hit, hit != nil
		}
		errorsOnly := func(stmts []ast.Stmt) bool {
			if len(stmts) == 0 {
				return false
			}
			rets, ok := 0, true
			for _, st := range stmts {
				ast.Inspect(st, func(x ast.Node) bool {
					if _, isLit := x.(*ast.FuncLit); isLit {
						return false
					}
					if ret, isRet := x.(*ast.ReturnStmt); isRet {
						rets++
						if len(ret.Results) == 0 || core.IsNilIdent(info, ret.Results[len(ret.Results)-1]) || core.TypeStr(info.TypeOf(ret.Results[len(ret.Results)-1])) == "" {
							ok = false
						}
						if t := info.TypeOf(ret.Results[len(ret.Results)-1]); t == nil || !types.Implements(t, errorIface()) {
							ok = false
						}
					}
					return true
				})
			}
			_, lastIsRet := stmts[len(stmts)-1].(*ast.ReturnStmt)
			return ok && rets > 0 && lastIsRet
		}
		core.AllFuncDecls(pk, func(fd *ast.FuncDecl) {
			if strings.HasSuffix(r.P.Fset.Position(fd.Pos()).Filename, ".pb.go") {
				return
			}
			handle := func(ifs *ast.IfStmt) {
				test, ok := countTest(ifs.Cond)
				if !ok {
					return
				}
				n++
				pos := ifs.Pos()
				if !pos.IsValid() {
					pos = test.Pos()
				}
				o := r.Add("R-PROV/V7", rel+"."+core.FuncName(fd)+" | "+core.NormExpr(info, test), pos, "choice by the number of sibling declarations")
				bodyErr := errorsOnly(ifs.Body.List)
				elseErr := false
				if blk, isBlk := ifs.Else.(*ast.BlockStmt); isBlk {
					elseErr = errorsOnly(blk.List)
				}
				switch {
				case bodyErr:
					o.Auto("the branch taken under the condition only returns errors")
				case elseErr:
					o.Auto("the other branch only returns errors")
				default:
					o.Fail("both outcomes of `%s` succeed: what is generated for a declaration depends on how many siblings it has, so appending another one changes the names or shapes already generated", core.ExprStr(test))
				}
			}
			ast.Inspect(fd.Body, func(x ast.Node) bool {
				switch y := x.(type) {
				case *ast.IfStmt:
					handle(y)
				case *ast.SwitchStmt:
					// a tagless switch is the same chain of tests
					if y.Tag == nil {
						if chain := core.SwitchAsIfChain(y); chain != nil {
							for cur, ok := chain.(*ast.IfStmt); ok; cur, ok = cur.Else.(*ast.IfStmt) {
								handle(cur)
							}
						}
					}
				}
				return true
			})
		})
	}
	r.Floor("R-PROV/V7", 1, "the unnamed single message of a topic")
}

func errorIface() *types.Interface {
	return types.Universe.Lookup("error").Type().Underlying().(*types.Interface)
}

// enumNumberingAgrees (R-PROV/V2s): the compiler numbers the options of an enum
// in two places — visitEnumNode for the descriptor, enumTypeRef for the table
// that translates the names of in / not_in rules into numbers. Both give an
// explicit leading UNSPECIFIED option the number 0 and count the others from
// 1. "The others" is the point: once the zero option is taken out, the index
// of the loop runs over the remaining list. A loop over the whole list that
// special-cases index 0 numbers every later option one too high. The rule
// requires, in every function of j5convert that ranges over a list of
// Enum_Option and uses <index>+1, that a zero-option test — if there is one —
// sits before the loop and re-slices the ranged list ([1:]) in its body.
func enumNumberingAgrees(r *core.Run) {
	r.Rule("R-PROV/V2s", "in every j5convert function that ranges over a list of schema Enum_Option and computes <range index>+1: the explicit-UNSPECIFIED test (a condition reading Enum_Option.Number == 0), if present, is outside the loop and its body re-slices the ranged list variable with [1:], so the index counts the remaining options; all such functions handle the zero option the same way (both re-slice, or none has the test)")
	pk := r.P.Pkg(convRel)
	if pk == nil {
		r.Fatal("anchor: package %s not found", convRel)
		return
	}
	info := pk.TypesInfo
	kinds := map[string]string{}
	var order []string
	core.AllFuncDecls(pk, func(fd *ast.FuncDecl) {
		if fd.Body == nil {
			return
		}
		var loop *ast.RangeStmt
		ast.Inspect(fd.Body, func(n ast.Node) bool {
			rs, ok := n.(*ast.RangeStmt)
			if !ok || loop != nil {
				return true
			}
			sl, ok := info.TypeOf(rs.X).Underlying().(*types.Slice)
			if !ok || !strings.HasSuffix(core.TypeStr(sl.Elem()), "schema_j5pb.Enum_Option") {
				return true
			}
			key, ok := rs.Key.(*ast.Ident)
			if !ok || key.Name == "_" {
				return true
			}
			kobj := info.ObjectOf(key)
			plusOne := false
			ast.Inspect(rs.Body, func(m ast.Node) bool {
				if b, ok := m.(*ast.BinaryExpr); ok && b.Op == token.ADD {
					if id, ok := core.Unparen(b.X).(*ast.Ident); ok && info.ObjectOf(id) == kobj {
						if k, ok := core.ConstInt(info, b.Y); ok && k == 1 {
							plusOne = true
						}
					}
				}
				return true
			})
			if plusOne {
				loop = rs
			}
			return true
		})
		if loop == nil {
			return
		}
		isZeroTest := func(c ast.Expr) bool {
			hit := false
			ast.Inspect(c, func(m ast.Node) bool {
				if b, ok := m.(*ast.BinaryExpr); ok && b.Op == token.EQL {
					for _, side := range []ast.Expr{b.X, b.Y} {
						e := core.Unparen(side)
						if call, ok := e.(*ast.CallExpr); ok && len(call.Args) == 0 {
							if s, ok := call.Fun.(*ast.SelectorExpr); ok && s.Sel.Name == "GetNumber" {
								e = s
							}
						}
						if s, ok := e.(*ast.SelectorExpr); ok && (s.Sel.Name == "Number" || s.Sel.Name == "GetNumber") && strings.HasSuffix(core.TypeStr(info.TypeOf(s.X)), "schema_j5pb.Enum_Option") {
							hit = true
						}
					}
				}
				return true
			})
			return hit
		}
		kind := "none"
		var at ast.Node = loop
		ranged, _ := core.Unparen(loop.X).(*ast.Ident)
		ast.Inspect(fd.Body, func(n ast.Node) bool {
			is, ok := n.(*ast.IfStmt)
			if !ok || !isZeroTest(is.Cond) {
				return true
			}
			at = is
			if loop.Body.Pos() <= is.Pos() && is.End() <= loop.Body.End() {
				kind = "inloop"
				return true
			}
			res := false
			if ranged != nil {
				ast.Inspect(is.Body, func(m ast.Node) bool {
					if as, ok := m.(*ast.AssignStmt); ok && len(as.Lhs) == 1 && len(as.Rhs) == 1 {
						if l, ok := as.Lhs[0].(*ast.Ident); ok && info.ObjectOf(l) == info.ObjectOf(ranged) {
							if se, ok := core.Unparen(as.Rhs[0]).(*ast.SliceExpr); ok && se.High == nil && se.Low != nil {
								if k, ok := core.ConstInt(info, se.Low); ok && k == 1 {
									res = true
								}
							}
						}
					}
					return true
				})
			}
			if res && is.End() <= loop.Pos() {
				if kind != "inloop" {
					kind = "reslice"
				}
			} else if kind == "none" {
				kind = "test without re-slice"
			}
			return true
		})
		name := core.FuncName(fd)
		kinds[name] = kind
		order = append(order, name)
		o := r.Add("R-PROV/V2s", convRel+"."+name+" | zero option vs positional numbers", at.Pos(), "numbering of enum options in "+name)
		switch kind {
		case "none":
			o.Auto("no explicit-UNSPECIFIED case: numbers are <index>+1 over the whole list")
		case "reslice":
			o.Auto("the zero option is taken off the list ([1:]) before the positional loop")
		case "inloop":
			o.Fail("the explicit UNSPECIFIED option is special-cased inside the loop while the other numbers are <index>+1 over the whole list: every option after an explicit UNSPECIFIED gets a number one too high (an `in` / `not_in` rule is then translated to the wrong enum values)")
		default:
			o.Fail("an explicit-UNSPECIFIED test precedes the positional loop but the ranged list is not re-sliced in it: the zero option is numbered twice and the others are shifted")
		}
	})
	sort.Strings(order)
	if len(order) < 2 {
		r.Fatal("R-PROV/V2s: expected the two numbering functions (visitEnumNode, enumTypeRef), found %v", order)
		return
	}
	o := r.Add("R-PROV/V2s", convRel+" | numbering functions agree", token.NoPos, "agreement of "+strings.Join(order, ", "))
	same := true
	for _, nme := range order[1:] {
		if kinds[nme] != kinds[order[0]] {
			same = false
		}
	}
	if same {
		o.Auto("all handle the zero option as: %s", kinds[order[0]])
	} else {
		var parts []string
		for _, nme := range order {
			parts = append(parts, nme+": "+kinds[nme])
		}
		o.Fail("the functions that number enum options disagree about an explicit UNSPECIFIED option (%s): descriptor numbers and the numbers used for in / not_in differ", strings.Join(parts, "; "))
	}
}
