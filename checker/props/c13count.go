package props

import (
	"go/ast"
	"go/token"
	"go/types"
	"sort"
	"strings"

	"j5verif/checker/core"
)

// siblingCountChoices (R-PROV/V7): what is generated for a declaration must
// not depend on how many siblings it has — appending one more would change
// the output for the ones already there. A test of the number of declarations
// against a non-zero constant (`len(topic.methods) == 1`) is therefore only
// allowed to decide between an output and an error: one of its two outcomes
// consists of error returns only.
func siblingCountChoices(r *core.Run) {
	r.Rule("R-PROV/V7", "in sourcewalk and j5convert every `if` whose condition compares len(X) with a non-zero constant, X being a list of source declarations (elements are generated sourcedef/schema messages), has an outcome — its body, or its else branch — that only returns errors: the number of sibling declarations never selects between two successful outputs")
	n := 0
	for _, rel := range []string{walkRel, convRel} {
		pk := r.P.Pkg(rel)
		if pk == nil {
			continue
		}
		info := pk.TypesInfo
		isDeclList := func(e ast.Expr) bool {
			t := info.TypeOf(e)
			if t == nil {
				return false
			}
			sl, ok := t.Underlying().(*types.Slice)
			if !ok {
				return false
			}
			s := core.TypeStr(sl.Elem())
			return strings.HasPrefix(s, "*") && (strings.Contains(s, "sourcedef_j5pb.") || strings.Contains(s, "schema_j5pb."))
		}
		countTest := func(cond ast.Expr) (ast.Expr, bool) {
			var hit ast.Expr
			ast.Inspect(cond, func(x ast.Node) bool {
				b, ok := x.(*ast.BinaryExpr)
				if !ok || hit != nil {
					return true
				}
				switch b.Op {
				case token.EQL, token.NEQ, token.LSS, token.LEQ, token.GTR, token.GEQ:
				default:
					return true
				}
				for _, pair := range [][2]ast.Expr{{b.X, b.Y}, {b.Y, b.X}} {
					c, ok := core.Unparen(pair[0]).(*ast.CallExpr)
					if !ok || len(c.Args) != 1 {
						continue
					}
					if id, ok := c.Fun.(*ast.Ident); !ok || id.Name != "len" {
						continue
					}
					k, isConst := core.ConstInt(info, pair[1])
					if !isConst || !isDeclList(c.Args[0]) {
						continue
					}
					// emptiness tests say nothing about siblings of an existing declaration
					if k == 0 || (k == 1 && (b.Op == token.LSS || b.Op == token.GEQ) && pair[0] == b.X) {
						continue
					}
					hit = b
				}
				return true
			})
			return hit, hit != nil
		}
		errorsOnly := func(stmts []ast.Stmt) bool {
			if len(stmts) == 0 {
				return false
			}
			rets, ok := 0, true
			for _, st := range stmts {
				ast.Inspect(st, func(x ast.Node) bool {
					if _, isLit := x.(*ast.FuncLit); isLit {
						return false
					}
					if ret, isRet := x.(*ast.ReturnStmt); isRet {
						rets++
						if len(ret.Results) == 0 || core.IsNilIdent(info, ret.Results[len(ret.Results)-1]) || core.TypeStr(info.TypeOf(ret.Results[len(ret.Results)-1])) == "" {
							ok = false
						}
						if t := info.TypeOf(ret.Results[len(ret.Results)-1]); t == nil || !types.Implements(t, errorIface()) {
							ok = false
						}
					}
					return true
				})
			}
			_, lastIsRet := stmts[len(stmts)-1].(*ast.ReturnStmt)
			return ok && rets > 0 && lastIsRet
		}
		core.AllFuncDecls(pk, func(fd *ast.FuncDecl) {
			if strings.HasSuffix(r.P.Fset.Position(fd.Pos()).Filename, ".pb.go") {
				return
			}
			handle := func(ifs *ast.IfStmt) {
				test, ok := countTest(ifs.Cond)
				if !ok {
					return
				}
				n++
				pos := ifs.Pos()
				if !pos.IsValid() {
					pos = test.Pos()
				}
				o := r.Add("R-PROV/V7", rel+"."+core.FuncName(fd)+" | "+core.NormExpr(info, test), pos, "choice by the number of sibling declarations")
				bodyErr := errorsOnly(ifs.Body.List)
				elseErr := false
				if blk, isBlk := ifs.Else.(*ast.BlockStmt); isBlk {
					elseErr = errorsOnly(blk.List)
				}
				switch {
				case bodyErr:
					o.Auto("the branch taken under the condition only returns errors")
				case elseErr:
					o.Auto("the other branch only returns errors")
				default:
					o.Fail("both outcomes of `%s` succeed: what is generated for a declaration depends on how many siblings it has, so appending another one changes the names or shapes already generated", core.ExprStr(test))
				}
			}
			ast.Inspect(fd.Body, func(x ast.Node) bool {
				switch y := x.(type) {
				case *ast.IfStmt:
					handle(y)
				case *ast.SwitchStmt:
					// a tagless switch is the same chain of tests
					if y.Tag == nil {
						if chain := core.SwitchAsIfChain(y); chain != nil {
							for cur, ok := chain.(*ast.IfStmt); ok; cur, ok = cur.Else.(*ast.IfStmt) {
								handle(cur)
							}
						}
					}
				}
				return true
			})
		})
	}
	r.Floor("R-PROV/V7", 1, "the unnamed single message of a topic")
}

func errorIface() *types.Interface {
	return types.Universe.Lookup("error").Type().Underlying().(*types.Interface)
}

// enumNumberingAgrees (R-PROV/V2s): the compiler numbers the options of an enum
// in two places — visitEnumNode for the descriptor, enumTypeRef for the table
// that translates the names of in / not_in rules into numbers. Both give an
// explicit leading UNSPECIFIED option the number 0 and count the others from
// 1. "The others" is the point: once the zero option is taken out, the index
// of the loop runs over the remaining list. A loop over the whole list that
// special-cases index 0 numbers every later option one too high. The rule
// requires, in every function of j5convert that ranges over a list of
// Enum_Option and uses <index>+1, that a zero-option test — if there is one —
// sits before the loop and re-slices the ranged list ([1:]) in its body.
func enumNumberingAgrees(r *core.Run) {
	r.Rule("R-PROV/V2s", "in every j5convert function that ranges over a list of schema Enum_Option and computes <range index>+1: the explicit-UNSPECIFIED test (a condition reading Enum_Option.Number == 0), if present, is outside the loop and its body re-slices the ranged list variable with [1:], so the index counts the remaining options; all such functions handle the zero option the same way (both re-slice, or none has the test)")
	pk := r.P.Pkg(convRel)
	if pk == nil {
		r.Fatal("anchor: package %s not found", convRel)
		return
	}
	info := pk.TypesInfo
	kinds := map[string]string{}
	var order []string
	core.AllFuncDecls(pk, func(fd *ast.FuncDecl) {
		if fd.Body == nil {
			return
		}
		var loop *ast.RangeStmt
		ast.Inspect(fd.Body, func(n ast.Node) bool {
			rs, ok := n.(*ast.RangeStmt)
			if !ok || loop != nil {
				return true
			}
			sl, ok := info.TypeOf(rs.X).Underlying().(*types.Slice)
			if !ok || !strings.HasSuffix(core.TypeStr(sl.Elem()), "schema_j5pb.Enum_Option") {
				return true
			}
			key, ok := rs.Key.(*ast.Ident)
			if !ok || key.Name == "_" {
				return true
			}
			kobj := info.ObjectOf(key)
			plusOne := false
			ast.Inspect(rs.Body, func(m ast.Node) bool {
				if b, ok := m.(*ast.BinaryExpr); ok && b.Op == token.ADD {
					if id, ok := core.Unparen(b.X).(*ast.Ident); ok && info.ObjectOf(id) == kobj {
						if k, ok := core.ConstInt(info, b.Y); ok && k == 1 {
							plusOne = true
						}
					}
				}
				return true
			})
			if plusOne {
				loop = rs
			}
			return true
		})
		if loop == nil {
			return
		}
		var isZeroTest func(c ast.Node) bool
		isZeroTest = func(c ast.Node) bool {
			hit := false
			ast.Inspect(c, func(m ast.Node) bool {
				// a predicate helper of this package that makes the test
				if call, ok := m.(*ast.CallExpr); ok && !hit {
					if f := core.CalleeFunc(info, call); f != nil && f.Pkg() == pk.Types {
						if sig, ok := f.Type().(*types.Signature); ok && sig.Results().Len() == 1 && core.TypeStr(sig.Results().At(0).Type()) == "bool" {
							core.AllFuncDecls(pk, func(d *ast.FuncDecl) {
								if info.Defs[d.Name] == types.Object(f) && d.Body != nil && d != fd {
									for _, st := range d.Body.List {
										if rs, ok := st.(*ast.ReturnStmt); ok && len(rs.Results) == 1 && isZeroTest(rs.Results[0]) {
											hit = true
										}
									}
								}
							})
						}
					}
				}
				if b, ok := m.(*ast.BinaryExpr); ok && b.Op == token.EQL {
					for _, side := range []ast.Expr{b.X, b.Y} {
						e := core.Unparen(side)
						if call, ok := e.(*ast.CallExpr); ok && len(call.Args) == 0 {
							if s, ok := call.Fun.(*ast.SelectorExpr); ok && s.Sel.Name == "GetNumber" {
								e = s
							}
						}
						if s, ok := e.(*ast.SelectorExpr); ok && (s.Sel.Name == "Number" || s.Sel.Name == "GetNumber") && strings.HasSuffix(core.TypeStr(info.TypeOf(s.X)), "schema_j5pb.Enum_Option") {
							hit = true
						}
					}
				}
				return true
			})
			return hit
		}
		kind := "none"
		var at ast.Node = loop
		ranged, _ := core.Unparen(loop.X).(*ast.Ident)
		ast.Inspect(fd.Body, func(n ast.Node) bool {
			is, ok := n.(*ast.IfStmt)
			if !ok || !isZeroTest(is.Cond) {
				return true
			}
			at = is
			if loop.Body.Pos() <= is.Pos() && is.End() <= loop.Body.End() {
				kind = "inloop"
				return true
			}
			res := false
			if ranged != nil {
				ast.Inspect(is.Body, func(m ast.Node) bool {
					if as, ok := m.(*ast.AssignStmt); ok && len(as.Lhs) == 1 && len(as.Rhs) == 1 {
						if l, ok := as.Lhs[0].(*ast.Ident); ok && info.ObjectOf(l) == info.ObjectOf(ranged) {
							if se, ok := core.Unparen(as.Rhs[0]).(*ast.SliceExpr); ok && se.High == nil && se.Low != nil {
								if k, ok := core.ConstInt(info, se.Low); ok && k == 1 {
									res = true
								}
							}
						}
					}
					return true
				})
			}
			if res && is.End() <= loop.Pos() {
				if kind != "inloop" {
					kind = "reslice"
				}
			} else if kind == "none" {
				kind = "test without re-slice"
			}
			return true
		})
		name := core.FuncName(fd)
		kinds[name] = kind
		order = append(order, name)
		o := r.Add("R-PROV/V2s", convRel+"."+name+" | zero option vs positional numbers", at.Pos(), "numbering of enum options in "+name)
		switch kind {
		case "none":
			o.Auto("no explicit-UNSPECIFIED case: numbers are <index>+1 over the whole list")
		case "reslice":
			o.Auto("the zero option is taken off the list ([1:]) before the positional loop")
		case "inloop":
			o.Fail("the explicit UNSPECIFIED option is special-cased inside the loop while the other numbers are <index>+1 over the whole list: every option after an explicit UNSPECIFIED gets a number one too high (an `in` / `not_in` rule is then translated to the wrong enum values)")
		default:
			o.Fail("an explicit-UNSPECIFIED test precedes the positional loop but the ranged list is not re-sliced in it: the zero option is numbered twice and the others are shifted")
		}
	})
	sort.Strings(order)
	if len(order) == 1 {
		// one shared numbering helper: agreement is by construction when both
		// the descriptor and the in / not_in table are numbered through it
		var hobj types.Object
		core.AllFuncDecls(pk, func(fd *ast.FuncDecl) {
			if core.FuncName(fd) == order[0] {
				hobj = info.Defs[fd.Name]
			}
		})
		callers := map[string]bool{}
		core.AllFuncDecls(pk, func(fd *ast.FuncDecl) {
			if fd.Body == nil {
				return
			}
			ast.Inspect(fd.Body, func(n ast.Node) bool {
				if c, ok := n.(*ast.CallExpr); ok && hobj != nil {
					if f := core.CalleeFunc(info, c); f != nil && types.Object(f) == hobj {
						callers[core.FuncName(fd)] = true
					}
				}
				return true
			})
		})
		if len(callers) >= 2 {
			var cs []string
			for c := range callers {
				cs = append(cs, c)
			}
			sort.Strings(cs)
			o := r.Add("R-PROV/V2s", convRel+" | numbering functions agree", token.NoPos, "one numbering helper "+order[0])
			o.Auto("one helper numbers the options, used by %s", strings.Join(cs, ", "))
			return
		}
	}
	if len(order) < 2 {
		r.Fatal("R-PROV/V2s: expected the two numbering functions (visitEnumNode, enumTypeRef), found %v", order)
		return
	}
	o := r.Add("R-PROV/V2s", convRel+" | numbering functions agree", token.NoPos, "agreement of "+strings.Join(order, ", "))
	same := true
	for _, nme := range order[1:] {
		if kinds[nme] != kinds[order[0]] {
			same = false
		}
	}
	if same {
		o.Auto("all handle the zero option as: %s", kinds[order[0]])
	} else {
		var parts []string
		for _, nme := range order {
			parts = append(parts, nme+": "+kinds[nme])
		}
		o.Fail("the functions that number enum options disagree about an explicit UNSPECIFIED option (%s): descriptor numbers and the numbers used for in / not_in differ", strings.Join(parts, "; "))
	}
}

// valueNamePrefixGuard (R-PROV/valuename): the proto name of an enum value is
// the option's name, with the enum's prefix put in front *unless the name
// already begins with it* — an option may be written `FAST` or `MODE_FAST`.
// For the default prefix (derived from the enum's name) this matters: an
// unconditional `prefix + name` turns `MODE_FAST` into `MODE_MODE_FAST`. Every
// place that builds a value name from a prefix that is not the schema's own
// declared Prefix field therefore sits under the `!strings.HasPrefix(name,
// prefix)` test — the descriptor builder does, and so must the table that
// translates the names of in / not_in rules, or a valid rule naming the option
// as it was declared is rejected as "not found".
func valueNamePrefixGuard(r *core.Run) {
	r.Rule("R-PROV/valuename", "in j5convert every concatenation <prefix> + <Enum_Option>.Name (directly or through a local holding the name) whose prefix is not the selector .Prefix of the schema's Enum message — a local, a struct field or a call result, i.e. possibly the derived default prefix — lies in the body of an `if !strings.HasPrefix(<name>, <prefix>)`: a name that already carries the prefix is not prefixed twice")
	pk := r.P.Pkg(convRel)
	if pk == nil {
		r.Fatal("anchor: package %s not found", convRel)
		return
	}
	info := pk.TypesInfo
	isOptName := func(fd *ast.FuncDecl, e ast.Expr) bool {
		e = core.Unparen(e)
		if id, ok := e.(*ast.Ident); ok {
			// name := schema.Name, possibly re-assigned to prefix+name
			obj := info.ObjectOf(id)
			hit := false
			ast.Inspect(fd.Body, func(m ast.Node) bool {
				if as, ok := m.(*ast.AssignStmt); ok && len(as.Lhs) == len(as.Rhs) {
					for i, l := range as.Lhs {
						if lid, ok := l.(*ast.Ident); ok && info.ObjectOf(lid) == obj {
							if s, ok := core.Unparen(as.Rhs[i]).(*ast.SelectorExpr); ok && s.Sel.Name == "Name" && strings.HasSuffix(core.TypeStr(info.TypeOf(s.X)), "schema_j5pb.Enum_Option") {
								hit = true
							}
						}
					}
				}
				return true
			})
			return hit
		}
		s, ok := e.(*ast.SelectorExpr)
		return ok && s.Sel.Name == "Name" && strings.HasSuffix(core.TypeStr(info.TypeOf(s.X)), "schema_j5pb.Enum_Option")
	}
	declared := func(e ast.Expr) bool {
		e = core.Unparen(e)
		if id, ok := e.(*ast.Ident); ok {
			// `prefix := node.Schema.Prefix` named once
			if def := soleDefinition(info, id); def != nil {
				e = core.Unparen(def)
			}
		}
		s, ok := e.(*ast.SelectorExpr)
		return ok && s.Sel.Name == "Prefix" && strings.HasSuffix(core.TypeStr(info.TypeOf(s.X)), "schema_j5pb.Enum")
	}
	n := 0
	core.AllFuncDecls(pk, func(fd *ast.FuncDecl) {
		if fd.Body == nil {
			return
		}
		var stack []ast.Node
		ast.Inspect(fd.Body, func(nd ast.Node) bool {
			if nd == nil {
				stack = stack[:len(stack)-1]
				return true
			}
			stack = append(stack, nd)
			b, ok := nd.(*ast.BinaryExpr)
			if !ok || b.Op != token.ADD || !isOptName(fd, b.Y) {
				return true
			}
			if bt, ok := info.TypeOf(b.X).Underlying().(*types.Basic); !ok || bt.Kind() != types.String {
				return true
			}
			n++
			o := r.Add("R-PROV/valuename", convRel+"."+core.FuncName(fd)+" | "+core.NormExpr(info, b), b.Pos(), "value name built from a prefix and an option name")
			if declared(b.X) {
				o.Auto("the schema's declared prefix as it is")
				return true
			}
			guarded := false
			for _, anc := range stack {
				is, ok := anc.(*ast.IfStmt)
				if !ok || !(is.Body.Pos() <= b.Pos() && b.End() <= is.Body.End()) {
					continue
				}
				u, ok := core.Unparen(is.Cond).(*ast.UnaryExpr)
				if !ok || u.Op != token.NOT {
					continue
				}
				c, ok := core.Unparen(u.X).(*ast.CallExpr)
				if ok && core.CalleeName(info, c) == "strings.HasPrefix" && len(c.Args) == 2 && core.NormExpr(info, c.Args[1]) == core.NormExpr(info, b.X) {
					guarded = true
				}
			}
			if guarded {
				o.Auto("only when the name does not already begin with the prefix")
			} else {
				o.Fail("the prefix (%s, which may be the default derived from the enum's name) is put in front of the option's name unconditionally: an option declared with its full name, MODE_FAST, becomes MODE_MODE_FAST here while the descriptor calls it MODE_FAST — a rule that names the option is rejected as not found", core.NormExpr(info, b.X))
			}
			return true
		})
	})
	r.Floor("R-PROV/valuename", 2, "enumBuilder.addValue, enumTypeRef")
}

// commentPathNumbers (R-CONST/srcpath): descriptions travel as source-code-info
// locations whose path is made of descriptor.proto field numbers. Each builder
// function that adds an element to a descriptor list registers the element's
// comments under {<number of that list's field>, <index>}. The number is that
// of the field *in the message that owns the list*: enum_type is 5 in
// FileDescriptorProto and 4 in DescriptorProto. The rule reads the number from
// the generated struct tag of the field the function appends to and compares
// it with the first element of the path the function builds.
func commentPathNumbers(r *core.Run) {
	r.Rule("R-CONST/srcpath", "in j5convert every function that both appends to a list field of a descriptorpb message (x.F = append(x.F, …)) and builds a comment path []int32{K, …} has K equal to the protobuf field number of F in its own message (read from the generated struct tag): comments are attached to the element that was added, at every nesting level")
	pk := r.P.Pkg(convRel)
	if pk == nil {
		r.Fatal("anchor: package %s not found", convRel)
		return
	}
	info := pk.TypesInfo
	n := 0
	core.AllFuncDecls(pk, func(fd *ast.FuncDecl) {
		if fd.Body == nil {
			return
		}
		// the descriptor list the function appends to
		fieldNum := int64(-1)
		fieldName := ""
		lists := 0
		ast.Inspect(fd.Body, func(m ast.Node) bool {
			as, ok := m.(*ast.AssignStmt)
			if !ok || len(as.Lhs) != 1 || len(as.Rhs) != 1 {
				return true
			}
			sel, ok := core.Unparen(as.Lhs[0]).(*ast.SelectorExpr)
			if !ok {
				return true
			}
			c, ok := core.Unparen(as.Rhs[0]).(*ast.CallExpr)
			if !ok || core.CalleeName(info, c) != "builtin.append" {
				return true
			}
			owner := core.NamedOf(info.TypeOf(sel.X))
			if owner == nil || owner.Obj().Pkg() == nil || !strings.HasSuffix(owner.Obj().Pkg().Path(), "descriptorpb") {
				return true
			}
			st, ok := owner.Underlying().(*types.Struct)
			if !ok {
				return true
			}
			for i := 0; i < st.NumFields(); i++ {
				if st.Field(i).Name() != sel.Sel.Name {
					continue
				}
				// protobuf:"bytes,4,rep,name=message_type,…"
				tag := st.Tag(i)
				if j := strings.Index(tag, `protobuf:"`); j >= 0 {
					parts := strings.Split(tag[j+len(`protobuf:"`):], ",")
					if len(parts) > 1 {
						var k int64
						for _, ch := range parts[1] {
							if ch < '0' || ch > '9' {
								k = -1
								break
							}
							k = k*10 + int64(ch-'0')
						}
						if k > 0 {
							fieldNum, fieldName = k, owner.Obj().Name()+"."+sel.Sel.Name
							lists++
						}
					}
				}
			}
			return true
		})
		if lists != 1 {
			return
		}
		// the comment path literal: []int32{K, …} (K may be a named constant)
		ast.Inspect(fd.Body, func(m ast.Node) bool {
			cl, ok := m.(*ast.CompositeLit)
			if !ok || core.TypeStr(info.TypeOf(cl)) != "[]int32" || len(cl.Elts) < 2 {
				return true
			}
			k, isConst := core.ConstInt(info, cl.Elts[0])
			if !isConst {
				return true
			}
			n++
			o := r.Add("R-CONST/srcpath", convRel+"."+core.FuncName(fd)+" | comment path of "+fieldName, cl.Pos(), "source-location path for elements of "+fieldName)
			if k == fieldNum {
				o.Auto("%d = field number of %s", k, fieldName)
			} else {
				o.Fail("the path starts with %d but %s is field %d of its message: the comments of what this function adds are registered under a path no element owns — the descriptions are missing from the reflected schema and from the printed .proto", k, fieldName, fieldNum)
			}
			return true
		})
	})
	r.Floor("R-CONST/srcpath", 4, "addMessage / addEnum / addService of the file, addMessage / addEnum of a message")
}
