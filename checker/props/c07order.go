package props

import (
	"go/ast"
	"go/token"
	"go/types"
	"sort"
	"strings"

	"golang.org/x/tools/go/packages"

	"j5verif/checker/core"
)

// convertedFilesInOrder (R-PROV/mainfirst): ConvertJ5File hands its caller the
// main file followed by the sub-package files in the order they were created.
// The single-file lint path links them in that order and relies on it: a
// sub-package file linked first pulls in the previous result of the main file
// and the fresh one then collides with it. The order is a property of how the
// list is built: a slice that starts with the main file, only grows at the
// tail, and is copied out by one forward loop without reordering.
func convertedFilesInOrder(r *core.Run) {
	r.Rule("R-PROV/mainfirst", "the list of descriptors j5convert returns for one source file is built by ranging over a slice-typed field of the root context that every constructor initialises with the main file as its first element and every other write extends by tail append; the returned list is filled by tail append in that one loop and is never sorted, reversed or otherwise reordered")
	pk := r.P.Pkg(convRel)
	if pk == nil {
		r.Fatal("anchor: package %s not found", convRel)
		return
	}
	info := pk.TypesInfo
	fd, _ := r.P.FuncDecl(convRel, "ConvertJ5File")
	if fd == nil {
		r.Fatal("anchor: j5convert.ConvertJ5File not found")
		return
	}
	// the list may be built by a helper the function returns the result of (`return root.descriptors(), nil`)
	ast.Inspect(fd.Body, func(n ast.Node) bool {
		if rs, ok := n.(*ast.ReturnStmt); ok && len(rs.Results) == 2 {
			if c, ok := core.Unparen(rs.Results[0]).(*ast.CallExpr); ok {
				if fn := core.CalleeFunc(info, c); fn != nil && fn.Pkg() == pk.Types {
					if hd := core.DeclOf(pk, fn.Origin()); hd != nil && hd.Body != nil {
						fd = hd
					}
				}
			}
		}
		return true
	})
	// the returned descriptor list
	var resObj types.Object
	ast.Inspect(fd.Body, func(n ast.Node) bool {
		if rs, ok := n.(*ast.ReturnStmt); ok && len(rs.Results) >= 1 {
			if id, ok := core.Unparen(rs.Results[0]).(*ast.Ident); ok && id.Name != "nil" {
				if _, isSlice := info.TypeOf(id).Underlying().(*types.Slice); isSlice {
					resObj = info.ObjectOf(id)
				}
			}
		}
		return true
	})
	o := r.Add("R-PROV/mainfirst", convRel+".ConvertJ5File | result in construction order", fd.Pos(), "order of the converted files")
	if resObj == nil {
		o.Fail("the returned descriptor list is not a local slice variable: its order cannot be followed")
		return
	}
	var srcField *types.Var
	problem := ""
	loops := 0
	ast.Inspect(fd.Body, func(n ast.Node) bool {
		switch x := n.(type) {
		case *ast.RangeStmt:
			fills := false
			ast.Inspect(x.Body, func(m ast.Node) bool {
				if as, ok := m.(*ast.AssignStmt); ok && len(as.Lhs) == 1 && len(as.Rhs) == 1 {
					if id, ok := core.Unparen(as.Lhs[0]).(*ast.Ident); ok && info.ObjectOf(id) == resObj {
						fills = true
						c, isCall := core.Unparen(as.Rhs[0]).(*ast.CallExpr)
						if !isCall || core.CalleeName(info, c) != "builtin.append" || len(c.Args) < 1 {
							problem = "the list is written by something other than a tail append"
						} else if aid, ok := core.Unparen(c.Args[0]).(*ast.Ident); !ok || info.ObjectOf(aid) != resObj {
							problem = "the list is written by something other than a tail append"
						}
					}
				}
				return true
			})
			if !fills {
				return true
			}
			loops++
			sel, ok := core.Unparen(x.X).(*ast.SelectorExpr)
			if !ok {
				problem = "the loop that fills the list does not range over a field of the root context"
				return true
			}
			f, _ := info.ObjectOf(sel.Sel).(*types.Var)
			if f == nil || !f.IsField() {
				problem = "the loop that fills the list does not range over a field of the root context"
				return true
			}
			if _, isSlice := f.Type().Underlying().(*types.Slice); !isSlice {
				problem = "the files are kept in a " + core.TypeStr(f.Type()) + ", which has no first element and no creation order"
				return true
			}
			srcField = f
		case *ast.CallExpr:
			name := core.CalleeName(info, x)
			if i := strings.Index(name, "["); i > 0 {
				name = name[:i]
			}
			if strings.HasPrefix(name, "sort.") || strings.HasPrefix(name, "slices.Sort") || name == "slices.Reverse" {
				for _, a := range x.Args {
					mentions := false
					ast.Inspect(a, func(m ast.Node) bool {
						if id, ok := m.(*ast.Ident); ok && info.ObjectOf(id) == resObj {
							mentions = true
						}
						return true
					})
					if mentions {
						problem = name + " reorders the list: the main file is no longer first"
					}
				}
			}
		}
		return true
	})
	switch {
	case problem != "":
		o.Fail("%s (the single-file lint path links the files in this order and needs the main file before the sub-package files that import it)", problem)
	case loops != 1 || srcField == nil:
		o.Fail("expected exactly one loop filling the returned list from the root context's file list, found %d", loops)
	default:
		o.Auto("filled by tail append in one loop over %s, not reordered", srcField.Name())
	}
	if srcField == nil {
		return
	}
	// writes to the field: constructors start with the main file, the rest are tail appends
	n := 0
	core.AllFuncDecls(pk, func(d *ast.FuncDecl) {
		if d.Body == nil {
			return
		}
		ast.Inspect(d.Body, func(nd ast.Node) bool {
			switch x := nd.(type) {
			case *ast.CompositeLit:
				v := litKeyObj(info, x, srcField)
				if v == nil {
					return true
				}
				n++
				ob := r.Add("R-PROV/mainfirst", convRel+"."+core.FuncName(d)+" | initial "+srcField.Name(), v.Pos(), "initial file list")
				main := litKeyNamed(x, "mainFile")
				lit, isLit := core.Unparen(v).(*ast.CompositeLit)
				if isLit && len(lit.Elts) >= 1 && main != nil && core.NormExpr(info, lit.Elts[0]) == core.NormExpr(info, main) {
					ob.Auto("starts with the main file")
				} else {
					ob.Fail("the list does not start with the value stored as the main file")
				}
			case *ast.AssignStmt:
				for i, l := range x.Lhs {
					sel, ok := core.Unparen(l).(*ast.SelectorExpr)
					if !ok || info.ObjectOf(sel.Sel) != types.Object(srcField) || x.Tok != token.ASSIGN || i >= len(x.Rhs) {
						continue
					}
					n++
					ob := r.Add("R-PROV/mainfirst", convRel+"."+core.FuncName(d)+" | write "+srcField.Name(), x.Pos(), "write to the file list")
					c, isCall := core.Unparen(x.Rhs[i]).(*ast.CallExpr)
					if isCall && core.CalleeName(info, c) == "builtin.append" && len(c.Args) >= 2 && core.NormExpr(info, c.Args[0]) == core.NormExpr(info, l) {
						ob.Auto("tail append")
					} else {
						ob.Fail("the file list is rewritten: creation order (main file first) is not kept")
					}
				}
			}
			return true
		})
	})
	if n < 2 {
		r.Fatal("R-PROV/mainfirst: expected the constructor literal and the append of rootContext.%s, found %d writes", srcField.Name(), n)
	}
}

// litKeyObj: the value of the key that denotes the given field.
func litKeyObj(info *types.Info, cl *ast.CompositeLit, f *types.Var) ast.Expr {
	for _, e := range cl.Elts {
		if kv, ok := e.(*ast.KeyValueExpr); ok {
			if id, ok := kv.Key.(*ast.Ident); ok && info.ObjectOf(id) == types.Object(f) {
				return kv.Value
			}
		}
	}
	return nil
}

func litKeyNamed(cl *ast.CompositeLit, name string) ast.Expr {
	for _, e := range cl.Elts {
		if kv, ok := e.(*ast.KeyValueExpr); ok {
			if id, ok := kv.Key.(*ast.Ident); ok && id.Name == name {
				return kv.Value
			}
		}
	}
	return nil
}

// subPackageFileNameInjective (R-PROV/filename): the services and topics of a
// source file go into files named after it. Two source files of a package
// must not map to the same output name — the later one silently replaces the
// earlier one's services. Removing a constant suffix from the base name keeps
// distinct names distinct; cutting at a separator does not.
func subPackageFileNameInjective(r *core.Run) {
	r.Rule("R-PROV/filename", "the base name of a sub-package output file is the source file's base name with at most constant suffixes removed (strings.TrimSuffix / CutSuffix, or a slice up to len-k) and constant text added: an injective function of the source name, so two source files of a package never produce one output file")
	fd, pk := r.P.FuncDecl(convRel, "subPackageFileName")
	if fd == nil {
		r.Fatal("anchor: j5convert.subPackageFileName not found")
		return
	}
	info := pk.TypesInfo
	if fd.Type.Params == nil || len(fd.Type.Params.List) == 0 || len(fd.Type.Params.List[0].Names) == 0 {
		r.Fatal("anchor: j5convert.subPackageFileName has no named parameter")
		return
	}
	src := info.ObjectOf(fd.Type.Params.List[0].Names[0])
	o := r.Add("R-PROV/filename", convRel+".subPackageFileName | injective in the source name", fd.Pos(), "name of a sub-package output file")
	// the expressions that flow into the result: follow locals back
	var why string
	seen := map[types.Object]bool{}
	var inj func(e ast.Expr) bool // e is an injective function of the source base name (or constant)
	inj = func(e ast.Expr) bool {
		e = core.Unparen(e)
		if _, ok := core.ConstString(info, e); ok {
			return true
		}
		switch x := e.(type) {
		case *ast.Ident:
			obj := info.ObjectOf(x)
			if obj == src {
				return true
			}
			for _, pf := range fd.Type.Params.List {
				for _, pn := range pf.Names {
					if info.ObjectOf(pn) == obj {
						return true // another parameter: fixed for the files of one package
					}
				}
			}
			if seen[obj] {
				return true
			}
			seen[obj] = true
			// every definition of the local
			okAll, any := true, false
			ast.Inspect(fd.Body, func(n ast.Node) bool {
				as, ok := n.(*ast.AssignStmt)
				if !ok {
					return true
				}
				for i, l := range as.Lhs {
					id, ok := l.(*ast.Ident)
					if !ok || info.ObjectOf(id) != obj {
						continue
					}
					any = true
					if len(as.Lhs) == len(as.Rhs) {
						if !inj(as.Rhs[i]) {
							okAll = false
						}
						continue
					}
					// tuple: path.Split (dir, base), strings.CutSuffix (before, found)
					c, isCall := core.Unparen(as.Rhs[0]).(*ast.CallExpr)
					if !isCall {
						okAll = false
						continue
					}
					switch core.CalleeName(info, c) {
					case "path.Split", "path/filepath.Split":
						if !inj(c.Args[0]) {
							okAll = false
						}
					case "strings.CutSuffix":
						if i != 0 || !inj(c.Args[0]) {
							okAll = false
						} else if _, isConst := core.ConstString(info, c.Args[1]); !isConst {
							okAll = false
						}
					default:
						why = core.CalleeName(info, c) + " keeps only part of the name"
						okAll = false
					}
				}
				return true
			})
			return any && okAll
		case *ast.BinaryExpr:
			return x.Op == token.ADD && inj(x.X) && inj(x.Y)
		case *ast.SliceExpr:
			// x[:len(x)-k]
			if x.Low == nil && x.High != nil {
				if b, ok := core.Unparen(x.High).(*ast.BinaryExpr); ok && b.Op == token.SUB {
					if c, ok := core.Unparen(b.X).(*ast.CallExpr); ok && core.CalleeName(info, c) == "builtin.len" && core.NormExpr(info, c.Args[0]) == core.NormExpr(info, x.X) {
						return inj(x.X)
					}
				}
			}
			why = "a slice of the name that is not `name[:len(name)-k]`"
			return false
		case *ast.CallExpr:
			name := core.CalleeName(info, x)
			switch name {
			case "strings.TrimSuffix":
				if _, isConst := core.ConstString(info, x.Args[1]); isConst {
					return inj(x.Args[0])
				}
			case "path.Base", "path/filepath.Base", "path.Join", "path/filepath.Join", "path.Clean":
				for _, a := range x.Args {
					if !inj(a) {
						return false
					}
				}
				return true
			case "fmt.Sprintf":
				if f, ok := core.ConstString(info, x.Args[0]); ok && !strings.ContainsAny(strings.ReplaceAll(f, "%s", ""), "%") {
					for _, a := range x.Args[1:] {
						if !inj(a) {
							return false
						}
					}
					return true
				}
			}
			if why == "" {
				why = name + " keeps only part of the name (or is not known to keep all of it)"
			}
			return false
		}
		if why == "" {
			why = "an expression the rule does not follow: " + core.NormExpr(info, e)
		}
		return false
	}
	ok := true
	rets := 0
	ast.Inspect(fd.Body, func(n ast.Node) bool {
		if rs, isRet := n.(*ast.ReturnStmt); isRet {
			for _, e := range rs.Results {
				rets++
				if !inj(e) {
					ok = false
				}
			}
		}
		return true
	})
	if ok && rets > 0 {
		o.Auto("constant suffix removed, constant text added")
	} else {
		o.Fail("the output name is not an injective function of the source file name (%s): two source files such as order.commands.j5s and order.queries.j5s produce the same sub-package file and the later one replaces the services of the earlier one", why)
	}
}

// exportsOfThisPackageOnly (R-PROV/exportscope): the summary of a source file
// lists the types the file exports; the package's resolver hands them out as
// types of the file's package, declared in its main output file. The objects
// inside `service` and `topic` blocks (request, response, message) are
// generated into the sub-package files, under another proto package: they
// must not be exported. The walk descends into those blocks, so the collector
// has to know where it is: the visitor's ServiceFile/TopicFile callbacks
// write state that the export function tests.
func exportsOfThisPackageOnly(r *core.Run) {
	r.Rule("R-PROV/exportscope", "in the j5convert function that collects a source file's exports with a sourcewalk.DefaultVisitor: the visitor sets the ServiceFile and TopicFile callbacks (and their exits), each writes a field of the collector, and the function that appends to the collector's export list tests such a field before it appends — what is generated into the service/topic sub-packages is not exported as a type of the parent package")
	pk := r.P.Pkg(convRel)
	if pk == nil {
		r.Fatal("anchor: package %s not found", convRel)
		return
	}
	info := pk.TypesInfo
	// the collector: functions that build a DefaultVisitor whose Object callback reaches an append to a field named by the export list
	var vis *ast.CompositeLit
	var visFd *ast.FuncDecl
	core.AllFuncDecls(pk, func(fd *ast.FuncDecl) {
		if fd.Body == nil {
			return
		}
		ast.Inspect(fd.Body, func(n ast.Node) bool {
			cl, ok := n.(*ast.CompositeLit)
			if !ok || !strings.HasSuffix(core.TypeStr(info.TypeOf(cl)), "sourcewalk.DefaultVisitor") {
				return true
			}
			// it is the summary collector when its Object callback calls a same-package function that appends a *TypeRef
			if ob := litKeyNamed(cl, "Object"); ob != nil {
				ast.Inspect(ob, func(m ast.Node) bool {
					if c, ok := m.(*ast.CallExpr); ok {
						if fn := core.CalleeFunc(info, c); fn != nil && fn.Pkg() == pk.Types && appendsTypeRef(pk, info, fn) != nil {
							vis, visFd = cl, fd
						}
					}
					return true
				})
			}
			return true
		})
	})
	if vis == nil {
		r.Fatal("R-PROV/exportscope: the summary collector (a sourcewalk.DefaultVisitor whose Object callback registers an export) was not found in %s", convRel)
		return
	}
	// fields written by the sub-package callbacks
	state := map[types.Object]bool{}
	missing := []string{}
	for _, key := range []string{"ServiceFile", "ServiceFileExit", "TopicFile", "TopicFileExit"} {
		cb := litKeyNamed(vis, key)
		wrote := false
		if cb != nil {
			ast.Inspect(cb, func(n ast.Node) bool {
				var lhs []ast.Expr
				switch x := n.(type) {
				case *ast.AssignStmt:
					lhs = x.Lhs
				case *ast.IncDecStmt:
					lhs = []ast.Expr{x.X}
				}
				for _, l := range lhs {
					if s, ok := core.Unparen(l).(*ast.SelectorExpr); ok {
						if f, ok := info.ObjectOf(s.Sel).(*types.Var); ok && f.IsField() {
							state[f] = true
							wrote = true
						}
					}
				}
				return true
			})
		}
		if !wrote {
			missing = append(missing, key)
		}
	}
	// every function that appends an export tests that state first
	n := 0
	core.AllFuncDecls(pk, func(fd *ast.FuncDecl) {
		fn, _ := info.Defs[fd.Name].(*types.Func)
		if fn == nil || fd.Body == nil {
			return
		}
		app := appendsTypeRef(pk, info, fn)
		if app == nil {
			return
		}
		n++
		o := r.Add("R-PROV/exportscope", convRel+"."+core.FuncName(fd)+" | exports only outside service/topic files", app.Pos(), "registration of an exported type")
		if len(missing) > 0 {
			o.Fail("the collector in %s does not track %s: the request, response and message objects generated into the service/topic sub-packages are exported as types of the parent package — a reference to a same-named object of the package then resolves to a type that does not exist there, or to whichever file was listed last", core.FuncName(visFd), strings.Join(missing, ", "))
			return
		}
		tested := false
		ast.Inspect(fd.Body, func(m ast.Node) bool {
			is, ok := m.(*ast.IfStmt)
			if !ok || is.Pos() > app.Pos() {
				return true
			}
			ast.Inspect(is.Cond, func(c ast.Node) bool {
				if s, ok := c.(*ast.SelectorExpr); ok && state[info.ObjectOf(s.Sel)] {
					tested = true
				}
				return true
			})
			return true
		})
		if tested {
			o.Auto("the append is guarded by the sub-package state the visitor maintains")
		} else {
			o.Fail("the export is registered without a test of the sub-package state: objects of service/topic files are exported as types of the parent package")
		}
	})
	if n == 0 {
		r.Fatal("R-PROV/exportscope: no function appends to the export list")
	}
}

// appendsTypeRef: the statement of fn that appends its *TypeRef parameter (as it is, or wrapped in a
// literal) to a slice field of its receiver.
func appendsTypeRef(pk *packages.Package, info *types.Info, fn *types.Func) ast.Node {
	fd := core.DeclOf(pk, fn)
	if fd == nil || fd.Body == nil || fd.Recv == nil || fd.Type.Params == nil {
		return nil
	}
	params := map[types.Object]bool{}
	for _, p := range fd.Type.Params.List {
		if strings.HasSuffix(core.TypeStr(info.TypeOf(p.Type)), "j5convert.TypeRef") {
			for _, nm := range p.Names {
				params[info.ObjectOf(nm)] = true
			}
		}
	}
	if len(params) == 0 {
		return nil
	}
	var out ast.Node
	ast.Inspect(fd.Body, func(n ast.Node) bool {
		as, ok := n.(*ast.AssignStmt)
		if !ok || len(as.Lhs) != 1 || len(as.Rhs) != 1 {
			return true
		}
		c, ok := core.Unparen(as.Rhs[0]).(*ast.CallExpr)
		if !ok || core.CalleeName(info, c) != "builtin.append" || len(c.Args) < 2 {
			return true
		}
		if _, isSel := core.Unparen(as.Lhs[0]).(*ast.SelectorExpr); !isSel {
			return true
		}
		for _, a := range c.Args[1:] {
			ast.Inspect(a, func(m ast.Node) bool {
				if id, ok := m.(*ast.Ident); ok && params[info.ObjectOf(id)] {
					out = as
				}
				return true
			})
		}
		return true
	})
	return out
}

// refsCollectedEverywhere (R-FLOW/deps, collector clause): the summary of a
// source file lists the types it refers to, and the package loader loads the
// packages of exactly those. A reference made inside a service or topic block
// needs its package loaded like any other — the generated request or message
// object is converted with the same resolver. So while exports are collected
// outside those blocks only (R-PROV/exportscope), references are collected
// everywhere: the function that appends a reference to the collector's list
// does so unconditionally.
func refsCollectedEverywhere(r *core.Run) {
	r.Rule("R-FLOW/deps", "SourceSummary: in the loop over the collected type references, every iteration that does not return an error appends the expanded reference to TypeDependencies; an iteration may skip the append only under a seen-set test whose key reads both the package and the schema name of the reference (two packages may export the same type name) — otherwise a package referenced only through a same-named type is never loaded and a valid file is rejected. Collector clause: the j5convert function that appends a *sourcewalk.RefNode parameter to a list of its receiver does so on every path (no return before the append, the append under no condition)")
	pk := r.P.Pkg(convRel)
	if pk == nil {
		r.Fatal("anchor: package %s not found", convRel)
		return
	}
	info := pk.TypesInfo
	n := 0
	core.AllFuncDecls(pk, func(fd *ast.FuncDecl) {
		if fd.Body == nil || fd.Recv == nil || fd.Type.Params == nil {
			return
		}
		params := map[types.Object]bool{}
		for _, p := range fd.Type.Params.List {
			if strings.HasSuffix(core.TypeStr(info.TypeOf(p.Type)), "sourcewalk.RefNode") {
				for _, nm := range p.Names {
					params[info.ObjectOf(nm)] = true
				}
			}
		}
		if len(params) == 0 {
			return
		}
		var app *ast.AssignStmt
		ast.Inspect(fd.Body, func(m ast.Node) bool {
			as, ok := m.(*ast.AssignStmt)
			if !ok || len(as.Lhs) != 1 || len(as.Rhs) != 1 {
				return true
			}
			c, ok := core.Unparen(as.Rhs[0]).(*ast.CallExpr)
			if !ok || core.CalleeName(info, c) != "builtin.append" || len(c.Args) < 2 {
				return true
			}
			if _, isSel := core.Unparen(as.Lhs[0]).(*ast.SelectorExpr); !isSel {
				return true
			}
			for _, a := range c.Args[1:] {
				if id, ok := core.Unparen(a).(*ast.Ident); ok && params[info.ObjectOf(id)] {
					app = as
				}
			}
			return true
		})
		if app == nil {
			return
		}
		n++
		o := r.Add("R-FLOW/deps", convRel+"."+core.FuncName(fd)+" | references collected unconditionally", app.Pos(), "collection of a type reference")
		top := false
		for _, st := range fd.Body.List {
			if st == ast.Stmt(app) {
				top = true
				break
			}
			bad := false
			ast.Inspect(st, func(m ast.Node) bool {
				if _, isRet := m.(*ast.ReturnStmt); isRet {
					bad = true
				}
				return true
			})
			if bad {
				break
			}
		}
		if top {
			o.Auto("appended on every path")
		} else {
			o.Fail("the reference is not recorded on every path (a return precedes the append, or the append is conditional): a package referred to only from where the condition skips — a service request, a topic message — is never loaded, and the valid package does not compile (`package X not loaded`)")
		}
	})
	if n == 0 {
		r.Fatal("R-FLOW/deps: no function of %s appends a *sourcewalk.RefNode to its receiver's list (summaryWalker.addRef)", convRel)
	}
}

// rawBodyTypeAgreement (R-CONST/rawbody): a method without a response block
// returns a raw body; sourcewalk names its output type with a string constant
// and j5convert recognises the case by comparing the output type with a string
// constant, to register the import of the file that declares the type. Two
// spellings of one name in two packages: they have to be the same string, or
// the generated service file refers to a type it does not import.
func rawBodyTypeAgreement(r *core.Run) {
	r.Rule("R-CONST/rawbody", "the string constants sourcewalk assigns as the output type of a method without response (those naming a google.api type) are exactly the constants j5convert compares a method's OutputType with before it registers that type's import")
	wpk, cpk := r.P.Pkg(walkRel), r.P.Pkg(convRel)
	if wpk == nil || cpk == nil {
		r.Fatal("anchor: packages %s / %s not found", walkRel, convRel)
		return
	}
	produced := map[string]token.Pos{}
	core.AllFuncDecls(wpk, func(fd *ast.FuncDecl) {
		if fd.Body == nil {
			return
		}
		ast.Inspect(fd.Body, func(n ast.Node) bool {
			var vals []ast.Expr
			switch x := n.(type) {
			case *ast.AssignStmt:
				for i, l := range x.Lhs {
					if i < len(x.Rhs) && strings.Contains(strings.ToLower(core.ExprStr(l)), "outputtype") {
						vals = append(vals, x.Rhs[i])
					}
				}
			case *ast.KeyValueExpr:
				if id, ok := x.Key.(*ast.Ident); ok && id.Name == "OutputType" {
					vals = append(vals, x.Value)
				}
			}
			for _, v := range vals {
				if s, ok := core.ConstString(wpk.TypesInfo, v); ok && strings.Contains(s, "google.api.") {
					produced[s] = v.Pos()
				}
			}
			return true
		})
	})
	compared := map[string]token.Pos{}
	core.AllFuncDecls(cpk, func(fd *ast.FuncDecl) {
		if fd.Body == nil {
			return
		}
		ast.Inspect(fd.Body, func(n ast.Node) bool {
			b, ok := n.(*ast.BinaryExpr)
			if !ok || b.Op != token.EQL {
				return true
			}
			for _, pair := range [][2]ast.Expr{{b.X, b.Y}, {b.Y, b.X}} {
				if sel, ok := core.Unparen(pair[0]).(*ast.SelectorExpr); ok && sel.Sel.Name == "OutputType" {
					if s, ok := core.ConstString(cpk.TypesInfo, pair[1]); ok {
						compared[s] = b.Pos()
					}
				}
			}
			return true
		})
	})
	if len(produced) == 0 || len(compared) == 0 {
		r.Fatal("R-CONST/rawbody: the raw-body output type constant was not found on both sides (sourcewalk: %d, j5convert: %d)", len(produced), len(compared))
		return
	}
	for s, pos := range produced {
		o := r.Add("R-CONST/rawbody", walkRel+" | output type "+s, pos, "output type of a method without a response block")
		if _, ok := compared[s]; ok {
			o.Auto("j5convert compares OutputType with the same constant")
		} else {
			var cs []string
			for c := range compared {
				cs = append(cs, c)
			}
			sort.Strings(cs)
			o.Fail("sourcewalk names the raw body type %q, j5convert registers the import only for %q: the service file refers to a type whose file it does not import, and a valid package with a method without response fails to link", s, strings.Join(cs, ", "))
		}
	}
}
