package props

import (
	"j5verif/checker/core"
	"j5verif/checker/rules"
)

func init() { Registry["C10"] = C10 }

// C10 — shared codecs and schema caches are safe for concurrent use.
func C10(r *core.Run) {
	r.Assumef("protobuf-go descriptors and distinct messages are safe for concurrent reads; sync.Mutex gives mutual exclusion and happens-before between Unlock and the next Lock")
	r.Assumef("type-based sharing: an object is shared iff its type is reachable by field types from codec.Codec; stores into objects allocated in the same function are private until published (x/tools v0.29.0 has no points-to analysis; this is the stated approximation)")
	rules.LockDiscipline(r, rules.LockConfig{
		SharedRel: "internal/codec", SharedType: "Codec",
		Entries: []rules.Entry{
			rules.E("internal/codec", "Codec.JSONToProto"),
			rules.E("internal/codec", "Codec.QueryToProto"),
			rules.E("internal/codec", "Codec.ProtoToJSON"),
			rules.E("internal/codec", "Codec.EncodeAny"),
			rules.E("internal/codec", "Codec.DecodeAnyTo"),
			rules.E("lib/j5reflect", "Reflector.NewRoot"),
			rules.E("lib/j5reflect", "Reflector.NewObject"),
		},
	})
	rules.PoolOwnership(r, []string{"internal/codec", "lib/j5reflect", "lib/j5schema"})
	rules.PoolAlias(r, []string{"internal/codec", "lib/j5reflect", "lib/j5schema"})
	rules.LockPairing(r, []string{"internal/codec", "lib/j5reflect", "lib/j5schema"})
	// "each call returns the result it returns when run alone": a failed build leaves nothing in the shared
	// cache that a later call (of another goroutine, for another message) could find
	registeredRefsRolledBack(r)
}
