package props

import (
	"go/ast"
	"go/token"
	"go/types"
	"strings"

	"j5verif/checker/core"
)

// gapAgreement (R-CONST/gap): the formatter puts one empty line wherever two
// fragments are separated by anything at all (`diff.FromLine > lastEnd`). The
// editor edits must rewrite a gap under the same condition: a larger threshold
// leaves the lines of smaller gaps as they are in the document — and a
// separator line that holds spaces or a tab is not the empty line the
// formatter prints there.
func gapAgreement(r *core.Run) {
	r.Rule("R-CONST/gap", "Fmt appends its separator \"\\n\" under `<fragment>.FromLine > lastEnd + k` and FmtDiffs builds its separator edit (NewText \"\\n\") under a condition with the same k (lastEnd being the previous fragment's ToLine in both); FmtDiffs may in addition skip the edit when the lines it would replace already equal the new text")
	pk := r.P.Pkg(parserRel)
	if pk == nil {
		return
	}
	info := pk.TypesInfo
	isNL := func(e ast.Expr) bool {
		s, ok := core.ConstString(info, e)
		return ok && s == "\n"
	}
	// k of the enclosing `X.FromLine > base + k` guard of node at, or ok=false
	threshold := func(fd *ast.FuncDecl, at ast.Node) (int64, string, bool) {
		path := core.PathTo(fd.Body, at)
		for i := 0; i+1 < len(path); i++ {
			var cond ast.Expr
			switch x := path[i].(type) {
			case *ast.IfStmt:
				if path[i+1] == ast.Node(x.Body) {
					cond = x.Cond
				}
			case *ast.CaseClause:
				// a clause of a tagless switch is an `if` on its expression
				if len(x.List) == 1 && i >= 2 {
					if sw, ok := path[i-2].(*ast.SwitchStmt); ok && sw.Tag == nil {
						cond = x.List[0]
					}
				}
			}
			if cond == nil {
				continue
			}
			for _, cj := range splitOp(cond, token.LAND) {
				b, ok := core.Unparen(cj).(*ast.BinaryExpr)
				if !ok || (b.Op != token.GTR && b.Op != token.GEQ) {
					continue
				}
				s, ok := core.Unparen(b.X).(*ast.SelectorExpr)
				if !ok || s.Sel.Name != "FromLine" {
					continue
				}
				var k int64
				base := core.Unparen(b.Y)
				if add, ok := base.(*ast.BinaryExpr); ok && (add.Op == token.ADD || add.Op == token.SUB) {
					c, isC := core.ConstInt(info, add.Y)
					if !isC {
						continue
					}
					if add.Op == token.SUB {
						c = -c
					}
					k, base = c, core.Unparen(add.X)
				}
				id, ok := base.(*ast.Ident)
				if !ok || !assignedFromToLine(info, fd, id) {
					continue
				}
				if b.Op == token.GEQ {
					k--
				}
				return k, core.ExprStr(cj), true
			}
		}
		return 0, "", false
	}
	fmtFd, _ := r.P.FuncDecl(parserRel, "Fmt")
	diffFd, _ := r.P.FuncDecl(parserRel, "FmtDiffs")
	if fmtFd == nil || diffFd == nil {
		r.Fatal("anchor: parser.Fmt / parser.FmtDiffs not found")
		return
	}
	var fmtSite, diffSite ast.Node
	core.InspectTree(pk, fmtFd.Body, func(n ast.Node) bool {
		if c, ok := n.(*ast.CallExpr); ok && fmtSite == nil {
			if id, ok := c.Fun.(*ast.Ident); ok && id.Name == "append" && len(c.Args) == 2 && isNL(c.Args[1]) {
				fmtSite = c
			}
		}
		return true
	})
	ast.Inspect(diffFd.Body, func(n ast.Node) bool {
		if diffSite != nil {
			return false
		}
		switch x := n.(type) {
		case *ast.CompositeLit:
			if core.TypeStr(info.TypeOf(x)) == parserRel+".FmtDiff" {
				if v := litKey(x, "NewText"); v != nil && isNL(v) {
					diffSite = x
				}
			}
		case *ast.CallExpr:
			// the edit built by a constructor helper that is handed the "\n"
			if t := info.TypeOf(x); t != nil && core.TypeStr(t) == parserRel+".FmtDiff" {
				for _, a := range x.Args {
					if isNL(a) {
						diffSite = x
					}
				}
			}
		}
		return true
	})
	at := diffFd.Pos()
	if diffSite != nil {
		at = diffSite.Pos()
	}
	o := r.Add("R-CONST/gap", "parser.FmtDiffs | separator edit condition", at, "when a gap between fragments is rewritten")
	if fmtSite == nil || diffSite == nil {
		o.Fail("the separator of Fmt (append of \"\\n\") or the separator edit of FmtDiffs (NewText \"\\n\") was not found")
		return
	}
	fmtDecl := core.EnclosingFunc(pk, fmtSite.Pos())
	k1, c1, ok1 := threshold(fmtDecl, fmtSite)
	k2, c2, ok2 := threshold(diffFd, diffSite)
	switch {
	case !ok1 || !ok2:
		o.Fail("no `<fragment>.FromLine > lastEnd + k` guard recognised around the separator (Fmt: %v %q, FmtDiffs: %v %q)", ok1, c1, ok2, c2)
	case k1 != k2:
		o.Fail("Fmt separates fragments when %s, FmtDiffs rewrites the gap only when %s: gaps in between keep their source lines, and a separator line holding spaces or a tab then differs from the empty line Fmt prints", c1, c2)
	default:
		o.Auto("both under FromLine > lastEnd%+d (%s / %s)", k1, c1, c2)
	}
}

// assignedFromToLine: the local receives `<x>.ToLine` somewhere in fd.
func assignedFromToLine(info *types.Info, fd *ast.FuncDecl, id *ast.Ident) bool {
	obj := info.ObjectOf(id)
	found := false
	ast.Inspect(fd.Body, func(n ast.Node) bool {
		as, ok := n.(*ast.AssignStmt)
		if !ok || len(as.Lhs) != len(as.Rhs) {
			return true
		}
		for i, l := range as.Lhs {
			if lid, ok := l.(*ast.Ident); ok && info.ObjectOf(lid) == obj {
				if s, ok := core.Unparen(as.Rhs[i]).(*ast.SelectorExpr); ok && s.Sel.Name == "ToLine" {
					found = true
				}
			}
		}
		return true
	})
	return found
}

// documentLinesVerbatim (R-CONST/lines): an edit is left out when the lines it
// would replace already read as the formatter prints them. That comparison is
// between the formatter's text and the *document's own lines*. If the lines
// are cleaned first (a trailing "\r" trimmed, blanks cut) a line that differs
// from the formatter's output only in what was cleaned away compares equal, no
// edit is offered for it, and applying the edits no longer yields the
// formatter's output.
func documentLinesVerbatim(r *core.Run) {
	r.Rule("R-CONST/lines", "the lines the format edits are compared with (the value of the lineSet's list of lines) are strings.Split(<input>, \"\\n\") as it is: no element of the list is assigned a transformed value before the comparison")
	pk := r.P.Pkg(parserRel)
	if pk == nil {
		r.Fatal("anchor: package %s not found", parserRel)
		return
	}
	info := pk.TypesInfo
	n := 0
	core.AllFuncDecls(pk, func(fd *ast.FuncDecl) {
		if fd.Body == nil {
			return
		}
		ast.Inspect(fd.Body, func(nd ast.Node) bool {
			var v ast.Expr
			switch x := nd.(type) {
			case *ast.CompositeLit:
				if strings.HasSuffix(core.TypeStr(info.TypeOf(x)), "parser.lineSet") {
					v = litKey(x, "lines")
				}
			case *ast.AssignStmt:
				// `ls.lines = strings.Split(input, "\n")`
				if len(x.Lhs) == 1 && len(x.Rhs) == 1 {
					if sel, ok := core.Unparen(x.Lhs[0]).(*ast.SelectorExpr); ok && sel.Sel.Name == "lines" && strings.HasSuffix(core.TypeStr(info.TypeOf(sel.X)), "parser.lineSet") {
						v = x.Rhs[0]
					}
				}
			}
			if v == nil {
				return true
			}
			n++
			o := r.Add("R-CONST/lines", parserRel+"."+core.FuncName(fd)+" | lines of the document", nd.Pos(), "lines the edits are compared with")
			src := core.Unparen(v)
			var local types.Object
			if id, ok := src.(*ast.Ident); ok {
				local = info.ObjectOf(id)
				src = nil
				ast.Inspect(fd.Body, func(m ast.Node) bool {
					if as, ok := m.(*ast.AssignStmt); ok && len(as.Lhs) == len(as.Rhs) {
						for i, l := range as.Lhs {
							if lid, ok := l.(*ast.Ident); ok && info.ObjectOf(lid) == local {
								src = core.Unparen(as.Rhs[i])
							}
						}
					}
					return true
				})
			}
			c, isCall := src.(*ast.CallExpr)
			if !isCall || core.CalleeName(info, c) != "strings.Split" {
				o.Fail("the lines are not strings.Split of the input")
				return true
			}
			if sep, ok := core.ConstString(info, c.Args[1]); !ok || sep != "\n" {
				o.Fail("the input is not split at \"\\n\"")
				return true
			}
			var store *ast.AssignStmt
			if local != nil {
				ast.Inspect(fd.Body, func(m ast.Node) bool {
					if as, ok := m.(*ast.AssignStmt); ok {
						for _, l := range as.Lhs {
							if ix, ok := core.Unparen(l).(*ast.IndexExpr); ok {
								if id, ok := core.Unparen(ix.X).(*ast.Ident); ok && info.ObjectOf(id) == local {
									store = as
								}
							}
						}
					}
					return true
				})
			}
			if store != nil {
				o.Pos = r.P.Rel(store.Pos())
				o.Fail("the lines are rewritten before they are compared (%s): a line that differs from the formatter's text only in what is cut away here gets no edit, so applying the edits leaves it as it was — a CRLF document keeps its carriage returns where Fmt prints none", core.NormExpr(info, store.Rhs[0]))
			} else {
				o.Auto("strings.Split(input, \"\\n\"), untouched")
			}
			return true
		})
	})
	r.Floor("R-CONST/lines", 1, "FmtDiffs")
}
