package props

import (
	"go/ast"
	"go/types"
	"strings"

	"j5verif/checker/core"
)

// ruleScopeModifiers (R-SYM/S10): buf.validate's FieldConstraints carries,
// next to the rules, switches that change when all of them apply: `ignore`
// (skip the rules for an empty / default value), and its predecessors
// `ignore_empty` and `skipped`. The j5s language has no construct that means
// "this rule does not apply to the empty value", so a constraint message the
// compiler emits never sets one of them: with it, a declared pattern or length
// no longer rejects the empty string.
func ruleScopeModifiers(r *core.Run) {
	r.Rule("R-SYM/S10", "no composite literal or assignment in internal/j5s/j5convert sets Ignore, IgnoreEmpty or Skipped of a buf.validate FieldConstraints (or the equivalent field of a rules message): declared rules apply to every value, including the empty one")
	pk := r.P.Pkg(convRel)
	if pk == nil {
		return
	}
	info := pk.TypesInfo
	mod := map[string]bool{"Ignore": true, "IgnoreEmpty": true, "Skipped": true}
	isValidateMsg := func(t types.Type) bool {
		if p, ok := t.(*types.Pointer); ok {
			t = p.Elem()
		}
		return t != nil && strings.Contains(core.TypeStr(t), "/validate.")
	}
	n := 0
	core.AllFuncDecls(pk, func(fd *ast.FuncDecl) {
		ast.Inspect(fd.Body, func(x ast.Node) bool {
			switch y := x.(type) {
			case *ast.CompositeLit:
				if !isValidateMsg(info.TypeOf(y)) {
					return true
				}
				for _, e := range y.Elts {
					if kv, ok := e.(*ast.KeyValueExpr); ok && mod[core.ExprStr(kv.Key)] {
						n++
						o := r.Add("R-SYM/S10", convRel+"."+core.FuncName(fd)+" | "+core.TypeStr(info.TypeOf(y))+"."+core.ExprStr(kv.Key), kv.Pos(), "rule scope modifier set by the compiler")
						o.Fail("the emitted constraint sets %s = %s: the rules of this field are then skipped for the empty value, which the source never said — a declared format, pattern or length accepts \"\"", core.ExprStr(kv.Key), core.ExprStr(kv.Value))
					}
				}
			case *ast.AssignStmt:
				for _, l := range y.Lhs {
					if s, ok := core.Unparen(l).(*ast.SelectorExpr); ok && mod[s.Sel.Name] && isValidateMsg(info.TypeOf(s.X)) {
						n++
						o := r.Add("R-SYM/S10", convRel+"."+core.FuncName(fd)+" | "+core.TypeStr(info.TypeOf(s.X))+"."+s.Sel.Name, y.Pos(), "rule scope modifier set by the compiler")
						o.Fail("the emitted constraint sets %s: the rules of this field are then skipped for the empty value, which the source never said", s.Sel.Name)
					}
				}
			}
			return true
		})
	})
	r.Analysed["rule_scope_modifiers_set"] = n
}
