package props

import (
	"fmt"
	"go/ast"
	"go/constant"
	"go/token"
	"go/types"
	"sort"
	"strings"

	"golang.org/x/tools/go/packages"

	"j5verif/checker/core"
	"j5verif/checker/rules"
)

func init() { Registry["C03"] = C03 }

var entriesDecode = []rules.Entry{
	rules.E("internal/codec", "Codec.JSONToProto"),
	rules.E("internal/codec", "Codec.QueryToProto"),
	rules.E("internal/codec", "Codec.DecodeAnyTo"),
}

// assertThenNotOk matches `v, ok := X.(T)` followed by `if !ok { return err }`
// (or the init form `if v, ok := X.(T); !ok`), with T printed as want.
func assertThenNotOk(want string) func(info *types.Info, ifs *ast.IfStmt, prev ast.Stmt) bool {
	return func(info *types.Info, ifs *ast.IfStmt, prev ast.Stmt) bool {
		var as *ast.AssignStmt
		if ifs.Init != nil {
			as, _ = ifs.Init.(*ast.AssignStmt)
		} else if prev != nil {
			as, _ = prev.(*ast.AssignStmt)
		}
		if as == nil || len(as.Lhs) != 2 || len(as.Rhs) != 1 {
			return false
		}
		ta, ok := core.Unparen(as.Rhs[0]).(*ast.TypeAssertExpr)
		if !ok || ta.Type == nil || core.TypeStr(info.TypeOf(ta.Type)) != want {
			return false
		}
		okName := core.ExprStr(as.Lhs[1])
		u, isNot := core.Unparen(ifs.Cond).(*ast.UnaryExpr)
		return isNot && u.Op == token.NOT && core.ExprStr(u.X) == okName
	}
}

// assertThenOk matches `if _, ok := X.(T); ok { return err }`.
func assertThenOk(want string) func(info *types.Info, ifs *ast.IfStmt, prev ast.Stmt) bool {
	return func(info *types.Info, ifs *ast.IfStmt, prev ast.Stmt) bool {
		as, _ := ifs.Init.(*ast.AssignStmt)
		if as == nil || len(as.Lhs) != 2 || len(as.Rhs) != 1 {
			return false
		}
		ta, ok := core.Unparen(as.Rhs[0]).(*ast.TypeAssertExpr)
		if !ok || ta.Type == nil || core.TypeStr(info.TypeOf(ta.Type)) != want {
			return false
		}
		return core.ExprStr(ifs.Cond) == core.ExprStr(as.Lhs[1])
	}
}

func nilTest(op token.Token, typ string) func(info *types.Info, ifs *ast.IfStmt, prev ast.Stmt) bool {
	return func(info *types.Info, ifs *ast.IfStmt, prev ast.Stmt) bool {
		return rules.CondHas(ifs.Cond, func(e ast.Expr) bool {
			b, ok := core.Unparen(e).(*ast.BinaryExpr)
			return ok && b.Op == op && core.IsNilIdent(info, b.Y) && core.TypeStr(info.TypeOf(b.X)) == typ
		})
	}
}

func decodeGuards() []rules.RequiredGuard {
	return []rules.RequiredGuard{
		{Rel: "internal/codec", Func: "decoder.decodeOneofInner", What: "more than one key in a oneof is rejected", TopLevel: true,
			Match: func(info *types.Info, ifs *ast.IfStmt, prev ast.Stmt) bool {
				return rules.CondHas(ifs.Cond, func(e ast.Expr) bool { return rules.IsLenGreaterThanOne(info, e) })
			}},
		{Rel: "internal/codec", Func: "decoder.decodeOneofInner", What: "a \"!type\" that contradicts the key present is rejected, whatever the member order", TopLevel: true,
			Match: func(info *types.Info, ifs *ast.IfStmt, prev ast.Stmt) bool {
				return rules.CondHas(ifs.Cond, func(e ast.Expr) bool {
					b, ok := core.Unparen(e).(*ast.BinaryExpr)
					if !ok || b.Op != token.NEQ {
						return false
					}
					isDeref := func(x ast.Expr) bool {
						s, ok := core.Unparen(x).(*ast.StarExpr)
						return ok && core.TypeStr(info.TypeOf(s.X)) == "*string"
					}
					isStr := func(x ast.Expr) bool { return core.TypeStr(info.TypeOf(x)) == "string" }
					return (isDeref(b.X) && isStr(b.Y)) || (isDeref(b.Y) && isStr(b.X))
				})
			}},
		{Rel: "lib/j5reflect", Func: "property.CreateField", What: "a duplicate key (field already set) is rejected",
			Match: func(info *types.Info, ifs *ast.IfStmt, prev ast.Stmt) bool {
				s, ok := core.Unparen(ifs.Cond).(*ast.SelectorExpr)
				return ok && core.TypeStr(info.TypeOf(s)) == "bool" && s.Sel.Name == "hasValue"
			}},
		{Rel: "internal/codec", Func: "decoder.jsonObjectBody", What: "a non-string object key token is rejected", Match: assertThenNotOk("string")},
		{Rel: "internal/codec", Func: "decoder.jsonObjectBody", What: "a key that is repeated in one object is rejected (in a map of scalars or enums the later value would silently replace the earlier one)",
			Match: func(info *types.Info, ifs *ast.IfStmt, prev ast.Stmt) bool {
				// `if _, dup := seen[key]; dup` or `if seen[key]` on a map keyed by string
				isProbe := func(e ast.Expr) bool {
					ix, ok := core.Unparen(e).(*ast.IndexExpr)
					if !ok {
						return false
					}
					m, ok := info.TypeOf(ix.X).Underlying().(*types.Map)
					if !ok {
						return false
					}
					b, ok := m.Key().Underlying().(*types.Basic)
					return ok && b.Kind() == types.String
				}
				if as, ok := ifs.Init.(*ast.AssignStmt); ok && len(as.Lhs) == 2 && len(as.Rhs) == 1 && isProbe(as.Rhs[0]) {
					return core.ExprStr(ifs.Cond) == core.ExprStr(as.Lhs[1])
				}
				if as, ok := prev.(*ast.AssignStmt); ok && len(as.Lhs) == 2 && len(as.Rhs) == 1 && isProbe(as.Rhs[0]) {
					return core.ExprStr(ifs.Cond) == core.ExprStr(as.Lhs[1])
				}
				return isProbe(ifs.Cond)
			}},
		{Rel: "internal/codec", Func: "decoder.decodeScalar", What: "an object/array where a scalar is expected is rejected", Match: assertThenOk("encoding/json.Delim")},
		{Rel: "internal/codec", Func: "decoder.decodeArrayFieldValue", What: "an object/array where a scalar array element is expected is rejected", Match: assertThenOk("encoding/json.Delim")},
		{Rel: "internal/codec", Func: "decoder.decodeMapField", What: "an object/array where a scalar map value is expected is rejected", Match: assertThenOk("encoding/json.Delim")},
		{Rel: "internal/codec", Func: "decoder.decodeEnum", What: "a non-string token for an enum is rejected", Match: assertThenNotOk("string")},
		{Rel: "internal/codec", Func: "decoder.decodeMapField", What: "a non-string token for an enum map value is rejected", Match: assertThenNotOk("string")},
		{Rel: "internal/codec", Func: "decoder.decodeAny", What: "an Any without \"!type\" is rejected", TopLevel: true, Match: nilTest(token.EQL, "*string")},
		{Rel: "internal/codec", Func: "decoder.decodeAny", What: "an Any without a value is rejected", TopLevel: true, Match: nilTest(token.EQL, "[]byte")},
		{Rel: "internal/codec", Func: "decoder.decodeAny", What: "an Any with more than one value key is rejected", Match: nilTest(token.NEQ, "[]byte")},
		{Rel: "internal/codec", Func: "decoder.decodeAny", What: "a member of an Any other than \"!type\" and \"value\" is rejected (an unknown key)",
			Match: func(info *types.Info, ifs *ast.IfStmt, prev ast.Stmt) bool {
				return rules.CondHas(ifs.Cond, func(e ast.Expr) bool {
					b, ok := core.Unparen(e).(*ast.BinaryExpr)
					if !ok || b.Op != token.NEQ {
						return false
					}
					for _, side := range []ast.Expr{b.X, b.Y} {
						if s, ok := core.ConstString(info, side); ok && s == "value" {
							return true
						}
					}
					return false
				})
			}},
		{Rel: "internal/codec", Func: "decoder.expectDelim", What: "a token other than the expected delimiter is rejected",
			Match: func(info *types.Info, ifs *ast.IfStmt, prev ast.Stmt) bool {
				b, ok := core.Unparen(ifs.Cond).(*ast.BinaryExpr)
				return ok && b.Op == token.NEQ && strings.Contains(core.ExprStr(b.Y), "json.Delim(")
			}},
		{Rel: "lib/j5reflect", Func: "enumField.SetFromString", What: "an unknown enum name is rejected",
			Match: func(info *types.Info, ifs *ast.IfStmt, prev ast.Stmt) bool { return false }},
	}
}

// C03 — decoding is exact or rejected.
func C03(r *core.Run) {
	r.Tick("loaded")
	sc := rules.NewScope(r, entriesDecode)
	r.Tick("scope")
	rules.ErrorDiscipline(r, sc, "error_sites")
	r.Tick("errdisc")
	r.Floor("R-ERR/E3", 10, "nil-input returns of scalarReflectFromGo")
	guards := decodeGuards()
	guards = guards[:len(guards)-1]
	rules.RequiredGuards(r, guards)
	enumUnknownName(r)
	acceptanceMatrix(r)
	bitSizes(r, "lib/j5reflect", "scalarReflectFromGo")
	numberPreconversion(r)
	leniency(r)
	queryReuse(r)
	scalarsStoredVerbatim(r)
	kindSpellings(r)
	floatBits(r)
	dateExists(r)
	timestampInRange(r)
	documentEnds(r)
	nullArmNotCounted(r)
	presenceIsNotContent(r)
	containersOpenStrictly(r)
	queryOrderFree(r, sc) // a request's parameters are applied in an order that does not vary from call to call
	r.Tick("rest")
}

// enumUnknownName: SetFromString returns a non-nil error on every path where
// OptionByName yielded nil.
func enumUnknownName(r *core.Run) {
	fd, pk := r.P.FuncDecl("lib/j5reflect", "enumField.SetFromString")
	if fd == nil {
		r.Fatal("anchor: j5reflect.enumField.SetFromString not found")
		return
	}
	info := pk.TypesInfo
	o := r.Add("R-ERR/E4", "lib/j5reflect.enumField.SetFromString | unknown enum name is rejected", fd.Pos(), "unknown enum name is rejected")
	// the function's final statement must return a non-nil error and every nil-error return must be inside `option != nil`
	okShape := true
	ast.Inspect(fd.Body, func(n ast.Node) bool {
		ret, ok := n.(*ast.ReturnStmt)
		if !ok || len(ret.Results) != 1 {
			return true
		}
		if c, isCall := ret.Results[0].(*ast.CallExpr); isCall && core.CalleeName(info, c) == "fmt.Errorf" {
			return true
		}
		facts := rules.FactsAt(info, fd.Body, ret)
		nonNil := false
		for k := range facts.NonNil {
			if t := k; t != "" {
				nonNil = true
			}
		}
		if !nonNil {
			okShape = false
		}
		return true
	})
	last, _ := fd.Body.List[len(fd.Body.List)-1].(*ast.ReturnStmt)
	if okShape && last != nil && len(last.Results) == 1 && !core.IsNilIdent(info, last.Results[0]) {
		o.Auto("success returns only under `option != nil`; the fall-through returns an error")
	} else {
		o.Fail("a path returns success although the option lookup failed")
	}
}

// acceptanceMatrix (R-FLOW/F1, acceptance half): per scalar kind, the Go token
// types scalarReflectFromGo accepts.
func acceptanceMatrix(r *core.Run) {
	r.Rule("R-FLOW/F1", "per scalar kind, scalarReflectFromGo accepts the token types the documented spellings produce under json.Decoder.UseNumber: `string` for every quoted form, `json.Number` for every bare number (integers, floats, decimals: README 'quoted or unquoted'), `bool` for booleans; integer formats must each accept string and the int64 that json.Number is converted to")
	fd, pk := r.P.FuncDecl("lib/j5reflect", "scalarReflectFromGo")
	if fd == nil {
		r.Fatal("anchor: j5reflect.scalarReflectFromGo not found")
		return
	}
	info := pk.TypesInfo
	want := map[string][]string{
		"Field_Bool": {"bool"}, "Field_String_": {"string"}, "Field_Key": {"string"},
		"Field_Integer": {"string", "encoding/json.Number"}, "Field_Float": {"string", "encoding/json.Number"},
		"Field_Bytes": {"string"}, "Field_Timestamp": {"string"}, "Field_Decimal": {"string", "encoding/json.Number"}, "Field_Date": {"string"},
	}
	var outer *ast.TypeSwitchStmt
	for _, st := range fd.Body.List {
		if ts, ok := st.(*ast.TypeSwitchStmt); ok {
			outer = ts
		}
	}
	if outer == nil {
		r.Fatal("scalarReflectFromGo: no top-level type switch on the schema type")
		return
	}
	seen := map[string]bool{}
	for _, cl := range outer.Body.List {
		cc := cl.(*ast.CaseClause)
		if len(cc.List) != 1 {
			continue
		}
		kind := core.TypeStr(info.TypeOf(cc.List[0]))
		kind = kind[strings.LastIndex(kind, ".")+1:]
		w, ok := want[kind]
		if !ok {
			continue
		}
		seen[kind] = true
		acc := acceptedTypes(pk, cc)
		var al []string
		for a := range acc {
			al = append(al, a)
		}
		sort.Strings(al)
		for _, t := range w {
			o := r.Add("R-FLOW/F1", fmt.Sprintf("j5reflect.scalarReflectFromGo | %s accepts %s", kind, t), cc.Pos(), fmt.Sprintf("%s must accept %s", kind, t))
			if acc[t] {
				o.Auto("accepted (clause accepts %s)", strings.Join(al, ", "))
			} else {
				o.Fail("the %s arm does not accept %s (accepts %s): a documented spelling is rejected", kind, t, strings.Join(al, ", "))
			}
		}
		if kind == "Field_Integer" {
			// every format's inner switch accepts string and int64
			core.InspectTree(pk, cc, func(n ast.Node) bool {
				icc, ok := n.(*ast.CaseClause)
				if !ok || len(icc.List) != 1 || !strings.Contains(core.ExprStr(icc.List[0]), "IntegerField_FORMAT_") {
					return true
				}
				fmtName := core.ExprStr(icc.List[0])
				fmtName = fmtName[strings.LastIndex(fmtName, "FORMAT_"):]
				inner := acceptedTypes(pk, icc)
				for _, t := range []string{"string", "int64"} {
					o := r.Add("R-FLOW/F1", fmt.Sprintf("j5reflect.scalarReflectFromGo | Integer %s accepts %s", fmtName, t), icc.Pos(), fmt.Sprintf("integer %s must accept %s", fmtName, t))
					if inner[t] {
						o.Auto("accepted")
					} else {
						o.Fail("integer format %s does not accept %s", fmtName, t)
					}
				}
				return true
			})
		}
	}
	for k := range want {
		if !seen[k] {
			r.Add("R-FLOW/F1", "j5reflect.scalarReflectFromGo | "+k+" has an arm", fd.Pos(), k+" arm").Fail("no arm for %s", k)
		}
	}
	r.Floor("R-FLOW/F1", 20, "9 kinds, 4 integer formats")
}

// acceptedTypes: Go types accepted (not answered with an error) by the type
// switches / comma-ok assertions on the input value inside the clause.
func acceptedTypes(pk *packages.Package, root ast.Node) map[string]bool {
	info := pk.TypesInfo
	acc := map[string]bool{}
	core.InspectTree(pk, root, func(n ast.Node) bool {
		switch x := n.(type) {
		case *ast.TypeSwitchStmt:
			if n == root {
				return true
			}
			for _, cl := range x.Body.List {
				cc := cl.(*ast.CaseClause)
				if cc.List == nil || onlyReturnsError(info, cc.Body) {
					continue
				}
				for _, e := range cc.List {
					if core.IsNilIdent(info, e) {
						acc["nil"] = true
						continue
					}
					acc[core.TypeStr(info.TypeOf(e))] = true
				}
			}
		case *ast.IfStmt:
			// if v, ok := value.(T); ok { ... value = converted }
			if as, ok := x.Init.(*ast.AssignStmt); ok && len(as.Rhs) == 1 {
				if ta, ok := core.Unparen(as.Rhs[0]).(*ast.TypeAssertExpr); ok && ta.Type != nil && len(as.Lhs) == 2 && core.ExprStr(x.Cond) == core.ExprStr(as.Lhs[1]) {
					if !onlyReturnsError(info, x.Body.List) {
						acc[core.TypeStr(info.TypeOf(ta.Type))] = true
					}
				}
			}
		}
		return true
	})
	return acc
}

func onlyReturnsError(info *types.Info, body []ast.Stmt) bool {
	if len(body) != 1 {
		return false
	}
	ret, ok := body[0].(*ast.ReturnStmt)
	if !ok || len(ret.Results) == 0 {
		return false
	}
	if len(ret.Results) == 1 {
		if tup, isTuple := info.TypeOf(ret.Results[0]).(*types.Tuple); isTuple && tup.Len() > 1 {
			return false // return f(x): forwards value and error of a helper
		}
	}
	last := ret.Results[len(ret.Results)-1]
	if core.IsNilIdent(info, last) {
		return false
	}
	// a rejection is an error value — or, in a helper that reports acceptance through a final
	// `ok bool`, the constant false
	if tv, has := info.Types[last]; has && tv.Value != nil && tv.Value.Kind() == constant.Bool {
		return !constant.BoolVal(tv.Value)
	}
	return true
}

// bitSizes (R-FLOW/F2): strconv bit sizes and narrowing conversions feeding
// protoreflect.ValueOf{Int,Uint}{32,64} / Float32.
func bitSizes(r *core.Run, rel, fn string) {
	r.Rule("R-FLOW/F2", "the bit size given to strconv.Parse{Int,Uint,Float} (or ASTValue.As{Int,Uint,Float}) equals the width of the protoreflect.ValueOf* constructor its result reaches; a narrowing conversion from int64 (what json.Number becomes) into a 32-bit or unsigned constructor is preceded in its case clause by range tests against the matching math.Max*/Min* constants or zero")
	fd, pk := r.P.FuncDecl(rel, fn)
	if fd == nil {
		r.Fatal("anchor: %s.%s not found", rel, fn)
		return
	}
	info := pk.TypesInfo
	width := map[string]int{"ValueOfInt32": 32, "ValueOfUint32": 32, "ValueOfInt64": 64, "ValueOfUint64": 64, "ValueOfFloat32": 32, "ValueOfFloat64": 64}
	parsed := map[string]bool{}
	n := 0
	// an arm is the code selected for one kind or format: a clause of a switch, or the body of an
	// `if` of a chain that compares against constants (the same dispatch written as if / else if)
	type arm struct {
		node ast.Node
		cc   *ast.CaseClause
		body []ast.Stmt
		init ast.Stmt
		root ast.Node
	}
	armOf := func(root ast.Node, at ast.Node) *arm {
		path := core.PathTo(root, at)
		for i := len(path) - 1; i >= 0; i-- {
			switch x := path[i].(type) {
			case *ast.CaseClause:
				return &arm{node: x, cc: x, body: x.Body, root: root}
			case *ast.IfStmt:
				if i+1 < len(path) && path[i+1] == ast.Node(x.Body) && constDispatch(info, x.Cond) {
					return &arm{node: x, body: x.Body.List, init: x.Init, root: root}
				}
			}
		}
		return nil
	}
	var arms []*arm
	seenArm := map[ast.Node]bool{}
	for _, root := range core.TreeOf(pk, fd.Body, 3) {
		ast.Inspect(root, func(nd ast.Node) bool {
			c, ok := nd.(*ast.CallExpr)
			if !ok {
				return true
			}
			name := core.CalleeName(info, c)
			if !strings.HasPrefix(name, "google.golang.org/protobuf/reflect/protoreflect.ValueOf") {
				return true
			}
			if _, ok := width[name[strings.LastIndex(name, ".")+1:]]; !ok {
				return true
			}
			if a := armOf(root, c); a != nil && !seenArm[a.node] {
				seenArm[a.node] = true
				arms = append(arms, a)
			}
			return true
		})
	}
	for _, a := range arms {
		cc := a.cc
		// constructors directly in this arm (not in nested arms)
		var ctor *ast.CallExpr
		var ctorName string
		var parseBits int64 = -1
		var parsePos token.Pos
		parseName := ""
		stmts := a.body
		if a.init != nil {
			stmts = append([]ast.Stmt{a.init}, stmts...)
		}
		for _, st := range stmts {
			ast.Inspect(st, func(x ast.Node) bool {
				if _, nested := x.(*ast.CaseClause); nested {
					return false
				}
				if ifs, nested := x.(*ast.IfStmt); nested && constDispatch(info, ifs.Cond) {
					return false
				}
				c, ok := x.(*ast.CallExpr)
				if !ok {
					return true
				}
				name := core.CalleeName(info, c)
				switch {
				case strings.HasPrefix(name, "google.golang.org/protobuf/reflect/protoreflect.ValueOf"):
					if _, ok := width[name[strings.LastIndex(name, ".")+1:]]; ok {
						ctor, ctorName = c, name[strings.LastIndex(name, ".")+1:]
					}
				case name == "strconv.ParseInt" || name == "strconv.ParseUint":
					if k, ok := core.ConstInt(info, c.Args[2]); ok {
						parseBits, parsePos, parseName = k, c.Pos(), name
					}
				case name == "strconv.ParseFloat":
					if k, ok := core.ConstInt(info, c.Args[1]); ok {
						parseBits, parsePos = k, c.Pos()
					}
				case strings.HasSuffix(name, "ASTValue).AsInt") || strings.HasSuffix(name, "ASTValue).AsUint") || strings.HasSuffix(name, "ASTValue).AsFloat"):
					if len(c.Args) == 1 {
						if k, ok := core.ConstInt(info, c.Args[0]); ok {
							parseBits, parsePos, parseName = k, c.Pos(), name
						}
					}
				}
				return true
			})
		}
		if ctor == nil {
			continue
		}
		label := armLabel(info, a.root, a.node)
		if parseBits >= 0 && !strings.Contains(ctorName, "Float") {
			n++
			o := r.Add("R-FLOW/F2", fmt.Sprintf("%s.%s | %s | parse bits", rel, fn, label), parsePos, fmt.Sprintf("parse with %d bits feeding %s", parseBits, ctorName))
			unsignedParse := strings.HasSuffix(parseName, "ParseUint") || strings.HasSuffix(parseName, "AsUint")
			unsignedCtor := strings.Contains(ctorName, "Uint")
			if unsignedParse != unsignedCtor {
				o.Fail("%s feeds %s: the signedness of the parse differs from the field's, so half of the field's range is rejected (or negative input wraps)", parseName[strings.LastIndex(parseName, ".")+1:], ctorName)
			} else if int(parseBits) == width[ctorName] {
				o.Auto("%d-bit %s into %s", parseBits, parseName[strings.LastIndex(parseName, ".")+1:], ctorName)
				parsed[ctorName] = true
			} else if int(parseBits) < width[ctorName] {
				o.Fail("parsed with %d bits but stored with %s: values outside the %d-bit range are rejected although the field holds %d bits", parseBits, ctorName, parseBits, width[ctorName])
			} else {
				o.Fail("parsed with %d bits but stored with %s: out-of-range values are silently truncated", parseBits, ctorName)
			}
			continue
		}
		// narrowing from int64 (json.Number path)
		if cc != nil && len(cc.List) == 1 && core.TypeStr(info.TypeOf(cc.List[0])) == "int64" && (width[ctorName] == 32 || strings.Contains(ctorName, "Uint")) && !strings.Contains(ctorName, "Float") {
			n++
			o := r.Add("R-FLOW/F2", fmt.Sprintf("%s.%s | %s | int64 range", rel, fn, label), ctor.Pos(), "int64 narrowed into "+ctorName)
			src := ""
			for _, st := range cc.Body {
				if ifs, ok := st.(*ast.IfStmt); ok && onlyReturnsError(info, ifs.Body.List) {
					src += " " + core.ExprStr(ifs.Cond)
				}
			}
			need := []string{}
			switch ctorName {
			case "ValueOfInt32":
				need = []string{"math.MaxInt32", "math.MinInt32"}
			case "ValueOfUint32":
				need = []string{"math.MaxUint32", "< 0"}
			case "ValueOfUint64":
				need = []string{"< 0"}
			}
			missing := []string{}
			for _, k := range need {
				if !strings.Contains(src, k) {
					missing = append(missing, k)
				}
			}
			if len(missing) == 0 {
				o.Auto("range tests present:%s", src)
			} else {
				o.Fail("no range test against %v before the conversion: out-of-range numbers wrap silently", missing)
			}
		}
	}
	r.Analysed["bit_size_sites_"+fn] = n
	// every integer width/signedness has a text parse of its own: the
	// encoder writes 64-bit integers as quoted strings, and a parse shared
	// between kinds cannot cover both int64 and uint64
	for _, ctor := range []string{"ValueOfInt32", "ValueOfInt64", "ValueOfUint32", "ValueOfUint64"} {
		o := r.Add("R-FLOW/F2", fmt.Sprintf("%s.%s | %s | has its own text parse", rel, fn, ctor), fd.Pos(), "text form of the integer kind stored by "+ctor)
		if parsed[ctor] {
			o.Auto("a case clause parses text with the signedness and width of %s", ctor)
		} else {
			o.Fail("no case clause parses text with the signedness and width of %s: quoted integers of that kind are either rejected or go through another kind's parse", ctor)
		}
	}
}

// constDispatch: the condition compares something against constants only (X == C, or several
// joined by ||): one arm of a dispatch over kinds or formats.
func constDispatch(info *types.Info, cond ast.Expr) bool {
	cond = core.Unparen(cond)
	if b, ok := cond.(*ast.BinaryExpr); ok && b.Op == token.LOR {
		return constDispatch(info, b.X) && constDispatch(info, b.Y)
	}
	_, _, ok := core.EqConst(info, cond)
	return ok
}

// armLabel names an arm by the dispatch values on the way to it.
func armLabel(info *types.Info, root ast.Node, node ast.Node) string {
	var parts []string
	last := func(e ast.Expr) string {
		s := core.ExprStr(e)
		return s[strings.LastIndex(s, ".")+1:]
	}
	for _, n := range core.PathTo(root, node) {
		switch x := n.(type) {
		case *ast.CaseClause:
			if len(x.List) > 0 {
				parts = append(parts, last(x.List[0]))
			}
		case *ast.IfStmt:
			c := core.Unparen(x.Cond)
			for {
				b, ok := c.(*ast.BinaryExpr)
				if !ok || b.Op != token.LOR {
					break
				}
				c = core.Unparen(b.X)
			}
			if _, k, ok := core.EqConst(info, c); ok {
				parts = append(parts, last(k))
			}
		}
	}
	return strings.Join(parts, "/")
}

func clauseLabel(info *types.Info, fd *ast.FuncDecl, cc *ast.CaseClause) string {
	if cc == nil {
		return ""
	}
	var parts []string
	for _, n := range core.PathTo(fd.Body, cc) {
		if c, ok := n.(*ast.CaseClause); ok && len(c.List) > 0 {
			s := core.ExprStr(c.List[0])
			s = s[strings.LastIndex(s, ".")+1:]
			parts = append(parts, s)
		}
	}
	return strings.Join(parts, "/")
}

// leniency: the alternate-spelling tables are constants of the right shape.
func leniency(r *core.Run) {
	r.Rule("R-CONST/leniency", "byteValueFromString maps '-'→'+' and '_'→'/' (exactly the two characters in which URL-safe and standard base64 differ), re-pads to a multiple of 4 and decodes with base64.StdEncoding; EnumSchema.OptionByName strips NamePrefix before comparing; timestamps are parsed with time.RFC3339 (any offset)")
	fd, pk := r.P.FuncDecl("lib/j5reflect", "byteValueFromString")
	if fd == nil {
		r.Fatal("anchor: j5reflect.byteValueFromString not found")
		return
	}
	info := pk.TypesInfo
	repl := map[string]string{}
	pad, dec := false, ""
	ast.Inspect(fd.Body, func(n ast.Node) bool {
		c, ok := n.(*ast.CallExpr)
		if !ok {
			return true
		}
		switch core.CalleeName(info, c) {
		case "strings.ReplaceAll":
			a, _ := core.ConstString(info, c.Args[1])
			b, _ := core.ConstString(info, c.Args[2])
			repl[a] = b
		case "strings.Repeat":
			if s, _ := core.ConstString(info, c.Args[0]); s == "=" {
				pad = true
			}
		case "(*encoding/base64.Encoding).DecodeString":
			dec = core.ObjPath(core.UsedObj(info, c.Fun.(*ast.SelectorExpr).X))
		}
		return true
	})
	o := r.Add("R-CONST/leniency", "j5reflect.byteValueFromString | alphabet mapping", fd.Pos(), "URL-safe to standard mapping")
	if len(repl) == 2 && repl["-"] == "+" && repl["_"] == "/" && pad && dec == "encoding/base64.StdEncoding" {
		o.Auto("-→+, _→/, '=' padding, StdEncoding")
	} else {
		o.Fail("mapping %v, pad=%v, decoder=%s does not accept URL-safe/unpadded base64 as the same bytes", repl, pad, dec)
	}
	fd2, pk2 := r.P.FuncDecl("lib/j5schema", "EnumSchema.OptionByName")
	if fd2 == nil {
		r.Fatal("anchor: j5schema.EnumSchema.OptionByName not found")
	} else {
		o := r.Add("R-CONST/leniency", "j5schema.EnumSchema.OptionByName | prefix", fd2.Pos(), "enum prefix stripping")
		ok := false
		ast.Inspect(fd2.Body, func(n ast.Node) bool {
			if c, isC := n.(*ast.CallExpr); isC && core.CalleeName(pk2.TypesInfo, c) == "strings.TrimPrefix" && strings.HasSuffix(core.ExprStr(c.Args[1]), ".NamePrefix") {
				ok = true
			}
			return true
		})
		if ok {
			o.Auto("TrimPrefix(name, s.NamePrefix) before comparison")
		} else {
			o.Fail("the enum prefix is not stripped before the comparison: prefixed names are rejected")
		}
		// the name as given is tried first: the short name of an option may itself begin with the
		// prefix (FOO_FOO_BAR is "FOO_BAR"), and stripping first turns it into another option's name
		o2 := r.Add("R-CONST/leniency", "j5schema.EnumSchema.OptionByName | exact name first", fd2.Pos(), "enum name as given")
		var param types.Object
		if fd2.Type.Params != nil && len(fd2.Type.Params.List) == 1 && len(fd2.Type.Params.List[0].Names) == 1 {
			param = pk2.TypesInfo.Defs[fd2.Type.Params.List[0].Names[0]]
		}
		var rawCmp, trimCall token.Pos
		ast.Inspect(fd2.Body, func(n ast.Node) bool {
			switch x := n.(type) {
			case *ast.BinaryExpr:
				if x.Op == token.EQL && rawCmp == token.NoPos {
					for _, side := range []ast.Expr{x.X, x.Y} {
						if id, isID := core.Unparen(side).(*ast.Ident); isID && param != nil && pk2.TypesInfo.Uses[id] == param {
							rawCmp = x.Pos()
						}
					}
				}
			case *ast.CallExpr:
				if core.CalleeName(pk2.TypesInfo, x) == "strings.TrimPrefix" && trimCall == token.NoPos {
					trimCall = x.Pos()
				}
				// the comparison made by a lookup helper that is handed the name as given
				if rawCmp == token.NoPos && param != nil {
					if fn := core.CalleeFunc(pk2.TypesInfo, x); fn != nil && fn.Pkg() == pk2.Types {
						for ai, a := range x.Args {
							id, isID := core.Unparen(a).(*ast.Ident)
							if !isID || pk2.TypesInfo.Uses[id] != param {
								continue
							}
							cd := core.DeclOf(pk2, fn.Origin())
							if cd == nil || cd.Body == nil || cd.Type.Params == nil {
								continue
							}
							var hp types.Object
							k := 0
							for _, pf := range cd.Type.Params.List {
								for _, nm := range pf.Names {
									if k == ai {
										hp = pk2.TypesInfo.Defs[nm]
									}
									k++
								}
							}
							ast.Inspect(cd.Body, func(m ast.Node) bool {
								if b, isB := m.(*ast.BinaryExpr); isB && b.Op == token.EQL {
									for _, side := range []ast.Expr{b.X, b.Y} {
										if sid, isS := core.Unparen(side).(*ast.Ident); isS && hp != nil && pk2.TypesInfo.Uses[sid] == hp {
											rawCmp = x.Pos()
										}
									}
								}
								return true
							})
						}
					}
				}
			}
			return true
		})
		switch {
		case rawCmp == token.NoPos:
			o2.Fail("the option names are only compared with the name stripped of the prefix: for an enum with an option whose short name begins with the prefix (FOO_FOO_BAR → \"FOO_BAR\") the encoder's own output decodes to another option, or to none")
		case trimCall != token.NoPos && trimCall < rawCmp:
			o2.Fail("the prefix is stripped before the name as given is compared")
		default:
			o2.Auto("compared as given before the prefix is stripped")
		}
	}
	fd3, pk3 := r.P.FuncDecl("lib/j5reflect", "timestampFromString")
	if fd3 == nil {
		r.Fatal("anchor: j5reflect.timestampFromString not found")
	} else {
		o := r.Add("R-CONST/leniency", "j5reflect.timestampFromString | layout", fd3.Pos(), "timestamp layout")
		lay := ""
		ast.Inspect(fd3.Body, func(n ast.Node) bool {
			if c, isC := n.(*ast.CallExpr); isC && core.CalleeName(pk3.TypesInfo, c) == "time.Parse" {
				lay = core.ObjPath(core.UsedObj(pk3.TypesInfo, c.Args[0]))
			}
			return true
		})
		if lay == "time.RFC3339" || lay == "time.RFC3339Nano" {
			o.Auto("%s (accepts any numeric offset and fractional seconds)", lay)
		} else {
			o.Fail("layout %q is not RFC3339", lay)
		}
	}
}

// queryReuse: decodeQuery routes scalars through the same SetGoValue /
// AppendGoValue as the JSON path.
func queryReuse(r *core.Run) {
	r.Rule("R-WHO/query", "query parameters are stored through ScalarField.SetGoValue / ArrayOfScalarField.AppendGoValue, the functions the JSON path uses, so the scalar rules cover both; container values go through decodeRoot")
	fd, pk := r.P.FuncDecl("internal/codec", "Codec.decodeQuery")
	if fd == nil {
		r.Fatal("anchor: codec.Codec.decodeQuery not found")
		return
	}
	calls := map[string]bool{}
	core.InspectTree(pk, fd.Body, func(n ast.Node) bool {
		if c, ok := n.(*ast.CallExpr); ok {
			calls[core.CalleeName(pk.TypesInfo, c)] = true
		}
		return true
	})
	for _, want := range []string{"(" + core.Module + "/lib/j5reflect.ScalarField).SetGoValue", "(" + core.Module + "/lib/j5reflect.ArrayOfScalarField).AppendGoValue", "(*" + core.Module + "/internal/codec.Codec).decodeRoot"} {
		o := r.Add("R-WHO/query", "codec.decodeQuery | calls "+want[strings.LastIndex(want, ".")+1:], fd.Pos(), "query path reuses "+want[strings.LastIndex(want, ".")+1:])
		if calls[want] {
			o.Auto("calls %s", strings.ReplaceAll(want, core.Module+"/", ""))
		} else {
			o.Fail("decodeQuery no longer routes through %s", strings.ReplaceAll(want, core.Module+"/", ""))
		}
	}
}

// numberPreconversion (R-FLOW/F2c): a bare JSON number reaches the integer
// format switch of scalarReflectFromGo as exactly one Go type, int64 — the
// only integer type whose narrowing arms carry range tests against every
// format (R-FLOW/F2 "int64 range"). The arms for the other Go integer types
// serve callers of the Go API and convert without tests (uint64 → int64 wraps),
// so handing any other type to the switch from the decoder would turn an
// out-of-range document into a silently different value.
func numberPreconversion(r *core.Run) {
	r.Rule("R-FLOW/F2c", "inside the json.Number pre-conversion of scalarReflectFromGo every assignment to the value under conversion has static type int64 (the result of json.Number.Int64 after its error check); another type would enter format arms that have no range tests for it")
	fd, pk := r.P.FuncDecl("lib/j5reflect", "scalarReflectFromGo")
	if fd == nil {
		r.Fatal("anchor: j5reflect.scalarReflectFromGo not found")
		return
	}
	info := pk.TypesInfo
	n := 0
	core.InspectTree(pk, fd.Body, func(nd ast.Node) bool {
		ifs, ok := nd.(*ast.IfStmt)
		if !ok || ifs.Init == nil {
			return true
		}
		as, ok := ifs.Init.(*ast.AssignStmt)
		if !ok || len(as.Rhs) != 1 {
			return true
		}
		ta, ok := core.Unparen(as.Rhs[0]).(*ast.TypeAssertExpr)
		if !ok || ta.Type == nil || core.TypeStr(info.TypeOf(ta.Type)) != "encoding/json.Number" {
			return true
		}
		target := core.ExprStr(ta.X)
		ast.Inspect(ifs.Body, func(x ast.Node) bool {
			a2, ok := x.(*ast.AssignStmt)
			if !ok || len(a2.Lhs) != 1 || len(a2.Rhs) != 1 || core.ExprStr(a2.Lhs[0]) != target {
				return true
			}
			n++
			o := r.Add("R-FLOW/F2c", fmt.Sprintf("lib/j5reflect.scalarReflectFromGo | %s = %s (json.Number)", target, core.ExprStr(a2.Rhs[0])), a2.Pos(), "Go type a bare JSON number is converted to")
			t := core.TypeStr(info.TypeOf(a2.Rhs[0]))
			if t == "int64" {
				o.Auto("int64")
			} else {
				o.Fail("a bare number is handed on as %s: the format switch converts that type without the range tests the int64 arms have (e.g. uint64 → int64 wraps), so an out-of-range document is accepted with a different value", t)
			}
			return true
		})
		return true
	})
	if n == 0 {
		r.Fatal("R-FLOW/F2c: no json.Number pre-conversion found in scalarReflectFromGo (anchor moved?)")
	}
}
