package props

import (
	"go/ast"
	"go/constant"
	"go/token"
	"go/types"
	"sort"
	"strings"

	"golang.org/x/tools/go/cfg"

	"j5verif/checker/core"
	"j5verif/checker/rules"
)

// verbBodyAgreement (R-SYM/verbbody): the compiler decides per HTTP verb
// whether the google.api.http rule carries `body: "*"`; the client API decides
// per verb whether the non-path request properties are a body or query
// parameters. The two tables are derived from the code and compared verb by
// verb.
func verbBodyAgreement(r *core.Run) {
	r.Rule("R-SYM/verbbody", "for each client_j5pb.HTTPMethod verb the compiler handles: every path of the compiler's verb switch from that verb's clause to a return assigns HttpRule.Body iff the expression j5client uses for Method.HasBody (evaluated with the verb substituted, through a helper if there is one) is true")
	// --- compiler side
	wfd, wpk := r.P.FuncDecl(convRel, "conversionVisitor.visitServiceMethodNode")
	if wfd == nil {
		r.Fatal("anchor: j5convert.visitServiceMethodNode not found")
		return
	}
	winfo := wpk.TypesInfo
	verbOf := func(info *types.Info, e ast.Expr) string {
		if tv, ok := info.Types[e]; ok && tv.Value != nil && strings.HasSuffix(core.TypeStr(tv.Type), "client_j5pb.HTTPMethod") {
			if obj := core.UsedObj(info, e); obj != nil {
				return strings.TrimPrefix(obj.Name(), "HTTPMethod_")
			}
		}
		return ""
	}
	emits := map[string]bool{}
	var swFd *ast.FuncDecl
	var sw *ast.SwitchStmt
	for _, d := range core.TreeDecls(wpk, wfd, 2) {
		ast.Inspect(d.Body, func(n ast.Node) bool {
			s, ok := n.(*ast.SwitchStmt)
			if !ok || sw != nil {
				return true
			}
			for _, cl := range s.Body.List {
				for _, e := range cl.(*ast.CaseClause).List {
					if verbOf(winfo, e) != "" {
						sw, swFd = s, d
					}
				}
			}
			return true
		})
	}
	if sw == nil {
		r.Fatal("R-SYM/verbbody: the compiler's switch over HTTP verbs was not found")
		return
	}
	setsBody := func(n ast.Node) bool {
		hit := false
		ast.Inspect(n, func(x ast.Node) bool {
			switch y := x.(type) {
			case *ast.AssignStmt:
				for _, l := range y.Lhs {
					if s, ok := core.Unparen(l).(*ast.SelectorExpr); ok && s.Sel.Name == "Body" && strings.HasSuffix(core.TypeStr(winfo.TypeOf(s.X)), "annotations.HttpRule") {
						hit = true
					}
				}
			case *ast.CompositeLit:
				// the rule built as a literal with its Body
				if strings.HasSuffix(core.TypeStr(winfo.TypeOf(y)), "annotations.HttpRule") && litKey(y, "Body") != nil {
					hit = true
				}
			}
			return !hit
		})
		return hit
	}
	g := cfg.New(swFd.Body, func(*ast.CallExpr) bool { return true })
	for _, cl := range sw.Body.List {
		cc := cl.(*ast.CaseClause)
		var verbs []string
		for _, e := range cc.List {
			if v := verbOf(winfo, e); v != "" {
				verbs = append(verbs, v)
			}
		}
		if len(verbs) == 0 {
			continue
		}
		// blocks of the clause body
		var start *cfg.Block
		for _, b := range g.Blocks {
			if b.Kind == cfg.KindSwitchCaseBody && b.Stmt == ast.Stmt(cc) {
				start = b
			}
		}
		all := false
		if start != nil {
			// does some path from the clause reach a return (or the end) without a Body assignment?
			seen := map[*cfg.Block]bool{}
			var miss func(b *cfg.Block) bool
			miss = func(b *cfg.Block) bool {
				if seen[b] {
					return false
				}
				seen[b] = true
				for _, n := range b.Nodes {
					if setsBody(n) {
						return false
					}
					if _, isRet := n.(*ast.ReturnStmt); isRet {
						return true
					}
				}
				if len(b.Succs) == 0 {
					return true
				}
				for _, s := range b.Succs {
					if miss(s) {
						return true
					}
				}
				return false
			}
			all = !miss(start)
		}
		for _, v := range verbs {
			emits[v] = all
		}
	}
	// --- client side: the value given to Method.HasBody
	cpk := r.P.Pkg("internal/j5client")
	if cpk == nil {
		r.Fatal("anchor: package internal/j5client not found")
		return
	}
	cinfo := cpk.TypesInfo
	var hasBody ast.Expr
	core.AllFuncDecls(cpk, func(fd *ast.FuncDecl) {
		ast.Inspect(fd.Body, func(n ast.Node) bool {
			switch x := n.(type) {
			case *ast.CompositeLit:
				if strings.HasSuffix(core.TypeStr(cinfo.TypeOf(x)), "j5client.Method") {
					if v := litKey(x, "HasBody"); v != nil {
						hasBody = v
					}
				}
			case *ast.AssignStmt:
				for i, l := range x.Lhs {
					if s, ok := core.Unparen(l).(*ast.SelectorExpr); ok && s.Sel.Name == "HasBody" && len(x.Rhs) == len(x.Lhs) && strings.HasSuffix(core.TypeStr(cinfo.TypeOf(s.X)), "j5client.Method") {
						hasBody = x.Rhs[i]
					}
				}
			}
			return true
		})
	})
	if hasBody == nil {
		r.Fatal("R-SYM/verbbody: no value for j5client.Method.HasBody found")
		return
	}
	// through a helper that takes the verb
	expr := hasBody
	if c, ok := core.Unparen(hasBody).(*ast.CallExpr); ok {
		if fn := core.CalleeFunc(cinfo, c); fn != nil && fn.Pkg() == cpk.Types {
			if cd := core.DeclOf(cpk, fn.Origin()); cd != nil && cd.Body != nil {
				if res := rules.ReturnedExpr(cd.Body.List, nil); res != nil {
					expr = res
				}
			}
		}
	}
	var eval func(e ast.Expr, verb string) (bool, bool)
	eval = func(e ast.Expr, verb string) (val bool, ok bool) {
		e = core.Unparen(e)
		if tv, has := cinfo.Types[e]; has && tv.Value != nil && tv.Value.Kind() == constant.Bool {
			return constant.BoolVal(tv.Value), true
		}
		switch x := e.(type) {
		case *ast.UnaryExpr:
			if x.Op == token.NOT {
				v, ok := eval(x.X, verb)
				return !v, ok
			}
		case *ast.BinaryExpr:
			switch x.Op {
			case token.LAND, token.LOR:
				a, ok1 := eval(x.X, verb)
				b, ok2 := eval(x.Y, verb)
				if !ok1 || !ok2 {
					return false, false
				}
				if x.Op == token.LAND {
					return a && b, true
				}
				return a || b, true
			case token.EQL, token.NEQ:
				c := verbOf(cinfo, x.Y)
				other := x.X
				if c == "" {
					c, other = verbOf(cinfo, x.X), x.Y
				}
				if c == "" || !strings.HasSuffix(core.TypeStr(cinfo.TypeOf(other)), "client_j5pb.HTTPMethod") {
					return false, false
				}
				return (c == verb) == (x.Op == token.EQL), true
			}
		}
		return false, false
	}
	var verbs []string
	for v := range emits {
		verbs = append(verbs, v)
	}
	sort.Strings(verbs)
	for _, v := range verbs {
		o := r.Add("R-SYM/verbbody", "verb "+v, hasBody.Pos(), "body of "+v+" requests")
		cb, ok := eval(expr, v)
		switch {
		case !ok:
			o.Fail("the value of Method.HasBody (%s) could not be evaluated for the verb", core.ExprStr(hasBody))
		case cb != emits[v]:
			o.Fail("the compiler %s `body: \"*\"` for %s while the client API takes HasBody = %v for it: the non-path request properties are described as %s although the service reads them from the %s", map[bool]string{true: "emits", false: "does not emit"}[emits[v]], v, cb, map[bool]string{true: "a body", false: "query parameters"}[cb], map[bool]string{true: "body", false: "query string"}[emits[v]])
		default:
			o.Auto("body=%v on both sides", cb)
		}
	}
	r.Floor("R-SYM/verbbody", 5, "GET, POST, PUT, PATCH, DELETE")
}
