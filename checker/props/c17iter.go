package props

import (
	"go/ast"
	"go/token"
	"go/types"
	"strings"

	"golang.org/x/tools/go/cfg"

	"j5verif/checker/core"
)

// iterationIndependence (R-FLOW/carried): the expansion turns each declared
// element (command service, event, summary, status …) into output inside a
// range loop, and what is produced for one element must not depend on the
// elements before it. A variable that lives outside the loop, is given a value
// inside it that does not build on its previous value (so it is not an
// accumulator), and can be read in an iteration before that iteration has
// assigned it, carries the previous element's value over: a default that one
// declaration overrides then sticks to the declarations that follow.
func iterationIndependence(r *core.Run, rel string, files ...string) {
	r.Rule("R-FLOW/carried", "in the range loops over declared elements (slices of generated schema messages), a variable declared outside the loop and assigned inside it from something other than its own previous value is assigned on every path of an iteration before it is read in that iteration: no element's output depends on the element before it")
	pk := r.P.Pkg(rel)
	if pk == nil {
		r.Fatal("anchor: package %s not found", rel)
		return
	}
	info := pk.TypesInfo
	want := map[string]bool{}
	for _, f := range files {
		want[f] = true
	}
	loops, vars := 0, 0
	core.AllFuncDecls(pk, func(fd *ast.FuncDecl) {
		if fd.Body == nil {
			return
		}
		fname := r.P.Fset.Position(fd.Pos()).Filename
		base := fname
		for i := len(fname) - 1; i >= 0; i-- {
			if fname[i] == '/' {
				base = fname[i+1:]
				break
			}
		}
		if !want[base] && !want["*"] || strings.HasSuffix(base, "_test.go") {
			return
		}
		var g *cfg.CFG
		ast.Inspect(fd.Body, func(nd ast.Node) bool {
			rs, ok := nd.(*ast.RangeStmt)
			if !ok {
				return true
			}
			// only loops over declared elements: a slice of (pointers to) generated schema messages.
			// Walking a path or the characters of a name is a state machine by design.
			isDecl := false
			if sl, ok := info.TypeOf(rs.X).Underlying().(*types.Slice); ok {
				et := sl.Elem()
				if p, ok := et.(*types.Pointer); ok {
					et = p.Elem()
				}
				if nt := core.NamedOf(et); nt != nil && strings.HasSuffix(r.P.Fset.Position(nt.Obj().Pos()).Filename, ".pb.go") {
					isDecl = true
				}
			}
			if !isDecl {
				return true
			}
			loops++
			// variables declared outside the loop and plainly assigned inside it
			cands := map[types.Object]bool{}
			ast.Inspect(rs.Body, func(x ast.Node) bool {
				as, ok := x.(*ast.AssignStmt)
				if !ok || as.Tok != token.ASSIGN {
					return true
				}
				for i, l := range as.Lhs {
					id, ok := l.(*ast.Ident)
					if !ok {
						continue
					}
					v, ok := info.Uses[id].(*types.Var)
					if !ok || v.IsField() || v.Parent() == pk.Types.Scope() {
						continue
					}
					if v.Pos() >= rs.Pos() && v.Pos() < rs.End() {
						continue // declared inside the loop
					}
					// not an accumulator: the right-hand side does not mention the variable
					self := false
					var rhs ast.Expr
					if len(as.Rhs) == len(as.Lhs) {
						rhs = as.Rhs[i]
					} else if len(as.Rhs) == 1 {
						rhs = as.Rhs[0]
					}
					if rhs != nil {
						ast.Inspect(rhs, func(y ast.Node) bool {
							if yi, ok := y.(*ast.Ident); ok && info.Uses[yi] == v {
								self = true
							}
							return true
						})
					}
					if !self {
						cands[v] = true
					}
				}
				return true
			})
			if len(cands) == 0 {
				return true
			}
			if g == nil {
				g = cfg.New(fd.Body, func(*ast.CallExpr) bool { return true })
			}
			var body *cfg.Block
			for _, b := range g.Blocks {
				if b.Kind == cfg.KindRangeBody && b.Stmt == ast.Stmt(rs) {
					body = b
				}
			}
			if body == nil {
				return true
			}
			for v := range cands {
				vars++
				o := r.Add("R-FLOW/carried", core.FuncName(fd)+" | "+v.Name()+" ("+core.TypeStr(v.Type())+") across iterations of range "+core.NormExpr(info, rs.X), rs.Pos(), "per-element value does not leak into the next element")
				// walk one iteration: from the body entry, not following the back edge
				type state struct {
					b        *cfg.Block
					assigned bool
				}
				seen := map[state]bool{}
				var bad ast.Node
				var walk func(b *cfg.Block, assigned bool)
				walk = func(b *cfg.Block, assigned bool) {
					if bad != nil || seen[state{b, assigned}] {
						return
					}
					seen[state{b, assigned}] = true
					if b != body && b.Stmt == ast.Stmt(rs) && b.Kind == cfg.KindRangeLoop {
						return // next iteration
					}
					if len(b.Nodes) > 0 && (b.Nodes[0].Pos() < rs.Body.Pos() || b.Nodes[0].Pos() >= rs.Body.End()) {
						return // left the loop
					}
					for _, nd := range b.Nodes {
						// reads first (a statement reads its operands before it stores)
						var lhsOf *ast.AssignStmt
						if as, ok := nd.(*ast.AssignStmt); ok && (as.Tok == token.ASSIGN || as.Tok == token.DEFINE) {
							lhsOf = as
						}
						if !assigned {
							ast.Inspect(nd, func(x ast.Node) bool {
								id, ok := x.(*ast.Ident)
								if !ok || info.Uses[id] != v || bad != nil {
									return true
								}
								if lhsOf != nil {
									for _, l := range lhsOf.Lhs {
										if l == ast.Expr(id) {
											return true // a store, not a read
										}
									}
								}
								bad = id
								return true
							})
						}
						if lhsOf != nil {
							for _, l := range lhsOf.Lhs {
								if id, ok := l.(*ast.Ident); ok && info.Uses[id] == v {
									assigned = true
								}
							}
						}
					}
					for _, s := range b.Succs {
						walk(s, assigned)
					}
				}
				walk(body, false)
				if bad != nil {
					o.Pos = r.P.Rel(bad.Pos())
					o.Fail("%s is declared outside the loop, assigned inside it only on some paths, and read here on a path of the iteration that has not assigned it: the value left by the previous element is used (a default overridden by one declaration sticks to the following ones)", v.Name())
				} else {
					o.Auto("assigned on every path of an iteration before it is read")
				}
			}
			return true
		})
	})
	r.Analysed["expansion_range_loops"] = loops
	r.Analysed["loop_assigned_outer_variables"] = vars
}
