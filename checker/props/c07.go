package props

import (
	"j5verif/checker/core"
	"j5verif/checker/rules"
)

func init() { Registry["C07"] = C07 }

// C07 — the j5s compiler is total and accepts the documented language.
func C07(r *core.Run) {
	panicScope(r, entriesC07...)
	rules.ExtTyping(r, []string{"internal/j5s/j5convert", "internal/j5s/sourcewalk", "internal/j5s/protobuild", "internal/j5s/j5parse"})
	r.Floor("R-EXT/G1", 25, "SetExtension sites in j5convert confirmed by reading")
	r.Floor("R-EXT/G2", 3, "GetExtension assertions in buildProperty")
	rules.DescriptorAffinity(r, []string{"internal/j5s/j5convert", "internal/j5s/sourcewalk", "internal/j5s/protobuild", "internal/bcl", "internal/bcl/internal/walker", "internal/bcl/internal/walker/schema", "lib/j5reflect"})
	r.Floor("R-EXT/G4", 1, "setJ5Ext's copy loop")
	rules.ImportPairing(r)
	r.Floor("R-EXT/G3", 25, "one per SetExtension site in j5convert")
}
