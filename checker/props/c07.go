package props

import (
	"fmt"
	"go/ast"
	"go/token"
	"go/types"
	"strings"

	"j5verif/checker/core"
	"j5verif/checker/rules"
)

func init() { Registry["C07"] = C07 }

// C07 — the j5s compiler is total and accepts the documented language.
func C07(r *core.Run) {
	panicScope(r, entriesC07...)
	rules.ExtTyping(r, []string{"internal/j5s/j5convert", "internal/j5s/sourcewalk", "internal/j5s/protobuild", "internal/j5s/j5parse"})
	r.Floor("R-EXT/G1", 25, "SetExtension sites in j5convert confirmed by reading")
	r.Floor("R-EXT/G2", 3, "GetExtension assertions in buildProperty")
	rules.DescriptorAffinity(r, []string{"internal/j5s/j5convert", "internal/j5s/sourcewalk", "internal/j5s/protobuild", "internal/bcl", "internal/bcl/internal/walker", "internal/bcl/internal/walker/schema", "lib/j5reflect"})
	r.Floor("R-EXT/G4", 1, "setJ5Ext's copy loop")
	bitSizes(r, "lib/j5reflect", "scalarReflectFromAST")
	dependencyCompleteness(r)
	containerPairs(r, "internal/j5s/j5convert", "internal/j5s/sourcewalk")
	rules.ImportPairing(r)
	headerDescriptionOwner(r)
	entityNameAgreement(r)
	convertedFilesInOrder(r) // the lint path links the converted files in the order they come
	exportsOfThisPackageOnly(r)
	refsCollectedEverywhere(r)
	rawBodyTypeAgreement(r)
	valueNamePrefixGuard(r)   // a rule may name an enum option as it was declared
	nestingBuildersBounded(r) // the schema walker recurses once per nested block
	fieldAttributes(r)        // incl. the name of the synthetic map entry message: a mismatch with the field name is a link error
	r.Floor("R-EXT/G3", 25, "one per SetExtension site in j5convert")
}

// dependencyCompleteness: SourceSummary records the dependency of every
// reference it resolves.
func dependencyCompleteness(r *core.Run) {
	r.Rule("R-FLOW/deps", "SourceSummary: in the loop over the collected type references, every iteration that does not return an error appends the expanded reference to TypeDependencies; an iteration may skip the append only under a seen-set test whose key reads both the package and the schema name of the reference (two packages may export the same type name) — otherwise a package referenced only through a same-named type is never loaded and a valid file is rejected")
	fd, pk := r.P.FuncDecl("internal/j5s/j5convert", "SourceSummary")
	if fd == nil {
		r.Fatal("anchor: j5convert.SourceSummary not found")
		return
	}
	info := pk.TypesInfo
	var loop *ast.RangeStmt
	for _, st := range fd.Body.List {
		if rs, ok := st.(*ast.RangeStmt); ok && strings.HasSuffix(core.ExprStr(rs.X), ".refs") {
			loop = rs
		}
	}
	o := r.Add("R-FLOW/deps", "j5convert.SourceSummary | dependency recorded for every reference", fd.Pos(), "type dependencies of a source file")
	if loop == nil {
		o.Fail("no loop over the collected references")
		return
	}
	appended := false
	bad := ""
	for _, st := range loop.Body.List {
		switch x := st.(type) {
		case *ast.AssignStmt:
			if len(x.Rhs) == 1 {
				if c, ok := x.Rhs[0].(*ast.CallExpr); ok && core.CalleeName(info, c) == "builtin.append" && strings.HasSuffix(core.ExprStr(x.Lhs[0]), ".TypeDependencies") {
					appended = true
				}
			}
		case *ast.IfStmt:
			if appended {
				continue
			}
			// a skipping branch?
			skips := false
			ast.Inspect(x.Body, func(n ast.Node) bool {
				if b, ok := n.(*ast.BranchStmt); ok && b.Tok == token.CONTINUE {
					skips = true
				}
				return true
			})
			if !skips {
				continue
			}
			key := ""
			if as, ok := x.Init.(*ast.AssignStmt); ok && len(as.Rhs) == 1 {
				if ix, ok := as.Rhs[0].(*ast.IndexExpr); ok {
					key = core.ExprStr(ix.Index)
				}
			}
			if !(strings.Contains(key, ".Package") && strings.Contains(key, ".Schema")) {
				bad = fmt.Sprintf("an iteration can `continue` before the append under %s (seen-set key %q): the key does not include both package and schema", core.ExprStr(x.Cond), key)
			}
		}
	}
	switch {
	case bad != "":
		o.Fail("%s", bad)
	case !appended:
		o.Fail("the loop no longer appends to TypeDependencies at its top level")
	default:
		o.Auto("every non-error iteration reaches the top-level append")
	}
}

// containerPairs (R-EXH/X5): arrays and maps are the two container kinds of
// the field-type oneof; code that looks inside one of them (to find
// references, nested definitions, item rules) must look inside the other too.
// Every type switch over the field-type family in the listed packages that has
// a case for one container kind must have a case for the other.
func containerPairs(r *core.Run, rels ...string) {
	r.Rule("R-EXH/X5", "every type switch over schema_j5pb.isField_Type that has a case for Field_Array also has one for Field_Map and vice versa: a walk that unwraps only one container kind misses what the other holds (references, nested schemas, item rules)")
	it, _ := rules.ClosedUniverse(r, schemaPB, "isField_Type")
	if it == nil {
		return
	}
	n := 0
	for _, rel := range rels {
		pk := r.P.Pkg(rel)
		if pk == nil {
			r.Fatal("anchor: package %s not found", rel)
			continue
		}
		info := pk.TypesInfo
		core.AllFuncDecls(pk, func(fd *ast.FuncDecl) {
			k := 0
			ast.Inspect(fd.Body, func(nd ast.Node) bool {
				ts, ok := nd.(*ast.TypeSwitchStmt)
				if !ok {
					return true
				}
				var subj ast.Expr
				switch a := ts.Assign.(type) {
				case *ast.AssignStmt:
					if len(a.Rhs) == 1 {
						if ta, ok := core.Unparen(a.Rhs[0]).(*ast.TypeAssertExpr); ok {
							subj = ta.X
						}
					}
				case *ast.ExprStmt:
					if ta, ok := core.Unparen(a.X).(*ast.TypeAssertExpr); ok {
						subj = ta.X
					}
				}
				if subj == nil || !types.Identical(info.TypeOf(subj), it) {
					return true
				}
				has := map[string]bool{}
				for _, cl := range ts.Body.List {
					for _, e := range cl.(*ast.CaseClause).List {
						if nt := core.NamedOf(info.TypeOf(e)); nt != nil {
							has[nt.Obj().Name()] = true
						}
					}
				}
				if !has["Field_Array"] && !has["Field_Map"] {
					return true
				}
				k++
				n++
				o := r.Add("R-EXH/X5", fmt.Sprintf("%s.%s | switch#%d | containers", rel, core.FuncName(fd), k), ts.Pos(), "container cases of a field-type switch")
				switch {
				case has["Field_Array"] && has["Field_Map"]:
					o.Auto("cases for both Field_Array and Field_Map")
				case has["Field_Array"]:
					o.Fail("the switch unwraps arrays but has no case for Field_Map: whatever it collects is missed for map values (a type referenced only as a map value, rules of map items)")
				default:
					o.Fail("the switch unwraps maps but has no case for Field_Array")
				}
				return true
			})
		})
	}
	r.Floor("R-EXH/X5", 2, "field-type switches with a container case")
}
