package props

import (
	"fmt"
	"go/ast"
	"go/token"
	"strings"

	"j5verif/checker/core"
	"j5verif/checker/rules"
)

func init() { Registry["C07"] = C07 }

// C07 — the j5s compiler is total and accepts the documented language.
func C07(r *core.Run) {
	panicScope(r, entriesC07...)
	rules.ExtTyping(r, []string{"internal/j5s/j5convert", "internal/j5s/sourcewalk", "internal/j5s/protobuild", "internal/j5s/j5parse"})
	r.Floor("R-EXT/G1", 25, "SetExtension sites in j5convert confirmed by reading")
	r.Floor("R-EXT/G2", 3, "GetExtension assertions in buildProperty")
	rules.DescriptorAffinity(r, []string{"internal/j5s/j5convert", "internal/j5s/sourcewalk", "internal/j5s/protobuild", "internal/bcl", "internal/bcl/internal/walker", "internal/bcl/internal/walker/schema", "lib/j5reflect"})
	r.Floor("R-EXT/G4", 1, "setJ5Ext's copy loop")
	bitSizes(r, "lib/j5reflect", "scalarReflectFromAST")
	dependencyCompleteness(r)
	rules.ImportPairing(r)
	r.Floor("R-EXT/G3", 25, "one per SetExtension site in j5convert")
}

// dependencyCompleteness: SourceSummary records the dependency of every
// reference it resolves.
func dependencyCompleteness(r *core.Run) {
	r.Rule("R-FLOW/deps", "SourceSummary: in the loop over the collected type references, every iteration that does not return an error appends the expanded reference to TypeDependencies; an iteration may skip the append only under a seen-set test whose key reads both the package and the schema name of the reference (two packages may export the same type name) — otherwise a package referenced only through a same-named type is never loaded and a valid file is rejected")
	fd, pk := r.P.FuncDecl("internal/j5s/j5convert", "SourceSummary")
	if fd == nil {
		r.Fatal("anchor: j5convert.SourceSummary not found")
		return
	}
	info := pk.TypesInfo
	var loop *ast.RangeStmt
	for _, st := range fd.Body.List {
		if rs, ok := st.(*ast.RangeStmt); ok && strings.HasSuffix(core.ExprStr(rs.X), ".refs") {
			loop = rs
		}
	}
	o := r.Add("R-FLOW/deps", "j5convert.SourceSummary | dependency recorded for every reference", fd.Pos(), "type dependencies of a source file")
	if loop == nil {
		o.Fail("no loop over the collected references")
		return
	}
	appended := false
	bad := ""
	for _, st := range loop.Body.List {
		switch x := st.(type) {
		case *ast.AssignStmt:
			if len(x.Rhs) == 1 {
				if c, ok := x.Rhs[0].(*ast.CallExpr); ok && core.CalleeName(info, c) == "builtin.append" && strings.HasSuffix(core.ExprStr(x.Lhs[0]), ".TypeDependencies") {
					appended = true
				}
			}
		case *ast.IfStmt:
			if appended {
				continue
			}
			// a skipping branch?
			skips := false
			ast.Inspect(x.Body, func(n ast.Node) bool {
				if b, ok := n.(*ast.BranchStmt); ok && b.Tok == token.CONTINUE {
					skips = true
				}
				return true
			})
			if !skips {
				continue
			}
			key := ""
			if as, ok := x.Init.(*ast.AssignStmt); ok && len(as.Rhs) == 1 {
				if ix, ok := as.Rhs[0].(*ast.IndexExpr); ok {
					key = core.ExprStr(ix.Index)
				}
			}
			if !(strings.Contains(key, ".Package") && strings.Contains(key, ".Schema")) {
				bad = fmt.Sprintf("an iteration can `continue` before the append under %s (seen-set key %q): the key does not include both package and schema", core.ExprStr(x.Cond), key)
			}
		}
	}
	switch {
	case bad != "":
		o.Fail("%s", bad)
	case !appended:
		o.Fail("the loop no longer appends to TypeDependencies at its top level")
	default:
		o.Auto("every non-error iteration reaches the top-level append")
	}
}
