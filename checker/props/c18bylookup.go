package props

import (
	"go/ast"
	"go/token"
	"go/types"
	"strings"

	"j5verif/checker/core"
)

// lookedUpFieldsKindChecked (R-PANIC/P4m): a field descriptor found by *name*
// (Fields().ByName("keys"), ByJSONName, ByNumber) is whatever the input
// declares under that name: a string, an enum, a list. Message() and Enum()
// of a field of another kind are nil descriptors, and a method called on
// them is a nil dereference. Every use of such a result as a receiver is
// therefore guarded: by a nil test of the result, or by a test of the field's
// kind.
func lookedUpFieldsKindChecked(r *core.Run, rels []string, floor int) {
	r.Rule("R-PANIC/P4m", "for every local assigned from FieldDescriptors.ByName / ByJSONName / ByTextName / ByNumber: each x.Message() / x.Enum() whose result is used as a receiver (directly, or through a local it is assigned to) is dominated by a terminating `if <result> == nil` / `if x.Kind() != <Kind>` (as a disjunct), or lies inside `if <result> != nil` / `if x.Kind() == <Kind>` / the matching clause of a switch on x.Kind()")
	lookups := map[string]bool{"ByName": true, "ByJSONName": true, "ByTextName": true, "ByNumber": true}
	for _, rel := range rels {
		pk := r.P.Pkg(rel)
		if pk == nil {
			r.Fatal("anchor: package %s not found", rel)
			continue
		}
		info := pk.TypesInfo
		core.AllFuncDecls(pk, func(fd *ast.FuncDecl) {
			if fd.Body == nil {
				return
			}
			// one-to-one definitions: x := e, x = e, var x = e
			oneDef := func(n ast.Node) (lhs ast.Expr, rhs ast.Expr, ok bool) {
				switch d := n.(type) {
				case *ast.AssignStmt:
					if len(d.Lhs) == 1 && len(d.Rhs) == 1 {
						return d.Lhs[0], d.Rhs[0], true
					}
				case *ast.ValueSpec:
					if len(d.Names) == 1 && len(d.Values) == 1 {
						return d.Names[0], d.Values[0], true
					}
				}
				return nil, nil, false
			}
			// x := <…>.ByName(…)
			fields := map[types.Object]bool{}
			ast.Inspect(fd.Body, func(n ast.Node) bool {
				l, rh, ok := oneDef(n)
				if !ok {
					return true
				}
				as := struct{ Lhs, Rhs []ast.Expr }{[]ast.Expr{l}, []ast.Expr{rh}}
				c, ok := core.Unparen(as.Rhs[0]).(*ast.CallExpr)
				if !ok {
					return true
				}
				s, ok := c.Fun.(*ast.SelectorExpr)
				if !ok || !lookups[s.Sel.Name] || !strings.HasSuffix(core.TypeStr(info.TypeOf(c)), "protoreflect.FieldDescriptor") {
					return true
				}
				if id, ok := as.Lhs[0].(*ast.Ident); ok && info.ObjectOf(id) != nil {
					fields[info.ObjectOf(id)] = true
				}
				return true
			})
			if len(fields) == 0 {
				return
			}
			isTypeCall := func(e ast.Expr) (types.Object, bool) {
				c, ok := core.Unparen(e).(*ast.CallExpr)
				if !ok || len(c.Args) != 0 {
					return nil, false
				}
				s, ok := c.Fun.(*ast.SelectorExpr)
				if !ok || s.Sel.Name != "Message" && s.Sel.Name != "Enum" {
					return nil, false
				}
				id, ok := core.Unparen(s.X).(*ast.Ident)
				if !ok || !fields[info.ObjectOf(id)] {
					return nil, false
				}
				return info.ObjectOf(id), true
			}
			// v := x.Message()
			results := map[types.Object]types.Object{} // v -> x
			resultAt := map[types.Object][]ast.Node{}
			ast.Inspect(fd.Body, func(n ast.Node) bool {
				l, rh, ok := oneDef(n)
				if !ok {
					return true
				}
				if x, ok := isTypeCall(rh); ok {
					if id, ok := l.(*ast.Ident); ok && info.ObjectOf(id) != nil {
						results[info.ObjectOf(id)] = x
						resultAt[info.ObjectOf(id)] = append(resultAt[info.ObjectOf(id)], n)
					}
				}
				return true
			})
			// atom classifies a comparison as a statement about the descriptor of x:
			// +1 "is there", -1 "is not there"
			atom := func(e ast.Expr, x types.Object) int {
				b, ok := core.Unparen(e).(*ast.BinaryExpr)
				if !ok || b.Op != token.EQL && b.Op != token.NEQ {
					return 0
				}
				sign := 1
				if b.Op == token.EQL {
					sign = -1
				}
				for _, pair := range [][2]ast.Expr{{b.X, b.Y}, {b.Y, b.X}} {
					l, rr := core.Unparen(pair[0]), pair[1]
					if core.IsNilIdent(info, rr) {
						if fx, ok := isTypeCall(l); ok && fx == x {
							return sign
						}
						if id, ok := l.(*ast.Ident); ok && results[info.ObjectOf(id)] == x && x != nil {
							return sign
						}
					}
					// x.Kind() ==/!= protoreflect.<…>Kind
					if c, ok := l.(*ast.CallExpr); ok && len(c.Args) == 0 {
						if s, ok := c.Fun.(*ast.SelectorExpr); ok && s.Sel.Name == "Kind" {
							if id, ok := core.Unparen(s.X).(*ast.Ident); ok && info.ObjectOf(id) == x {
								if k := core.ExprStr(rr); strings.HasSuffix(k, "MessageKind") || strings.HasSuffix(k, "EnumKind") || strings.HasSuffix(k, "GroupKind") {
									return -sign
								}
							}
						}
					}
				}
				return 0
			}
			var split func(e ast.Expr, op token.Token) []ast.Expr
			split = func(e ast.Expr, op token.Token) []ast.Expr {
				if b, ok := core.Unparen(e).(*ast.BinaryExpr); ok && b.Op == op {
					return append(split(b.X, op), split(b.Y, op)...)
				}
				return []ast.Expr{e}
			}
			terminates := func(body *ast.BlockStmt) bool {
				if len(body.List) == 0 {
					return false
				}
				switch st := body.List[len(body.List)-1].(type) {
				case *ast.ReturnStmt:
					return true
				case *ast.BranchStmt:
					return st.Tok == token.CONTINUE || st.Tok == token.BREAK
				case *ast.ExprStmt:
					if c, ok := st.X.(*ast.CallExpr); ok {
						if id, ok := c.Fun.(*ast.Ident); ok && id.Name == "panic" {
							return true
						}
					}
				}
				return false
			}
			guarded := func(use ast.Node, x types.Object) bool {
				path := core.PathTo(fd.Body, use)
				for i := len(path) - 1; i >= 0; i-- {
					switch p := path[i].(type) {
					case *ast.IfStmt:
						// inside the body of a positive test
						if i+1 < len(path) && path[i+1] == ast.Node(p.Body) {
							for _, c := range split(p.Cond, token.LAND) {
								if atom(c, x) > 0 {
									return true
								}
							}
						}
					case *ast.BinaryExpr:
						// x.Message() != nil && x.Message().Foo()
						if p.Op == token.LAND && i+1 < len(path) && path[i+1] == ast.Node(p.Y) {
							for _, c := range split(p.X, token.LAND) {
								if atom(c, x) > 0 {
									return true
								}
							}
						}
						if p.Op == token.LOR && i+1 < len(path) && path[i+1] == ast.Node(p.Y) {
							for _, c := range split(p.X, token.LOR) {
								if atom(c, x) < 0 {
									return true
								}
							}
						}
					case *ast.CaseClause:
						var sw *ast.SwitchStmt
						if i >= 2 {
							sw, _ = path[i-2].(*ast.SwitchStmt)
						}
						if sw != nil && sw.Tag != nil {
							if c, ok := core.Unparen(sw.Tag).(*ast.CallExpr); ok {
								if s, ok := c.Fun.(*ast.SelectorExpr); ok && s.Sel.Name == "Kind" {
									if id, ok := core.Unparen(s.X).(*ast.Ident); ok && info.ObjectOf(id) == x && len(p.List) > 0 {
										all := true
										for _, e := range p.List {
											k := core.ExprStr(e)
											if !strings.HasSuffix(k, "MessageKind") && !strings.HasSuffix(k, "EnumKind") && !strings.HasSuffix(k, "GroupKind") {
												all = false
											}
										}
										if all {
											return true
										}
									}
								}
							}
						}
					case *ast.BlockStmt:
						// an earlier terminating negative test in this block
						if i+1 >= len(path) {
							continue
						}
						for _, st := range p.List {
							if st == path[i+1] {
								break
							}
							is, ok := st.(*ast.IfStmt)
							if !ok || !terminates(is.Body) {
								continue
							}
							for _, c := range split(is.Cond, token.LOR) {
								if atom(c, x) < 0 {
									return true
								}
							}
						}
					}
				}
				return false
			}
			// a local that takes the descriptor only under a kind test holds a descriptor that is there
			for v, x := range results {
				all := true
				for _, at := range resultAt[v] {
					if !guarded(at, x) {
						all = false
					}
				}
				if all {
					delete(results, v)
				}
			}
			ast.Inspect(fd.Body, func(n ast.Node) bool {
				sel, ok := n.(*ast.SelectorExpr)
				if !ok {
					return true
				}
				var x types.Object
				what := ""
				if fx, ok := isTypeCall(sel.X); ok {
					x, what = fx, core.NormExpr(info, sel.X)
				} else if id, ok := core.Unparen(sel.X).(*ast.Ident); ok && results[info.ObjectOf(id)] != nil {
					x, what = results[info.ObjectOf(id)], core.NormExpr(info, sel.X)
				} else {
					return true
				}
				o := r.Add("R-PANIC/P4m", rel+"."+core.FuncName(fd)+" | "+what+"."+sel.Sel.Name, sel.Pos(), "descriptor of a field looked up by name, used as a receiver")
				if guarded(sel, x) {
					o.Auto("guarded by a nil test of the descriptor or a test of the field's kind")
				} else {
					o.Fail("%s is the type descriptor of a field that was looked up by name — any kind of field can carry that name — and .%s is called on it without a nil or kind test: for a scalar or enum field the descriptor is nil and the call is a nil dereference", what, sel.Sel.Name)
				}
				return true
			})
		})
	}
	r.Floor("R-PANIC/P4m", floor, "receiver use of the Message()/Enum() of a field looked up by name")
}
