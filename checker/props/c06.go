package props

import (
	"j5verif/checker/core"
	"j5verif/checker/rules"
)

func init() { Registry["C06"] = C06 }

// C06 — the decoder is total.
func C06(r *core.Run) {
	sc := rules.NewScope(r, []rules.Entry{
		rules.E("internal/codec", "Codec.JSONToProto"),
		rules.E("internal/codec", "Codec.QueryToProto"),
		rules.E("internal/codec", "Codec.DecodeAnyTo"),
	})
	bce := rules.RunBCE(r, sc.Packages())
	rules.PanicSites(r, sc, bce, "panic_sites")
	tc := rules.DefaultTermConfig()
	tc.MinLoops, tc.MinSites = termProps["C06"][0], termProps["C06"][1]
	// "never … exhausts the stack": the decoder's recursion over nested values needs a constant bound
	tc.DepthRels, tc.MinDepthSites = []string{"internal/codec"}, 10
	rules.Termination(r, sc, tc)
	// "never … loops forever": a call that waits for a mutex nobody will release does not return either
	rules.LockPairing(r, []string{"internal/codec", "lib/j5reflect", "lib/j5schema"})
	// a cached reflection object built for one descriptor and handed to a message of another
	// makes protobuf-go panic ("field descriptor does not belong to this message")
	rules.MemoKeys(r, []string{"internal/codec", "lib/j5reflect", "lib/j5schema"}, "memo_sites")
	// a decode into a type that cannot be reflected fails; what the failed build leaves in the codec's
	// schema cache is what the next decode finds (a kept ref to a removed placeholder is a nil dereference)
	registeredRefsRolledBack(r)
	// reflecting the target message is part of every decode: a descriptor found by name is of any kind
	lookedUpFieldsKindChecked(r, []string{"lib/j5schema", "lib/j5reflect", "internal/codec"}, 1)
}
