package props

import (
	"fmt"
	"go/ast"
	"go/token"
	"go/types"
	"sort"
	"strings"

	"j5verif/checker/core"
)

func init() { Registry["C17"] = C17 }

// C17 — entity declarations expand to a complete, mutually consistent API
// (structural clauses).
func C17(r *core.Run) {
	r.Entry = []string{"sourcewalk.entityNode.run"}
	pk := r.P.Pkg(walkRel)
	if pk == nil {
		r.Fatal("anchor: package %s not found", walkRel)
		return
	}
	info := pk.TypesInfo
	entityMustCall(r)
	entityAnnotations(r, info)
	entityNames(r, info)
	entityEvents(r, info)
	// declaration order of keys in paths, status numbering: the provenance rules
	provNoReorder(r)
	provEnumNumbers(r)
	enumNumberingAgrees(r)
	entityPathKeys(r, info)
	pathVariablesPerSegment(r)
	// the key markers (primary, foreign, tenant) are independent: each is emitted whatever the others are
	attributeIndependence(r, "sym_sites", "*")
	// "primary-key fields are required": forced by the primary-key marker alone, whatever the key's format
	requiredPropagation(r)
	entityPartOwnAnnotation(r) // Keys is the one schema annotated as the keys part
	statusNamesAsDeclared(r)
	noSharedMessages(r) // what is generated for one entity is not written to by the expansion of another
	// what is generated for one declared command service / event / summary does not depend on the one before it
	iterationIndependence(r, walkRel, "entity.go", "topic.go", "file.go", "service.go")
}

// entityMustCall: run() calls every accept* method, each behind an error return.
func entityMustCall(r *core.Run) {
	r.Rule("R-FLOW/mustcall", "entityNode.run calls every method of entityNode whose name starts with `accept`, at the top level of run and each as `if err := ent.acceptX(visitor); err != nil { return err }` (so each runs on every non-error path); schemas come before the services and topics that reference them")
	pk := r.P.Pkg(walkRel)
	var methods []string
	core.AllFuncDecls(pk, func(fd *ast.FuncDecl) {
		if name := strings.TrimPrefix(core.FuncName(fd), "entityNode."); core.RecvName(fd) == "entityNode" && strings.HasPrefix(name, "accept") {
			methods = append(methods, name) // the recorded name, should the method have been renamed
		}
	})
	sort.Strings(methods)
	fd, _ := r.P.FuncDecl(walkRel, "entityNode.run")
	if fd == nil {
		r.Fatal("anchor: sourcewalk.entityNode.run not found")
		return
	}
	order := map[string]int{}
	for i, st := range fd.Body.List {
		ifs, ok := st.(*ast.IfStmt)
		if !ok || ifs.Init == nil {
			continue
		}
		as, ok := ifs.Init.(*ast.AssignStmt)
		if !ok || len(as.Rhs) != 1 {
			continue
		}
		c, ok := as.Rhs[0].(*ast.CallExpr)
		if !ok {
			continue
		}
		s, ok := c.Fun.(*ast.SelectorExpr)
		if !ok || !strings.HasPrefix(selRecorded(pk.TypesInfo, s), "accept") {
			continue
		}
		if initErrNotNil(pk.TypesInfo, ifs) && len(ifs.Body.List) == 1 {
			if _, isRet := ifs.Body.List[0].(*ast.ReturnStmt); isRet {
				order[selRecorded(pk.TypesInfo, s)] = (i + 1) * 1000
			}
		}
	}
	// the same sequence spelled as a table: `for _, step := range []func(…) error{ent.acceptKeys, …} { if err := step(v); err != nil { return err } }`
	for i, st := range fd.Body.List {
		rs, ok := st.(*ast.RangeStmt)
		if !ok || rs.Value == nil {
			continue
		}
		cl, ok := core.Unparen(rs.X).(*ast.CompositeLit)
		if !ok {
			// a local holding the table: `steps := []func(…) error{…}` defined once
			if id, isID := core.Unparen(rs.X).(*ast.Ident); isID {
				defs := 0
				for _, st2 := range fd.Body.List {
					if as, isAs := st2.(*ast.AssignStmt); isAs && len(as.Lhs) == 1 && len(as.Rhs) == 1 && core.ExprStr(as.Lhs[0]) == id.Name {
						defs++
						cl, _ = core.Unparen(as.Rhs[0]).(*ast.CompositeLit)
					}
				}
				if defs != 1 {
					cl = nil
				}
			}
			if cl == nil {
				continue
			}
		}
		stepVar := core.ExprStr(rs.Value)
		// the body calls the step and returns on error, with nothing that could skip it
		bodyOK := false
		if len(rs.Body.List) == 1 {
			if ifs, ok := rs.Body.List[0].(*ast.IfStmt); ok && ifs.Init != nil && initErrNotNil(pk.TypesInfo, ifs) && len(ifs.Body.List) == 1 {
				if as, ok := ifs.Init.(*ast.AssignStmt); ok && len(as.Rhs) == 1 {
					if c, ok := as.Rhs[0].(*ast.CallExpr); ok && core.ExprStr(c.Fun) == stepVar {
						if _, isRet := ifs.Body.List[0].(*ast.ReturnStmt); isRet {
							bodyOK = true
						}
					}
				}
			}
		}
		if !bodyOK {
			continue
		}
		for j, el := range cl.Elts {
			if s, ok := core.Unparen(el).(*ast.SelectorExpr); ok && strings.HasPrefix(selRecorded(pk.TypesInfo, s), "accept") {
				order[selRecorded(pk.TypesInfo, s)] = (i+1)*1000 + j
			}
		}
	}
	for _, m := range methods {
		o := r.Add("R-FLOW/mustcall", "sourcewalk.entityNode.run | calls "+m, fd.Pos(), "expansion step "+m)
		if order[m] > 0 {
			o.Auto("called unconditionally at top level (statement %d)", order[m])
		} else {
			o.Fail("entityNode.%s exists but run() does not call it on every path: the corresponding part of the entity API is never emitted", m)
		}
	}
	if len(methods) < 10 {
		r.Fatal("R-FLOW/mustcall: expected at least 10 accept* methods (keys, data, status, state, event oneof, event, query, commands, publish topic, summary topics), found %d", len(methods))
	}
	before := func(a, b string) {
		o := r.Add("R-FLOW/mustcall", fmt.Sprintf("sourcewalk.entityNode.run | %s before %s", a, b), fd.Pos(), a+" precedes "+b)
		if order[a] > 0 && order[b] > 0 && order[a] < order[b] {
			o.Auto("statement %d < %d", order[a], order[b])
		} else {
			o.Fail("%s must be emitted before %s, which references it", a, b)
		}
	}
	before("acceptKeys", "acceptState")
	before("acceptData", "acceptState")
	before("acceptStatus", "acceptState")
	before("acceptEventOneof", "acceptEvent")
	before("acceptState", "acceptQuery")
	before("acceptEvent", "acceptQuery")
	before("acceptEvent", "acceptPublishTopic")
}

// entityAnnotations: every entity annotation carries ent.name and the part
// matching the method.
func entityAnnotations(r *core.Run, info *types.Info) {
	r.Rule("R-CONST/entity", "every EntityObject / StateQuery / StateCommand / event annotation written by the expansion carries Entity: ent.name (one source), and each schema part constant is the one of its method (KEYS in acceptKeys, DATA in acceptData, STATE in acceptState, EVENT in acceptEvent)")
	pk := r.P.Pkg(walkRel)
	wantPart := map[string]string{"acceptKeys": "EntityPart_KEYS", "acceptData": "EntityPart_DATA", "acceptState": "EntityPart_STATE", "acceptEvent": "EntityPart_EVENT"}
	seenPart := map[string]bool{}
	core.AllFuncDecls(pk, func(fd *ast.FuncDecl) {
		if core.RecvName(fd) != "entityNode" {
			return
		}
		ast.Inspect(fd.Body, func(n ast.Node) bool {
			cl, ok := n.(*ast.CompositeLit)
			if !ok {
				return true
			}
			tn := core.TypeStr(info.TypeOf(cl))
			tn = tn[strings.LastIndex(tn, ".")+1:]
			for _, e := range cl.Elts {
				kv, ok := e.(*ast.KeyValueExpr)
				if !ok {
					continue
				}
				k := core.ExprStr(kv.Key)
				switch {
				case k == "Entity" && (tn == "EntityObject" || strings.HasPrefix(tn, "ServiceOptions_State")):
					o := r.Add("R-CONST/entity", fmt.Sprintf("sourcewalk.%s | %s.Entity", core.FuncName(fd), tn), kv.Pos(), tn+".Entity ← "+core.ExprStr(kv.Value))
					if recvMember(info, fd, kv.Value) == "name" {
						o.Auto("ent.name")
					} else {
						o.Fail("entity annotation is %s, the other parts use ent.name: consumers group parts by this string", core.ExprStr(kv.Value))
					}
				case k == "EntityName" && strings.Contains(tn, "ServiceConfig"):
					o := r.Add("R-CONST/entity", fmt.Sprintf("sourcewalk.%s | %s.EntityName", core.FuncName(fd), tn), kv.Pos(), tn+".EntityName ← "+core.ExprStr(kv.Value))
					if mentionsRecvMember(info, fd, kv.Value, "name", "fullName") {
						o.Auto("%s", core.ExprStr(kv.Value))
					} else {
						o.Fail("topic entity name is %s", core.ExprStr(kv.Value))
					}
				case k == "Part" && tn == "EntityObject":
					o := r.Add("R-CONST/entity", fmt.Sprintf("sourcewalk.%s | EntityObject.Part", core.FuncName(fd)), kv.Pos(), "part constant "+core.ExprStr(kv.Value))
					method := strings.TrimPrefix(core.FuncName(fd), "entityNode.") // the recorded name
					w := wantPart[method]
					seenPart[method] = true
					if w != "" && strings.HasSuffix(core.ExprStr(kv.Value), w) {
						o.Auto("%s", w)
					} else {
						o.Fail("%s writes part %s, expected %s", method, core.ExprStr(kv.Value), w)
					}
				}
			}
			return true
		})
	})
	// every service the expansion generates carries the entity annotation it builds — not options
	// taken over from the declaration, which would leave the service without its entity link
	core.AllFuncDecls(pk, func(fd *ast.FuncDecl) {
		if core.RecvName(fd) != "entityNode" {
			return
		}
		ast.Inspect(fd.Body, func(n ast.Node) bool {
			cl, ok := n.(*ast.CompositeLit)
			if !ok || !strings.HasSuffix(core.TypeStr(info.TypeOf(cl)), "sourcedef_j5pb.Service") {
				return true
			}
			var optVal ast.Expr
			for _, e := range cl.Elts {
				if kv, ok := e.(*ast.KeyValueExpr); ok && core.ExprStr(kv.Key) == "Options" {
					optVal = kv.Value
				}
			}
			o := r.Add("R-CONST/entity", fmt.Sprintf("sourcewalk.%s | generated service options", core.FuncName(fd)), cl.Pos(), "generated service carries the entity annotation")
			isStateLit := func(e ast.Expr) bool {
				u, ok := core.Unparen(e).(*ast.UnaryExpr)
				if !ok {
					return false
				}
				lit, ok := u.X.(*ast.CompositeLit)
				if !ok || !strings.HasSuffix(core.TypeStr(info.TypeOf(lit)), "ext_j5pb.ServiceOptions") {
					return false
				}
				state := false
				ast.Inspect(lit, func(m ast.Node) bool {
					if c2, ok := m.(*ast.CompositeLit); ok && strings.Contains(core.TypeStr(info.TypeOf(c2)), "ServiceOptions_State") {
						state = true
					}
					return true
				})
				return state
			}
			switch {
			case optVal == nil:
				o.Fail("the generated service has no options: it is not linked to its entity")
			case isStateLit(optVal):
				o.Auto("options are the state annotation built here")
			default:
				// a local: every value it is given must be the annotation built here
				bad := ""
				if id, ok := core.Unparen(optVal).(*ast.Ident); ok {
					obj := info.Uses[id]
					defs := 0
					ast.Inspect(fd.Body, func(m ast.Node) bool {
						if as, ok := m.(*ast.AssignStmt); ok && len(as.Lhs) == len(as.Rhs) {
							for i, l := range as.Lhs {
								if li, ok := l.(*ast.Ident); ok && obj != nil && (info.Defs[li] == obj || info.Uses[li] == obj) {
									defs++
									if !isStateLit(as.Rhs[i]) {
										bad = core.ExprStr(as.Rhs[i])
									}
								}
							}
						}
						return true
					})
					if defs == 0 {
						bad = "an unassigned variable"
					}
				} else {
					bad = core.ExprStr(optVal)
				}
				if bad == "" {
					o.Auto("options are the state annotation built here")
				} else {
					o.Fail("the generated service's options can be %s instead of the state annotation built by the expansion: such a service carries no entity annotation and is not attached to its entity downstream", bad)
				}
			}
			return true
		})
	})
	for m := range wantPart {
		if !seenPart[m] {
			r.Add("R-CONST/entity", "sourcewalk.entityNode."+m+" | EntityObject.Part", 0, "part annotation of "+m).Fail("%s no longer annotates its schema with an entity part", m)
		}
	}
	r.Floor("R-CONST/entity", 8, "4 parts × (Entity, Part) + service annotations")
}

// entityNames: component names come from one function and a fixed suffix set.
func entityNames(r *core.Run, info *types.Info) {
	r.Rule("R-CONST/entitynames", "component schema names are componentName(<suffix>) or ToCamel(entity name + <suffix>) with the suffix constants Keys, Data, Status, State, EventType, Event; the status prefix is SCREAMING_SNAKE(entity)_STATUS_ in both acceptStatus and findStatus")
	pk := r.P.Pkg(walkRel)
	allowed := map[string]bool{"Keys": true, "Data": true, "Status": true, "State": true, "EventType": true, "Event": true}
	// names of services, topics, methods and summaries that the expansion spells with Sprintf today;
	// writing one of them through componentName instead changes nothing
	service := map[string]bool{"Command": true, "Query": true, "Publish": true, "Summary": true, "Get": true, "List": true, "Events": true}
	used := map[string]bool{}
	core.AllFuncDecls(pk, func(fd *ast.FuncDecl) {
		if core.RecvName(fd) != "entityNode" {
			return
		}
		ast.Inspect(fd.Body, func(n ast.Node) bool {
			c, ok := n.(*ast.CallExpr)
			if !ok {
				return true
			}
			var suffix string
			var have bool
			if s, ok := c.Fun.(*ast.SelectorExpr); ok && (calleeRecorded(info, c) == "componentName" || calleeRecorded(info, c) == "innerRef") && len(c.Args) == 1 {
				_ = s
				suffix, have = core.ConstString(info, c.Args[0])
				if !have {
					return true // forwarded parameter (innerRef)
				}
			} else if core.CalleeName(info, c) == "github.com/iancoleman/strcase.ToCamel" && len(c.Args) == 1 {
				if b, ok := core.Unparen(c.Args[0]).(*ast.BinaryExpr); ok && strings.HasSuffix(core.ExprStr(b.X), ".Name") {
					suffix, have = core.ConstString(info, b.Y)
				}
			}
			if !have {
				return true
			}
			used[suffix] = true
			o := r.Add("R-CONST/entitynames", fmt.Sprintf("sourcewalk.%s | component %q", core.FuncName(fd), suffix), c.Pos(), "component name suffix "+suffix)
			if allowed[suffix] {
				o.Auto("documented component")
			} else if service[suffix] {
				o.Auto("service, topic or method name built from the entity name (today spelled with Sprintf)")
			} else {
				o.Fail("suffix %q is not one of Keys, Data, Status, State, EventType, Event", suffix)
			}
			return true
		})
	})
	for s := range allowed {
		if !used[s] {
			r.Add("R-CONST/entitynames", "sourcewalk.entityNode | component "+s+" emitted", 0, "component "+s).Fail("no schema named with the %q suffix is emitted any more", s)
		}
	}
	// status prefix agreement
	var prefixes []string
	for _, fn := range []string{"entityNode.acceptStatus", "entityNode.findStatus"} {
		fd, fpk := r.P.FuncDecl(walkRel, fn)
		if fd == nil {
			r.Fatal("anchor: sourcewalk.%s not found", fn)
			continue
		}
		// the function and the same-package helpers it calls (a shared `statusPrefix()`): one prefix per function
		seen := ""
		core.InspectTree(fpk, fd.Body, func(n ast.Node) bool {
			if s, ok := n.(*ast.BasicLit); ok && seen == "" {
				if v, ok := core.ConstString(info, s); ok && strings.Contains(v, "_STATUS_") {
					seen = strings.ReplaceAll(strings.ReplaceAll(v, "%s", ""), " ", "")
				}
			}
			return true
		})
		if seen != "" {
			prefixes = append(prefixes, seen)
		}
	}
	o := r.Add("R-CONST/entitynames", "sourcewalk.entityNode | status prefix agreement", 0, "status prefix constants")
	if len(prefixes) == 2 && strings.Trim(prefixes[0], "_") == strings.Trim(prefixes[1], "_") {
		o.Auto("both use _STATUS_")
	} else {
		o.Fail("status prefix constants differ or are missing: %v", prefixes)
	}
}

// entityEvents: one oneof option and one nested schema per declared event,
// built in the same loop from the same element.
func entityEvents(r *core.Run, info *types.Info) {
	r.Rule("R-FLOW/events", "acceptEventOneof builds, in one forward range over entity.Events, exactly one nested schema and one oneof property per event: both appends are in the loop body, the property's field number is <index>+1, its name is lowerCamel(event name) and its ref is <EventType name>.<event name>")
	fd, _ := r.P.FuncDecl(walkRel, "entityNode.acceptEventOneof")
	if fd == nil {
		r.Fatal("anchor: sourcewalk.entityNode.acceptEventOneof not found")
		return
	}
	var loop *ast.RangeStmt
	// the declared events: <*sourcedef_j5pb.Entity>.Events, directly or through a local named once
	isEvents := func(e ast.Expr) bool {
		e = core.Unparen(e)
		if id, ok := e.(*ast.Ident); ok {
			if def := soleDefinition(info, id); def != nil {
				e = core.Unparen(def)
			}
		}
		s, ok := e.(*ast.SelectorExpr)
		return ok && s.Sel.Name == "Events" && strings.HasSuffix(core.TypeStr(info.TypeOf(s.X)), "sourcedef_j5pb.Entity")
	}
	for _, st := range fd.Body.List {
		if rs, ok := st.(*ast.RangeStmt); ok && isEvents(rs.X) {
			loop = rs
		}
	}
	o := r.Add("R-FLOW/events", "sourcewalk.entityNode.acceptEventOneof | per-event loop", fd.Pos(), "event oneof construction")
	if loop == nil {
		o.Fail("no top-level range over entity.Events")
		return
	}
	appends := map[string]int{}
	numOK, nameOK := false, false
	ast.Inspect(loop.Body, func(n ast.Node) bool {
		switch x := n.(type) {
		case *ast.AssignStmt:
			if len(x.Rhs) == 1 {
				if c, ok := x.Rhs[0].(*ast.CallExpr); ok && core.CalleeName(info, c) == "builtin.append" {
					// keyed by what is appended to, not by what the variable is called
					if sel, ok := core.Unparen(x.Lhs[0]).(*ast.SelectorExpr); ok {
						appends["."+sel.Sel.Name]++
					} else {
						appends[core.TypeStr(info.TypeOf(x.Lhs[0]))]++
					}
				}
			}
		case *ast.KeyValueExpr:
			switch core.ExprStr(x.Key) {
			case "ProtoField":
				ast.Inspect(x.Value, func(m ast.Node) bool {
					if b, ok := m.(*ast.BinaryExpr); ok && core.ExprStr(b) == core.ExprStr(loop.Key)+" + 1" {
						numOK = true
					}
					return true
				})
			case "Name":
				// lowerCamel of something taken from the event in hand (directly or through a local)
				if c, ok := core.Unparen(x.Value).(*ast.CallExpr); ok && strings.HasSuffix(core.CalleeName(info, c), "strcase.ToLowerCamel") && len(c.Args) == 1 {
					arg := c.Args[0]
					for i := 0; i < 3; i++ {
						if a := aliasExprOf(info, fd, arg); a != nil {
							arg = a
						}
					}
					if lv, ok := loop.Value.(*ast.Ident); ok {
						if root := rootIdent(arg); root != nil && info.Uses[root] != nil && info.Uses[root] == info.Defs[lv] {
							nameOK = true
						}
					}
				}
			}
		}
		return true
	})
	once := 0
	for _, n := range appends {
		if n == 1 {
			once++
		}
	}
	if len(appends) == 2 && once == 2 && appends[".Properties"] == 1 && numOK && nameOK {
		o.Auto("one nested schema and one property appended per event; number %s+1; name lowerCamel(event)", core.ExprStr(loop.Key))
	} else {
		o.Fail("appends=%v number=%v name=%v: events and oneof options are no longer built one-to-one", appends, numOK, nameOK)
	}
}

// entityPathKeys: Get/Events path parameters are appended from key.Def.Name in
// the forward range over the keys.
func entityPathKeys(r *core.Run, info *types.Info) {
	r.Rule("R-FLOW/pathkeys", "acceptQuery builds the Get/Events path from the keys in one forward range over ent.Schema.Keys using only tail appends of \":\"+key name (no insert, sort or prepend), so primary keys appear in declaration order")
	fd, _ := r.P.FuncDecl(walkRel, "entityNode.acceptQuery")
	if fd == nil {
		r.Fatal("anchor: sourcewalk.entityNode.acceptQuery not found")
		return
	}
	var loop *ast.RangeStmt
	// in acceptQuery or in a same-package helper it calls (the key classification may be factored out)
	if wpk := r.P.Pkg(walkRel); wpk != nil {
		core.InspectTree(wpk, fd.Body, func(n ast.Node) bool {
			if rs, ok := n.(*ast.RangeStmt); ok && loop == nil && strings.HasSuffix(core.ExprStr(rs.X), ".Keys") {
				loop = rs
			}
			return true
		})
	}
	o := r.Add("R-FLOW/pathkeys", "sourcewalk.entityNode.acceptQuery | key loop", fd.Pos(), "path parameter construction")
	if loop == nil {
		o.Fail("no range over the entity keys")
		return
	}
	bad := ""
	tail := 0
	ast.Inspect(loop.Body, func(n ast.Node) bool {
		as, ok := n.(*ast.AssignStmt)
		if !ok || len(as.Rhs) != 1 {
			return true
		}
		c, ok := as.Rhs[0].(*ast.CallExpr)
		if !ok {
			return true
		}
		name := core.CalleeName(info, c)
		if name == "builtin.append" {
			if core.ExprStr(c.Args[0]) == core.ExprStr(as.Lhs[0]) {
				tail++
			} else {
				bad = "non-tail append " + core.ExprStr(as.Rhs[0])
			}
		} else if strings.HasPrefix(name, "slices.") || strings.HasPrefix(name, "sort.") {
			bad = name
		}
		return true
	})
	if bad == "" && tail > 0 {
		o.Auto("%d tail appends inside the forward range over the keys", tail)
	} else {
		o.Fail("%s: path parameters are no longer in key declaration order", bad)
	}
}

// aliasOf: e is a local identifier defined exactly once as `x := <expr>`;
// returns the printed <expr>.
// initErrNotNil: `if v := …; v != nil` — the condition tests the variable the
// initialiser defines against nil.
func initErrNotNil(info *types.Info, ifs *ast.IfStmt) bool {
	as, ok := ifs.Init.(*ast.AssignStmt)
	if !ok || len(as.Lhs) == 0 {
		return false
	}
	b, ok := core.Unparen(ifs.Cond).(*ast.BinaryExpr)
	if !ok || b.Op != token.NEQ {
		return false
	}
	x, y := b.X, b.Y
	if core.IsNilIdent(info, x) {
		x, y = y, x
	}
	if !core.IsNilIdent(info, y) {
		return false
	}
	id, ok := core.Unparen(x).(*ast.Ident)
	if !ok {
		return false
	}
	for _, l := range as.Lhs {
		if li, ok := l.(*ast.Ident); ok && info.Defs[li] != nil && info.Defs[li] == info.Uses[id] {
			return true
		}
	}
	return false
}

// recvMember: e is `<receiver>.<member>` (a field, or a method called without
// arguments), directly or through a local defined once from it; returns the
// member's name, else "".
func recvMember(info *types.Info, fd *ast.FuncDecl, e ast.Expr) string {
	if fd.Recv == nil || len(fd.Recv.List) != 1 || len(fd.Recv.List[0].Names) != 1 {
		return ""
	}
	recv := info.Defs[fd.Recv.List[0].Names[0]]
	for depth := 0; depth < 3; depth++ {
		e = core.Unparen(e)
		if c, ok := e.(*ast.CallExpr); ok && len(c.Args) == 0 {
			e = c.Fun
		}
		switch x := e.(type) {
		case *ast.SelectorExpr:
			if id, ok := core.Unparen(x.X).(*ast.Ident); ok && info.Uses[id] == recv {
				if fn, ok := info.Uses[x.Sel].(*types.Func); ok {
					return core.RecordedName(fn)
				}
				return x.Sel.Name
			}
			return ""
		case *ast.Ident:
			obj := info.Uses[x]
			var def ast.Expr
			n := 0
			ast.Inspect(fd.Body, func(nd ast.Node) bool {
				if as, ok := nd.(*ast.AssignStmt); ok && len(as.Lhs) == len(as.Rhs) {
					for i, l := range as.Lhs {
						if li, ok := l.(*ast.Ident); ok && obj != nil && (info.Defs[li] == obj || info.Uses[li] == obj) {
							n++
							def = as.Rhs[i]
						}
					}
				}
				return true
			})
			if n != 1 {
				return ""
			}
			e = def
		default:
			return ""
		}
	}
	return ""
}

// mentionsRecvMember: some sub-expression of e is one of the receiver's named members.
func mentionsRecvMember(info *types.Info, fd *ast.FuncDecl, e ast.Expr, members ...string) bool {
	found := false
	ast.Inspect(e, func(n ast.Node) bool {
		if x, ok := n.(ast.Expr); ok {
			m := recvMember(info, fd, x)
			for _, w := range members {
				if m == w {
					found = true
				}
			}
		}
		return !found
	})
	return found
}

// aliasExprOf: the single defining expression of the local e names, or nil.
func aliasExprOf(info *types.Info, fd *ast.FuncDecl, e ast.Expr) ast.Expr {
	id, ok := core.Unparen(e).(*ast.Ident)
	if !ok {
		return nil
	}
	obj := info.Uses[id]
	var src ast.Expr
	n := 0
	ast.Inspect(fd.Body, func(nd ast.Node) bool {
		if as, ok := nd.(*ast.AssignStmt); ok && len(as.Lhs) == len(as.Rhs) {
			for i, l := range as.Lhs {
				if li, ok := l.(*ast.Ident); ok && obj != nil && (info.Defs[li] == obj || info.Uses[li] == obj) {
					n++
					src = as.Rhs[i]
				}
			}
		}
		return true
	})
	if n == 1 {
		return src
	}
	return nil
}

func aliasOf(info *types.Info, fd *ast.FuncDecl, e ast.Expr) string {
	id, ok := core.Unparen(e).(*ast.Ident)
	if !ok {
		return ""
	}
	obj := info.Uses[id]
	src, n := "", 0
	ast.Inspect(fd.Body, func(nd ast.Node) bool {
		if as, ok := nd.(*ast.AssignStmt); ok && len(as.Lhs) == len(as.Rhs) {
			for i, l := range as.Lhs {
				if li, ok := l.(*ast.Ident); ok && (info.Defs[li] == obj || info.Uses[li] == obj) {
					n++
					src = core.ExprStr(as.Rhs[i])
				}
			}
		}
		return true
	})
	if n == 1 {
		return src
	}
	return ""
}

// calleeRecorded: the simple name a call's static callee is known by (its
// recorded name when it was renamed).
func calleeRecorded(info *types.Info, c *ast.CallExpr) string {
	return core.RecordedName(core.CalleeFunc(info, c))
}

// selRecorded: the recorded name of the function or method a selector denotes.
func selRecorded(info *types.Info, s *ast.SelectorExpr) string {
	if fn, ok := info.Uses[s.Sel].(*types.Func); ok {
		return core.RecordedName(fn)
	}
	return s.Sel.Name
}
