package props

import (
	"go/ast"
	"go/types"
	"sort"
	"strings"

	"j5verif/checker/core"
)

// hollowWrappersNotConverted (R-PANIC/P4w): a generated oneof wrapper
// (`&schema_j5pb.Field_String_{}`) built without its inner message is a
// `string` field whose StringField is nil. The converters of the export
// packages take the inner message of a wrapper and read its fields directly —
// they are written for the fields the reflector builds, which always carry
// the inner message. Where the schema code hands out a wrapper without it (the
// key schema of a map), that field of the schema message must not be given to
// those converters: the first direct field read is a nil dereference.
func hollowWrappersNotConverted(r *core.Run) {
	r.Rule("R-PANIC/P4w", "the fields of generated schema messages which lib/j5schema fills with a oneof wrapper that has no inner message (a composite literal `&X_Y{}` of a wrapper type as the value of a oneof field) are not passed to a function of internal/export, internal/j5client or internal/structure: the converters read the inner message's fields without a nil test")
	spk := r.P.Pkg(schemaRel)
	if spk == nil {
		r.Fatal("anchor: package %s not found", schemaRel)
		return
	}
	sinfo := spk.TypesInfo
	// hollow[F] : field objects (of generated messages) assigned a Field whose wrapper is empty
	hollow := map[types.Object]string{}
	isEmptyWrapper := func(e ast.Expr) bool {
		x := core.Unparen(e)
		if u, ok := x.(*ast.UnaryExpr); ok {
			x = core.Unparen(u.X)
		}
		cl, ok := x.(*ast.CompositeLit)
		if !ok || len(cl.Elts) != 0 {
			return false
		}
		nt := core.NamedOf(sinfo.TypeOf(cl))
		if nt == nil || nt.Obj().Pkg() == nil || !core.IsGen(nt.Obj().Pkg().Path()) || !strings.Contains(nt.Obj().Name(), "_") {
			return false
		}
		st, ok := nt.Underlying().(*types.Struct)
		if !ok || st.NumFields() != 1 {
			return false
		}
		_, isPtr := st.Field(0).Type().(*types.Pointer)
		return isPtr
	}
	core.AllFuncDecls(spk, func(fd *ast.FuncDecl) {
		if fd.Body == nil {
			return
		}
		ast.Inspect(fd.Body, func(n ast.Node) bool {
			kv, ok := n.(*ast.KeyValueExpr)
			if !ok {
				return true
			}
			key, ok := kv.Key.(*ast.Ident)
			if !ok {
				return true
			}
			fobj := sinfo.ObjectOf(key)
			if fobj == nil {
				return true
			}
			// value: &Msg{Type: &Wrapper{}}
			x := core.Unparen(kv.Value)
			if u, ok := x.(*ast.UnaryExpr); ok {
				x = core.Unparen(u.X)
			}
			cl, ok := x.(*ast.CompositeLit)
			if !ok {
				return true
			}
			for _, el := range cl.Elts {
				if ikv, ok := el.(*ast.KeyValueExpr); ok && isEmptyWrapper(ikv.Value) {
					hollow[fobj] = core.FuncName(fd)
				}
			}
			return true
		})
	})
	var names []string
	for f := range hollow {
		names = append(names, f.Name())
	}
	sort.Strings(names)
	r.Note("fields filled with a wrapper that has no inner message: %v", names)
	n := 0
	for _, rel := range []string{"internal/export", "internal/j5client", "internal/structure"} {
		pk := r.P.Pkg(rel)
		if pk == nil {
			r.Fatal("anchor: package %s not found", rel)
			continue
		}
		info := pk.TypesInfo
		core.AllFuncDecls(pk, func(fd *ast.FuncDecl) {
			if fd.Body == nil {
				return
			}
			ast.Inspect(fd.Body, func(m ast.Node) bool {
				c, ok := m.(*ast.CallExpr)
				if !ok {
					return true
				}
				for _, a := range c.Args {
					sel, ok := core.Unparen(a).(*ast.SelectorExpr)
					if !ok {
						continue
					}
					fobj := info.ObjectOf(sel.Sel)
					where, isHollow := hollow[fobj]
					if !isHollow {
						continue
					}
					n++
					r.Add("R-PANIC/P4w", rel+"."+core.FuncName(fd)+" | "+core.NormExpr(info, a)+" handed to "+core.ExprStr(c.Fun), a.Pos(), "a schema field whose wrapper has no inner message, handed to a converter").Fail("%s fills %s with a wrapper that has no inner message; %s reads the inner message's fields directly: a nil dereference for every schema that has such a field (every map), the export crashes", where, sel.Sel.Name, core.ExprStr(c.Fun))
				}
				return true
			})
		})
	}
	o := r.Add("R-PANIC/P4w", "export converters | hollow wrappers", 0, "fields with a hollow wrapper reaching a converter")
	if n == 0 {
		o.Auto("%d such field(s) (%s), none handed to a converter", len(hollow), strings.Join(names, ", "))
	} else {
		o.Fail("%d hand-overs", n)
	}
}
