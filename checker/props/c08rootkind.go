package props

import (
	"go/ast"
	"go/types"
	"strings"

	"j5verif/checker/core"
)

// rootKindDecided (R-EXH/rootkind): the reflection of a root message is a
// j5reflect.Root, which is an object *or* an exposed oneof; the two are written
// differently (a oneof carries "!type" and exactly one member). Root embeds
// PropertySet, so handing a Root to code that writes or reads a plain member
// list compiles — and renders a oneof as an object. In the codec a Root goes
// on only as a Root, or through a type switch / assertion that says which of
// the two it is.
func rootKindDecided(r *core.Run) {
	r.Rule("R-EXH/rootkind", "in internal/codec every call argument whose static type is j5reflect.Root is passed to a parameter of type j5reflect.Root: a Root is narrowed (type switch, assertion) before it reaches code written for one kind of property set")
	pk := r.P.Pkg(codecRel)
	if pk == nil {
		r.Fatal("anchor: package %s not found", codecRel)
		return
	}
	info := pk.TypesInfo
	isRoot := func(t types.Type) bool {
		return t != nil && strings.HasSuffix(core.TypeStr(t), "j5reflect.Root")
	}
	core.AllFuncDecls(pk, func(fd *ast.FuncDecl) {
		if fd.Body == nil {
			return
		}
		ast.Inspect(fd.Body, func(n ast.Node) bool {
			c, ok := n.(*ast.CallExpr)
			if !ok || core.IsConversion(info, c) {
				return true
			}
			sig, ok := info.TypeOf(c.Fun).Underlying().(*types.Signature)
			if !ok {
				return true
			}
			for i, a := range c.Args {
				if !isRoot(info.TypeOf(a)) {
					continue
				}
				var pt types.Type
				switch {
				case sig.Variadic() && i >= sig.Params().Len()-1:
					pt = sig.Params().At(sig.Params().Len() - 1).Type().(*types.Slice).Elem()
				case i < sig.Params().Len():
					pt = sig.Params().At(i).Type()
				}
				if it, ok := pt.Underlying().(*types.Interface); ok && it.NumMethods() == 0 {
					continue // handed to `any` (a message of fmt): nothing is written or read through it
				}
				o := r.Add("R-EXH/rootkind", codecRel+"."+core.FuncName(fd)+" | "+core.NormExpr(info, a)+" passed to "+core.CalleeName(info, c), a.Pos(), "a Root handed on")
				if isRoot(pt) {
					o.Auto("the parameter is a j5reflect.Root as well")
				} else {
					o.Fail("a j5reflect.Root is passed to %s as %s without deciding whether it is an object or a oneof: a root message that is an exposed oneof (for instance the content of an Any) is then written or read as a plain object — no \"!type\", no one-member check", core.CalleeName(info, c), core.TypeStr(pt))
				}
			}
			return true
		})
	})
	r.Floor("R-EXH/rootkind", 1, "Root-typed call argument in "+codecRel)
}
