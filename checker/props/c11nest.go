package props

import (
	"go/ast"
	"go/token"
	"go/types"
	"strings"

	"j5verif/checker/core"
)

// nestingBuildersBounded (R-TERM/T-nest): the token walker is iterative where
// blocks nest — a loop re-points a "current" node at a fresh child that keeps
// the old current as its parent, and back at the parent on a closer. The tree
// it builds is then as deep as the input makes it, and everything that walks
// the tree afterwards (the schema walker, the formatter) recurses once per
// level: its structural descent is bounded by the tree, the tree by nothing.
// The rule finds such loops and requires the descend step to be preceded, in
// the same clause, by a test of an integer counter against a constant whose
// body leaves the loop, the counter being incremented where the loop descends.
func nestingBuildersBounded(r *core.Run) {
	r.Rule("R-TERM/T-nest", "in internal/bcl/internal/parser every loop that builds nesting iteratively — it assigns to a variable X a freshly allocated value holding the old X in a field (descend) and elsewhere assigns X = X.<field> (ascend) — counts the open levels in an integer variable that is incremented before the descend and compared with a constant in an `if` whose body returns, in the clause of the descend: the depth of the tree (and with it the recursion depth of every later walk over it) is bounded by a constant, not by the input")
	pk := r.P.Pkg(parserRel)
	if pk == nil {
		r.Fatal("anchor: package %s not found", parserRel)
		return
	}
	info := pk.TypesInfo
	n := 0
	core.AllFuncDecls(pk, func(fd *ast.FuncDecl) {
		if fd.Body == nil {
			return
		}
		ast.Inspect(fd.Body, func(nd ast.Node) bool {
			var body *ast.BlockStmt
			switch l := nd.(type) {
			case *ast.ForStmt:
				body = l.Body
			case *ast.RangeStmt:
				body = l.Body
			default:
				return true
			}
			// descend: X = Y where Y's value is &T{… f: X …} (directly or through a local defined in the loop)
			holdsOld := func(e ast.Expr, x types.Object) bool {
				e = core.Unparen(e)
				if id, ok := e.(*ast.Ident); ok {
					if def := soleDefinition(info, id); def != nil {
						e = core.Unparen(def)
					}
				}
				if u, ok := e.(*ast.UnaryExpr); ok && u.Op == token.AND {
					e = core.Unparen(u.X)
				}
				cl, ok := e.(*ast.CompositeLit)
				if !ok {
					return false
				}
				for _, el := range cl.Elts {
					v := el
					if kv, ok := el.(*ast.KeyValueExpr); ok {
						v = kv.Value
					}
					if id, ok := core.Unparen(v).(*ast.Ident); ok && info.ObjectOf(id) == x {
						return true
					}
				}
				return false
			}
			var descend *ast.AssignStmt
			var cur types.Object
			ascend := false
			ast.Inspect(body, func(m ast.Node) bool {
				as, ok := m.(*ast.AssignStmt)
				if !ok || as.Tok != token.ASSIGN || len(as.Lhs) != 1 || len(as.Rhs) != 1 {
					return true
				}
				id, ok := as.Lhs[0].(*ast.Ident)
				if !ok {
					return true
				}
				x := info.ObjectOf(id)
				if x == nil {
					return true
				}
				if holdsOld(as.Rhs[0], x) {
					descend, cur = as, x
				}
				return true
			})
			if descend == nil {
				return true
			}
			ast.Inspect(body, func(m ast.Node) bool {
				as, ok := m.(*ast.AssignStmt)
				if !ok || as.Tok != token.ASSIGN || len(as.Lhs) != 1 || len(as.Rhs) != 1 {
					return true
				}
				if id, ok := as.Lhs[0].(*ast.Ident); ok && info.ObjectOf(id) == cur {
					rhs := core.Unparen(as.Rhs[0])
					if rid, ok := rhs.(*ast.Ident); ok {
						// `if parent := cur.parent; parent != nil { cur = parent }`
						if def := soleDefinition(info, rid); def != nil {
							rhs = core.Unparen(def)
						}
					}
					if sel, ok := rhs.(*ast.SelectorExpr); ok {
						if rid, ok := core.Unparen(sel.X).(*ast.Ident); ok && info.ObjectOf(rid) == cur {
							ascend = true
						}
					}
				}
				return true
			})
			if !ascend {
				return true
			}
			n++
			o := r.Add("R-TERM/T-nest", parserRel+"."+core.FuncName(fd)+" | nesting depth bounded", descend.Pos(), "iterative construction of nested blocks")
			// the statement list that holds the descend
			path := core.PathTo(body, descend)
			var list []ast.Stmt
			for i := len(path) - 1; i >= 0 && list == nil; i-- {
				switch c := path[i].(type) {
				case *ast.CaseClause:
					list = c.Body
				case *ast.BlockStmt:
					list = c.List
				}
			}
			guard := ""
			incremented := map[types.Object]bool{}
			for _, st := range list {
				if st.Pos() >= descend.Pos() {
					break
				}
				switch x := st.(type) {
				case *ast.IncDecStmt:
					if id, ok := x.X.(*ast.Ident); ok && x.Tok == token.INC {
						incremented[info.ObjectOf(id)] = true
					}
				case *ast.AssignStmt:
					if x.Tok == token.ADD_ASSIGN && len(x.Lhs) == 1 {
						if id, ok := x.Lhs[0].(*ast.Ident); ok {
							incremented[info.ObjectOf(id)] = true
						}
					}
				case *ast.IfStmt:
					b, ok := core.Unparen(x.Cond).(*ast.BinaryExpr)
					if !ok || (b.Op != token.GTR && b.Op != token.GEQ) {
						continue
					}
					id, ok := core.Unparen(b.X).(*ast.Ident)
					if !ok {
						continue
					}
					if _, isConst := core.ConstInt(info, b.Y); !isConst {
						continue
					}
					if len(x.Body.List) == 0 {
						continue
					}
					if _, isRet := x.Body.List[len(x.Body.List)-1].(*ast.ReturnStmt); !isRet {
						continue
					}
					if incremented[info.ObjectOf(id)] {
						guard = core.NormExpr(info, x.Cond)
					}
				}
			}
			if guard != "" {
				o.Auto("the open levels are counted and `%s` leaves the loop", guard)
			} else {
				o.Fail("nothing bounds how deep the input can nest blocks here: the tree is built iteratively, but every walk over it (schema walker, formatter) recurses once per level, and a few megabytes of openers exhaust the goroutine stack — a fatal error, not a recoverable panic")
			}
			return true
		})
	})
	if n == 0 {
		r.Fatal("R-TERM/T-nest: no iterative nesting loop found in %s (fragmentsToFile)", parserRel)
	}
}

// lexerErrorsPositioned (R-POS/lexerr): the parser turns a lexer error into a
// diagnostic only when it is an *errpos.Err; anything else ends ParseFile with
// a bare error — no tree, no list of diagnostics, and in collect-all mode the
// diagnostics found so far are gone too. So every error a method of Lexer
// returns comes from the lexer's own positioned constructor: it is the result
// of a Lexer method, or a local that only ever holds such a result.
func lexerErrorsPositioned(r *core.Run) {
	r.Rule("R-POS/lexerr", "every non-nil error returned by a method of parser.Lexer is the result of a call of another Lexer method (the positioned constructor errf and what is built on it), a composite literal of errpos.Err, or a local all of whose definitions are such: an error of a library function (regexp, strconv) returned as it is has no position and makes ParseFile return neither a tree nor diagnostics")
	pk := r.P.Pkg(parserRel)
	if pk == nil {
		r.Fatal("anchor: package %s not found", parserRel)
		return
	}
	info := pk.TypesInfo
	isLexerCall := func(e ast.Expr) bool {
		c, ok := core.Unparen(e).(*ast.CallExpr)
		if !ok {
			return false
		}
		fn := core.CalleeFunc(info, c)
		if fn == nil {
			return false
		}
		sig, ok := fn.Type().(*types.Signature)
		return ok && sig.Recv() != nil && strings.HasSuffix(core.TypeStr(sig.Recv().Type()), "parser.Lexer")
	}
	isErrLit := func(e ast.Expr) bool {
		x := core.Unparen(e)
		if u, ok := x.(*ast.UnaryExpr); ok {
			x = core.Unparen(u.X)
		}
		cl, ok := x.(*ast.CompositeLit)
		return ok && strings.HasSuffix(core.TypeStr(info.TypeOf(cl)), "errpos.Err")
	}
	n := 0
	core.AllFuncDecls(pk, func(fd *ast.FuncDecl) {
		if fd.Body == nil || core.RecvName(fd) != "Lexer" || fd.Type.Results == nil {
			return
		}
		fn, _ := info.Defs[fd.Name].(*types.Func)
		sig := fn.Type().(*types.Signature)
		ei := sig.Results().Len() - 1
		if ei < 0 || core.TypeStr(sig.Results().At(ei).Type()) != "error" {
			return
		}
		ast.Inspect(fd.Body, func(m ast.Node) bool {
			if _, isLit := m.(*ast.FuncLit); isLit {
				return false
			}
			rs, ok := m.(*ast.ReturnStmt)
			if !ok || len(rs.Results) != sig.Results().Len() {
				return true
			}
			e := rs.Results[ei]
			if core.IsNilIdent(info, e) {
				return true
			}
			n++
			o := r.Add("R-POS/lexerr", parserRel+"."+core.FuncName(fd)+" | "+core.NormExpr(info, e), rs.Pos(), "error returned by the lexer")
			okSrc := isLexerCall(e) || isErrLit(e)
			if id, isID := core.Unparen(e).(*ast.Ident); isID && !okSrc {
				obj := info.ObjectOf(id)
				defs, good := 0, 0
				ast.Inspect(fd.Body, func(k ast.Node) bool {
					as, ok := k.(*ast.AssignStmt)
					if !ok {
						return true
					}
					for i, l := range as.Lhs {
						lid, ok := l.(*ast.Ident)
						if !ok || info.ObjectOf(lid) != obj {
							continue
						}
						defs++
						var src ast.Expr
						if len(as.Lhs) == len(as.Rhs) {
							src = as.Rhs[i]
						} else if len(as.Rhs) == 1 {
							src = as.Rhs[0] // tuple result of one call
						}
						if src != nil && (isLexerCall(src) || isErrLit(src)) {
							good++
						}
					}
					return true
				})
				okSrc = defs > 0 && defs == good
			}
			if okSrc {
				o.Auto("built by the lexer's positioned constructor")
			} else {
				o.Fail("this error does not come from the lexer's positioned constructor: the parser cannot turn it into a diagnostic, ParseFile returns an unexpected-lexer-error instead of a tree or a list of diagnostics (and drops the diagnostics collected before it)")
			}
			return true
		})
	})
	r.Floor("R-POS/lexerr", 5, "error returns of NextToken, lexNumber, lexString, lexRegex, lexEscape")
}

// lexerSeesCallersText (R-POS/samesource): positions are line and column
// numbers counted by the lexer over the text it holds; the caller (ParseFile,
// the formatter, errpos.AddSource which prints the offending line) interprets
// them in the text it passed. The two agree only if they are the same text:
// NewLexer stores its string parameter converted to runes and nothing else —
// a normalisation (line endings, tabs, BOM) in between makes every position
// after the first rewritten character one of another text.
func lexerSeesCallersText(r *core.Run) {
	r.Rule("R-POS/samesource", "in every function of the parser package that builds a Lexer literal, the value of each []rune field is []rune(<p>) (or <p>) with <p> a string parameter of that function, unchanged: no call, replacement or slice of the input lies between the caller's text and the text positions are counted in")
	pk := r.P.Pkg(parserRel)
	if pk == nil {
		r.Fatal("anchor: package %s not found", parserRel)
		return
	}
	info := pk.TypesInfo
	core.AllFuncDecls(pk, func(fd *ast.FuncDecl) {
		if fd.Body == nil {
			return
		}
		params := map[types.Object]bool{}
		for _, f := range fd.Type.Params.List {
			for _, nm := range f.Names {
				params[info.ObjectOf(nm)] = true
			}
		}
		ast.Inspect(fd.Body, func(n ast.Node) bool {
			cl, ok := n.(*ast.CompositeLit)
			if !ok || !strings.HasSuffix(core.TypeStr(info.TypeOf(cl)), "parser.Lexer") {
				return true
			}
			for _, el := range cl.Elts {
				kv, ok := el.(*ast.KeyValueExpr)
				if !ok {
					continue
				}
				sl, ok := info.TypeOf(kv.Value).Underlying().(*types.Slice)
				if !ok || core.TypeStr(sl.Elem()) != "rune" && core.TypeStr(sl.Elem()) != "int32" {
					continue
				}
				o := r.Add("R-POS/samesource", parserRel+"."+core.FuncName(fd)+" | lexer text is the caller's text", kv.Pos(), "text held by the lexer")
				v := core.Unparen(kv.Value)
				if c, ok := v.(*ast.CallExpr); ok && core.IsConversion(info, c) && len(c.Args) == 1 {
					v = core.Unparen(c.Args[0])
				}
				if id, ok := v.(*ast.Ident); ok && params[info.ObjectOf(id)] {
					o.Auto("[]rune(%s), the parameter as it is", id.Name)
				} else {
					o.Fail("the lexer holds %s, not the caller's text: every line and column it reports is a position in the rewritten text, while ParseFile hands the original to errpos.AddSource and returns the positions to the caller — after the first rewritten character they point at other (or no) characters", core.ExprStr(kv.Value))
				}
			}
			return true
		})
	})
	r.Floor("R-POS/samesource", 1, "Lexer literal with a []rune field")
}
