package props

import (
	"go/ast"
	"go/token"
	"go/types"
	"strings"

	"j5verif/checker/core"
)

// entityPartOwnAnnotation (R-PROV/entitypart): which part of an entity a message
// is — keys, data, state, event — is said by the message's own (j5.ext.v1.psm)
// annotation. The reflector also knows a legacy form in which only the keys
// message is annotated and stands for the whole entity; it then reads the
// annotation of the message type of a field. An annotation read from *another*
// message that names a part describes that other message: applying it to the
// holder turns every message with a `keys` field (the compiler's own event
// topic message among them) into a second KEYS part of the entity.
func entityPartOwnAnnotation(r *core.Run) {
	r.Rule("R-PROV/entitypart", "in lib/j5schema, where the (j5.ext.v1.psm) annotation is read from the options of a message other than the one being reflected (the operand of Options() is not rooted at the function's descriptor parameter), the statement list continues with an `if` on that annotation's EntityPart being non-nil whose body returns: an annotation that names its part is not applied to another message")
	pk := r.P.Pkg(schemaRel)
	if pk == nil {
		r.Fatal("anchor: package %s not found", schemaRel)
		return
	}
	info := pk.TypesInfo
	n, own := 0, 0
	core.AllFuncDecls(pk, func(fd *ast.FuncDecl) {
		if fd.Body == nil || fd.Type.Params == nil {
			return
		}
		params := map[types.Object]bool{}
		for _, p := range fd.Type.Params.List {
			for _, nm := range p.Names {
				params[info.ObjectOf(nm)] = true
			}
		}
		if fd.Recv != nil {
			for _, p := range fd.Recv.List {
				for _, nm := range p.Names {
					params[info.ObjectOf(nm)] = true
				}
			}
		}
		var walk func(list []ast.Stmt)
		walk = func(list []ast.Stmt) {
			for i, st := range list {
				ast.Inspect(st, func(m ast.Node) bool {
					switch x := m.(type) {
					case *ast.BlockStmt:
						walk(x.List)
						return false
					case *ast.CaseClause:
						walk(x.Body)
						return false
					}
					return true
				})
				as, ok := st.(*ast.AssignStmt)
				if !ok || len(as.Lhs) != 1 || len(as.Rhs) != 1 {
					continue
				}
				var call *ast.CallExpr
				ast.Inspect(as.Rhs[0], func(m ast.Node) bool {
					if c, ok := m.(*ast.CallExpr); ok && strings.HasSuffix(core.CalleeName(info, c), "proto.GetExtension") && len(c.Args) == 2 {
						if o := core.UsedObj(info, c.Args[1]); o != nil && o.Name() == "E_Psm" {
							call = c
						}
					}
					return true
				})
				if call == nil {
					continue
				}
				// root of the Options() operand
				root := call.Args[0]
				for {
					switch y := core.Unparen(root).(type) {
					case *ast.CallExpr:
						root = y.Fun
						continue
					case *ast.SelectorExpr:
						root = y.X
						continue
					}
					break
				}
				rid, _ := core.Unparen(root).(*ast.Ident)
				if rid != nil && params[info.ObjectOf(rid)] {
					own++
					continue
				}
				n++
				v, _ := as.Lhs[0].(*ast.Ident)
				o := r.Add("R-PROV/entitypart", schemaRel+"."+core.FuncName(fd)+" | annotation of another message", as.Pos(), "psm annotation read from the options of "+core.NormExpr(info, call.Args[0]))
				guarded := false
				if v != nil {
					vobj := info.ObjectOf(v)
					for _, nx := range list[i+1:] {
						is, ok := nx.(*ast.IfStmt)
						if !ok || len(is.Body.List) == 0 {
							continue
						}
						if _, isRet := is.Body.List[len(is.Body.List)-1].(*ast.ReturnStmt); !isRet {
							continue
						}
						ast.Inspect(is.Cond, func(m ast.Node) bool {
							b, ok := m.(*ast.BinaryExpr)
							if !ok || b.Op != token.NEQ || !core.IsNilIdent(info, b.Y) {
								return true
							}
							if s, ok := core.Unparen(b.X).(*ast.SelectorExpr); ok && s.Sel.Name == "EntityPart" {
								if id, ok := core.Unparen(s.X).(*ast.Ident); ok && info.ObjectOf(id) == vobj {
									guarded = true
								}
							}
							return true
						})
					}
				}
				if guarded {
					o.Auto("an annotation that names its own part is left to the message it sits on")
				} else {
					o.Fail("the annotation of the field's message type is applied to the holder even when it names its own part: every message with a `keys` field of an entity's keys type — the generated event topic message, any user object — is reflected as the KEYS part of that entity, and the client picks the entity's key schema among them in map order")
				}
			}
		}
		walk(fd.Body.List)
	})
	if own == 0 {
		r.Fatal("R-PROV/entitypart: no read of a message's own (j5.ext.v1.psm) annotation found in %s", schemaRel)
	}
	r.Analysed["psm_annotation_reads_foreign"] = n
}

// statusNamesAsDeclared (R-PROV/statusname): the values of an entity's status
// enum are named <ENTITY>_STATUS_ + the status name as it was declared. Every
// other place that names a status value — the default status filter of the
// query service — has to use the declared name unchanged too: a re-cased name
// (ToScreamingSnake puts an underscore at every letter/digit boundary) names a
// value the enum does not have.
func statusNamesAsDeclared(r *core.Run) {
	r.Rule("R-PROV/statusname", "in sourcewalk, inside a loop over the entity's declared statuses ([]*Enum_Option of Entity.Status) the Name of the element is never the argument of a case-conversion function: status value names are the declared names behind the prefix, in the enum (Options passed on as they are) and wherever a status is referred to")
	pk := r.P.Pkg(walkRel)
	if pk == nil {
		r.Fatal("anchor: package %s not found", walkRel)
		return
	}
	info := pk.TypesInfo
	n := 0
	core.AllFuncDecls(pk, func(fd *ast.FuncDecl) {
		if fd.Body == nil {
			return
		}
		ast.Inspect(fd.Body, func(nd ast.Node) bool {
			rs, ok := nd.(*ast.RangeStmt)
			if !ok {
				return true
			}
			sel, ok := core.Unparen(rs.X).(*ast.SelectorExpr)
			if !ok || sel.Sel.Name != "Status" || !strings.HasSuffix(core.TypeStr(info.TypeOf(sel.X)), "sourcedef_j5pb.Entity") {
				return true
			}
			val, ok := rs.Value.(*ast.Ident)
			if !ok {
				return true
			}
			vobj := info.ObjectOf(val)
			n++
			o := r.Add("R-PROV/statusname", walkRel+"."+core.FuncName(fd)+" | status names as declared", rs.Pos(), "use of declared status names")
			var bad *ast.CallExpr
			ast.Inspect(rs.Body, func(m ast.Node) bool {
				c, ok := m.(*ast.CallExpr)
				if !ok {
					return true
				}
				name := core.CalleeName(info, c)
				if !strings.Contains(name, "strcase.") && !strings.HasPrefix(name, "strings.To") {
					return true
				}
				for _, a := range c.Args {
					if s, ok := core.Unparen(a).(*ast.SelectorExpr); ok && s.Sel.Name == "Name" {
						if id, ok := core.Unparen(s.X).(*ast.Ident); ok && info.ObjectOf(id) == vobj {
							bad = c
						}
					}
				}
				return true
			})
			if bad != nil {
				o.Pos = r.P.Rel(bad.Pos())
				o.Fail("the status name goes through %s: the status enum names its values with the declared name unchanged, so for a status such as STAGE2 this builds FOO_STATUS_STAGE_2, a value that does not exist", core.CalleeName(info, bad))
			} else {
				o.Auto("the declared name is used as it is")
			}
			return true
		})
	})
	if n == 0 {
		r.Fatal("R-PROV/statusname: no loop over Entity.Status found in %s", walkRel)
	}
}

// noSharedMessages (R-SYM/S9w): the entity expansion builds schema messages per
// entity and fills some of them in afterwards (`….Filtering.DefaultFilters =
// filters`). A generated message is a pointer: one that lives in a
// package-level variable and is put into the schemas of every entity is the
// same message in all of them, and a later write for one entity shows up in
// the others — and in everything compiled afterwards in the same process.
func noSharedMessages(r *core.Run) {
	r.Rule("R-SYM/S9w", "in sourcewalk no package-level variable whose type is a pointer to a generated protobuf message is used as the value of a field (in a composite literal or an assignment) or as a call argument: every schema message the walker hands out is built for the node it belongs to")
	pk := r.P.Pkg(walkRel)
	if pk == nil {
		r.Fatal("anchor: package %s not found", walkRel)
		return
	}
	info := pk.TypesInfo
	isSharedMsg := func(e ast.Expr) (string, bool) {
		id, ok := core.Unparen(e).(*ast.Ident)
		if !ok {
			return "", false
		}
		v, ok := info.Uses[id].(*types.Var)
		if !ok || v.Parent() != pk.Types.Scope() {
			return "", false
		}
		p, ok := v.Type().(*types.Pointer)
		if !ok {
			return "", false
		}
		nt := core.NamedOf(p.Elem())
		if nt == nil || nt.Obj().Pkg() == nil || !core.IsGen(nt.Obj().Pkg().Path()) {
			return "", false
		}
		return v.Name(), true
	}
	n, vars := 0, 0
	for _, nm := range pk.Types.Scope().Names() {
		if v, ok := pk.Types.Scope().Lookup(nm).(*types.Var); ok {
			if p, ok := v.Type().(*types.Pointer); ok {
				if nt := core.NamedOf(p.Elem()); nt != nil && nt.Obj().Pkg() != nil && core.IsGen(nt.Obj().Pkg().Path()) {
					vars++
				}
			}
		}
	}
	core.AllFuncDecls(pk, func(fd *ast.FuncDecl) {
		if fd.Body == nil {
			return
		}
		ast.Inspect(fd.Body, func(m ast.Node) bool {
			var vals []ast.Expr
			switch x := m.(type) {
			case *ast.KeyValueExpr:
				vals = append(vals, x.Value)
			case *ast.AssignStmt:
				vals = append(vals, x.Rhs...)
			case *ast.CallExpr:
				vals = append(vals, x.Args...)
			}
			for _, v := range vals {
				if name, ok := isSharedMsg(v); ok {
					n++
					r.Add("R-SYM/S9w", walkRel+"."+core.FuncName(fd)+" | shared "+name, v.Pos(), "package-level message "+name+" placed into a generated schema").Fail("%s is one message for the whole process: every schema it is put into shares it, and a field filled in for one entity (a default status filter) appears on the others and on everything compiled later", name)
				}
			}
			return true
		})
	})
	o := r.Add("R-SYM/S9w", walkRel+" | package-level messages", token.NoPos, "package-level variables of generated message types")
	if n == 0 {
		o.Auto("%d such variables, none placed into a schema", vars)
	} else {
		o.Fail("%d uses of package-level messages in generated schemas", n)
	}
}
