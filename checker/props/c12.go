package props

import (
	"fmt"
	"go/ast"
	"go/token"
	"go/types"
	"strings"

	"j5verif/checker/core"
	"j5verif/checker/rules"
)

func init() { Registry["C12"] = C12 }

// C12 — compiled validation constraints accept exactly what the j5s rules
// allow (only the clauses visible in code shape).
func C12(r *core.Run) {
	r.Entry = []string{"j5convert.buildProperty", "j5convert.buildField", "j5convert.EnumRef.mapValues", "j5convert.enumTypeRef"}
	boundPolarity(r)
	boundPresence(r)
	nameAffinity(r, convRel, "fields.go")
	provEnumNumbers(r)
	enumNumberingAgrees(r)
	valueNamePrefixGuard(r)
	rules.FillEvery(r, []string{convRel}) // the list of an in / not_in rule holds the numbers of the named options and nothing else
	requiredPropagation(r)
	ruleConstants(r)
	arrayItems(r)
	boundNarrowing(r)
	freshExtensions(r)
	ruleScopeModifiers(r)
	attributeIndependence(r, "sym_sites", "*") // a declared rule is emitted whatever the sibling attributes are
}

// boundPresence: a bound is emitted iff it is declared (pure nil test).
func boundPresence(r *core.Run) {
	r.Rule("R-SYM/S4p", "each integer bound is emitted under exactly `<bound> != nil`: a value-dependent presence condition would drop declared bounds (e.g. a zero minimum)")
	fd, pk := r.P.FuncDecl(convRel, "buildField")
	if fd == nil {
		r.Fatal("anchor: j5convert.buildField not found")
		return
	}
	info := pk.TypesInfo
	n := 0
	ast.Inspect(core.TreeBody(pk, fd), func(nd ast.Node) bool {
		outer, ok := nd.(*ast.IfStmt)
		if !ok || len(outer.Body.List) != 1 {
			return true
		}
		inner, ok := outer.Body.List[0].(*ast.IfStmt)
		if !ok || inner.Else == nil || wrapperAssigned(info, inner.Body) == "" {
			return true
		}
		n++
		w := wrapperAssigned(info, inner.Body)
		bound := "Maximum"
		if strings.Contains(w, "_Gt") {
			bound = "Minimum"
		}
		label := clauseLabel(info, fd, enclosingClause(fd, outer))
		o := r.Add("R-SYM/S4p", fmt.Sprintf("j5convert.buildField | %s | presence of %s", label, bound), outer.Pos(), "presence condition of the "+bound+" bound")
		b, isBin := core.Unparen(outer.Cond).(*ast.BinaryExpr)
		// the tested expression, with a local alias of the rules message resolved:
		// `r := st.Integer.Rules` defined once and never reassigned stands for it
		tested, aliasWhy := "", ""
		if isBin {
			tested = core.ExprStr(b.X)
			if sel, ok := core.Unparen(b.X).(*ast.SelectorExpr); ok {
				if id, ok := core.Unparen(sel.X).(*ast.Ident); ok {
					if obj := info.Uses[id]; obj != nil {
						defs, rhs := 0, ""
						ast.Inspect(core.TreeBody(pk, fd), func(x ast.Node) bool {
							if as, ok := x.(*ast.AssignStmt); ok {
								for i, l := range as.Lhs {
									if li, ok := l.(*ast.Ident); ok && (info.Defs[li] == obj || info.Uses[li] == obj) {
										defs++
										if len(as.Rhs) == len(as.Lhs) {
											rhs = core.ExprStr(as.Rhs[i])
										}
									}
								}
							}
							return true
						})
						isRulesType := strings.HasSuffix(core.TypeStr(info.TypeOf(sel.X)), "IntegerField_Rules")
						switch {
						case defs == 1 && strings.HasSuffix(rhs, ".Rules"):
							tested = rhs + "." + sel.Sel.Name
						case defs == 0 && isRulesType:
							// a parameter of the rules type: the helper is handed the declared rules
							tested = id.Name + ".Rules." + sel.Sel.Name
						case defs > 1:
							aliasWhy = fmt.Sprintf(" (%s is assigned %d times: the rules the bounds are read from are not the declared ones on every path)", id.Name, defs)
						}
					}
				}
			}
		}
		if isBin && b.Op == token.NEQ && core.IsNilIdent(info, b.Y) && strings.HasSuffix(tested, ".Rules."+bound) {
			o.Auto("%s", core.ExprStr(outer.Cond))
		} else if aliasWhy != "" {
			o.Fail("the bound is emitted under %s%s", core.ExprStr(outer.Cond), aliasWhy)
		} else {
			o.Fail("the bound is emitted under %s instead of a plain nil test of Rules.%s: some declared bounds are silently not enforced", core.ExprStr(outer.Cond), bound)
		}
		return true
	})
	r.Floor("R-SYM/S4p", 8, "4 formats × {max,min}")
}

// requiredPropagation: required ⇒ (buf.validate.field).required = true.
func requiredPropagation(r *core.Run) {
	r.Rule("R-FLOW/required", "buildProperty: the local `required` starts as the declared Required flag, is forced true for primary keys, and `if required` stores Required = true into the validate constraints and sets the extension")
	fd, pk := r.P.FuncDecl(convRel, "buildProperty")
	if fd == nil {
		r.Fatal("anchor: j5convert.buildProperty not found")
		return
	}
	info := pk.TypesInfo
	initOK, pkOK, storeOK, setOK := false, false, false, false
	flag := requiredFlag(info, pk, fd) // the local that starts as the declared Required flag, whatever it is called
	initOK = flag != nil
	isFlag := func(e ast.Expr) bool {
		id, ok := core.Unparen(e).(*ast.Ident)
		return ok && flag != nil && (info.Uses[id] == flag || info.Defs[id] == flag)
	}
	ast.Inspect(core.TreeBody(pk, fd, "buildField"), func(n ast.Node) bool {
		switch x := n.(type) {
		case *ast.AssignStmt:
			if len(x.Lhs) == 1 && isFlag(x.Lhs[0]) {
				if x.Tok == token.ASSIGN && core.ExprStr(x.Rhs[0]) == "true" {
					f := rules.FactsAt(info, fd.Body, x)
					for k := range f.True {
						if strings.HasSuffix(k, ".PrimaryKey") {
							pkOK = true
						}
					}
				}
			}
		case *ast.IfStmt:
			if isFlag(x.Cond) {
				// the body and the same-package helpers it calls (`markRequired(ww, options)`)
				core.InspectTree(pk, x.Body, func(m ast.Node) bool {
					switch y := m.(type) {
					case *ast.AssignStmt:
						if len(y.Lhs) == 1 && strings.HasSuffix(core.ExprStr(y.Lhs[0]), ".Required") && core.ExprStr(ptrArg(y.Rhs[0])) == "true" {
							storeOK = true
						}
					case *ast.CallExpr:
						if strings.HasSuffix(core.CalleeName(info, y), "proto.SetExtension") && core.ExprStr(y.Args[1]) == "validate.E_Field" {
							setOK = true
						}
					}
					return true
				})
			}
		}
		return true
	})
	for _, c := range []struct {
		what string
		ok   bool
	}{{"required starts as node.Schema.Required", initOK}, {"primary keys force required = true", pkOK}, {"`if required` stores Required = true", storeOK}, {"`if required` sets (buf.validate.field)", setOK}} {
		o := r.Add("R-FLOW/required", "j5convert.buildProperty | "+c.what, fd.Pos(), c.what)
		if c.ok {
			o.Auto("present")
		} else {
			o.Fail("missing: a required (or primary key) field compiles without the required constraint")
		}
	}
}

// ruleConstants: constants and object identities in the rule arms.
func ruleConstants(r *core.Run) {
	r.Rule("R-CONST/rules", "enum rules always carry defined_only = true; key format id62 uses the object id62.PatternString, uuid the well-known uuid rule with Uuid: true, custom the declared pattern; string/bytes/bool rules are copied field to field (MinLen←MinLength, MaxLen←MaxLength, Pattern←Pattern, Const←Const)")
	fd, pk := r.P.FuncDecl(convRel, "buildField")
	if fd == nil {
		return
	}
	info := pk.TypesInfo
	want := map[string]string{
		"validate.EnumRules.DefinedOnly": "true",
		"validate.StringRules_Uuid.Uuid": "true",
		"validate.StringRules.MinLen":    ".Rules.MinLength",
		"validate.StringRules.MaxLen":    ".Rules.MaxLength",
		"validate.StringRules.Pattern":   ".Rules.Pattern",
		"validate.BytesRules.MinLen":     ".Rules.MinLength",
		"validate.BytesRules.MaxLen":     ".Rules.MaxLength",
		"validate.BoolRules.Const":       ".Rules.Const",
	}
	seen := map[string]bool{}
	ast.Inspect(core.TreeBody(pk, fd), func(n ast.Node) bool {
		cl, ok := n.(*ast.CompositeLit)
		if !ok {
			return true
		}
		tn := core.TypeStr(info.TypeOf(cl))
		tn = tn[strings.LastIndex(tn, "/")+1:]
		for _, e := range cl.Elts {
			kv, ok := e.(*ast.KeyValueExpr)
			if !ok {
				continue
			}
			key := tn + "." + core.ExprStr(kv.Key)
			w, ok := want[key]
			if !ok {
				continue
			}
			seen[key] = true
			got := core.ExprStr(ptrArg(kv.Value))
			o := r.Add("R-CONST/rules", "j5convert.buildField | "+key, kv.Pos(), key+" ← "+got)
			if got == w || strings.HasSuffix(got, w) {
				o.Auto("← %s", got)
			} else {
				o.Fail("%s is fed from %s, expected %s", key, got, w)
			}
		}
		return true
	})
	for k := range want {
		if !seen[k] {
			r.Add("R-CONST/rules", "j5convert.buildField | "+k, fd.Pos(), k).Fail("%s is no longer written: the declared rule is not compiled", k)
		}
	}
	// key patterns
	ast.Inspect(core.TreeBody(pk, fd), func(n ast.Node) bool {
		as, ok := n.(*ast.AssignStmt)
		if !ok || len(as.Lhs) != 1 {
			return true
		}
		// an assignment to the Pattern of a *validate.StringRules held in a local, whatever it is called
		if ls, isSel := core.Unparen(as.Lhs[0]).(*ast.SelectorExpr); !isSel || ls.Sel.Name != "Pattern" || !strings.HasSuffix(core.TypeStr(info.TypeOf(ls.X)), "validate.StringRules") {
			return true
		} else if _, isID := core.Unparen(ls.X).(*ast.Ident); !isID {
			return true
		}
		label := clauseLabel(info, fd, enclosingClause(fd, as))
		o := r.Add("R-CONST/rules", "j5convert.buildField | key pattern in "+label, as.Pos(), "key pattern "+core.ExprStr(as.Rhs[0]))
		switch {
		case strings.HasSuffix(label, "KeyFormat_Id62"):
			if core.ObjPath(core.UsedObj(info, ptrArg(as.Rhs[0]))) == core.Module+"/lib/id62.PatternString" {
				o.Auto("the object id62.PatternString")
			} else {
				o.Fail("id62 keys are validated with %s instead of id62.PatternString", core.ExprStr(as.Rhs[0]))
			}
		case strings.HasSuffix(label, "KeyFormat_Custom_"):
			if strings.HasSuffix(core.ExprStr(as.Rhs[0]), ".Custom.Pattern") {
				o.Auto("the declared custom pattern")
			} else {
				o.Fail("custom key pattern comes from %s", core.ExprStr(as.Rhs[0]))
			}
		default:
			o.Fail("unexpected pattern assignment in %s", label)
		}
		return true
	})
	r.Floor("R-CONST/rules", 10, "rule constants and copies")
}

// arrayItems: item constraints move under repeated.items.
func arrayItems(r *core.Run) {
	r.Rule("R-FLOW/items", "container arms of buildProperty: the (buf.validate.field) constraints built for the item type become RepeatedRules.Items of an array field and MapRules.Values of a map field (set in the literal or by assignment, from a local read with proto.GetExtension(<item>.Options, validate.E_Field)); MinItems/MaxItems/Unique are copied from the array rules")
	fd, pk := r.P.FuncDecl(convRel, "buildProperty")
	if fd == nil {
		return
	}
	info := pk.TypesInfo
	var itemsPos token.Pos
	copies := map[string]string{}
	copyTypes := map[string]string{}
	elemSrc := map[string]string{} // "RepeatedRules.Items" -> source expr
	elemPos := map[string]token.Pos{}
	want := map[string]string{"RepeatedRules": "Items", "MapRules": "Values"}
	ast.Inspect(core.TreeBody(pk, fd, "buildField"), func(n ast.Node) bool {
		switch x := n.(type) {
		case *ast.CompositeLit:
			ts := core.TypeStr(info.TypeOf(x))
			for typ, field := range want {
				if strings.HasSuffix(ts, "validate."+typ) {
					if _, seen := elemPos[typ+"."+field]; !seen {
						elemPos[typ+"."+field] = x.Pos()
					}
					if typ == "RepeatedRules" {
						itemsPos = x.Pos()
					}
					for _, e := range x.Elts {
						if kv, ok := e.(*ast.KeyValueExpr); ok && core.ExprStr(kv.Key) == field {
							elemSrc[typ+"."+field] = core.ExprStr(kv.Value)
						}
					}
				}
			}
		case *ast.AssignStmt:
			if len(x.Lhs) == 1 && len(x.Rhs) == 1 {
				if sel, ok := x.Lhs[0].(*ast.SelectorExpr); ok {
					ts := core.TypeStr(info.TypeOf(sel.X))
					for typ, field := range want {
						if strings.HasSuffix(ts, "validate."+typ) && sel.Sel.Name == field {
							elemSrc[typ+"."+field] = core.ExprStr(x.Rhs[0])
						}
					}
					if strings.HasSuffix(ts, "validate.RepeatedRules") {
						copies[sel.Sel.Name] = core.ExprStr(x.Rhs[0])
						if rs, ok := core.Unparen(x.Rhs[0]).(*ast.SelectorExpr); ok {
							t := core.TypeStr(info.TypeOf(rs.X))
							copyTypes[sel.Sel.Name] = t[strings.LastIndex(t, ".")+1:]
						}
					}
				}
			}
		}
		return true
	})
	for _, k := range []string{"RepeatedRules.Items", "MapRules.Values"} {
		o := r.Add("R-FLOW/items", "j5convert.buildProperty | "+k, elemPos[k], "item constraints of a container field")
		src := elemSrc[k]
		okSrc := false
		ast.Inspect(core.TreeBody(pk, fd, "buildField"), func(n ast.Node) bool {
			if as, ok := n.(*ast.AssignStmt); ok && len(as.Lhs) == 1 && src != "" && core.ExprStr(as.Lhs[0]) == src {
				rs := core.ExprStr(as.Rhs[0])
				if strings.Contains(rs, "proto.GetExtension(") && strings.Contains(rs, ".Options, validate.E_Field)") {
					okSrc = true
				}
			}
			return true
		})
		switch {
		case src == "":
			o.Fail("no %s is ever set in buildProperty: the rules of the item type are not applied to the elements (they stay on a field the validator does not look at, or are lost)", k)
		case okSrc:
			o.Auto("%s ← %s = the item descriptor's own (buf.validate.field)", k, src)
		default:
			o.Fail("%s is %q, not the constraints built for the item type", k, src)
		}
	}
	for dst, src := range map[string]string{"MinItems": "Rules.MinItems", "MaxItems": "Rules.MaxItems", "Unique": "Rules.UniqueItems"} {
		o := r.Add("R-FLOW/items", "j5convert.buildProperty | repeated."+dst, itemsPos, "repeated."+dst)
		// the source is the array rules' field of that name, however the array schema is reached
		if strings.HasSuffix(copies[dst], "."+src) && copyTypes[dst] == "ArrayField_Rules" {
			o.Auto("← %s", src)
		} else {
			o.Fail("repeated.%s is fed from %q, expected %s", dst, copies[dst], src)
		}
	}
}

// boundNarrowing: int64 bounds narrowed into 32-bit / unsigned rule fields.
func boundNarrowing(r *core.Run) {
	r.Rule("R-FLOW/F2b", "a declared int64 bound converted into an int32/uint32/uint64 rule field must be range-checked first; otherwise a bound outside the target range wraps and the compiled validator enforces a different number")
	fd, pk := r.P.FuncDecl(convRel, "buildField")
	if fd == nil {
		return
	}
	info := pk.TypesInfo
	ast.Inspect(core.TreeBody(pk, fd), func(n ast.Node) bool {
		kv, ok := n.(*ast.KeyValueExpr)
		if !ok {
			return true
		}
		c, ok := core.Unparen(kv.Value).(*ast.CallExpr)
		if !ok || !core.IsConversion(info, c) || len(c.Args) != 1 {
			return true
		}
		src := info.TypeOf(c.Args[0])
		dst := info.TypeOf(c)
		sb, ok1 := src.Underlying().(*types.Basic)
		db, ok2 := dst.Underlying().(*types.Basic)
		if !ok1 || !ok2 || sb.Kind() != types.Int64 || db.Kind() == types.Int64 {
			return true
		}
		if !strings.Contains(core.ExprStr(c.Args[0]), ".Rules.M") {
			return true
		}
		label := clauseLabel(info, fd, enclosingClause(fd, kv))
		o := r.Add("R-FLOW/F2b", fmt.Sprintf("j5convert.buildField | %s | %s: %s", label, core.ExprStr(kv.Key), core.NormExpr(info, kv.Value)), kv.Pos(), "narrowing of a declared bound "+core.ExprStr(kv.Value))
		f := rules.FactsAt(info, fd.Body, kv)
		guarded := false
		for k := range f.False {
			if strings.Contains(k, "math.Max") || strings.Contains(k, "< 0") {
				guarded = true
			}
		}
		if guarded {
			o.Auto("range test dominates the conversion")
		} else {
			o.Fail("no range test: a bound outside the %s range wraps around (e.g. maximum = 3000000000 on an int32 field becomes negative)", db.Name())
		}
		return true
	})
}

// freshExtensions (R-SYM/S9): proto.SetExtension stores the pointer it is
// given, and buildProperty later updates the stored (buf.validate.field)
// message in place (Required). A message shared between fields — a package
// level variable, or anything reachable from one — would carry one field's
// flags over to all the others.
func freshExtensions(r *core.Run) {
	r.Rule("R-SYM/S9", "every message handed to proto.SetExtension in j5convert is a per-field value: a composite literal, the result of a constructor that returns one, or the message just read from the same options with proto.GetExtension; never a package-level variable (the stored pointer is updated in place later)")
	pk := r.P.Pkg(convRel)
	if pk == nil {
		r.Fatal("anchor: package %s not found", convRel)
		return
	}
	info := pk.TypesInfo
	n := 0
	core.AllFuncDecls(pk, func(fd *ast.FuncDecl) {
		var fresh func(e ast.Expr, depth int) (bool, string)
		fresh = func(e ast.Expr, depth int) (bool, string) {
			if depth > 6 {
				return false, "definition chain too deep"
			}
			e = core.Unparen(e)
			switch x := e.(type) {
			case *ast.UnaryExpr:
				if x.Op == token.AND {
					if _, ok := core.Unparen(x.X).(*ast.CompositeLit); ok {
						return true, ""
					}
				}
			case *ast.CompositeLit:
				return true, ""
			case *ast.TypeAssertExpr:
				return fresh(x.X, depth+1)
			case *ast.SelectorExpr:
				// a message taken from the source node being converted: per node
				if root := rootIdent(x); root != nil {
					if obj := info.Uses[root]; obj != nil && obj.Parent() != pk.Types.Scope() {
						if _, isPkg := obj.(*types.PkgName); !isPkg {
							return true, ""
						}
					}
				}
				return false, core.ExprStr(x)
			case *ast.CallExpr:
				name := core.CalleeName(info, x)
				if name == "google.golang.org/protobuf/proto.GetExtension" || name == "google.golang.org/protobuf/proto.Clone" {
					return true, ""
				}
				if fn := core.CalleeFunc(info, x); fn != nil && fn.Pkg() != nil && core.IsSource(fn.Pkg().Path()) {
					return true, "" // module constructor: its own SetExtension-free body is not followed; parameters are per call
				}
				return false, "result of " + name
			case *ast.Ident:
				obj := info.Uses[x]
				if obj == nil {
					return false, "unresolved " + x.Name
				}
				if obj.Parent() == pk.Types.Scope() {
					return false, "package-level variable " + x.Name
				}
				if _, isVar := obj.(*types.Var); !isVar {
					return false, x.Name
				}
				// parameter: per call
				isParam := false
				for _, fl := range []*ast.FieldList{fd.Type.Params, fd.Recv} {
					if fl == nil {
						continue
					}
					for _, f := range fl.List {
						for _, nm := range f.Names {
							if info.Defs[nm] == obj {
								isParam = true
							}
						}
					}
				}
				if isParam {
					return true, ""
				}
				ok, why := true, ""
				seen := false
				ast.Inspect(fd.Body, func(nd ast.Node) bool {
					as, isAs := nd.(*ast.AssignStmt)
					if !isAs {
						return true
					}
					for i, l := range as.Lhs {
						id, isID := l.(*ast.Ident)
						if !isID || (info.Defs[id] != obj && info.Uses[id] != obj) {
							continue
						}
						seen = true
						var rhs ast.Expr
						if len(as.Rhs) == len(as.Lhs) {
							rhs = as.Rhs[i]
						} else if len(as.Rhs) == 1 {
							rhs = as.Rhs[0]
						}
						if rhs == nil {
							continue
						}
						if f, w := fresh(rhs, depth+1); !f {
							ok, why = false, w
						}
					}
					return true
				})
				if !seen {
					return true, "" // declared with var: zero value, assigned field by field
				}
				return ok, why
			}
			return false, core.ExprStr(e)
		}
		ast.Inspect(fd.Body, func(nd ast.Node) bool {
			c, ok := nd.(*ast.CallExpr)
			if !ok || core.CalleeName(info, c) != "google.golang.org/protobuf/proto.SetExtension" || len(c.Args) != 3 {
				return true
			}
			n++
			o := r.Add("R-SYM/S9", fmt.Sprintf("%s | SetExtension(%s, %s)", core.FuncName(fd), core.ExprStr(c.Args[1]), core.ExprStr(c.Args[2])), c.Pos(), "message stored as an extension value")
			if ok, why := fresh(c.Args[2], 0); ok {
				o.Auto("per-field value")
			} else {
				o.Fail("the stored message is %s: it is shared by every field that takes this path, and a later in-place update (Required, rules) of one field's options changes them all", why)
			}
			return true
		})
	})
	r.Floor("R-SYM/S9", 20, "proto.SetExtension calls in j5convert")
}
