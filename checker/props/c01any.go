package props

import (
	"fmt"
	"go/ast"
	"go/token"
	"go/types"
	"sort"

	"golang.org/x/tools/go/cfg"

	"j5verif/checker/core"
)

// anyContent (R-FLOW/anycontent): the storage behind an Any field is read
// through the anyImpl interface, and the encoder refuses an Any that carries
// neither content form. proto3 bytes fields have no presence — the encoding of
// a message with every field at its default is the empty string, and `Has`
// answers false for it — so a getter that copies content only under `Has`
// yields "no content" for a perfectly representable value. Rule: in every
// implementation of the interface's getter, each path to a success return
// (last result nil) passes through an assignment of one of the content fields
// of the result (the []byte fields of its struct type; in a composite literal
// or by assignment, directly or in a same-package helper the result is handed
// to) or through the non-nil side of a nil test of such a field.
func anyContent(r *core.Run) {
	r.Rule("R-FLOW/anycontent", "every implementation of anyImpl.getAny sets a content field ([]byte field of the returned struct) on every path to a success return — to something other than nil or the bare protoreflect.Value.Bytes() of a proto3 field, which is nil for the empty string — or has tested one non-nil: copying content as it is, or only under Message.Has, loses the empty encoding of an all-default message, which the encoder then refuses")
	pk := r.P.Pkg("lib/j5reflect")
	if pk == nil {
		r.Fatal("anchor: package lib/j5reflect not found")
		return
	}
	info := pk.TypesInfo
	itf, _ := pk.Types.Scope().Lookup("anyImpl").(*types.TypeName)
	if itf == nil {
		r.Fatal("anchor: lib/j5reflect.anyImpl not found")
		return
	}
	iface, _ := itf.Type().Underlying().(*types.Interface)
	if iface == nil {
		r.Fatal("anchor: lib/j5reflect.anyImpl is not an interface")
		return
	}
	// the getter: the interface method without parameters whose first result is a pointer to a struct with []byte fields
	var getter *types.Func
	content := map[string]bool{}
	var resStruct types.Type
	for i := 0; i < iface.NumMethods(); i++ {
		m := iface.Method(i)
		sig := m.Type().(*types.Signature)
		if sig.Params().Len() != 0 || sig.Results().Len() != 2 {
			continue
		}
		p, ok := sig.Results().At(0).Type().(*types.Pointer)
		if !ok {
			continue
		}
		st, ok := p.Elem().Underlying().(*types.Struct)
		if !ok {
			continue
		}
		for j := 0; j < st.NumFields(); j++ {
			if sl, ok := st.Field(j).Type().Underlying().(*types.Slice); ok && st.Field(j).Exported() {
				if b, ok := sl.Elem().Underlying().(*types.Basic); ok && b.Kind() == types.Byte {
					content[st.Field(j).Name()] = true
				}
			}
		}
		if len(content) > 0 {
			getter, resStruct = m, p.Elem()
			break
		}
	}
	if getter == nil {
		r.Fatal("anchor: anyImpl has no getter returning a struct with []byte content fields")
		return
	}
	var impls []*ast.FuncDecl
	core.AllFuncDecls(pk, func(fd *ast.FuncDecl) {
		if fd.Recv == nil || fd.Name.Name != getter.Name() || fd.Body == nil {
			return
		}
		fn, _ := info.Defs[fd.Name].(*types.Func)
		if fn == nil {
			return
		}
		recv := fn.Type().(*types.Signature).Recv().Type()
		if types.Implements(recv, iface) || types.Implements(types.NewPointer(recv), iface) {
			impls = append(impls, fd)
		}
	})
	sort.Slice(impls, func(i, j int) bool { return core.FuncName(impls[i]) < core.FuncName(impls[j]) })
	r.Analysed["any_getters"] = len(impls)
	r.Floor("R-FLOW/anycontent", 1, "implementations of anyImpl.getAny")

	isContentSel := func(e ast.Expr) bool {
		s, ok := core.Unparen(e).(*ast.SelectorExpr)
		if !ok || !content[s.Sel.Name] {
			return false
		}
		t := info.TypeOf(s.X)
		if p, ok := t.(*types.Pointer); ok {
			t = p.Elem()
		}
		return types.Identical(t, resStruct)
	}
	// maybeNil: the value is read straight out of a proto bytes field — nil whenever the field holds the empty string
	maybeNil := func(e ast.Expr) bool {
		if core.IsNilIdent(info, e) {
			return true
		}
		if id, ok := core.Unparen(e).(*ast.Ident); ok {
			// a local that only ever names such a read
			if def := soleDefinition(info, id); def != nil {
				e = def
			}
		}
		c, ok := core.Unparen(e).(*ast.CallExpr)
		return ok && core.CalleeName(info, c) == "(google.golang.org/protobuf/reflect/protoreflect.Value).Bytes"
	}
	// does the node set a content field (to something that cannot be nil)?
	var sets func(n ast.Node, depth int) bool
	sets = func(n ast.Node, depth int) bool {
		found := false
		ast.Inspect(n, func(x ast.Node) bool {
			if found {
				return false
			}
			switch y := x.(type) {
			case *ast.AssignStmt:
				for i, l := range y.Lhs {
					if isContentSel(l) && !(len(y.Rhs) == len(y.Lhs) && maybeNil(y.Rhs[i])) {
						found = true
					}
				}
			case *ast.CompositeLit:
				t := info.TypeOf(y)
				if t != nil && types.Identical(t, resStruct) {
					for _, el := range y.Elts {
						if kv, ok := el.(*ast.KeyValueExpr); ok {
							if id, ok := kv.Key.(*ast.Ident); ok && content[id.Name] && !maybeNil(kv.Value) {
								found = true
							}
						}
					}
				}
			case *ast.CallExpr:
				if depth <= 0 {
					return true
				}
				fn := core.CalleeFunc(info, y)
				if fn == nil || fn.Pkg() != pk.Types {
					return true
				}
				cd := core.DeclOf(pk, fn.Origin())
				if cd == nil || cd.Body == nil {
					return true
				}
				// a helper that is handed the result, or that builds it
				hands := false
				for _, a := range y.Args {
					t := info.TypeOf(a)
					if p, ok := t.(*types.Pointer); ok && types.Identical(p.Elem(), resStruct) {
						hands = true
					}
				}
				if sig := fn.Type().(*types.Signature); sig.Results().Len() > 0 {
					if p, ok := sig.Results().At(0).Type().(*types.Pointer); ok && types.Identical(p.Elem(), resStruct) {
						hands = true
					}
				}
				if hands && sets(cd.Body, depth-1) {
					found = true
				}
			}
			return true
		})
		return found
	}
	// nonNilEdge: taking this branch of the condition implies that some content field is non-nil
	var nonNilEdge func(cond ast.Expr, branch bool) bool
	nonNilEdge = func(cond ast.Expr, branch bool) bool {
		switch x := core.Unparen(cond).(type) {
		case *ast.UnaryExpr:
			if x.Op == token.NOT {
				return nonNilEdge(x.X, !branch)
			}
			return false
		case *ast.BinaryExpr:
			switch x.Op {
			case token.LAND:
				if branch {
					return nonNilEdge(x.X, true) || nonNilEdge(x.Y, true)
				}
				return nonNilEdge(x.X, false) && nonNilEdge(x.Y, false)
			case token.LOR:
				if branch {
					return nonNilEdge(x.X, true) && nonNilEdge(x.Y, true)
				}
				return nonNilEdge(x.X, false) || nonNilEdge(x.Y, false)
			}
			var other ast.Expr
			switch {
			case isContentSel(x.X):
				other = x.Y
			case isContentSel(x.Y):
				other = x.X
			default:
				return false
			}
			if !core.IsNilIdent(info, other) {
				return false
			}
			return (x.Op == token.NEQ && branch) || (x.Op == token.EQL && !branch)
		}
		return false
	}

	for _, fd := range impls {
		g := cfg.New(fd.Body, func(*ast.CallExpr) bool { return true })
		type state struct {
			b   *cfg.Block
			has bool
		}
		seen := map[state]bool{}
		var bad *ast.ReturnStmt
		returns := 0
		var walk func(b *cfg.Block, has bool)
		walk = func(b *cfg.Block, has bool) {
			if seen[state{b, has}] || bad != nil {
				return
			}
			seen[state{b, has}] = true
			for _, nd := range b.Nodes {
				if sets(nd, 3) {
					has = true
				}
				if ret, ok := nd.(*ast.ReturnStmt); ok && len(ret.Results) == 2 && core.IsNilIdent(info, ret.Results[1]) {
					returns++
					if !has {
						bad = ret
						return
					}
				}
			}
			var cond ast.Expr
			if len(b.Succs) == 2 && len(b.Nodes) > 0 {
				cond = core.BlockCond(b)
			}
			for i, s := range b.Succs {
				walk(s, has || (cond != nil && nonNilEdge(cond, i == 0)))
			}
		}
		if len(g.Blocks) > 0 {
			walk(g.Blocks[0], false)
		}
		o := r.Add("R-FLOW/anycontent", core.FuncName(fd)+" | content on every success path", fd.Pos(), "Any getter always yields content")
		switch {
		case bad != nil:
			o.Pos = r.P.Rel(bad.Pos())
			o.Fail("a path reaches this success return with none of the content fields %v set and none tested non-nil: an Any whose proto encoding is empty (a message with every field at its default; proto3 bytes have no presence, Has is false) comes out with no content and cannot be encoded", keys(content))
		case returns == 0:
			o.Fail("no success return of the form `return x, nil` found: the rule cannot decide this getter")
		default:
			o.Auto("%d success return(s), each preceded on every path by a content assignment or a non-nil test (content fields %v)", returns, keys(content))
		}
	}
}

var _ = fmt.Sprintf
