package props

import (
	"go/ast"
	"go/token"
	"go/types"
	"strings"

	"golang.org/x/tools/go/packages"

	"j5verif/checker/core"
)

// detachedCommentsStayDetached (R-COVER/detached): a comment is a *leading*
// comment of an element when it sits directly above it and a *detached* one
// when a blank line separates them; the parser tells them apart by that line
// and nothing else. The printer therefore has to end every detached comment
// with a gap, whatever follows. The rule computes the last output effect of
// one iteration of the loop over SourceLocation.LeadingDetachedComments
// (helpers followed) and requires it to be the gap.
func detachedCommentsStayDetached(r *core.Run) {
	r.Rule("R-COVER/detached", "in the protoprint function that ranges over SourceLocation.LeadingDetachedComments, the last output effect of every iteration (print calls and gap requests, same-package helpers followed, an effect inside a nested loop or a branch counted conservatively) is the request for a blank line: a detached comment printed directly above an element re-parses as that element's leading comment")
	pk := r.P.Pkg(printRel)
	if pk == nil {
		r.Fatal("anchor: package %s not found", printRel)
		return
	}
	info := pk.TypesInfo
	gapFd, _ := r.P.FuncDecl(printRel, "fileBuilder.addGap")
	prFd, _ := r.P.FuncDecl(printRel, "fileBuilder.p")
	if gapFd == nil || prFd == nil {
		r.Fatal("anchor: protoprint fileBuilder.addGap / fileBuilder.p not found")
		return
	}
	gapFn, _ := info.Defs[gapFd.Name].(*types.Func)
	prFn, _ := info.Defs[prFd.Name].(*types.Func)
	le := &lastEffect{pk: pk, info: info, gap: gapFn, print: prFn, memo: map[*types.Func]int{}}
	n := 0
	core.AllFuncDecls(pk, func(fd *ast.FuncDecl) {
		if fd.Body == nil {
			return
		}
		ast.Inspect(fd.Body, func(nd ast.Node) bool {
			rs, ok := nd.(*ast.RangeStmt)
			if !ok {
				return true
			}
			sel, ok := core.Unparen(rs.X).(*ast.SelectorExpr)
			if !ok || sel.Sel.Name != "LeadingDetachedComments" || !strings.HasSuffix(core.TypeStr(info.TypeOf(sel.X)), "protoreflect.SourceLocation") {
				return true
			}
			n++
			o := r.Add("R-COVER/detached", printRel+"."+core.FuncName(fd)+" | gap after each detached comment", rs.Pos(), "loop over the detached comments of an element")
			switch le.of(rs.Body.List, 0) {
			case effGap:
				o.Auto("every iteration ends by requesting a blank line")
			case effPrint:
				o.Fail("an iteration can end with printed text and no blank line after it: the comment is then directly above whatever is printed next and re-parses as its leading comment")
			default:
				o.Fail("an iteration has no output effect that the rule recognises (neither a print nor a gap)")
			}
			return true
		})
	})
	if n == 0 {
		r.Fatal("R-COVER/detached: no loop over SourceLocation.LeadingDetachedComments in %s", printRel)
	}
}

const (
	effNone = iota
	effGap
	effPrint
)

type lastEffect struct {
	pk    *packages.Package
	info  *types.Info
	gap   *types.Func
	print *types.Func
	memo  map[*types.Func]int
}

// of: the last output effect of a statement list, scanning backwards. effPrint wins whenever it
// is possible; effGap is reported only when it is certain.
func (le *lastEffect) of(list []ast.Stmt, depth int) int {
	for i := len(list) - 1; i >= 0; i-- {
		switch s := list[i].(type) {
		case *ast.ExprStmt:
			if c, ok := s.X.(*ast.CallExpr); ok {
				if e := le.call(c, depth); e != effNone {
					return e
				}
			}
		case *ast.DeferStmt, *ast.ReturnStmt, *ast.BranchStmt:
			// an early exit inside the iteration: what precedes it decides; keep scanning
		case *ast.BlockStmt:
			if e := le.of(s.List, depth); e != effNone {
				return e
			}
		case *ast.ForStmt:
			if e := le.of(s.Body.List, depth); e == effPrint {
				return effPrint
			}
			// a loop that ends in a gap may run zero times: the statement before it decides too
		case *ast.RangeStmt:
			if e := le.of(s.Body.List, depth); e == effPrint {
				return effPrint
			}
		case *ast.IfStmt:
			e1 := le.of(s.Body.List, depth)
			e2 := effNone
			hasElse := s.Else != nil
			if hasElse {
				e2 = le.of([]ast.Stmt{s.Else}, depth)
			}
			if e1 == effPrint || e2 == effPrint {
				return effPrint
			}
			if hasElse && e1 == effGap && e2 == effGap {
				return effGap
			}
		case *ast.SwitchStmt:
			all := true
			hasDefault := false
			for _, cl := range s.Body.List {
				cc := cl.(*ast.CaseClause)
				if cc.List == nil {
					hasDefault = true
				}
				switch le.of(cc.Body, depth) {
				case effPrint:
					return effPrint
				case effNone:
					all = false
				}
			}
			if all && hasDefault {
				return effGap
			}
		case *ast.AssignStmt:
			for _, rh := range s.Rhs {
				if c, ok := rh.(*ast.CallExpr); ok {
					if e := le.call(c, depth); e != effNone {
						return e
					}
				}
			}
		}
	}
	return effNone
}

func (le *lastEffect) call(c *ast.CallExpr, depth int) int {
	fn := core.CalleeFunc(le.info, c)
	if fn == nil {
		return effNone
	}
	fn = fn.Origin()
	if fn == le.gap {
		return effGap
	}
	if fn == le.print {
		return effPrint
	}
	if fn.Pkg() == nil || fn.Pkg() != le.pk.Types || depth > 3 {
		return effNone
	}
	if e, ok := le.memo[fn]; ok {
		return e
	}
	le.memo[fn] = effNone
	fd := core.DeclOf(le.pk, fn)
	if fd == nil || fd.Body == nil {
		return effNone
	}
	e := le.of(fd.Body.List, depth+1)
	le.memo[fn] = e
	return e
}

// commentLinesKeepEmpty (R-CONST/commentlines): a comment is a sequence of
// lines, each printed behind `//`; an empty line inside it is a line of the
// comment (a paragraph break, printed as a bare `//`). The text has to be cut
// at every newline — strings.Split — and only the empty piece behind the final
// newline dropped. A splitter that swallows empty pieces (strings.Fields,
// FieldsFunc) joins paragraphs: the re-parsed comment differs.
func commentLinesKeepEmpty(r *core.Run) {
	r.Rule("R-CONST/commentlines", "in protoprint every function that cuts a comment string of a SourceLocation (or a string parameter that callers fill from one) into lines to print behind `//` uses strings.Split(…, \"\\n\") — never strings.Fields / FieldsFunc, which drop the empty lines inside a comment")
	pk := r.P.Pkg(printRel)
	if pk == nil {
		r.Fatal("anchor: package %s not found", printRel)
		return
	}
	info := pk.TypesInfo
	n := 0
	seenSplit := map[*ast.CallExpr]bool{}
	core.AllFuncDecls(pk, func(fd *ast.FuncDecl) {
		if fd.Body == nil {
			return
		}
		// functions that print `//`-prefixed lines: they mention the constant "//" (alone or as a prefix of a format)
		slashes := false
		ast.Inspect(fd.Body, func(m ast.Node) bool {
			if bl, ok := m.(*ast.BasicLit); ok {
				if s, ok := core.ConstString(info, bl); ok && strings.HasPrefix(s, "//") {
					slashes = true
				}
			}
			return true
		})
		if !slashes {
			return
		}
		// the function and the same-package helpers it calls (a shared `splitCommentLines`)
		core.InspectTree(pk, fd.Body, func(m ast.Node) bool {
			c, ok := m.(*ast.CallExpr)
			if !ok || seenSplit[c] {
				return true
			}
			seenSplit[c] = true
			fd := r.P.EnclosingDecl(c.Pos())
			if fd == nil {
				return true
			}
			name := core.CalleeName(info, c)
			switch name {
			case "strings.Split", "strings.SplitN", "strings.SplitAfter", "strings.Fields", "strings.FieldsFunc":
			default:
				return true
			}
			n++
			o := r.Add("R-CONST/commentlines", printRel+"."+core.FuncName(fd)+" | "+name, c.Pos(), "cutting a comment into lines")
			switch name {
			case "strings.Split":
				if sep, ok := core.ConstString(info, c.Args[1]); ok && sep == "\n" {
					o.Auto("strings.Split at every newline: empty lines are kept")
				} else {
					o.Fail("the comment is not cut at \"\\n\"")
				}
			default:
				o.Fail("%s drops the empty pieces: an empty `//` line inside a comment (a paragraph break) disappears from the printed file, and the re-parsed descriptor has another comment", name)
			}
			return true
		})
	})
	r.Floor("R-CONST/commentlines", 1, "commentLines")
}

// referenceNamesResolve (R-FLOW/refscope): a type reference in .proto text is
// resolved from the innermost scope outwards, by its first component. A name
// shortened by cutting off the scopes shared with the referring element is
// right only when nothing nearer answers to its first component: a nested
// message or enum of the same name, or — for a dotted name — a package
// component (`google.protobuf.Timestamp` inside package `acme.google.v1`).
// The printer therefore checks each shortened name against that resolution
// and falls back to the absolute form `.pkg.Type`.
func referenceNamesResolve(r *core.Run) {
	r.Rule("R-FLOW/refscope", "the protoprint function that names a referenced element relative to the referring one (two protoreflect.Descriptor parameters, results string and error) returns a shortened name only after comparing what it resolves to with the referenced element's FullName(), and otherwise returns \".\" + the full name; or it returns absolute names only")
	pk := r.P.Pkg(printRel)
	if pk == nil {
		r.Fatal("anchor: package %s not found", printRel)
		return
	}
	info := pk.TypesInfo
	n := 0
	core.AllFuncDecls(pk, func(fd *ast.FuncDecl) {
		if fd.Body == nil || fd.Type.Params == nil || fd.Type.Results == nil || len(fd.Type.Results.List) != 2 {
			return
		}
		var ps []types.Object
		for _, p := range fd.Type.Params.List {
			if strings.HasSuffix(core.TypeStr(info.TypeOf(p.Type)), "protoreflect.Descriptor") {
				for _, nm := range p.Names {
					ps = append(ps, info.ObjectOf(nm))
				}
			}
		}
		if len(ps) != 2 || core.TypeStr(info.TypeOf(fd.Type.Results.List[0].Type)) != "string" {
			return
		}
		n++
		o := r.Add("R-FLOW/refscope", printRel+"."+core.FuncName(fd)+" | shortened names are verified", fd.Pos(), "name of a referenced type relative to the referring element")
		isFullNameOf := func(e ast.Expr) bool {
			hit := false
			ast.Inspect(e, func(m ast.Node) bool {
				if c, ok := m.(*ast.CallExpr); ok {
					if sel, ok := c.Fun.(*ast.SelectorExpr); ok && sel.Sel.Name == "FullName" {
						if id, ok := core.Unparen(sel.X).(*ast.Ident); ok && (info.ObjectOf(id) == ps[0] || info.ObjectOf(id) == ps[1]) {
							hit = true
						}
					}
				}
				return true
			})
			return hit
		}
		compares, absolute, other := false, 0, 0
		ast.Inspect(fd.Body, func(m ast.Node) bool {
			switch x := m.(type) {
			case *ast.BinaryExpr:
				if (x.Op == token.NEQ || x.Op == token.EQL) && (isFullNameOf(x.X) != isFullNameOf(x.Y)) {
					// one side is the referenced element's full name, the other a computed resolution
					if _, isCall := core.Unparen(x.X).(*ast.CallExpr); isCall {
						compares = true
					}
					if _, isCall := core.Unparen(x.Y).(*ast.CallExpr); isCall {
						compares = true
					}
				}
			case *ast.ReturnStmt:
				if len(x.Results) != 2 || !core.IsNilIdent(info, x.Results[1]) {
					return true
				}
				if b, ok := core.Unparen(x.Results[0]).(*ast.BinaryExpr); ok && b.Op == token.ADD {
					if s, ok := core.ConstString(info, b.X); ok && s == "." && isFullNameOf(b.Y) {
						absolute++
						return true
					}
				}
				other++
			}
			return true
		})
		switch {
		case other == 0 && absolute > 0:
			o.Auto("absolute names only")
		case compares && absolute > 0:
			o.Auto("a shortened name is returned only when it resolves to the referenced element, the absolute form otherwise")
		default:
			o.Fail("a shortened name is returned without checking what it resolves to from the referring element's scope: a nested type or a package component of the same first name captures it, and the printed file re-parses with another type for the field (or does not link)")
		}
	})
	if n == 0 {
		r.Fatal("R-FLOW/refscope: the reference-naming function of %s was not found", printRel)
	}
}

// jsonDefaultIsProtocs (R-CONST/jsondefault): `json_name` is printed only when
// it differs from the default, and the default that matters is the one the
// .proto parser will compute when the option is missing: protoc's
// lowerCamelCase (drop each underscore, upper-case a lower-case letter that
// follows one, nothing else). A general-purpose case converter agrees with it
// on snake_case words and differs elsewhere — strcase upper-cases a letter
// after a digit (`sha256sum` → `sha256Sum`) and lower-cases a leading capital
// — so a field whose explicit json_name equals that library's idea of the
// default is printed without it and re-parses with protoc's.
func jsonDefaultIsProtocs(r *core.Run) {
	r.Rule("R-CONST/jsondefault", "in protoprint the value a field's JSONName() is compared with, to decide whether json_name is printed, is computed by a function of the package itself or of google.golang.org/protobuf whose call tree uses no third-party case conversion (strcase, x/text/cases): the default must be protoc's own")
	pk := r.P.Pkg(printRel)
	if pk == nil {
		r.Fatal("anchor: package %s not found", printRel)
		return
	}
	info := pk.TypesInfo
	n := 0
	foreignCase := func(name string) bool {
		return strings.Contains(name, "iancoleman/strcase") || strings.Contains(name, "golang.org/x/text/cases") || strings.HasPrefix(name, "strings.Title") || strings.HasPrefix(name, "strings.ToTitle")
	}
	core.AllFuncDecls(pk, func(fd *ast.FuncDecl) {
		if fd.Body == nil {
			return
		}
		ast.Inspect(fd.Body, func(m ast.Node) bool {
			b, ok := m.(*ast.BinaryExpr)
			if !ok || (b.Op != token.NEQ && b.Op != token.EQL) {
				return true
			}
			isJSON := func(e ast.Expr) bool {
				e = core.Unparen(e)
				if id, ok := e.(*ast.Ident); ok {
					if def := soleDefinition(info, id); def != nil {
						e = core.Unparen(def)
					}
				}
				c, ok := e.(*ast.CallExpr)
				if !ok {
					return false
				}
				sel, ok := c.Fun.(*ast.SelectorExpr)
				return ok && sel.Sel.Name == "JSONName" && strings.Contains(core.CalleeName(info, c), "protoreflect")
			}
			var other ast.Expr
			switch {
			case isJSON(b.X):
				other = b.Y
			case isJSON(b.Y):
				other = b.X
			default:
				return true
			}
			c, ok := core.Unparen(other).(*ast.CallExpr)
			if !ok {
				return true // compared with "" or a plain value
			}
			n++
			o := r.Add("R-CONST/jsondefault", printRel+"."+core.FuncName(fd)+" | default JSON name", c.Pos(), "default a field's JSON name is compared with")
			name := core.CalleeName(info, c)
			bad := ""
			if foreignCase(name) {
				bad = name
			} else if fn := core.CalleeFunc(info, c); fn != nil && fn.Pkg() == pk.Types {
				if cd := core.DeclOf(pk, fn.Origin()); cd != nil && cd.Body != nil {
					core.InspectTree(pk, cd.Body, func(k ast.Node) bool {
						if cc, ok := k.(*ast.CallExpr); ok && foreignCase(core.CalleeName(info, cc)) {
							bad = core.CalleeName(info, cc)
						}
						return true
					})
				}
			} else if fn != nil && fn.Pkg() != nil && !strings.HasPrefix(fn.Pkg().Path(), "google.golang.org/protobuf") {
				bad = name
			}
			if bad == "" {
				o.Auto("computed by %s, without a general-purpose case converter", name)
			} else {
				o.Fail("the default is computed with %s, which is not protoc's conversion (it upper-cases a letter after a digit and lower-cases a leading capital): a field whose json_name equals that form is printed without the option and re-parses with protoc's default instead", bad)
			}
			return true
		})
	})
	r.Floor("R-CONST/jsondefault", 1, "printFieldStyle")
}
