package props

import (
	"go/ast"
	"go/types"
	"strings"

	"golang.org/x/tools/go/packages"

	"j5verif/checker/core"
)

// scalarsStoredVerbatim (R-FLOW/verbatim): a scalar taken from a JSON token or
// a query value is handed to the typed setter as it came in. Trimming, case
// folding or replacing on the way makes the stored value differ from the
// denoted one for strings (" padded " ≠ "padded") and makes the decoder accept
// spellings the strict parsers would reject (" 12 "). The argument of every
// SetGoValue / AppendGoValue call in the codec is followed backwards through
// local definitions and the results of same-package helpers; it must not come
// out of a string-transforming function.
func scalarsStoredVerbatim(r *core.Run) {
	r.Rule("R-FLOW/verbatim", "the value handed to ScalarField.SetGoValue / AppendGoValue (and the map/array variants) in internal/codec does not derive — through locals and same-package helper results — from strings.TrimSpace/Trim*/ToLower/ToUpper/Title/Replace*/Map/Fields or a Normalize call: what is stored is what was sent")
	pk := r.P.Pkg(codecRel)
	if pk == nil {
		r.Fatal("anchor: package %s not found", codecRel)
		return
	}
	info := pk.TypesInfo
	isTransform := func(name string) bool {
		if !strings.HasPrefix(name, "strings.") && !strings.Contains(name, "/norm.") && !strings.HasPrefix(name, "bytes.") {
			return false
		}
		short := name[strings.LastIndex(name, ".")+1:]
		switch {
		case strings.HasPrefix(short, "Trim"), strings.HasPrefix(short, "ToLower"), strings.HasPrefix(short, "ToUpper"), strings.HasPrefix(short, "ToTitle"),
			strings.HasPrefix(short, "Title"), strings.HasPrefix(short, "Replace"), short == "Map", short == "Fields", strings.HasPrefix(short, "ToValidUTF8"), short == "String" && strings.Contains(name, "/norm."):
			return true
		}
		return false
	}
	var tainted func(fd *ast.FuncDecl, e ast.Expr, depth int) string
	tainted = func(fd *ast.FuncDecl, e ast.Expr, depth int) string {
		if depth > 5 || e == nil {
			return ""
		}
		switch x := core.Unparen(e).(type) {
		case *ast.CallExpr:
			name := core.CalleeName(info, x)
			if isTransform(name) {
				return name
			}
			if core.IsConversion(info, x) && len(x.Args) == 1 {
				return tainted(fd, x.Args[0], depth+1)
			}
			fn := core.CalleeFunc(info, x)
			if fn != nil && fn.Pkg() == pk.Types {
				if cd := core.DeclOf(pk, fn.Origin()); cd != nil && cd.Body != nil {
					hit := ""
					ast.Inspect(cd.Body, func(n ast.Node) bool {
						if _, isLit := n.(*ast.FuncLit); isLit {
							return false
						}
						if ret, ok := n.(*ast.ReturnStmt); ok && len(ret.Results) > 0 && hit == "" {
							hit = tainted(cd, ret.Results[0], depth+1)
							// a parameter handed back: what the caller passed for it
							if id, isID := core.Unparen(ret.Results[0]).(*ast.Ident); isID && hit == "" {
								if pi := paramIndex(info, cd, info.ObjectOf(id)); pi >= 0 && pi < len(x.Args) {
									hit = tainted(fd, x.Args[pi], depth+1)
								}
							}
						}
						return true
					})
					return hit
				}
			}
		case *ast.Ident:
			v, ok := info.Uses[x].(*types.Var)
			if !ok || v.IsField() || fd == nil {
				return ""
			}
			hit := ""
			ast.Inspect(fd.Body, func(n ast.Node) bool {
				as, ok := n.(*ast.AssignStmt)
				if !ok {
					return true
				}
				for i, l := range as.Lhs {
					li, ok := l.(*ast.Ident)
					if !ok || (info.Defs[li] != v && info.Uses[li] != v) {
						continue
					}
					var rhs ast.Expr
					if len(as.Rhs) == len(as.Lhs) {
						rhs = as.Rhs[i]
					} else if len(as.Rhs) == 1 && i == 0 {
						rhs = as.Rhs[0]
					}
					if rhs != nil && rhs != e && hit == "" {
						hit = tainted(fd, rhs, depth+1)
					}
				}
				return true
			})
			return hit
		case *ast.IndexExpr:
			return tainted(fd, x.X, depth+1)
		case *ast.SliceExpr:
			return tainted(fd, x.X, depth+1)
		}
		return ""
	}
	n := 0
	scanPkg := func(p *packages.Package) {
		core.AllFuncDecls(p, func(fd *ast.FuncDecl) {
			ast.Inspect(fd.Body, func(nd ast.Node) bool {
				c, ok := nd.(*ast.CallExpr)
				if !ok || len(c.Args) == 0 {
					return true
				}
				s, ok := c.Fun.(*ast.SelectorExpr)
				if !ok || (s.Sel.Name != "SetGoValue" && s.Sel.Name != "AppendGoValue") {
					return true
				}
				n++
				arg := c.Args[len(c.Args)-1]
				o := r.Add("R-FLOW/verbatim", codecRel+"."+core.FuncName(fd)+" | "+s.Sel.Name+"("+core.NormExpr(info, arg)+")", c.Pos(), "value handed to "+s.Sel.Name)
				if t := tainted(fd, arg, 0); t != "" {
					o.Fail("the value passes through %s before it is stored: surrounding or differently cased text is silently changed for strings and keys, and spellings the strict number/date parsers reject are accepted", t)
				} else {
					o.Auto("reaches the setter as it was read")
				}
				return true
			})
		})
	}
	scanPkg(pk)
	r.Floor("R-FLOW/verbatim", 4, "scalar setters in decoder.go and query.go")
}
