package props

import (
	"j5verif/checker/core"
	"j5verif/checker/rules"
)

// panicScope arms R-PANIC over the functions reachable from the entries.
func panicScope(r *core.Run, entries ...rules.Entry) *rules.Scope {
	sc := rules.NewScope(r, entries)
	bce := rules.RunBCE(r, sc.Packages())
	rules.PanicSites(r, sc, bce, "panic_sites")
	if fl, ok := termProps[r.Prop]; ok {
		tc := rules.DefaultTermConfig()
		tc.MinLoops, tc.MinSites = fl[0], fl[1]
		tc.Positions = r.Prop == "C07" || r.Prop == "C11" // "position inside the offending file" / "positions that lie within the input"
		if r.Prop == "C07" || r.Prop == "C11" {
			// "never panics": a stack overflow is fatal, so the parser's input-driven recursion needs a constant bound
			tc.DepthRels, tc.MinDepthSites = []string{parserRel}, 1
		}
		rules.Termination(r, sc, tc)
	}
	return sc
}

// termProps: properties whose statement includes "never hangs / recurses
// forever / terminates".
// The values are the vacuity floors {non-range loops, recursive call sites}.
var termProps = map[string][2]int{"C06": {6, 40}, "C07": {25, 80}, "C11": {15, 5}, "C16": {8, 25}, "C18": {10, 55}, "C19": {15, 3}, "C09": {15, 3}}

var (
	entriesC11 = []rules.Entry{
		rules.E("internal/bcl/internal/parser", "ParseFile"),
		rules.E("internal/bcl/errpos", "AddSource"),
		rules.E("internal/bcl/errpos", "AddSourceFile"),
		rules.E("internal/bcl/errpos", "ErrorsWithSource.HumanString"),
		rules.E("internal/bcl/errpos", "ErrorsWithSource.Error"),
	}
	entriesC19 = []rules.Entry{
		rules.E("internal/bcl/internal/parser", "FmtDiffs"),
		rules.E("internal/bcl/genlsp", "astFormatter.Format"),
	}
	entriesC09 = []rules.Entry{
		rules.E("internal/bcl/internal/parser", "Fmt"),
		rules.E("internal/bcl", "Fmt"),
	}
	entriesC18 = []rules.Entry{
		rules.E("lib/j5schema", "SchemaCache.Schema"),
		rules.E("lib/j5schema", "SchemaSetFromFiles"),
		rules.E("lib/j5reflect", "Reflector.NewRoot"),
		rules.E("lib/j5reflect", "Reflector.NewObject"),
		// "the codec can encode and decode … every reflected type": the codec entry points
		rules.E("internal/codec", "Codec.JSONToProto"),
		rules.E("internal/codec", "Codec.ProtoToJSON"),
	}
	entriesC05 = []rules.Entry{
		rules.E("internal/j5s/protoprint", "PrintFile"),
	}
	entriesC16 = []rules.Entry{
		rules.E("internal/structure", "APIFromImage"),
		rules.E("internal/j5client", "APIFromSource"),
		rules.E("internal/export", "BuildSwagger"),
		rules.E("internal/export", "FromProto"),
	}
	entriesC07 = []rules.Entry{
		rules.E("internal/j5s/j5parse", "Parser.ParseFile"),
		rules.E("internal/j5s/j5convert", "ConvertJ5File"),
		rules.E("internal/j5s/j5convert", "SourceSummary"),
		rules.E("internal/j5s/protobuild", "PackageSet.CompilePackage"),
		rules.E("internal/j5s/protobuild", "LintFile"),
		rules.E("internal/j5s/protobuild", "LintAll"),
	}
)

func init() {
}
