package props

import (
	"j5verif/checker/core"
	"j5verif/checker/rules"
)

// panicScope arms R-PANIC over the functions reachable from the entries.
func panicScope(r *core.Run, entries ...rules.Entry) *rules.Scope {
	sc := rules.NewScope(r, entries)
	bce := rules.RunBCE(r, sc.Packages())
	rules.PanicSites(r, sc, bce, "panic_sites")
	return sc
}

var (
	entriesC11 = []rules.Entry{
		rules.E("internal/bcl/internal/parser", "ParseFile"),
		rules.E("internal/bcl/errpos", "AddSource"),
		rules.E("internal/bcl/errpos", "AddSourceFile"),
		rules.E("internal/bcl/errpos", "ErrorsWithSource.HumanString"),
		rules.E("internal/bcl/errpos", "ErrorsWithSource.Error"),
	}
	entriesC19 = []rules.Entry{
		rules.E("internal/bcl/internal/parser", "FmtDiffs"),
		rules.E("internal/bcl/genlsp", "astFormatter.Format"),
	}
	entriesC09 = []rules.Entry{
		rules.E("internal/bcl/internal/parser", "Fmt"),
		rules.E("internal/bcl", "Fmt"),
	}
	entriesC18 = []rules.Entry{
		rules.E("lib/j5schema", "SchemaCache.Schema"),
		rules.E("lib/j5schema", "SchemaSetFromFiles"),
		rules.E("lib/j5reflect", "Reflector.NewRoot"),
		rules.E("lib/j5reflect", "Reflector.NewObject"),
		// "the codec can encode and decode … every reflected type": the codec entry points
		rules.E("internal/codec", "Codec.JSONToProto"),
		rules.E("internal/codec", "Codec.ProtoToJSON"),
	}
	entriesC05 = []rules.Entry{
		rules.E("internal/j5s/protoprint", "PrintFile"),
	}
	entriesC16 = []rules.Entry{
		rules.E("internal/structure", "APIFromImage"),
		rules.E("internal/j5client", "APIFromSource"),
		rules.E("internal/export", "BuildSwagger"),
		rules.E("internal/export", "FromProto"),
	}
	entriesC07 = []rules.Entry{
		rules.E("internal/j5s/j5parse", "Parser.ParseFile"),
		rules.E("internal/j5s/j5convert", "ConvertJ5File"),
		rules.E("internal/j5s/j5convert", "SourceSummary"),
		rules.E("internal/j5s/protobuild", "PackageSet.CompilePackage"),
		rules.E("internal/j5s/protobuild", "LintFile"),
		rules.E("internal/j5s/protobuild", "LintAll"),
	}
)

func init() {
}
