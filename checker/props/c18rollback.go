package props

import (
	"go/ast"
	"go/token"
	"go/types"
	"strings"

	"golang.org/x/tools/go/cfg"
	"golang.org/x/tools/go/packages"

	"j5verif/checker/core"
)

// registeredRefsRolledBack (R-ERR/rollback): the schema cache registers a ref
// for a schema before the schema is built (that is how recursion terminates).
// The cache outlives a failed build, so a build that fails must take its refs
// out again: a ref left behind is found by the next call, which then hands out
// a schema that was never linked (nil, or a typed nil inside the interface) as
// a success, and the caller dereferences it.
func registeredRefsRolledBack(r *core.Run) {
	r.Rule("R-ERR/rollback", "in lib/j5schema's SchemaCache: (a) every method that stores a *RefSchema into a Package.Schemas map either records it in a field of the cache (sc.F = append(sc.F…, ref)) or is itself the roll-back; (b) in SchemaCache.Schema every control-flow path from the registration of the placeholder to a return with a non-nil error passes a call of a method of the cache that deletes from Package.Schemas what that field lists")
	pk := r.P.Pkg(schemaRel)
	if pk == nil {
		return
	}
	info := pk.TypesInfo
	isCacheMethod := func(fd *ast.FuncDecl) bool {
		if fd.Recv == nil || len(fd.Recv.List) != 1 {
			return false
		}
		return strings.HasSuffix(core.TypeStr(info.TypeOf(fd.Recv.List[0].Type)), "j5schema.SchemaCache")
	}
	// stores into ‹*Package›.Schemas
	schemasStore := func(n ast.Node) (ast.Expr, bool) {
		as, ok := n.(*ast.AssignStmt)
		if !ok || len(as.Lhs) != 1 || len(as.Rhs) != 1 {
			return nil, false
		}
		ix, ok := as.Lhs[0].(*ast.IndexExpr)
		if !ok {
			return nil, false
		}
		s, ok := core.Unparen(ix.X).(*ast.SelectorExpr)
		if !ok || s.Sel.Name != "Schemas" || !strings.HasSuffix(core.TypeStr(info.TypeOf(s.X)), "j5schema.Package") {
			return nil, false
		}
		return as.Rhs[0], true
	}
	// the roll-back: a cache method that ranges over a field of the receiver and deletes from Schemas
	var rollback *types.Func
	rollField := ""
	core.AllFuncDecls(pk, func(fd *ast.FuncDecl) {
		if !isCacheMethod(fd) {
			return
		}
		ast.Inspect(fd.Body, func(n ast.Node) bool {
			rs, ok := n.(*ast.RangeStmt)
			if !ok {
				return true
			}
			fs, ok := core.Unparen(rs.X).(*ast.SelectorExpr)
			if !ok {
				return true
			}
			deletes := false
			ast.Inspect(rs.Body, func(x ast.Node) bool {
				if c, ok := x.(*ast.CallExpr); ok {
					if id, ok := c.Fun.(*ast.Ident); ok && id.Name == "delete" && len(c.Args) == 2 {
						target := core.Unparen(c.Args[0])
						if lid, isID := target.(*ast.Ident); isID {
							// schemas := ref.Package.Schemas; delete(schemas, …)
							if def := soleDefinition(info, lid); def != nil {
								target = core.Unparen(def)
							}
						}
						if s, ok := target.(*ast.SelectorExpr); ok && s.Sel.Name == "Schemas" {
							deletes = true
						}
					}
				}
				return true
			})
			if deletes {
				rollback, _ = info.Defs[fd.Name].(*types.Func)
				rollField = fs.Sel.Name
			}
			return true
		})
	})
	// helpers outside the cache type that store a ref into Package.Schemas
	registering := map[*types.Func]bool{}
	core.AllFuncDecls(pk, func(fd *ast.FuncDecl) {
		if isCacheMethod(fd) {
			return
		}
		ast.Inspect(fd.Body, func(n ast.Node) bool {
			if _, ok := schemasStore(n); ok {
				if fn, _ := info.Defs[fd.Name].(*types.Func); fn != nil {
					registering[fn] = true
				}
			}
			return true
		})
	})
	registers := func(c *ast.CallExpr) bool {
		fn := core.CalleeFunc(info, c)
		return fn != nil && registering[fn.Origin()]
	}
	// (a) registrations are journalled
	nreg := 0
	core.AllFuncDecls(pk, func(fd *ast.FuncDecl) {
		if !isCacheMethod(fd) {
			return
		}
		if fn, _ := info.Defs[fd.Name].(*types.Func); fn != nil && fn == rollback {
			return
		}
		ast.Inspect(fd.Body, func(n ast.Node) bool {
			val, ok := schemasStore(n)
			if !ok {
				// the registration made by a helper of the package that stores the ref and
				// hands it back: `ref := pkg.declareRef(name)`
				if as, isAs := n.(*ast.AssignStmt); isAs && len(as.Lhs) == 1 && len(as.Rhs) == 1 {
					if c, isCall := core.Unparen(as.Rhs[0]).(*ast.CallExpr); isCall && registers(c) {
						val, ok = as.Lhs[0], true
					}
				}
				if ret, isRet := n.(*ast.ReturnStmt); isRet {
					for _, res := range ret.Results {
						if c, isCall := core.Unparen(res).(*ast.CallExpr); isCall && registers(c) {
							val, ok = res, true // handed on without a name: cannot have been journalled
						}
					}
				}
			}
			if !ok {
				return true
			}
			nreg++
			o := r.Add("R-ERR/rollback", "j5schema."+core.FuncName(fd)+" | registration of "+core.NormExpr(info, val)+" is journalled", n.Pos(), "ref registered in the cache")
			if rollback == nil {
				o.Fail("no method of the cache removes registered refs again (none ranges over a field of the cache and deletes from Package.Schemas): a build that fails leaves its half-built refs behind, and the next call returns an unlinked schema as a success")
				return true
			}
			journalled := false
			ast.Inspect(fd.Body, func(x ast.Node) bool {
				as, ok := x.(*ast.AssignStmt)
				if !ok || len(as.Lhs) != 1 || len(as.Rhs) != 1 {
					return true
				}
				ls, ok := core.Unparen(as.Lhs[0]).(*ast.SelectorExpr)
				if !ok || ls.Sel.Name != rollField {
					return true
				}
				if c, ok := core.Unparen(as.Rhs[0]).(*ast.CallExpr); ok {
					if id, ok := c.Fun.(*ast.Ident); ok && id.Name == "append" {
						for _, a := range c.Args[1:] {
							if core.ExprStr(a) == core.ExprStr(val) {
								journalled = true
							}
						}
					}
				}
				return true
			})
			if journalled {
				o.Auto("appended to %s, which %s rolls back", rollField, rollback.Name())
			} else {
				o.Fail("the ref is stored in Package.Schemas but not appended to %s: %s will not remove it when the build fails", rollField, rollback.Name())
			}
			return true
		})
	})
	// (c) the roll-back is total: in its loop over the journal the delete is skipped only when the map no
	// longer holds that very ref — never by a property of the ref (linked or not, kind, name)
	if rollback != nil {
		if rfd := core.DeclOf(pk, rollback); rfd != nil && rfd.Body != nil {
			ast.Inspect(rfd.Body, func(n ast.Node) bool {
				rs, ok := n.(*ast.RangeStmt)
				if !ok {
					return true
				}
				sel, ok := core.Unparen(rs.X).(*ast.SelectorExpr)
				if !ok || sel.Sel.Name != rollField {
					return true
				}
				val, _ := rs.Value.(*ast.Ident)
				o := r.Add("R-ERR/rollback", "j5schema."+core.FuncName(rfd)+" | every journalled ref is removed", rs.Pos(), "totality of the roll-back")
				var bad ast.Expr
				var check func(list []ast.Stmt)
				check = func(list []ast.Stmt) {
					for _, st := range list {
						is, ok := st.(*ast.IfStmt)
						if !ok {
							continue
						}
						// identity test: <…>.Schemas[<…>] == ref
						identity := false
						ast.Inspect(is.Cond, func(m ast.Node) bool {
							if b, ok := m.(*ast.BinaryExpr); ok && (b.Op == token.EQL || b.Op == token.NEQ) {
								for _, pair := range [][2]ast.Expr{{b.X, b.Y}, {b.Y, b.X}} {
									if _, isIx := core.Unparen(pair[0]).(*ast.IndexExpr); isIx {
										if id, ok := core.Unparen(pair[1]).(*ast.Ident); ok && val != nil && info.ObjectOf(id) == info.ObjectOf(val) {
											identity = true
										}
									}
								}
							}
							return true
						})
						if identity {
							check(is.Body.List)
							continue
						}
						// any other condition that mentions the ref and skips (continue / no delete inside)
						mentions := false
						ast.Inspect(is.Cond, func(m ast.Node) bool {
							if id, ok := m.(*ast.Ident); ok && val != nil && info.ObjectOf(id) == info.ObjectOf(val) {
								mentions = true
							}
							return true
						})
						if mentions {
							bad = is.Cond
						}
					}
				}
				check(rs.Body.List)
				if bad != nil {
					o.Pos = r.P.Rel(bad.Pos())
					o.Fail("the roll-back skips a journalled ref under %s: a ref that was linked while an ancestor was still being built points at that ancestor's placeholder, which is removed — the kept schema then hands out a nil schema without an error", core.NormExpr(info, bad))
				} else {
					o.Auto("only the identity test `Schemas[k] == ref` guards the delete")
				}
				// (d) the roll-back only removes: nothing about a journalled ref is recorded in the cache
				// (a journalled ref may be a neighbour that was built completely and correctly)
				o2 := r.Add("R-ERR/rollback", "j5schema."+core.FuncName(rfd)+" | nothing is recorded per journalled ref", rs.Pos(), "the roll-back only removes")
				var store ast.Node
				ast.Inspect(rs.Body, func(m ast.Node) bool {
					as, ok := m.(*ast.AssignStmt)
					if !ok {
						return true
					}
					for _, l := range as.Lhs {
						switch lx := core.Unparen(l).(type) {
						case *ast.IndexExpr:
							store = lx
						case *ast.SelectorExpr:
							if as.Tok != token.DEFINE {
								store = lx
							}
						}
					}
					return true
				})
				if store != nil {
					o2.Pos = r.P.Rel(store.Pos())
					o2.Fail("the roll-back stores into %s for every journalled ref: the journal also lists schemas that were built completely before a later neighbour failed, so a message that reflects correctly on its own is remembered as failed (or otherwise marked) because of the order of calls", core.NormExpr(info, store.(ast.Expr)))
				} else {
					o2.Auto("the loop over the journal deletes and stores nothing")
				}
				return true
			})
		}
	}
	// (b) error returns of Schema pass the roll-back
	if sfd, _ := r.P.FuncDecl(schemaRel, "SchemaCache.Schema"); sfd == nil {
		r.Fatal("anchor: j5schema.SchemaCache.Schema not found")
		return
	}
	checked := 0
	core.AllFuncDecls(pk, func(fd *ast.FuncDecl) {
		if !isCacheMethod(fd) || fd.Type.Results == nil || len(fd.Type.Results.List) == 0 {
			return
		}
		if fn, _ := info.Defs[fd.Name].(*types.Func); fn != nil && fn == rollback {
			return
		}
		last := fd.Type.Results.List[len(fd.Type.Results.List)-1]
		if core.TypeStr(info.TypeOf(last.Type)) != "error" {
			return
		}
		g := cfg.New(fd.Body, func(*ast.CallExpr) bool { return true })
		callsRollback := func(n ast.Node) bool {
			hit := false
			ast.Inspect(n, func(x ast.Node) bool {
				if c, ok := x.(*ast.CallExpr); ok && rollback != nil {
					if fn := core.CalleeFunc(info, c); fn != nil && fn.Origin() == rollback {
						hit = true
					}
				}
				return !hit
			})
			return hit
		}
		// walk from the registration
		type st struct {
			b    *cfg.Block
			from int
		}
		var start *st
		isRegistration := func(n ast.Node) bool {
			if _, ok := schemasStore(n); ok {
				return true
			}
			hit := false
			ast.Inspect(n, func(x ast.Node) bool {
				if c, ok := x.(*ast.CallExpr); ok && registers(c) {
					hit = true
				}
				return !hit
			})
			return hit
		}
		for _, b := range g.Blocks {
			for i, n := range b.Nodes {
				if isRegistration(n) && start == nil {
					start = &st{b, i + 1}
				}
			}
		}
		if start == nil {
			return
		}
		checked++
		seen := map[*cfg.Block]bool{}
		bad := map[token.Pos]bool{}
		var walk func(b *cfg.Block, from int)
		walk = func(b *cfg.Block, from int) {
			for i := from; i < len(b.Nodes); i++ {
				n := b.Nodes[i]
				if callsRollback(n) {
					return
				}
				if ret, ok := n.(*ast.ReturnStmt); ok {
					if len(ret.Results) > 0 && !core.IsNilIdent(info, ret.Results[len(ret.Results)-1]) {
						bad[ret.Pos()] = true
					}
					return
				}
			}
			for _, s := range b.Succs {
				if !seen[s] {
					seen[s] = true
					walk(s, 0)
				}
			}
		}
		walk(start.b, start.from)
		regPos := start.b.Nodes[start.from-1].Pos()
		ast.Inspect(fd.Body, func(n ast.Node) bool {
			ret, ok := n.(*ast.ReturnStmt)
			if !ok || len(ret.Results) == 0 || core.IsNilIdent(info, ret.Results[len(ret.Results)-1]) || ret.Pos() < regPos {
				return true
			}
			o := r.Add("R-ERR/rollback", "j5schema."+core.FuncName(fd)+" | error return "+core.NormExpr(info, ret.Results[len(ret.Results)-1]), ret.Pos(), "failed build leaves the cache")
			if bad[ret.Pos()] {
				o.Fail("this error return is reached from the registration of the placeholder without a roll-back: the placeholder (holding nil, or a typed nil inside the RootSchema interface) stays in the cache and the next Schema call for the same message returns it with a nil error")
			} else {
				o.Auto("every path from the registration to this return calls %s", rollbackName(rollback))
			}
			return true
		})
	})
	if checked == 0 {
		r.Fatal("R-ERR/rollback: no method of SchemaCache that returns an error registers a placeholder (anchor lost)")
	}
	_ = token.NoPos
	_ = packages.NeedName
	r.Floor("R-ERR/rollback", 3, "two registrations (Schema, refTo) and the error returns of Schema")
}

func rollbackName(f *types.Func) string {
	if f == nil {
		return "(none)"
	}
	return f.Name()
}

// uniquePropertyNames (R-ERR/E4u): the codec and clients address the properties
// of an object by name, flattened children included; an exposed oneof or a
// flattened message can bring a name the message already has. The builder of
// object schemas therefore rejects a message whose client-visible property
// names repeat.
func uniquePropertyNames(r *core.Run) {
	r.Rule("R-ERR/E4u", "Package.buildObjectSchema (with its helpers) ranges over the client-visible properties of the schema it built (ClientProperties(): flattened children expanded), tests each JSONName for membership in a map it fills in the same loop, and returns an error on a repeat")
	fd, pk := r.P.FuncDecl(schemaRel, "Package.buildObjectSchema")
	if fd == nil {
		r.Fatal("anchor: j5schema.Package.buildObjectSchema not found")
		return
	}
	info := pk.TypesInfo
	o := r.Add("R-ERR/E4u", schemaRel+".Package.buildObjectSchema | property names are unique", fd.Pos(), "uniqueness of client-visible property names")
	found := false
	core.InspectTree(pk, fd.Body, func(n ast.Node) bool {
		rs, ok := n.(*ast.RangeStmt)
		if !ok || found {
			return true
		}
		c, ok := core.Unparen(rs.X).(*ast.CallExpr)
		if !ok {
			return true
		}
		s, ok := c.Fun.(*ast.SelectorExpr)
		if !ok || s.Sel.Name != "ClientProperties" {
			return true
		}
		tests, stores, errs := false, false, false
		ast.Inspect(rs.Body, func(x ast.Node) bool {
			switch y := x.(type) {
			case *ast.IfStmt:
				if as, ok := y.Init.(*ast.AssignStmt); ok && len(as.Rhs) == 1 {
					if ix, ok := core.Unparen(as.Rhs[0]).(*ast.IndexExpr); ok {
						if _, isMap := info.TypeOf(ix.X).Underlying().(*types.Map); isMap && strings.HasSuffix(core.ExprStr(ix.Index), ".JSONName") {
							tests = true
							for _, st := range y.Body.List {
								if ret, ok := st.(*ast.ReturnStmt); ok && len(ret.Results) > 0 && !core.IsNilIdent(info, ret.Results[len(ret.Results)-1]) {
									errs = true
								}
							}
						}
					}
				}
			case *ast.AssignStmt:
				for _, l := range y.Lhs {
					if ix, ok := core.Unparen(l).(*ast.IndexExpr); ok && strings.HasSuffix(core.ExprStr(ix.Index), ".JSONName") {
						stores = true
					}
				}
			}
			return true
		})
		if tests && stores && errs {
			found = true
		}
		return true
	})
	if found {
		o.Auto("a repeated JSONName among ClientProperties() is an error")
	} else {
		o.Fail("nothing rejects a message whose client-visible property names repeat (a field next to an exposed oneof of the same camel-cased name; a flattened child with a field named like one of the parent's): the schema is handed out, and the codec then writes duplicate keys and reads a key into the wrong field")
	}
}
