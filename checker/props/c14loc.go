package props

import (
	"go/ast"
	"strings"

	"j5verif/checker/core"
)

// optionOwnLine (R-DET/N3s): options are gathered in the random order of
// protoreflect's Range and then sorted; the comparator orders located options
// by their line and all others by extension index. That is tie-free only as
// long as the line of an option is the line of its own recorded span: a
// location made up from the parent element gives every option of that element
// the same line, the comparator ties, and the random order shows in the
// printed text.
func optionOwnLine(r *core.Run) {
	r.Rule("R-DET/N3s", "every OptionSourceLocation literal in optionreflect takes StartLine from the option's own span (`<SourceCodeInfo_Location>.Span[0]`, directly or through one local): options without a recorded span have no location (nil) and are ordered by extension index")
	const rel = "internal/j5s/protoprint/optionreflect"
	pk := r.P.Pkg(rel)
	if pk == nil {
		r.Fatal("anchor: package %s not found", rel)
		return
	}
	info := pk.TypesInfo
	n := 0
	core.AllFuncDecls(pk, func(fd *ast.FuncDecl) {
		ast.Inspect(fd.Body, func(x ast.Node) bool {
			cl, ok := x.(*ast.CompositeLit)
			if !ok || core.TypeStr(info.TypeOf(cl)) != rel+".OptionSourceLocation" {
				return true
			}
			n++
			o := r.Add("R-DET/N3s", rel+"."+core.FuncName(fd)+" | OptionSourceLocation.StartLine", cl.Pos(), "line an option is ordered by")
			v := litKey(cl, "StartLine")
			if v == nil {
				o.Fail("the location is built without a StartLine: all such options compare equal")
				return true
			}
			src := v
			for i := 0; i < 3; i++ {
				src = core.Unparen(src)
				if c, isCall := src.(*ast.CallExpr); isCall && core.IsConversion(info, c) && len(c.Args) == 1 {
					src = c.Args[0]
					continue
				}
				if id, isID := src.(*ast.Ident); isID {
					if def := soleDefinition(info, id); def != nil {
						src = def
						continue
					}
				}
				break
			}
			own := false
			if ix, isIx := core.Unparen(src).(*ast.IndexExpr); isIx {
				base := core.Unparen(ix.X)
				if id, isID := base.(*ast.Ident); isID {
					// span := loc.Span; span[0]
					if def := soleDefinition(info, id); def != nil {
						base = core.Unparen(def)
					}
				}
				if s, isSel := base.(*ast.SelectorExpr); isSel && s.Sel.Name == "Span" && strings.HasSuffix(core.TypeStr(info.TypeOf(s.X)), "descriptorpb.SourceCodeInfo_Location") {
					if k, isConst := core.ConstInt(info, ix.Index); isConst && k == 0 {
						own = true
					}
				}
			}
			if own {
				o.Auto("from %s", core.ExprStr(src))
			} else {
				o.Fail("StartLine comes from %s, not from the option's own span: every option of one element then has the same line, the sort comparator ties, and the order in which protoreflect ranged over the extension map (random per run) reaches the printed text", core.ExprStr(src))
			}
			return true
		})
	})
	r.Floor("R-DET/N3s", 1, "buildSourceLocation")
}
