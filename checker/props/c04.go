package props

import (
	"fmt"
	"go/ast"
	"go/token"
	"go/types"
	"sort"
	"strings"

	"j5verif/checker/core"
	"j5verif/checker/rules"
)

func init() { Registry["C04"] = C04 }

const (
	convRel   = "internal/j5s/j5convert"
	schemaRel = "lib/j5schema"
)

func annotationScope(msg string) bool {
	return strings.HasPrefix(msg, "validate.") || strings.HasPrefix(msg, "ext_j5pb.") || strings.HasPrefix(msg, "list_j5pb.")
}

// C04 — schema read back from compiled proto equals the j5s source schema.
func C04(r *core.Run) {
	r.Entry = []string{"j5convert.buildProperty/buildField (writer)", "j5schema.messageProperties/buildSchema/buildScalarType/wktSchema/buildFromStringProto (reader)"}
	wpk, wbodies := rules.FuncBodies(r, convRel, "fields.go", "conversion.go", "enum.go")
	rpk, rbodies := rules.FuncBodies(r, schemaRel, "schema_from_proto.go")
	if wpk == nil || rpk == nil {
		return
	}
	r.Rule("R-SYM/S1", "annotation messages (buf.validate, j5.ext.v1, j5.list.v1): every field the compiler sets from the source schema, and every oneof member it constructs, is read by the reflector (selector, getter, type switch or assertion); fields written from constants only are exempt")
	w := rules.CollectWrites(wpk, wbodies)
	rd := rules.CollectReads(rpk, rbodies)
	rules.Coverage(r, "R-SYM/S1", "j5convert→j5schema", w, rd, annotationScope, map[string]string{
		"validate.FieldConstraints.Type":   "oneof holder: the members are checked as slots",
		"ext_j5pb.FieldOptions.Type":       "oneof holder: the members are checked as slots",
		"ext_j5pb.MessageOptions.Type":     "oneof holder: the members are checked as slots",
		"list_j5pb.FieldConstraint.Type":   "oneof holder: the members are checked as slots",
		"list_j5pb.StringRules.WellKnown":  "oneof holder: the members are checked as slots",
		"list_j5pb.ForeignKeyRules.Type":   "oneof holder: the members are checked as slots",
		"validate.StringRules.WellKnown":   "oneof holder: the members are checked as slots",
		"validate.Int32Rules.LessThan":     "oneof holder: the members are checked as slots",
		"validate.Int32Rules.GreaterThan":  "oneof holder: the members are checked as slots",
		"validate.Int64Rules.LessThan":     "oneof holder: the members are checked as slots",
		"validate.Int64Rules.GreaterThan":  "oneof holder: the members are checked as slots",
		"validate.UInt32Rules.LessThan":    "oneof holder: the members are checked as slots",
		"validate.UInt32Rules.GreaterThan": "oneof holder: the members are checked as slots",
		"validate.UInt64Rules.LessThan":    "oneof holder: the members are checked as slots",
		"validate.UInt64Rules.GreaterThan": "oneof holder: the members are checked as slots",
	})
	r.Floor("R-SYM/S1", 40, "annotation fields and oneof members written by buildField/buildProperty")
	// "the same schema is obtained when reflecting the generated .proto text": an annotation value that is set — a zero
	// bound, `unique: false` — is printed; presence, not the value, decides
	presentNeverSkipped(r, printRel+"/optionreflect", "walkOptionMessage", "every populated option field is printed")
	// descriptions: the comment of an element is registered under the path of that element
	commentPathNumbers(r)
	referenceNamesResolve(r) // the generated text names the type the descriptor has
	slotAgreement(r)
	boundPolarity(r)
	extStructCompat(r)
	jsonNameProvenance(r)
	requiredProvenance(r)
	nameAffinity(r, convRel, "fields.go")
	nameAffinity(r, schemaRel, "schema_from_proto.go")
	fieldAttributes(r) // name, JSON name, number and the optional marker: what the reader recovers them from
	sourceCoverage(r)
	attributeIndependence(r, "sym_sites", "*")
	attributeIndependenceIn(r, schemaRel, []string{"buf.build/gen/go/bufbuild/protovalidate/protocolbuffers/go/buf/validate", core.Module + "/gen/j5/ext/v1/ext_j5pb", core.Module + "/gen/j5/list/v1/list_j5pb"}, "sym_sites",
		"*") // every function of the package: the reader's helpers come and go with refactorings
}

// slotAgreement (R-SYM/S3): per integer/float format, the list-rule and
// validate oneof members the writer constructs are the ones whose getters the
// reader calls in the arm that produces that format.
func slotAgreement(r *core.Run) {
	r.Rule("R-SYM/S3", "for every integer/float format the oneof members (j5.list.v1.FieldConstraint_*, buf.validate FieldConstraints_*) the compiler constructs under `case FORMAT_X` equal the members whose getters the reflector calls in the buildScalarType arm that returns FORMAT_X")
	wfd, wpk := r.P.FuncDecl(convRel, "buildField")
	rfd, rpk := r.P.FuncDecl(schemaRel, "buildScalarType")
	if wfd == nil || rfd == nil {
		r.Fatal("anchor: buildField / buildScalarType not found")
		return
	}
	// writer: format constant -> wrapper names
	wmap := map[string]map[string]bool{}
	// code that runs under `<x>.Format == FORMAT_X`, spelled as a switch clause or as an if
	for _, rg := range core.GuardedRegions(core.TreeBody(wpk, wfd)) {
		_, c, ok := core.EqConst(wpk.TypesInfo, rg.Cond)
		if !ok {
			continue
		}
		f := core.ExprStr(c)
		if !strings.Contains(f, "_FORMAT_") {
			continue
		}
		f = f[strings.LastIndex(f, ".")+1:]
		for _, st := range rg.Body {
			ast.Inspect(st, func(x ast.Node) bool {
				if cl, ok := x.(*ast.CompositeLit); ok {
					tn := core.TypeStr(wpk.TypesInfo.TypeOf(cl))
					for _, p := range []string{"list_j5pb.FieldConstraint_", "validate.FieldConstraints_"} {
						if i := strings.Index(tn, p); i >= 0 {
							if wmap[f] == nil {
								wmap[f] = map[string]bool{}
							}
							wmap[f][p[:strings.Index(p, ".")]+":"+tn[i+len(p):]] = true
						}
					}
				}
				return true
			})
		}
	}
	// reader: per clause, Format constant in returned literal + getters on ext.list / ext.validate
	rmap := map[string]map[string]bool{}
	rpos := map[string]token.Pos{}
	for _, st := range rfd.Body.List {
		sw, ok := st.(*ast.SwitchStmt)
		if !ok {
			continue
		}
		for _, cl := range sw.Body.List {
			cc := cl.(*ast.CaseClause)
			format := ""
			getters := map[string]bool{}
			ast.Inspect(cc, func(x ast.Node) bool {
				switch y := x.(type) {
				case *ast.KeyValueExpr:
					if k, ok := y.Key.(*ast.Ident); ok && k.Name == "Format" {
						s := core.ExprStr(y.Value)
						if strings.Contains(s, "_FORMAT_") {
							format = s[strings.LastIndex(s, ".")+1:]
						}
					}
				case *ast.CallExpr:
					if s, ok := y.Fun.(*ast.SelectorExpr); ok && strings.HasPrefix(s.Sel.Name, "Get") {
						recv := core.TypeStr(rpk.TypesInfo.TypeOf(s.X))
						switch {
						case strings.HasSuffix(recv, "list_j5pb.FieldConstraint"):
							getters["list_j5pb:"+strings.TrimPrefix(s.Sel.Name, "Get")] = true
						case strings.HasSuffix(recv, "validate.FieldConstraints"):
							getters["validate:"+strings.TrimPrefix(s.Sel.Name, "Get")] = true
						}
					}
				}
				return true
			})
			if format != "" {
				rmap[format] = getters
				rpos[format] = cc.Pos()
			}
		}
	}
	var fs []string
	for f := range rmap {
		fs = append(fs, f)
	}
	sort.Strings(fs)
	for _, f := range fs {
		o := r.Add("R-SYM/S3", "format "+f, rpos[f], "oneof members used for "+f)
		wr, rdm := wmap[f], rmap[f]
		var missing, extra []string
		for k := range wr {
			if !rdm[k] {
				missing = append(missing, k)
			}
		}
		for k := range rdm {
			if !wr[k] {
				extra = append(extra, k)
			}
		}
		sort.Strings(missing)
		sort.Strings(extra)
		// the writer rejects float rules (recorded under S0), so validate:Float/Double read-only is informational
		var hardExtra []string
		for _, e := range extra {
			if strings.HasPrefix(e, "list_j5pb:") || len(wr) > 0 && strings.HasPrefix(e, "validate:") && wrHasPrefix(wr, "validate:") {
				hardExtra = append(hardExtra, e)
			}
		}
		if len(missing) == 0 && len(hardExtra) == 0 {
			o.Auto("writer %v, reader %v", keys(wr), keys(rdm))
		} else {
			o.Fail("for %s the compiler constructs %v but the reflector reads %v (written-not-read %v, read-not-written %v): rules land in a member the other side does not look at", f, keys(wr), keys(rdm), missing, hardExtra)
		}
	}
	r.Floor("R-SYM/S3", 6, "4 integer + 2 float formats")
}

func wrHasPrefix(m map[string]bool, p string) bool {
	for k := range m {
		if strings.HasPrefix(k, p) {
			return true
		}
	}
	return false
}

func keys(m map[string]bool) []string {
	var out []string
	for k := range m {
		out = append(out, k)
	}
	sort.Strings(out)
	return out
}

// boundPolarity (R-SYM/S4).
func boundPolarity(r *core.Run) {
	r.Rule("R-SYM/S4", "where the compiler chooses between the exclusive (Lt/Gt) and inclusive (Lte/Gte) validate member under a condition on the optional exclusive flag, the condition evaluated over {nil, &false, &true} must select the exclusive member exactly for &true — the reflector maps Lt/Gt back to exclusive=true and Lte/Gte to no flag")
	wfd, wpk := r.P.FuncDecl(convRel, "buildField")
	if wfd == nil {
		return
	}
	info := wpk.TypesInfo
	// reader-derived exclusive members: wrappers in whose case clause an Exclusive* field is set
	rfd, rpk := r.P.FuncDecl(schemaRel, "buildScalarType")
	exclusive := map[string]bool{}
	if rfd != nil {
		ast.Inspect(core.TreeBody(rpk, rfd), func(n ast.Node) bool {
			cc, ok := n.(*ast.CaseClause)
			if !ok || len(cc.List) != 1 {
				return true
			}
			t := core.TypeStr(rpk.TypesInfo.TypeOf(cc.List[0]))
			if !strings.Contains(t, "Rules_") {
				return true
			}
			sets := false
			for _, st := range cc.Body {
				if as, ok := st.(*ast.AssignStmt); ok {
					if s, ok := as.Lhs[0].(*ast.SelectorExpr); ok && strings.HasPrefix(s.Sel.Name, "Exclusive") {
						sets = true
					}
				}
			}
			exclusive[t[strings.LastIndex(t, ".")+1:]] = sets
			return true
		})
	}
	n := 0
	ast.Inspect(core.TreeBody(wpk, wfd), func(nd ast.Node) bool {
		ifs, ok := nd.(*ast.IfStmt)
		if !ok || ifs.Else == nil {
			return true
		}
		thenW := wrapperAssigned(info, ifs.Body)
		elseB, _ := ifs.Else.(*ast.BlockStmt)
		if thenW == "" || elseB == nil {
			return true
		}
		elseW := wrapperAssigned(info, elseB)
		if elseW == "" {
			return true
		}
		n++
		label := clauseLabel(info, wfd, enclosingClause(wfd, ifs))
		o := r.Add("R-SYM/S4", fmt.Sprintf("j5convert.buildField | %s | %s vs %s", label, thenW, elseW), ifs.Pos(), fmt.Sprintf("choice between %s and %s", thenW, elseW))
		tt, ok := evalFlagCond(info, ifs.Cond)
		if !ok {
			o.Fail("condition %s is not one of the recognised flag forms (p != nil, p == nil, p != nil && *p, p.GetX())", core.ExprStr(ifs.Cond))
			return true
		}
		thenExcl, known1 := exclusive[thenW]
		elseExcl, known2 := exclusive[elseW]
		if !known1 || !known2 || thenExcl == elseExcl {
			o.Fail("cannot tell from the reflector which of %s / %s is the exclusive member", thenW, elseW)
			return true
		}
		// the flag that decides is the flag of this bound: Lt/Lte belong to the maximum, Gt/Gte to the minimum
		{
			flags := map[string]bool{}
			var collect func(e ast.Expr, depth int)
			collect = func(e ast.Expr, depth int) {
				ast.Inspect(e, func(m ast.Node) bool {
					switch y := m.(type) {
					case *ast.SelectorExpr:
						name := strings.TrimPrefix(y.Sel.Name, "Get")
						if name == "ExclusiveMaximum" || name == "ExclusiveMinimum" {
							flags[name] = true
						}
					case *ast.Ident:
						if depth < 3 {
							if def := soleDefinition(info, y); def != nil {
								collect(def, depth+1)
							}
						}
					}
					return true
				})
			}
			collect(ifs.Cond, 0)
			want := "ExclusiveMinimum"
			if strings.Contains(thenW, "_Lt") {
				want = "ExclusiveMaximum"
			}
			other := "ExclusiveMaximum"
			if want == other {
				other = "ExclusiveMinimum"
			}
			if flags[other] && !flags[want] {
				o.Fail("the choice between %s and %s is made by %s, the flag of the other bound: a range open at one end and closed at the other is compiled with the two inclusivities swapped at this end", thenW, elseW, other)
				return true
			}
		}
		// then-branch taken when cond true
		okAll := true
		for i, v := range []string{"nil", "&false", "&true"} {
			wantExclusive := v == "&true"
			gotExclusive := (tt[i] && thenExcl) || (!tt[i] && elseExcl)
			if wantExclusive != gotExclusive {
				okAll = false
			}
		}
		if okAll {
			o.Auto("condition %s selects the exclusive member only for &true", core.ExprStr(ifs.Cond))
		} else {
			o.Fail("condition %s has truth table nil=%v &false=%v &true=%v and its then-branch emits %s (exclusive=%v): inclusivity is inverted or decided by nil-ness, so the bound read back differs from the declared one and the validator accepts/rejects the boundary value wrongly", core.ExprStr(ifs.Cond), tt[0], tt[1], tt[2], thenW, thenExcl)
		}
		return true
	})
	r.Floor("R-SYM/S4", 8, "4 integer formats × {max, min}")
}

func enclosingClause(fd *ast.FuncDecl, n ast.Node) *ast.CaseClause {
	var last *ast.CaseClause
	for _, p := range core.PathTo(fd.Body, n) {
		if cc, ok := p.(*ast.CaseClause); ok {
			last = cc
		}
	}
	return last
}

// wrapperAssigned: the block consists of one assignment whose value is
// &validate.XRules_Y{...}; returns "XRules_Y".
func wrapperAssigned(info *types.Info, b *ast.BlockStmt) string {
	if len(b.List) != 1 {
		return ""
	}
	as, ok := b.List[0].(*ast.AssignStmt)
	if !ok || len(as.Rhs) != 1 {
		return ""
	}
	u, ok := core.Unparen(as.Rhs[0]).(*ast.UnaryExpr)
	if !ok {
		return ""
	}
	cl, ok := u.X.(*ast.CompositeLit)
	if !ok {
		return ""
	}
	t := core.TypeStr(info.TypeOf(cl))
	if !strings.Contains(t, "Rules_") {
		return ""
	}
	return t[strings.LastIndex(t, ".")+1:]
}

// evalFlagCond evaluates the condition for p ∈ {nil, &false, &true}.
func evalFlagCond(info *types.Info, cond ast.Expr) ([3]bool, bool) {
	cond = core.Unparen(cond)
	switch x := cond.(type) {
	case *ast.BinaryExpr:
		switch x.Op {
		case token.NEQ:
			if core.IsNilIdent(info, x.Y) && isBoolPtr(info, x.X) {
				return [3]bool{false, true, true}, true
			}
		case token.EQL:
			if core.IsNilIdent(info, x.Y) && isBoolPtr(info, x.X) {
				return [3]bool{true, false, false}, true
			}
		case token.LAND:
			a, ok1 := evalFlagCond(info, x.X)
			b, ok2 := evalFlagCond(info, x.Y)
			if ok1 && ok2 {
				return [3]bool{a[0] && b[0], a[1] && b[1], a[2] && b[2]}, true
			}
		case token.LOR:
			a, ok1 := evalFlagCond(info, x.X)
			b, ok2 := evalFlagCond(info, x.Y)
			if ok1 && ok2 {
				return [3]bool{a[0] || b[0], a[1] || b[1], a[2] || b[2]}, true
			}
		}
	case *ast.Ident:
		// a boolean local defined once from a flag form: `exclusive := p != nil && *p`
		if bt, ok := info.TypeOf(x).Underlying().(*types.Basic); ok && bt.Info()&types.IsBoolean != 0 && core.Current != nil {
			if fd := core.Current.EnclosingDecl(x.Pos()); fd != nil && fd.Body != nil {
				obj := info.Uses[x]
				var def ast.Expr
				n := 0
				ast.Inspect(fd.Body, func(nd ast.Node) bool {
					if as, ok := nd.(*ast.AssignStmt); ok && len(as.Lhs) == len(as.Rhs) {
						for i, l := range as.Lhs {
							if li, ok := l.(*ast.Ident); ok && obj != nil && (info.Defs[li] == obj || info.Uses[li] == obj) {
								n++
								def = as.Rhs[i]
							}
						}
					}
					return true
				})
				if n == 1 && def != nil {
					return evalFlagCond(info, def)
				}
			}
		}
	case *ast.StarExpr:
		if isBoolPtr(info, x.X) {
			// *p is only evaluated where p != nil held; for nil report false (short-circuit form p != nil && *p)
			return [3]bool{false, false, true}, true
		}
	case *ast.UnaryExpr:
		if x.Op == token.NOT {
			a, ok := evalFlagCond(info, x.X)
			if ok {
				return [3]bool{!a[0], !a[1], !a[2]}, true
			}
		}
	case *ast.CallExpr:
		// p.GetExclusiveX() on the parent message, or gl.Deref(p)-style helpers: value-or-false
		if s, ok := x.Fun.(*ast.SelectorExpr); ok && strings.HasPrefix(s.Sel.Name, "GetExclusive") {
			return [3]bool{false, false, true}, true
		}
		// a predicate helper over the flag: `func exclusive(flag *bool) bool { return flag != nil && *flag }`
		if core.Current != nil && len(x.Args) == 1 && isBoolPtr(info, x.Args[0]) {
			if fn := core.CalleeFunc(info, x); fn != nil && fn.Pkg() != nil && core.IsSource(fn.Pkg().Path()) {
				if pk := core.Current.ByPkg[fn.Pkg().Path()]; pk != nil {
					if cd := core.DeclOf(pk, fn.Origin()); cd != nil && cd.Body != nil && len(cd.Body.List) == 1 {
						if rs, ok := cd.Body.List[0].(*ast.ReturnStmt); ok && len(rs.Results) == 1 {
							return evalFlagCond(pk.TypesInfo, rs.Results[0])
						}
					}
				}
			}
		}
	}
	return [3]bool{}, false
}

func isBoolPtr(info *types.Info, e ast.Expr) bool {
	t := info.TypeOf(e)
	if t == nil {
		return false
	}
	p, ok := t.Underlying().(*types.Pointer)
	if !ok {
		return false
	}
	b, ok := p.Elem().Underlying().(*types.Basic)
	return ok && b.Kind() == types.Bool
}

// extStructCompat: setJ5Ext copies by field name between the j5 Ext message
// and the proto extension member; every field of the source must exist with
// the same Go type in the destination.
func extStructCompat(r *core.Run) {
	r.Rule("R-SYM/S6", "setJ5Ext copies by proto field name from schema_j5pb.X_Ext to the j5.ext.v1 member named by its constant: every field of the source message exists in the destination message with the same Go type (otherwise setJ5Ext reports an error for every schema that sets the field)")
	pk := r.P.Pkg(convRel)
	extPkg := r.P.ByPkg[core.Module+"/gen/j5/ext/v1/ext_j5pb"]
	if pk == nil || extPkg == nil {
		r.Fatal("anchor: j5convert / ext_j5pb not found")
		return
	}
	fo := r.P.LookupType(core.Module+"/gen/j5/ext/v1/ext_j5pb", "FieldOptions")
	n := 0
	core.AllFuncDecls(pk, func(fd *ast.FuncDecl) {
		ast.Inspect(fd.Body, func(nd ast.Node) bool {
			c, ok := nd.(*ast.CallExpr)
			if !ok || !core.CalleeIs(pk.TypesInfo, c, convRel, "conversionVisitor.setJ5Ext") || len(c.Args) != 4 {
				return true
			}
			name, _ := core.ConstString(pk.TypesInfo, c.Args[2])
			src := core.NamedOf(pk.TypesInfo.TypeOf(c.Args[3]))
			n++
			o := r.Add("R-SYM/S6", fmt.Sprintf("j5convert.%s | setJ5Ext(%q)", core.FuncName(fd), name), c.Pos(), "Ext copy for "+name)
			if src == nil || fo == nil {
				o.Fail("cannot resolve the Ext message type")
				return true
			}
			// destination: FieldOptions oneof member with proto name `name`
			var dst *types.Named
			for _, w := range core.Implementers(extPkg.Types, oneofIface(fo)) {
				st := w.Underlying().(*types.Struct)
				if st.NumFields() == 1 && strings.Contains(st.Tag(0), "name="+name+",") {
					dst = core.NamedOf(st.Field(0).Type())
				}
			}
			if dst == nil {
				o.Fail("j5.ext.v1.FieldOptions has no member named %q: setJ5Ext reports an error for every such field", name)
				return true
			}
			var missing []string
			for _, f := range core.StructFields(src) {
				found := false
				for _, g := range core.StructFields(dst) {
					if g.Name() == f.Name() && types.Identical(g.Type(), f.Type()) {
						found = true
					}
				}
				if !found {
					missing = append(missing, f.Name())
				}
			}
			if len(missing) == 0 {
				o.Auto("%d field(s) of %s all exist in %s", len(core.StructFields(src)), core.TypeStr(src), core.TypeStr(dst))
			} else {
				o.Fail("fields %v of %s have no equivalent in %s", missing, core.TypeStr(src), core.TypeStr(dst))
			}
			return true
		})
	})
	r.Floor("R-SYM/S6", 8, "setJ5Ext call sites")
}

// oneofIface returns the interface type of the (single) oneof field of a message struct.
func oneofIface(msg *types.Named) *types.Interface {
	st := msg.Underlying().(*types.Struct)
	for i := 0; i < st.NumFields(); i++ {
		if strings.Contains(st.Tag(i), "protobuf_oneof:") {
			if it, ok := st.Field(i).Type().Underlying().(*types.Interface); ok {
				return it
			}
		}
	}
	return types.NewInterfaceType(nil, nil)
}

// jsonNameProvenance: property names come from the descriptor's JSON name.
func jsonNameProvenance(r *core.Run) {
	r.Rule("R-PROV/jsonname", "every ObjectProperty the reflector builds for a proto field takes JSONName from <field>.JSONName() (the name the compiler wrote explicitly); only the pseudo-property of an exposed oneof derives its name from the oneof's proto name")
	pk, bodies := rules.FuncBodies(r, schemaRel, "schema_from_proto.go")
	if pk == nil {
		return
	}
	info := pk.TypesInfo
	n := 0
	judge := func(val ast.Expr, pos token.Pos) {
		n++
		fdn := core.EnclosingFunc(pk, pos)
		o := r.Add("R-PROV/jsonname", "j5schema."+core.FuncName(fdn)+" | JSONName: "+core.NormExpr(info, val), pos, "property name source "+core.ExprStr(val))
		src, kind := jsonNameSource(info, val)
		switch kind {
		case "field.JSONName":
			o.Auto("from %s", src)
		case "oneof.Name":
			o.Auto("exposed oneof pseudo-property, named from the oneof (%s)", src)
		case "clone":
			o.Auto("copy of an existing property (%s)", src)
		default:
			o.Fail("property name is derived from %s instead of the field descriptor's JSONName(): names that do not survive the snake/camel conversion read back differently from the source", core.ExprStr(val))
		}
	}
	isProp := func(t types.Type) bool {
		if p, ok := t.(*types.Pointer); ok {
			t = p.Elem()
		}
		return t != nil && core.TypeStr(t) == "lib/j5schema.ObjectProperty"
	}
	for _, b := range bodies {
		ast.Inspect(b, func(nd ast.Node) bool {
			switch x := nd.(type) {
			case *ast.CompositeLit:
				if !isProp(info.TypeOf(x)) {
					return true
				}
				for _, e := range x.Elts {
					if kv, ok := e.(*ast.KeyValueExpr); ok && core.ExprStr(kv.Key) == "JSONName" {
						judge(kv.Value, kv.Pos())
					}
				}
			case *ast.AssignStmt:
				// the literal spelled as field assignments
				for i, l := range x.Lhs {
					if s, ok := core.Unparen(l).(*ast.SelectorExpr); ok && s.Sel.Name == "JSONName" && isProp(info.TypeOf(s.X)) && len(x.Rhs) == len(x.Lhs) {
						judge(x.Rhs[i], x.Pos())
					}
				}
			}
			return true
		})
	}
	r.Floor("R-PROV/jsonname", 4, "array, map, singular and exposed-oneof properties")
}

func jsonNameSource(info *types.Info, e ast.Expr) (string, string) {
	e = core.Unparen(e)
	// the name of another ObjectProperty: a clone (flattened children seen from the parent)
	if s, ok := e.(*ast.SelectorExpr); ok && s.Sel.Name == "JSONName" {
		t := info.TypeOf(s.X)
		if p, isPtr := t.(*types.Pointer); isPtr {
			t = p.Elem()
		}
		if t != nil && core.TypeStr(t) == "lib/j5schema.ObjectProperty" {
			return core.ExprStr(e), "clone"
		}
	}
	if c, ok := e.(*ast.CallExpr); ok && len(c.Args) == 1 {
		if core.IsConversion(info, c) {
			return jsonNameSource(info, c.Args[0])
		}
		if id, ok := c.Fun.(*ast.Ident); ok && calleeRecorded(info, c) == "jsonFieldName" {
			_ = id
			if ic, ok := core.Unparen(c.Args[0]).(*ast.CallExpr); ok {
				if s, ok := ic.Fun.(*ast.SelectorExpr); ok && s.Sel.Name == "Name" && strings.HasSuffix(core.TypeStr(info.TypeOf(s.X)), "protoreflect.OneofDescriptor") {
					return core.ExprStr(s.X), "oneof.Name"
				}
			}
		}
	}
	if c, ok := e.(*ast.CallExpr); ok && len(c.Args) == 0 {
		if s, ok := c.Fun.(*ast.SelectorExpr); ok && s.Sel.Name == "JSONName" && strings.HasSuffix(core.TypeStr(info.TypeOf(s.X)), "protoreflect.FieldDescriptor") {
			return core.ExprStr(s.X) + ".JSONName()", "field.JSONName"
		}
	}
	return "", ""
}

// nameAffinity (R-SYM/S5).
func nameAffinity(r *core.Run, rel string, files ...string) {
	r.Rule("R-SYM/S5", "when bounds are copied field to field, a destination named Min*/Max*/Gt*/Lt* is fed from a source selector of the same polarity (MinLen ← MinLength, never ← MaxLength)")
	pk, bodies := rules.FuncBodies(r, rel, files...)
	if pk == nil {
		return
	}
	pol := func(s string) string {
		l := strings.ToLower(s)
		switch {
		case strings.HasPrefix(l, "min") || strings.HasPrefix(l, "gt") || strings.HasPrefix(l, "exclusivemin"):
			return "lower"
		case strings.HasPrefix(l, "max") || strings.HasPrefix(l, "lt") || strings.HasPrefix(l, "exclusivemax"):
			return "upper"
		}
		return ""
	}
	for _, b := range bodies {
		ast.Inspect(b, func(nd ast.Node) bool {
			check := func(dst string, val ast.Expr, pos token.Pos) {
				dp := pol(dst)
				if dp == "" {
					return
				}
				var last *ast.SelectorExpr
				ast.Inspect(val, func(x ast.Node) bool {
					if s, ok := x.(*ast.SelectorExpr); ok && last == nil && pol(s.Sel.Name) != "" {
						last = s
					}
					return true
				})
				if last == nil {
					return
				}
				fdn := core.EnclosingFunc(pk, pos)
				o := r.Add("R-SYM/S5", fmt.Sprintf("%s.%s | %s ← %s", rel, core.FuncName(fdn), dst, core.ExprStr(last)), pos, dst+" ← "+core.ExprStr(last))
				if pol(last.Sel.Name) == dp {
					o.Auto("same polarity")
				} else {
					o.Fail("%s bound %s is fed from %s bound %s", dp, dst, pol(last.Sel.Name), core.ExprStr(last))
				}
			}
			switch x := nd.(type) {
			case *ast.KeyValueExpr:
				if k, ok := x.Key.(*ast.Ident); ok {
					check(k.Name, x.Value, x.Pos())
				}
			case *ast.AssignStmt:
				if len(x.Lhs) == 1 && len(x.Rhs) == 1 {
					if s, ok := x.Lhs[0].(*ast.SelectorExpr); ok {
						check(s.Sel.Name, x.Rhs[0], x.Pos())
					}
				}
			}
			return true
		})
	}
}

// sourceCoverage (R-SYM/S0): declared attributes the compiler never consumes.
func sourceCoverage(r *core.Run) {
	r.Rule("R-SYM/S0", "in each `case *schema_j5pb.Field_X` arm of buildField/buildProperty, every proto field of schema_j5pb.XField — and of its Rules message when the arm reads Rules — is read in the arm; a declared attribute the compiler never looks at cannot survive any round trip")
	pk := r.P.Pkg(convRel)
	if pk == nil {
		return
	}
	info := pk.TypesInfo
	swpk, swbodies := rules.FuncBodies(r, "internal/j5s/sourcewalk", "property.go", "schema.go")
	if swpk == nil {
		return
	}
	swReads := rules.CollectReads(swpk, swbodies)
	for _, fn := range []string{"buildField", "buildProperty"} {
		fd, _ := r.P.FuncDecl(convRel, fn)
		if fd == nil {
			r.Fatal("anchor: j5convert.%s not found", fn)
			continue
		}
		for _, st := range fd.Body.List {
			ts, ok := st.(*ast.TypeSwitchStmt)
			if !ok {
				continue
			}
			for _, cl := range ts.Body.List {
				cc := cl.(*ast.CaseClause)
				if len(cc.List) != 1 {
					continue
				}
				wt := core.NamedOf(info.TypeOf(cc.List[0]))
				if wt == nil || !strings.HasPrefix(wt.Obj().Name(), "Field_") {
					continue
				}
				inner := core.NamedOf(wt.Underlying().(*types.Struct).Field(0).Type())
				if inner == nil {
					continue
				}
				rd := rules.CollectReads(pk, core.TreeOf(pk, cc, 3, "buildField", "buildProperty")) // the arm and the helpers it hands the schema to
				check := func(msg *types.Named) {
					mn := "schema_j5pb." + msg.Obj().Name()
					for _, f := range core.StructFields(msg) {
						o := r.Add("R-SYM/S0", fmt.Sprintf("j5convert.%s | %s | %s.%s", fn, wt.Obj().Name(), msg.Obj().Name(), f.Name()), cc.Pos(), "declared attribute "+mn+"."+f.Name())
						if rd.Fields[mn] != nil {
							if _, ok := rd.Fields[mn][f.Name()]; ok {
								o.Auto("read in the arm")
								continue
							}
						}
						if fm := core.NamedOf(f.Type()); fm != nil && len(core.StructFields(fm)) == 0 {
							if _, isStruct := fm.Underlying().(*types.Struct); isStruct {
								o.Auto("message %s declares no fields: nothing to carry", fm.Obj().Name())
								continue
							}
						}
						if swReads.Fields[mn] != nil {
							if _, ok := swReads.Fields[mn][f.Name()]; ok {
								o.Auto("consumed earlier by sourcewalk (resolved into the PropertyNode handed to this arm)")
								continue
							}
						}
						if why, ok := s0Allow[msg.Obj().Name()+"."+f.Name()]; ok {
							o.Status = "table:" + why
							continue
						}
						// oneof holder read through a type switch
						if strings.Contains(fieldTag(msg, f.Name()), "protobuf_oneof") && slotsOf(rd, msg.Obj().Name()) {
							o.Auto("oneof inspected in the arm")
							continue
						}
						o.Fail("the arm for %s never reads %s.%s: the attribute is accepted by the parser and silently dropped by the compiler", wt.Obj().Name(), mn, f.Name())
					}
				}
				check(inner)
				// Rules message, when read at all
				for _, f := range core.StructFields(inner) {
					if f.Name() == "Rules" {
						if rm := core.NamedOf(f.Type()); rm != nil {
							if fs := rd.Fields["schema_j5pb."+inner.Obj().Name()]; fs != nil {
								if _, ok := fs["Rules"]; ok {
									if rulesRejected(info, cc) {
										r.Add("R-SYM/S0", fmt.Sprintf("j5convert.%s | %s | %s rejected", fn, wt.Obj().Name(), rm.Obj().Name()), cc.Pos(), "declared rules "+rm.Obj().Name()).Fail("the arm answers any %s with an error (\"not implemented\"): a documented attribute of the language is refused", rm.Obj().Name())
									} else {
										check(rm)
									}
								}
							}
						}
					}
				}
			}
		}
	}
	r.Floor("R-SYM/S0", 40, "15 field kinds")
}

func fieldTag(msg *types.Named, field string) string {
	st := msg.Underlying().(*types.Struct)
	for i := 0; i < st.NumFields(); i++ {
		if st.Field(i).Name() == field {
			return st.Tag(i)
		}
	}
	return ""
}

func slotsOf(u *rules.FieldUse, msgName string) bool {
	for s := range u.Slots {
		if strings.Contains(s, "."+msgName+"_") {
			return true
		}
	}
	return false
}

// s0Allow: declared attributes that need no consumer, with the reason.
var s0Allow = map[string]string{
	"MapField.KeySchema": "J5 map keys are always plain strings (the reflector rejects any other key kind and regenerates KeySchema as a constant)",
}

// rulesRejected: the arm contains `if <x>.Rules != nil { return nil, <error> }`.
func rulesRejected(info *types.Info, cc *ast.CaseClause) bool {
	for _, st := range cc.Body {
		ifs, ok := st.(*ast.IfStmt)
		if !ok {
			continue
		}
		b, ok := core.Unparen(ifs.Cond).(*ast.BinaryExpr)
		if !ok || b.Op != token.NEQ || !core.IsNilIdent(info, b.Y) || !strings.HasSuffix(core.ExprStr(b.X), ".Rules") {
			continue
		}
		if len(ifs.Body.List) == 1 {
			if ret, ok := ifs.Body.List[0].(*ast.ReturnStmt); ok && len(ret.Results) == 2 && !core.IsNilIdent(info, ret.Results[1]) {
				return true
			}
		}
	}
	return false
}
