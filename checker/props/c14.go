package props

import (
	"fmt"
	"go/ast"
	"strings"

	"j5verif/checker/core"
	"j5verif/checker/rules"
)

func init() { Registry["C14"] = C14 }

// C14 — compilation and printing are deterministic.
func C14(r *core.Run) {
	sc := rules.NewScope(r, []rules.Entry{
		rules.E("internal/j5s/protobuild", "PackageSet.CompilePackage"),
		rules.E("internal/j5s/protobuild", "PackageSet.LoadLocalPackage"),
		rules.E("internal/j5s/j5convert", "ConvertJ5File"),
		rules.E("internal/j5s/j5convert", "SourceSummary"),
		rules.E("internal/j5s/protoprint", "PrintFile"),
	})
	r.Assumef("protocompile's parser/linker and protobuf-go are deterministic for identical inputs; logging (pentops/log.go, log) is not part of the output")
	rules.Determinism(r, sc, "det_sites")
	r.Floor("R-DET/N1", 6, "map ranges and protoreflect Range calls on the compile/print path confirmed by reading")
	rules.MemoPurity(r, "internal/j5s/protobuild", []string{"searchLinker.linkResult"}, "det_sites")
	optionOrder(r)
	optionOwnLine(r)
	packageListingByDirectory(r)
	exportsOfThisPackageOnly(r) // which file of a package declares a name does not depend on the listing order
	freshExtensions(r)          // no message is shared between the outputs of two conversions: what was compiled earlier does not show
}

// optionOrder (R-DET/N3): Builder.OptionsFor collects the options of an
// element by ranging over the (unordered) extension fields and then sorts them
// by source line or, when the descriptor has no source info — everything
// compiled from j5s — by the extension's declaration index, which is only
// unique within one file. Ties keep the iteration order. So every consumer
// must impose a total order of its own before printing, or the set of
// extensions that can occur on that kind of element must be known tie-free.
func optionOrder(r *core.Run) {
	r.Rule("R-DET/N3", "every caller of optionreflect.Builder.OptionsFor in the printer re-sorts what it prints with a comparator over the option's qualified name (unique per extension), or has a recorded reason why the extensions that can occur there never tie in OptionsFor's own order")
	pk := r.P.Pkg(printRel)
	if pk == nil {
		r.Fatal("anchor: package %s not found", printRel)
		return
	}
	info := pk.TypesInfo
	core.AllFuncDecls(pk, func(fd *ast.FuncDecl) {
		var calls []*ast.CallExpr
		sorted := false
		ast.Inspect(fd.Body, func(nd ast.Node) bool {
			c, ok := nd.(*ast.CallExpr)
			if !ok {
				return true
			}
			name := core.CalleeName(info, c)
			if strings.HasSuffix(name, "optionreflect.Builder).OptionsFor") {
				calls = append(calls, c)
			}
			if name == "slices.SortFunc" || name == "slices.SortStableFunc" || name == "sort.Slice" || name == "sort.SliceStable" {
				if len(c.Args) == 2 {
					if fl, ok := c.Args[1].(*ast.FuncLit); ok {
						ast.Inspect(fl.Body, func(x ast.Node) bool {
							if s, ok := x.(*ast.SelectorExpr); ok && selRecorded(info, s) == "qualifiedName" {
								sorted = true
							}
							return true
						})
					}
				}
			}
			return true
		})
		for _, c := range calls {
			o := r.Add("R-DET/N3", fmt.Sprintf("%s.%s | OptionsFor(%s)", printRel, core.FuncName(fd), core.NormExpr(info, c.Args[0])), c.Pos(), "order of the options printed for an element")
			if sorted {
				o.Auto("re-sorted by qualified name in the same function")
			} else if !r.Table("det_sites", o) {
				o.Fail("the options are printed in OptionsFor's order, which for descriptors without source info falls back to the extension's index in its own file and keeps map-iteration order on ties (e.g. (buf.validate.field) and (j5.list.v1.field) are both #2): the printed text varies between runs")
			}
		}
	})
	r.Floor("R-DET/N3", 3, "callers of OptionsFor in the printer")
}
