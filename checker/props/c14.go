package props

import (
	"j5verif/checker/core"
	"j5verif/checker/rules"
)

func init() { Registry["C14"] = C14 }

// C14 — compilation and printing are deterministic.
func C14(r *core.Run) {
	sc := rules.NewScope(r, []rules.Entry{
		rules.E("internal/j5s/protobuild", "PackageSet.CompilePackage"),
		rules.E("internal/j5s/protobuild", "PackageSet.LoadLocalPackage"),
		rules.E("internal/j5s/j5convert", "ConvertJ5File"),
		rules.E("internal/j5s/j5convert", "SourceSummary"),
		rules.E("internal/j5s/protoprint", "PrintFile"),
	})
	r.Assumef("protocompile's parser/linker and protobuf-go are deterministic for identical inputs; logging (pentops/log.go, log) is not part of the output")
	rules.Determinism(r, sc, "det_sites")
	r.Floor("R-DET/N1", 6, "map ranges and protoreflect Range calls on the compile/print path confirmed by reading")
	rules.MemoPurity(r, "internal/j5s/protobuild", []string{"searchLinker.linkResult"}, "det_sites")
}
