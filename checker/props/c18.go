package props

import (
	"fmt"
	"go/ast"
	"go/token"
	"go/types"
	"sort"
	"strings"

	"j5verif/checker/core"
	"j5verif/checker/rules"
)

func init() { Registry["C18"] = C18 }

// kindClass is the fixed table of the protoreflect API: which Value accessor
// is valid for a field of the given kind.
var kindClass = map[string]string{
	"BoolKind": "Bool", "StringKind": "String", "BytesKind": "Bytes", "EnumKind": "Enum",
	"Int32Kind": "Int", "Sint32Kind": "Int", "Sfixed32Kind": "Int", "Int64Kind": "Int", "Sint64Kind": "Int", "Sfixed64Kind": "Int",
	"Uint32Kind": "Uint", "Fixed32Kind": "Uint", "Uint64Kind": "Uint", "Fixed64Kind": "Uint",
	"FloatKind": "Float", "DoubleKind": "Float", "MessageKind": "Message", "GroupKind": "Message",
}

// C18 — schema reflection over arbitrary proto3 descriptors is total and self-consistent.
func C18(r *core.Run) {
	panicScope(r, entriesC18...)
	kindAccessorAgreement(r)
	reflectionGuards(r)
	recursionGuards(r)
	accumulatorThreading(r, "lib/j5schema", "lib/j5reflect")
	rules.AppendAlias(r, []string{"lib/j5schema", "lib/j5reflect"}) // a recorded proto path is not overwritten by a sibling's
	nestedSkipsMapEntries(r, "lib/j5schema", "lib/j5reflect", "internal/structure")
	rules.NonNilFields(r, "lib/j5schema")
	// every proto kind the reflector accepts is dispatched somewhere; the rest reach the error default
	rules.TypeSwitchCovers(r, "lib/j5reflect", "newMessageFieldFactory", core.Module+"/lib/j5schema", "FieldSchema", map[string]string{
		"ArrayField":   "not a valid item schema: reaches the default arm, which returns an error",
		"MapField":     "not a valid item schema (e.g. google.protobuf.Struct items): reaches the default arm, which returns an error",
		"EnumField":    "leaf kind: handled by newFieldFactory",
		"ScalarSchema": "leaf kind: handled by newFieldFactory",
	}, 1)
}

// kindAccessorAgreement (R-FLOW/F3).
func kindAccessorAgreement(r *core.Run) {
	r.Rule("R-FLOW/F3", "for every proto kind listed in an arm of buildScalarType, the protoreflect.Value accessor that scalarGoFromReflect uses for the schema type/format that arm returns is the accessor valid for that kind (fixed protoreflect table: Int32/Sint32/Sfixed32/Int64/Sint64/Sfixed64→Int, Uint*/Fixed*→Uint, Float/Double→Float, …); calling another accessor panics. Same for the intKinds/floatKinds tables of schema_from_desc.go")
	bfd, bpk := r.P.FuncDecl(schemaRel, "buildScalarType")
	gfd, gpk := r.P.FuncDecl("lib/j5reflect", "scalarGoFromReflect")
	if bfd == nil || gfd == nil {
		r.Fatal("anchor: buildScalarType / scalarGoFromReflect not found")
		return
	}
	// accessor per (wrapper, format) from scalarGoFromReflect
	acc := map[string]string{}
	var walkClause func(cc *ast.CaseClause, prefix string)
	walkClause = func(cc *ast.CaseClause, prefix string) {
		for _, st := range cc.Body {
			ast.Inspect(st, func(n ast.Node) bool {
				switch x := n.(type) {
				case *ast.CaseClause:
					if len(x.List) == 1 && strings.Contains(core.ExprStr(x.List[0]), "_FORMAT_") {
						f := core.ExprStr(x.List[0])
						walkClause(x, prefix+"/"+f[strings.LastIndex(f, ".")+1:])
						return false
					}
				case *ast.ReturnStmt:
					if len(x.Results) == 2 && core.IsNilIdent(gpk.TypesInfo, x.Results[1]) {
						ast.Inspect(x.Results[0], func(m ast.Node) bool {
							if c, ok := m.(*ast.CallExpr); ok {
								if s, ok := c.Fun.(*ast.SelectorExpr); ok && strings.HasSuffix(core.TypeStr(gpk.TypesInfo.TypeOf(s.X)), "protoreflect.Value") {
									acc[prefix] = s.Sel.Name
								}
							}
							return true
						})
					}
				}
				return true
			})
		}
	}
	for _, st := range gfd.Body.List {
		if ts, ok := st.(*ast.TypeSwitchStmt); ok {
			for _, cl := range ts.Body.List {
				cc := cl.(*ast.CaseClause)
				if len(cc.List) == 1 {
					t := core.TypeStr(gpk.TypesInfo.TypeOf(cc.List[0]))
					walkClause(cc, t[strings.LastIndex(t, ".")+1:])
				}
			}
		}
	}
	// arms of buildScalarType
	n := 0
	for _, st := range bfd.Body.List {
		sw, ok := st.(*ast.SwitchStmt)
		if !ok {
			continue
		}
		for _, cl := range sw.Body.List {
			cc := cl.(*ast.CaseClause)
			if cc.List == nil {
				continue
			}
			wrapper, format := "", ""
			direct := false
			var inspectArm func(nd ast.Node) bool
			// an arm that only hands over to a helper (`return buildBoolType(…)`) is judged by the
			// helper's body when that body names exactly one field wrapper
			var helpers []*ast.BlockStmt
			ast.Inspect(cc, func(nd ast.Node) bool {
				ret, ok := nd.(*ast.ReturnStmt)
				if !ok || len(ret.Results) == 0 {
					return true
				}
				if c, ok := core.Unparen(ret.Results[0]).(*ast.CallExpr); ok {
					if fn := core.CalleeFunc(bpk.TypesInfo, c); fn != nil && fn.Pkg() == bpk.Types {
						if cd := core.DeclOf(bpk, fn.Origin()); cd != nil && cd.Body != nil {
							wrappers := map[string]bool{}
							ast.Inspect(cd.Body, func(m ast.Node) bool {
								if cl, ok := m.(*ast.CompositeLit); ok {
									if t := core.TypeStr(bpk.TypesInfo.TypeOf(cl)); strings.Contains(t, "schema_j5pb.Field_") {
										wrappers[t] = true
									}
								}
								return true
							})
							if len(wrappers) == 1 {
								helpers = append(helpers, cd.Body)
							}
						}
					}
				}
				return true
			})
			inspectArm = func(nd ast.Node) bool {
				switch x := nd.(type) {
				case *ast.CompositeLit:
					t := core.TypeStr(bpk.TypesInfo.TypeOf(x))
					if i := strings.Index(t, "schema_j5pb.Field_"); i >= 0 {
						wrapper = t[i+len("schema_j5pb."):]
					}
				case *ast.KeyValueExpr:
					if core.ExprStr(x.Key) == "Format" && strings.Contains(core.ExprStr(x.Value), "_FORMAT_") {
						f := core.ExprStr(x.Value)
						format = f[strings.LastIndex(f, ".")+1:]
					}
				case *ast.ReturnStmt:
					if len(x.Results) == 1 {
						direct = true // return buildFromStringProto(...)
					}
				}
				return true
			}
			ast.Inspect(cc, inspectArm)
			if wrapper == "" {
				for _, hb := range helpers {
					ast.Inspect(hb, inspectArm)
				}
			}
			for _, ke := range cc.List {
				kind := core.ExprStr(ke)
				kind = kind[strings.LastIndex(kind, ".")+1:]
				n++
				o := r.Add("R-FLOW/F3", "j5schema.buildScalarType | "+kind, ke.Pos(), "proto kind "+kind)
				want, known := kindClass[kind]
				key := wrapper
				if format != "" {
					key += "/" + format
				}
				if direct && wrapper == "" {
					// string kinds go through buildFromStringProto → Field_String_ / Field_Key
					key = "Field_String_"
				}
				got, ok := acc[key]
				switch {
				case !known:
					o.Fail("unknown proto kind %s", kind)
				case !ok:
					o.Fail("scalarGoFromReflect has no accessor for %s (arm returns %s)", key, key)
				case got == want:
					o.Auto("arm returns %s, read with Value.%s(), valid for %s", key, got, kind)
				default:
					o.Fail("kind %s is reflected as %s, which scalarGoFromReflect reads with Value.%s(); a %s field holds a value that only supports %s(): the codec panics on such a field", kind, key, got, kind, want)
				}
			}
		}
	}
	// intKinds / floatKinds tables
	pk := r.P.Pkg(schemaRel)
	for _, f := range pk.Syntax {
		ast.Inspect(f, func(nd ast.Node) bool {
			vs, ok := nd.(*ast.ValueSpec)
			if !ok || len(vs.Names) != 1 || (vs.Names[0].Name != "intKinds" && vs.Names[0].Name != "floatKinds") || len(vs.Values) != 1 {
				return true
			}
			cl, ok := vs.Values[0].(*ast.CompositeLit)
			if !ok {
				return true
			}
			wrapper := map[string]string{"intKinds": "Field_Integer", "floatKinds": "Field_Float"}[vs.Names[0].Name]
			for _, e := range cl.Elts {
				kv := e.(*ast.KeyValueExpr)
				f := core.ExprStr(kv.Key)
				f = f[strings.LastIndex(f, ".")+1:]
				k := core.ExprStr(kv.Value)
				k = k[strings.LastIndex(k, ".")+1:]
				n++
				o := r.Add("R-FLOW/F3", "j5schema."+vs.Names[0].Name+" | "+f, kv.Pos(), f+" → "+k)
				got := acc[wrapper+"/"+f]
				if got != "" && got == kindClass[k] {
					o.Auto("%s is stored as %s, read with Value.%s()", f, k, got)
				} else {
					o.Fail("%s maps to %s (accessor class %s) but scalarGoFromReflect reads %s with Value.%s()", f, k, kindClass[k], f, got)
				}
			}
			return true
		})
	}
	r.Analysed["kind_accessor_pairs"] = n
	r.Floor("R-FLOW/F3", 15, "scalar kinds and format tables")
	var ks []string
	for k, v := range acc {
		ks = append(ks, k+"→"+v)
	}
	sort.Strings(ks)
	r.Note("accessors extracted from scalarGoFromReflect: %s", strings.Join(ks, ", "))
}

// reflectionGuards: required checks of the reflector (R-ERR/E4).
func reflectionGuards(r *core.Run) {
	isErrRet := func(info *types.Info, ifs *ast.IfStmt) bool { return true }
	_ = isErrRet
	rules.RequiredGuards(r, []rules.RequiredGuard{
		{Rel: "lib/j5reflect", Func: "newPropSet", What: "a recorded proto field number that does not exist in the message is rejected",
			Match: func(info *types.Info, ifs *ast.IfStmt, prev ast.Stmt) bool {
				b, ok := core.Unparen(ifs.Cond).(*ast.BinaryExpr)
				return ok && b.Op == token.EQL && core.IsNilIdent(info, b.Y) && strings.HasSuffix(core.TypeStr(info.TypeOf(b.X)), "protoreflect.FieldDescriptor")
			}},
		{Rel: "lib/j5reflect", Func: "newPropSet", What: "an intermediate path element that is not a message is rejected",
			Match: func(info *types.Info, ifs *ast.IfStmt, prev ast.Stmt) bool {
				return strings.Contains(core.ExprStr(ifs.Cond), ".Kind() != protoreflect.MessageKind")
			}},
		{Rel: "lib/j5reflect", Func: "newFieldFactory", What: "an enum schema on a non-enum proto field is rejected",
			Match: func(info *types.Info, ifs *ast.IfStmt, prev ast.Stmt) bool {
				return strings.Contains(core.ExprStr(ifs.Cond), ".Kind() != protoreflect.EnumKind")
			}},
		{Rel: "lib/j5reflect", Func: "newFieldFactory", What: "a scalar schema whose kind differs from the proto field's kind is rejected",
			Match: func(info *types.Info, ifs *ast.IfStmt, prev ast.Stmt) bool {
				// <field descriptor>.Kind() != <scalar schema>.Kind, whatever the locals are called
				c := core.NormExpr(info, ifs.Cond)
				return strings.Contains(c, "‹FieldDescriptor›.Kind() != ‹*ScalarSchema›.Kind") || strings.Contains(c, "‹*ScalarSchema›.Kind != ‹FieldDescriptor›.Kind()")
			}},
		{Rel: "lib/j5reflect", Func: "newFieldFactory", What: "a well-known-type scalar on a field of another message type is rejected",
			Match: func(info *types.Info, ifs *ast.IfStmt, prev ast.Stmt) bool {
				c := core.ExprStr(ifs.Cond)
				return strings.Contains(c, "FullName()") && strings.Contains(c, "WellKnownTypeName")
			}},
		{Rel: schemaRel, Func: "Package.buildEnum", What: "an enum whose zero value is not *_UNSPECIFIED is rejected",
			Match: func(info *types.Info, ifs *ast.IfStmt, prev ast.Stmt) bool {
				return strings.Contains(core.ExprStr(ifs.Cond), "strings.HasSuffix(")
			}},
		{Rel: schemaRel, Func: "Package.messageProperties", What: "a map with a non-string key is rejected",
			Match: func(info *types.Info, ifs *ast.IfStmt, prev ast.Stmt) bool {
				return strings.Contains(core.ExprStr(ifs.Cond), "MapKey().Kind() != protoreflect.StringKind")
			}},
	})
	oneofWrapperAllFields(r)
	registeredRefsRolledBack(r)
	lookedUpFieldsKindChecked(r, []string{"lib/j5schema", "lib/j5reflect", "internal/codec", "internal/structure", "internal/j5client"}, 1)
	uniquePropertyNames(r)
	_ = fmt.Sprintf
}

// oneofWrapperAllFields (R-ERR/E4): an un-annotated message is taken for a oneof wrapper only
// when no field lives outside its `oneof type`.
func oneofWrapperAllFields(r *core.Run) {
	r.Rule("R-ERR/E4", "isOneofWrapper (with its helpers) decides over all fields of the message: a loop over <MessageDescriptor>.Fields() that returns false for a field whose ContainingOneof() is not the oneof, or a comparison of the message's field count with the oneof's; looking only at the oneof's own fields takes an object with a `oneof type` and ordinary fields for a oneof")
	fd, pk := r.P.FuncDecl(schemaRel, "isOneofWrapper")
	if fd == nil {
		r.Fatal("anchor: j5schema.isOneofWrapper not found")
		return
	}
	info := pk.TypesInfo
	o := r.Add("R-ERR/E4", schemaRel+".isOneofWrapper | every field of the message belongs to the oneof", fd.Pos(), "a message is a oneof wrapper only if it has no field outside the oneof")
	fieldsOf := func(n ast.Node, suffix string) bool {
		found := false
		ast.Inspect(n, func(x ast.Node) bool {
			if c, ok := x.(*ast.CallExpr); ok && len(c.Args) == 0 {
				if s, ok := c.Fun.(*ast.SelectorExpr); ok && s.Sel.Name == "Fields" && strings.HasSuffix(core.TypeStr(info.TypeOf(s.X)), suffix) {
					found = true
				}
			}
			return !found
		})
		return found
	}
	returnsFalse := func(b *ast.BlockStmt) bool {
		if b == nil || len(b.List) == 0 {
			return false
		}
		ret, ok := b.List[len(b.List)-1].(*ast.ReturnStmt)
		if !ok || len(ret.Results) != 1 {
			return false
		}
		tv, ok := info.Types[ret.Results[0]]
		return ok && tv.Value != nil && tv.Value.String() == "false"
	}
	how := ""
	core.InspectTree(pk, fd.Body, func(n ast.Node) bool {
		var body *ast.BlockStmt
		switch x := n.(type) {
		case *ast.ForStmt:
			body = x.Body
		case *ast.RangeStmt:
			body = x.Body
		case *ast.IfStmt:
			// the field counts compared
			if b, ok := core.Unparen(x.Cond).(*ast.BinaryExpr); ok && b.Op == token.NEQ && returnsFalse(x.Body) {
				if (fieldsOf(b.X, "protoreflect.MessageDescriptor") && fieldsOf(b.Y, "protoreflect.OneofDescriptor")) || (fieldsOf(b.Y, "protoreflect.MessageDescriptor") && fieldsOf(b.X, "protoreflect.OneofDescriptor")) {
					how = "compares the message's field count with the oneof's"
				}
			}
			return true
		default:
			return true
		}
		if !fieldsOf(n, "protoreflect.MessageDescriptor") {
			return true
		}
		ast.Inspect(body, func(m ast.Node) bool {
			ifs, isIf := m.(*ast.IfStmt)
			if !isIf || !returnsFalse(ifs.Body) {
				return true
			}
			hasCO, hasNeq := false, false
			ast.Inspect(ifs.Cond, func(y ast.Node) bool {
				switch z := y.(type) {
				case *ast.SelectorExpr:
					if z.Sel.Name == "ContainingOneof" {
						hasCO = true
					}
				case *ast.BinaryExpr:
					if z.Op == token.NEQ {
						hasNeq = true
					}
				}
				return true
			})
			if hasCO && hasNeq {
				how = "loops over the message's Fields() and returns false for a field whose ContainingOneof() is not the oneof"
			}
			return true
		})
		return true
	})
	if how != "" {
		o.Auto("%s", how)
	} else {
		o.Fail("isOneofWrapper no longer checks all fields of the message: a message with ordinary fields next to a oneof named 'type' is reflected as a oneof, and the codec then fails on populated messages (multiple values set)")
	}
}

// accumulatorThreading (R-FLOW/acc): a function that carries an accumulated
// path (a slice parameter it reads) and calls itself must hand the callee a
// value built from that parameter — append(p, …), p[k:], a local defined from
// p — and not a fresh path. A recursion through flattened objects that passes
// only the current field's number records proto paths relative to the wrong
// message from the second level on.
func accumulatorThreading(r *core.Run, rels ...string) {
	r.Rule("R-FLOW/acc", "at every direct self-recursive call, the argument in the position of a slice parameter that the function reads is built from that parameter (mentions it, or a local defined from it); passing an unrelated slice restarts the accumulated path at each level")
	n := 0
	for _, rel := range rels {
		pk := r.P.Pkg(rel)
		if pk == nil {
			r.Fatal("anchor: package %s not found", rel)
			continue
		}
		info := pk.TypesInfo
		core.AllFuncDecls(pk, func(fd *ast.FuncDecl) {
			self := info.Defs[fd.Name]
			if self == nil || fd.Type.Params == nil {
				return
			}
			// slice parameters by position
			type param struct {
				obj types.Object
				pos int
			}
			var params []param
			i := 0
			for _, f := range fd.Type.Params.List {
				names := f.Names
				if len(names) == 0 {
					i++
					continue
				}
				for _, nm := range names {
					if _, isSlice := info.TypeOf(f.Type).Underlying().(*types.Slice); isSlice {
						if _, variadic := f.Type.(*ast.Ellipsis); !variadic {
							params = append(params, param{info.Defs[nm], i})
						}
					}
					i++
				}
			}
			if len(params) == 0 {
				return
			}
			mentions := func(e ast.Expr, obj types.Object, depth int) bool {
				found := false
				var visit func(e ast.Expr, depth int)
				visit = func(e ast.Expr, depth int) {
					ast.Inspect(e, func(x ast.Node) bool {
						id, ok := x.(*ast.Ident)
						if !ok {
							return true
						}
						o := info.Uses[id]
						if o == obj {
							found = true
						} else if v, isVar := o.(*types.Var); isVar && depth < 3 && v.Parent() != pk.Types.Scope() {
							// a local defined exactly once (:=) from an expression that mentions the parameter
							var defs []ast.Expr
							other := 0
							ast.Inspect(fd.Body, func(y ast.Node) bool {
								switch as := y.(type) {
								case *ast.AssignStmt:
									for k, l := range as.Lhs {
										if li, ok := l.(*ast.Ident); ok && (info.Defs[li] == o || info.Uses[li] == o) {
											if as.Tok != token.DEFINE {
												other++
											} else if len(as.Rhs) == len(as.Lhs) {
												defs = append(defs, as.Rhs[k])
											} else if len(as.Rhs) == 1 {
												defs = append(defs, as.Rhs[0])
											}
										}
									}
								case *ast.RangeStmt:
									for _, l := range []ast.Expr{as.Key, as.Value} {
										if li, ok := l.(*ast.Ident); ok && info.Defs[li] == o {
											other++
										}
									}
								}
								return true
							})
							if len(defs) == 1 && other == 0 {
								visit(defs[0], depth+1)
							}
						}
						return true
					})
				}
				visit(e, depth)
				return found
			}
			ast.Inspect(fd.Body, func(nd ast.Node) bool {
				c, ok := nd.(*ast.CallExpr)
				if !ok {
					return true
				}
				if fn := core.CalleeFunc(info, c); fn == nil || types.Object(fn) != self {
					return true
				}
				for _, p := range params {
					if p.pos >= len(c.Args) {
						continue
					}
					// is the parameter read at all (other than in this call)?
					n++
					o := r.Add("R-FLOW/acc", fmt.Sprintf("%s.%s | recursive call, parameter %s ← %s", rel, core.FuncName(fd), p.obj.Name(), core.ExprStr(c.Args[p.pos])), c.Pos(), "accumulated slice handed to the recursive call")
					if mentions(c.Args[p.pos], p.obj, 0) {
						o.Auto("built from the parameter %s", p.obj.Name())
					} else if !r.Table("sym_sites", o) {
						o.Fail("the recursive call passes %s, which does not involve its own %s: whatever was accumulated so far (outer proto path, prefix) is dropped from the second level of nesting on", core.ExprStr(c.Args[p.pos]), p.obj.Name())
					}
				}
				return true
			})
		})
	}
	r.Analysed["self_recursive_slice_arguments"] = n
}
