package props

import (
	"go/ast"
	"go/token"
	"strings"

	"j5verif/checker/core"
)

// pathVariablesPerSegment (R-FLOW/pathseg): a ":name" parameter of a J5 path
// becomes the "{field_name}" variable of the google.api.http rule. The
// rewrite has to work on whole path segments: rewriting the text of the path
// (a Replacer, ReplaceAll, a regexp) substitutes a parameter whose name is a
// prefix of another one inside the longer name (":docId" inside
// ":docIdVersion"), and the second key of an entity is no longer a path
// variable.
func pathVariablesPerSegment(r *core.Run) {
	r.Rule("R-FLOW/pathseg", "every \"{\"+X+\"}\" path variable built in internal/j5s/j5convert is stored into an element of the slice that strings.Split(<path>, \"/\") returned (parts[i] = \"{\"+…+\"}\"): variables replace whole segments, never text inside a path")
	pk := r.P.Pkg(convRel)
	if pk == nil {
		return
	}
	info := pk.TypesInfo
	isBrace := func(e ast.Expr) bool {
		// "{" + … + "}"
		b, ok := core.Unparen(e).(*ast.BinaryExpr)
		if !ok || b.Op != token.ADD {
			return false
		}
		last, okL := core.ConstString(info, b.Y)
		first := b.X
		for {
			fb, ok := core.Unparen(first).(*ast.BinaryExpr)
			if !ok || fb.Op != token.ADD {
				break
			}
			first = fb.X
		}
		f, okF := core.ConstString(info, first)
		return okL && okF && last == "}" && f == "{"
	}
	n := 0
	core.AllFuncDecls(pk, func(fd *ast.FuncDecl) {
		var stack []ast.Node
		ast.Inspect(fd.Body, func(nd ast.Node) bool {
			if nd == nil {
				stack = stack[:len(stack)-1]
				return true
			}
			stack = append(stack, nd)
			e, ok := nd.(ast.Expr)
			if !ok || !isBrace(e) {
				return true
			}
			// outermost brace expression only
			if len(stack) >= 2 {
				if pe, ok := stack[len(stack)-2].(ast.Expr); ok && isBrace(pe) {
					return true
				}
			}
			n++
			o := r.Add("R-FLOW/pathseg", convRel+"."+core.FuncName(fd)+" | "+core.NormExpr(info, e), e.Pos(), "path variable")
			okStore := false
			var parent ast.Node
			for i := len(stack) - 2; i >= 0; i-- {
				if _, isParen := stack[i].(*ast.ParenExpr); !isParen {
					parent = stack[i]
					break
				}
			}
			if as, ok := parent.(*ast.AssignStmt); ok && len(as.Lhs) == 1 && len(as.Rhs) == 1 {
				if ix, ok := core.Unparen(as.Lhs[0]).(*ast.IndexExpr); ok {
					if id, ok := core.Unparen(ix.X).(*ast.Ident); ok {
						if def := soleDefinition(info, id); def != nil {
							if c, ok := core.Unparen(def).(*ast.CallExpr); ok && core.CalleeName(info, c) == "strings.Split" && len(c.Args) == 2 {
								if sep, ok := core.ConstString(info, c.Args[1]); ok && sep == "/" {
									okStore = true
								}
							}
						}
					}
				}
			}
			if okStore {
				o.Auto("replaces one element of strings.Split(path, \"/\")")
			} else {
				o.Fail("the variable is not written over a whole path segment: text substitution inside the path rewrites a parameter whose name is a prefix of another parameter's name inside the longer one (:docId in :docIdVersion)")
			}
			return false
		})
	})
	_ = strings.TrimSpace
	r.Floor("R-FLOW/pathseg", 1, "visitServiceMethodNode")
}
