package props

import (
	"go/ast"
	"go/token"
	"go/types"
	"strings"

	"j5verif/checker/core"
)

// topicNames (R-CONST/topicname): every messaging ServiceConfig the topic
// expansion builds carries topic_name = snake_case(<declared topic name>): the
// requester and the replier of a reqres topic, and every other pair of
// services that meet on a topic, find each other by that string. The value
// must not be derived from a name the expansion has decorated itself (the
// `<Name>Request` / `<Name>Reply` service names).
func topicNames(r *core.Run) {
	r.Rule("R-CONST/topicname", "every store to messaging ServiceConfig.TopicName in sourcewalk is strcase.ToSnake(X) with X a declared name: a parameter, a field of the source schema, or a struct field none of whose values in the package is built by Sprintf or concatenation (a decorated service name differs between the two sides of a reqres topic)")
	pk := r.P.Pkg(walkRel)
	if pk == nil {
		r.Fatal("anchor: package %s not found", walkRel)
		return
	}
	info := pk.TypesInfo
	// values given to a struct field anywhere in the package
	fieldValues := func(fv *types.Var) []ast.Expr {
		var out []ast.Expr
		core.AllFuncDecls(pk, func(fd *ast.FuncDecl) {
			ast.Inspect(fd.Body, func(n ast.Node) bool {
				switch x := n.(type) {
				case *ast.KeyValueExpr:
					if id, ok := x.Key.(*ast.Ident); ok && info.Uses[id] == fv {
						out = append(out, x.Value)
					}
				case *ast.AssignStmt:
					for i, l := range x.Lhs {
						if s, ok := core.Unparen(l).(*ast.SelectorExpr); ok && info.Uses[s.Sel] == fv && len(x.Rhs) == len(x.Lhs) {
							out = append(out, x.Rhs[i])
						}
					}
				}
				return true
			})
		})
		return out
	}
	decorated := func(e ast.Expr) string {
		bad := ""
		ast.Inspect(e, func(n ast.Node) bool {
			switch x := n.(type) {
			case *ast.CallExpr:
				if name := core.CalleeName(info, x); strings.HasPrefix(name, "fmt.Sprint") || name == "strings.Join" {
					bad = core.ExprStr(x)
				}
			case *ast.BinaryExpr:
				if x.Op == token.ADD {
					if bt, ok := info.TypeOf(x).Underlying().(*types.Basic); ok && bt.Info()&types.IsString != 0 {
						bad = core.ExprStr(x)
					}
				}
			}
			return bad == ""
		})
		return bad
	}
	n := 0
	check := func(fd *ast.FuncDecl, val ast.Expr, pos token.Pos) {
		n++
		o := r.Add("R-CONST/topicname", "sourcewalk."+core.FuncName(fd)+" | TopicName = "+core.NormExpr(info, val), pos, "topic_name of the generated messaging service")
		c, ok := core.Unparen(ptrOnly(info, val)).(*ast.CallExpr)
		if !ok || !strings.HasSuffix(core.CalleeName(info, c), "strcase.ToSnake") || len(c.Args) != 1 {
			o.Fail("topic_name is %s, not the snake_case of the declared topic name", core.ExprStr(val))
			return
		}
		arg := core.Unparen(c.Args[0])
		if a := aliasExprOf(info, fd, arg); a != nil {
			arg = core.Unparen(a)
		}
		if d := decorated(arg); d != "" {
			o.Fail("topic_name is derived from the decorated name %s", d)
			return
		}
		if s, ok := arg.(*ast.SelectorExpr); ok {
			if fv, ok := info.Uses[s.Sel].(*types.Var); ok && fv.IsField() && fv.Pkg() == pk.Types {
				for _, v := range fieldValues(fv) {
					if d := decorated(v); d != "" {
						o.Fail("topic_name is derived from %s, a field that is given the decorated name %s elsewhere in the package: the two sides of a reqres topic (…Request / …Reply) then carry different topic names and never meet", core.ExprStr(arg), d)
						return
					}
				}
			}
		}
		o.Auto("snake_case of the declared name")
	}
	core.AllFuncDecls(pk, func(fd *ast.FuncDecl) {
		ast.Inspect(fd.Body, func(nd ast.Node) bool {
			switch x := nd.(type) {
			case *ast.CompositeLit:
				if !strings.HasSuffix(core.TypeStr(info.TypeOf(x)), "messaging_j5pb.ServiceConfig") {
					return true
				}
				for _, el := range x.Elts {
					if kv, ok := el.(*ast.KeyValueExpr); ok && core.ExprStr(kv.Key) == "TopicName" {
						check(fd, kv.Value, kv.Pos())
					}
				}
			case *ast.AssignStmt:
				for i, l := range x.Lhs {
					if s, ok := core.Unparen(l).(*ast.SelectorExpr); ok && s.Sel.Name == "TopicName" && strings.HasSuffix(core.TypeStr(info.TypeOf(s.X)), "messaging_j5pb.ServiceConfig") && len(x.Rhs) == len(x.Lhs) {
						check(fd, x.Rhs[i], x.Pos())
					}
				}
			}
			return true
		})
	})
	r.Floor("R-CONST/topicname", 1, "TopicName stores in the topic expansion")
}
