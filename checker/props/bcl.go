package props

import (
	"fmt"
	"go/ast"
	"go/token"
	"go/types"
	"sort"
	"strings"

	"golang.org/x/tools/go/cfg"

	"j5verif/checker/core"
	"j5verif/checker/rules"
)

const parserRel = "internal/bcl/internal/parser"

func init() {
	Registry["C09"] = C09
	Registry["C11"] = C11
	Registry["C19"] = C19
}

// C09 — formatter preserves meaning, is idempotent and emits parseable source.
func C09(r *core.Run) {
	panicScope(r, entriesC09...)
	escapeAgreement(r)
	tokenTextOpaque(r)
	fragmentCoverage(r)
	astFieldCoverage(r)
	emptyArrayForm(r)
	renderedTextOpaque(r)
	inlineCommentKind(r)
	statementsRenderSomething(r)
	descriptionWordsBySpace(r)
	headerDescriptionOneToken(r)
	tagMarksRendered(r)
}

// C11 — BCL parser is total and every diagnostic points inside the file.
func C11(r *core.Run) {
	panicScope(r, entriesC11...)
	referenceEntryGuard(r)
	lexerErrorsPositioned(r)
	lexerSeesCallersText(r)
	positionsAssigned(r)
	positionsCoverConsumed(r)
	errorListDiscipline(r)
	lexerPositions(r)
}

// C19 — editor format edits are well-formed and equal the formatter.
func C19(r *core.Run) {
	panicScope(r, entriesC19...)
	positionsAssigned(r)
	positionsCoverConsumed(r)
	fmtDiffForms(r)
	editsDisjoint(r)
	attachedCommentOneLine(r)
	documentLinesVerbatim(r)
	renderedTextOpaque(r)
	gapAgreement(r)
}

// charConsts returns the rune constants (and identifiers) listed in the case
// clauses of a switch.
func caseRunes(info *types.Info, sw *ast.SwitchStmt, onlyWithBody bool) (runes map[rune]bool, idents []string) {
	runes = map[rune]bool{}
	for _, cl := range sw.Body.List {
		cc := cl.(*ast.CaseClause)
		for _, e := range cc.List {
			if k, ok := core.ConstInt(info, e); ok {
				runes[rune(k)] = true
			} else if id, ok := core.Unparen(e).(*ast.Ident); ok {
				idents = append(idents, id.Name)
			}
		}
	}
	return
}

func runeSetStr(m map[rune]bool) string {
	var ks []string
	for k := range m {
		ks = append(ks, fmt.Sprintf("%q", k))
	}
	sort.Strings(ks)
	return "{" + strings.Join(ks, ",") + "}"
}

// escapeAgreement (R-CONST/escapes).
func escapeAgreement(r *core.Run) {
	r.Rule("R-CONST/escapes", "the formatter re-renders STRING tokens with an escaper whose escaped-rune set equals the set lexEscape accepts (with the quote being '\"', the only string opener), writing a backslash before exactly those runes and nothing else (no fmt %q / strconv.Quote / Replace on the literal); REGEX tokens are rendered by doubling '/' (the lexer's only regex escape); every token kind the lexer produces with delimiters has a case in tokenSource")
	pk := r.P.Pkg(parserRel)
	if pk == nil {
		r.Fatal("anchor: package %s not found", parserRel)
		return
	}
	info := pk.TypesInfo
	// lexer side
	lfd, _ := r.P.FuncDecl(parserRel, "Lexer.lexEscape")
	if lfd == nil {
		r.Fatal("anchor: parser.Lexer.lexEscape not found")
		return
	}
	// the runes lexEscape accepts after a backslash: everything the next symbol is compared
	// with, in a switch over it or in == comparisons
	lexSet := map[rune]bool{}
	var lexIdents []string
	isSym := rules.SymbolAtom(r.P, info, lfd)
	comparisons := 0
	addCmp := func(e ast.Expr) {
		comparisons++
		if k, ok := core.ConstInt(info, e); ok {
			lexSet[rune(k)] = true
		} else if id, ok := core.Unparen(e).(*ast.Ident); ok {
			lexIdents = append(lexIdents, id.Name)
		}
	}
	ast.Inspect(lfd.Body, func(n ast.Node) bool {
		switch x := n.(type) {
		case *ast.SwitchStmt:
			if x.Tag != nil && isSym(x.Tag) {
				for _, cl := range x.Body.List {
					for _, e := range cl.(*ast.CaseClause).List {
						addCmp(e)
					}
				}
			}
		case *ast.BinaryExpr:
			if x.Op == token.EQL || x.Op == token.NEQ {
				switch {
				case isSym(x.X):
					addCmp(x.Y)
				case isSym(x.Y):
					addCmp(x.X)
				}
			}
		}
		return true
	})
	if comparisons == 0 {
		r.Fatal("lexEscape: the escaped character is not compared with anything (unrecognised idiom)")
		return
	}
	if len(lexIdents) > 0 { // the `quote` parameter
		lexSet['"'] = true
	}
	// string openers: case '"' calling lexString in NextToken
	nfd, _ := r.P.FuncDecl(parserRel, "Lexer.NextToken")
	openers := map[rune]bool{}
	if nfd != nil {
		ast.Inspect(nfd.Body, func(n ast.Node) bool {
			cc, ok := n.(*ast.CaseClause)
			if !ok {
				return true
			}
			calls := false
			for _, st := range cc.Body {
				ast.Inspect(st, func(m ast.Node) bool {
					if c, ok := m.(*ast.CallExpr); ok && core.CalleeIs(info, c, parserRel, "Lexer.lexString") {
						calls = true
					}
					return true
				})
			}
			if calls {
				for _, e := range cc.List {
					if k, ok := core.ConstInt(info, e); ok {
						openers[rune(k)] = true
					}
				}
			}
			return true
		})
	}
	o := r.Add("R-CONST/escapes", "parser.Lexer.NextToken | string opener", nfd.Pos(), "characters that open a string literal")
	if len(openers) == 1 && openers['"'] {
		o.Auto("only '\"'")
	} else {
		o.Fail("string openers are %s; the formatter always emits '\"'", runeSetStr(openers))
	}
	// formatter side: tokenSource
	tfd, _ := r.P.FuncDecl(parserRel, "tokenSource")
	if tfd == nil {
		r.Fatal("anchor: parser.tokenSource not found")
		return
	}
	var tsw *ast.SwitchStmt
	ast.Inspect(tfd.Body, func(n ast.Node) bool {
		if sw, ok := n.(*ast.SwitchStmt); ok && tsw == nil {
			tsw = sw
		}
		return true
	})
	if tsw == nil {
		r.Fatal("tokenSource: no switch on the token type")
		return
	}
	cases := map[string]*ast.CaseClause{}
	for _, cl := range tsw.Body.List {
		cc := cl.(*ast.CaseClause)
		for _, e := range cc.List {
			cases[core.ExprStr(e)] = cc
		}
	}
	for _, tt := range []string{"STRING", "REGEX", "DESCRIPTION", "COMMENT", "BLOCK_COMMENT"} {
		o := r.Add("R-CONST/escapes", "parser.tokenSource | case "+tt, tfd.Pos(), "re-rendering of "+tt+" tokens")
		cc := cases[tt]
		if cc == nil {
			o.Fail("tokenSource has no case for %s: the token is printed without its delimiters", tt)
			continue
		}
		switch tt {
		case "STRING":
			// must be `return <escaper>(tok.Lit)` with a module escaper
			var callee *types.Func
			bad := ""
			for _, st := range cc.Body {
				ast.Inspect(st, func(n ast.Node) bool {
					if c, ok := n.(*ast.CallExpr); ok {
						name := core.CalleeName(info, c)
						if fn := core.CalleeFunc(info, c); fn != nil && fn.Pkg() == pk.Types {
							callee = fn
						} else if strings.HasPrefix(name, "fmt.") || strings.HasPrefix(name, "strconv.") || strings.HasPrefix(name, "strings.") {
							bad = name
						}
					}
					return true
				})
			}
			if bad != "" || callee == nil {
				o.Fail("STRING tokens are rendered with %s instead of an escaper matching lexEscape: Go's escape alphabet (\\n, \\t, \\uXXXX …) is not the BCL lexer's", bad)
				continue
			}
			why, ok := escaperMatches(r, info, callee, lexSet)
			if ok {
				o.Auto("%s", why)
			} else {
				o.Fail("%s", why)
			}
		case "REGEX":
			ok := false
			for _, st := range cc.Body {
				ast.Inspect(st, func(n ast.Node) bool {
					if c, isC := n.(*ast.CallExpr); isC && core.CalleeName(info, c) == "strings.ReplaceAll" {
						a, _ := core.ConstString(info, c.Args[1])
						b, _ := core.ConstString(info, c.Args[2])
						if a == "/" && b == "//" {
							ok = true
						}
					}
					return true
				})
			}
			if ok {
				o.Auto("'/' doubled, the inverse of lexRegex's '//' → '/'")
			} else {
				o.Fail("REGEX tokens are printed without doubling '/': a regex containing a slash is cut short when read back")
			}
		default:
			o.Auto("delimiters re-added")
		}
	}
	// lexRegex's only escape is //
	rfd, _ := r.P.FuncDecl(parserRel, "Lexer.lexRegex")
	if rfd != nil {
		o := r.Add("R-CONST/escapes", "parser.Lexer.lexRegex | escape set", rfd.Pos(), "regex escapes understood by the lexer")
		// what the character after a '/' is compared with
		peekSet := map[rune]bool{}
		isPeek := func(e ast.Expr) bool {
			c, ok := core.Unparen(e).(*ast.CallExpr)
			return ok && core.CalleeIs(info, c, parserRel, "Lexer.peek")
		}
		ast.Inspect(rfd.Body, func(nd ast.Node) bool {
			switch x := nd.(type) {
			case *ast.BinaryExpr:
				if x.Op == token.EQL || x.Op == token.NEQ {
					var other ast.Expr
					if isPeek(x.X) {
						other = x.Y
					} else if isPeek(x.Y) {
						other = x.X
					}
					if other != nil {
						if k, ok := core.ConstInt(info, other); ok {
							peekSet[rune(k)] = true
						} else {
							peekSet[-1] = true
						}
					}
				}
			case *ast.SwitchStmt:
				if x.Tag != nil && isPeek(x.Tag) {
					for _, cl := range x.Body.List {
						for _, e := range cl.(*ast.CaseClause).List {
							if k, ok := core.ConstInt(info, e); ok {
								peekSet[rune(k)] = true
							} else {
								peekSet[-1] = true
							}
						}
					}
				}
			}
			return true
		})
		if len(peekSet) == 1 && peekSet['/'] {
			o.Auto("'//' → '/' only")
		} else {
			o.Fail("lexRegex no longer has exactly the '//' escape (the character after a '/' is compared with %s)", runeSetStr(peekSet))
		}
	}
	r.Floor("R-CONST/escapes", 7, "opener, five token kinds, regex escape")
}

// escaperMatches: the function ranges over the runes of its argument, and
// under a switch whose rune cases equal want writes a backslash before the
// rune; it calls nothing but strings.Builder writes.
func escaperMatches(r *core.Run, info *types.Info, fn *types.Func, want map[rune]bool) (string, bool) {
	var fd *ast.FuncDecl
	pk := r.P.ByPkg[fn.Pkg().Path()]
	core.AllFuncDecls(pk, func(f *ast.FuncDecl) {
		if info.Defs[f.Name] == fn {
			fd = f
		}
	})
	if fd == nil {
		return "escaper source not found", false
	}
	var got map[rune]bool
	backslash := false
	bad := ""
	ast.Inspect(fd.Body, func(n ast.Node) bool {
		switch x := n.(type) {
		case *ast.SwitchStmt:
			if got == nil {
				got, _ = caseRunes(info, x, true)
				for _, cl := range x.Body.List {
					for _, st := range cl.(*ast.CaseClause).Body {
						ast.Inspect(st, func(m ast.Node) bool {
							if c, ok := m.(*ast.CallExpr); ok && len(c.Args) == 1 {
								if k, ok := core.ConstInt(info, c.Args[0]); ok && k == '\\' {
									backslash = true
								}
							}
							return true
						})
					}
				}
			}
		case *ast.CallExpr:
			name := core.CalleeName(info, x)
			if strings.HasPrefix(name, "fmt.") || strings.HasPrefix(name, "strconv.") || strings.HasPrefix(name, "strings.Replace") || strings.HasPrefix(name, "strings.NewReplacer") {
				bad = name
			}
		}
		return true
	})
	switch {
	case bad != "":
		return fmt.Sprintf("escaper %s post-processes the text with %s: text-level rewriting can hit characters produced by other escapes", fn.Name(), bad), false
	case got == nil || !backslash:
		return fmt.Sprintf("escaper %s has no rune switch writing a backslash", fn.Name()), false
	}
	for k := range want {
		if !got[k] {
			return fmt.Sprintf("lexer accepts the escape of %q but %s does not escape it (escapes %s)", k, fn.Name(), runeSetStr(got)), false
		}
	}
	for k := range got {
		if !want[k] {
			return fmt.Sprintf("%s escapes %q, which lexEscape rejects as an invalid escape (accepts %s)", fn.Name(), k, runeSetStr(want)), false
		}
	}
	return fmt.Sprintf("%s escapes exactly %s, the set lexEscape accepts", fn.Name(), runeSetStr(got)), true
}

// fragmentCoverage (R-EXH/X3): diffFile handles every fragment type
// nextFragment can return.
func fragmentCoverage(r *core.Run) {
	r.Rule("R-EXH/X3", "every concrete type implementing parser.Fragment has a case in fmter.diffFile's type switch (its default arm panics), so no statement kind the parser produces is dropped or crashes the formatter")
	rules.ProducerConsumer(r, parserRel, "Walker.nextFragment", 0, parserRel, "fmter.diffFile")
}

// astFieldCoverage (R-SYM/S2 parser→formatter).
func astFieldCoverage(r *core.Run) {
	r.Rule("R-SYM/S2f", "every field of the statement types (BlockHeader, Assignment, TagValue, Description, Comment, CloseBlock, Reference, Value) that the parser sets is read by the formatter (fmt.go): a field the formatter ignores is dropped from the formatted text")
	pk := r.P.Pkg(parserRel)
	info := pk.TypesInfo
	types_ := map[string]bool{"BlockHeader": true, "Assignment": true, "TagValue": true, "Description": true, "Comment": true, "CloseBlock": true, "Reference": true, "Value": true, "SourceNode": true}
	_, pbodies := rules.FuncBodies(r, parserRel, "parser.go", "expressions.go")
	_, fbodies := rules.FuncBodies(r, parserRel, "fmt.go", "description.go")
	written := map[string]token.Pos{}
	for _, b := range pbodies {
		ast.Inspect(b, func(n ast.Node) bool {
			switch x := n.(type) {
			case *ast.CompositeLit:
				nt := core.NamedOf(info.TypeOf(x))
				if nt == nil || nt.Obj().Pkg() != pk.Types || !types_[nt.Obj().Name()] {
					return true
				}
				for _, e := range x.Elts {
					if kv, ok := e.(*ast.KeyValueExpr); ok {
						k := nt.Obj().Name() + "." + core.ExprStr(kv.Key)
						if _, seen := written[k]; !seen {
							written[k] = kv.Pos()
						}
					}
				}
			case *ast.AssignStmt:
				for _, l := range x.Lhs {
					if s, ok := l.(*ast.SelectorExpr); ok {
						if sel, ok := info.Selections[s]; ok && sel.Kind() == types.FieldVal {
							if nt := core.NamedOf(sel.Recv()); nt != nil && nt.Obj().Pkg() == pk.Types {
								owner := fieldOwner(nt, s.Sel.Name)
								if types_[owner] {
									k := owner + "." + s.Sel.Name
									if _, seen := written[k]; !seen {
										written[k] = x.Pos()
									}
								}
							}
						}
					}
				}
			}
			return true
		})
	}
	read := map[string]bool{}
	for _, b := range fbodies {
		ast.Inspect(b, func(n ast.Node) bool {
			if s, ok := n.(*ast.SelectorExpr); ok {
				if sel, ok := info.Selections[s]; ok && sel.Kind() == types.FieldVal {
					if nt := core.NamedOf(sel.Recv()); nt != nil && nt.Obj().Pkg() == pk.Types {
						read[fieldOwner(nt, s.Sel.Name)+"."+s.Sel.Name] = true
					}
				}
			}
			return true
		})
	}
	allow := map[string]string{
		"SourceNode.Start":       "position: read by the diff builder (FromLine)",
		"SourceNode.End":         "position: read by the diff builder (ToLine)",
		"Description.Tokens":     "the reflowed description is rebuilt from Description.Value, which is the joined token literals",
		"Value.unknownValue":     "internal type marker, no text",
		"Reference.unknownValue": "internal type marker, no text",
		"TagValue.unknownValue":  "internal type marker, no text",
		"Description.SourceNode": "embedded position",
	}
	var ks []string
	for k := range written {
		ks = append(ks, k)
	}
	sort.Strings(ks)
	for _, k := range ks {
		if strings.HasSuffix(k, ".SourceNode") {
			continue
		}
		o := r.Add("R-SYM/S2f", "parser→fmt | "+k, written[k], "field "+k+" set by the parser")
		switch {
		case read[k]:
			o.Auto("read by the formatter")
		case allow[k] != "":
			o.Status = "table:" + allow[k]
		default:
			o.Fail("the parser records %s but fmt.go never reads it: whatever it holds disappears from the formatted text", k)
		}
	}
	r.Floor("R-SYM/S2f", 12, "statement fields")
}

// fieldOwner returns the name of the struct type (possibly embedded) that
// declares the field.
func fieldOwner(nt *types.Named, field string) string {
	st, ok := nt.Underlying().(*types.Struct)
	if !ok {
		return nt.Obj().Name()
	}
	for i := 0; i < st.NumFields(); i++ {
		f := st.Field(i)
		if f.Name() == field {
			return nt.Obj().Name()
		}
	}
	for i := 0; i < st.NumFields(); i++ {
		f := st.Field(i)
		if f.Embedded() {
			if en := core.NamedOf(f.Type()); en != nil {
				if o := fieldOwner(en, field); o != en.Obj().Name() || hasField(en, field) {
					return o
				}
			}
		}
	}
	return nt.Obj().Name()
}

func hasField(nt *types.Named, field string) bool {
	st, ok := nt.Underlying().(*types.Struct)
	if !ok {
		return false
	}
	for i := 0; i < st.NumFields(); i++ {
		if st.Field(i).Name() == field {
			return true
		}
	}
	return false
}

// positionsAssigned (R-POS): definite assignment of Start and End.
func positionsAssigned(r *core.Run) {
	r.Rule("R-POS", "every SourceNode the parser builds has both Start and End assigned on every path that returns the value without an error: either the SourceNode literal sets both, or the literal sets Start and every such return is preceded on all CFG paths by an assignment to <value>.End (token positions come only from the lexer)")
	pk := r.P.Pkg(parserRel)
	if pk == nil {
		r.Fatal("anchor: package %s not found", parserRel)
		return
	}
	info := pk.TypesInfo
	nlit := 0
	core.AllFuncDecls(pk, func(fd *ast.FuncDecl) {
		file := r.P.Fset.Position(fd.Pos()).Filename
		if strings.HasSuffix(file, "_test.go") {
			return
		}
		// SourceNode literals
		ast.Inspect(fd.Body, func(n ast.Node) bool {
			cl, ok := n.(*ast.CompositeLit)
			if !ok || core.TypeStr(info.TypeOf(cl)) != parserRel+".SourceNode" {
				return true
			}
			nlit++
			set := map[string]bool{}
			for _, e := range cl.Elts {
				if kv, ok := e.(*ast.KeyValueExpr); ok {
					set[core.ExprStr(kv.Key)] = true
				}
			}
			o := r.Add("R-POS", fmt.Sprintf("parser.%s | SourceNode literal %s", core.FuncName(fd), litSig(fd, cl)), cl.Pos(), "positions of a node built in "+core.FuncName(fd))
			switch {
			case set["Start"] && set["End"]:
				o.Auto("literal sets Start and End")
			case set["Start"]:
				// which variable holds the enclosing value?
				v := holderVar(info, fd, cl)
				if v == "" {
					o.Fail("literal sets only Start and the value is not held in a local variable: End stays zero")
					return true
				}
				if why, ok := endAssignedOnAllReturns(info, fd, v, cl.Pos()); ok {
					o.Auto("%s", why)
				} else {
					o.Fail("%s", why)
				}
			default:
				o.Fail("SourceNode literal sets neither/only End: the node's start position is (0,0)")
			}
			return true
		})
	})
	r.Analysed["sourcenode_literals"] = nlit
	r.Floor("R-POS", 5, "SourceNode literals in the parser (fewer when a token-span helper builds them)")
}

func litSig(fd *ast.FuncDecl, cl *ast.CompositeLit) string {
	// ordinal of the literal inside the function (stable under line shifts)
	n, idx := 0, 0
	ast.Inspect(fd.Body, func(x ast.Node) bool {
		if c, ok := x.(*ast.CompositeLit); ok && core.ExprStr(c.Type) == "SourceNode" {
			n++
			if c == cl {
				idx = n
			}
		}
		return true
	})
	return fmt.Sprintf("#%d", idx)
}

// holderVar: the SourceNode literal is a field value of a composite literal
// assigned to a local (hdr := BlockHeader{… SourceNode: SourceNode{…}}).
func holderVar(info *types.Info, fd *ast.FuncDecl, cl *ast.CompositeLit) string {
	name := ""
	ast.Inspect(fd.Body, func(n ast.Node) bool {
		as, ok := n.(*ast.AssignStmt)
		if !ok || len(as.Lhs) != 1 || len(as.Rhs) != 1 {
			return true
		}
		if as.Rhs[0].Pos() <= cl.Pos() && cl.End() <= as.Rhs[0].End() {
			if id, ok := as.Lhs[0].(*ast.Ident); ok {
				name = id.Name
			}
		}
		return true
	})
	return name
}

// endAssignedOnAllReturns: on every CFG path from the literal to a return of
// v with a nil second result, `v.End = …` (or v.SourceNode.End) was executed.
func endAssignedOnAllReturns(info *types.Info, fd *ast.FuncDecl, v string, litPos token.Pos) (string, bool) {
	g := cfg.New(fd.Body, func(c *ast.CallExpr) bool { return core.CalleeName(info, c) != "builtin.panic" })
	assignsEnd := func(n ast.Node) bool {
		found := false
		ast.Inspect(n, func(x ast.Node) bool {
			if as, ok := x.(*ast.AssignStmt); ok {
				for _, l := range as.Lhs {
					s := core.ExprStr(l)
					if s == v+".End" || s == v+".SourceNode.End" {
						found = true
					}
				}
			}
			return true
		})
		return found
	}
	isGoodReturn := func(n ast.Node) (*ast.ReturnStmt, bool) {
		ret, ok := n.(*ast.ReturnStmt)
		if !ok || len(ret.Results) == 0 || core.ExprStr(ret.Results[0]) != v {
			return nil, false
		}
		if len(ret.Results) > 1 && !core.IsNilIdent(info, ret.Results[len(ret.Results)-1]) {
			return nil, false
		}
		return ret, true
	}
	// forward must-analysis from the literal
	type st struct {
		b *cfg.Block
		i int
	}
	var start *st
	for _, b := range g.Blocks {
		for i, n := range b.Nodes {
			if n.Pos() <= litPos && litPos <= n.End() {
				start = &st{b, i + 1}
			}
		}
	}
	if start == nil {
		return "cannot place the literal in the control-flow graph", false
	}
	visited := map[*cfg.Block]bool{}
	bad := ""
	nret := 0
	var walk func(b *cfg.Block, from int)
	walk = func(b *cfg.Block, from int) {
		for i := from; i < len(b.Nodes); i++ {
			if assignsEnd(b.Nodes[i]) {
				return // End assigned on this path
			}
			if ret, ok := isGoodReturn(b.Nodes[i]); ok {
				nret++
				bad = fmt.Sprintf("return %s without an error at line %d is reachable from the literal without passing `%s.End = …`: the node's End stays (0,0)", v, 0, v)
				_ = ret
				return
			}
		}
		for _, s := range b.Succs {
			if !visited[s] {
				visited[s] = true
				walk(s, 0)
			}
		}
	}
	walk(start.b, start.i)
	if bad != "" {
		return bad, false
	}
	return fmt.Sprintf("every error-free return of %s is preceded by an assignment to %s.End", v, v), true
}

// errorListDiscipline: collect-all keeps the first diagnostic first.
func errorListDiscipline(r *core.Run) {
	r.Rule("R-POS/errs", "Walker.errors and Lexer.Errors are only ever extended by tail append (so collect-all mode reports the fail-fast diagnostic first), and HadErrors is returned only after an append to the error list")
	pk := r.P.Pkg(parserRel)
	info := pk.TypesInfo
	n := 0
	core.AllFuncDecls(pk, func(fd *ast.FuncDecl) {
		ast.Inspect(fd.Body, func(nd ast.Node) bool {
			as, ok := nd.(*ast.AssignStmt)
			if !ok || len(as.Lhs) != 1 {
				return true
			}
			s, ok := as.Lhs[0].(*ast.SelectorExpr)
			if !ok || (s.Sel.Name != "errors" && s.Sel.Name != "Errors") {
				return true
			}
			recv := core.TypeStr(info.TypeOf(s.X))
			if !strings.HasSuffix(recv, "parser.Walker") && !strings.HasSuffix(recv, "parser.Lexer") {
				return true
			}
			n++
			o := r.Add("R-POS/errs", fmt.Sprintf("parser.%s | %s = %s", core.FuncName(fd), core.ExprStr(s), rhsHead(as.Rhs[0])), as.Pos(), "write to the diagnostic list")
			if c, ok := core.Unparen(as.Rhs[0]).(*ast.CallExpr); ok && (core.CalleeName(info, c) == "builtin.append" && core.ExprStr(c.Args[0]) == core.ExprStr(s) || strings.HasSuffix(core.CalleeName(info, c), "Errors).Append")) {
				o.Auto("tail append")
			} else {
				o.Fail("the diagnostic list is rewritten rather than appended to: order of diagnostics can change")
			}
			return true
		})
	})
	if n == 0 {
		r.Fatal("R-POS/errs: no writes to Walker.errors / Lexer.Errors found (anchor moved?)")
	}
	// what is handed out is the accumulated list itself, never a merged or
	// re-ordered copy: fail-fast reports the first entry of that list
	m := 0
	core.AllFuncDecls(pk, func(fd *ast.FuncDecl) {
		ast.Inspect(fd.Body, func(nd ast.Node) bool {
			switch x := nd.(type) {
			case *ast.KeyValueExpr:
				k, ok := x.Key.(*ast.Ident)
				if !ok || k.Name != "Errors" || !strings.HasSuffix(core.TypeStr(info.TypeOf(x.Value)), "errpos.Errors") {
					return true
				}
				m++
				o := r.Add("R-POS/errs", fmt.Sprintf("parser.%s | File{Errors: %s}", core.FuncName(fd), core.ExprStr(x.Value)), x.Pos(), "diagnostic list handed to the caller")
				if sel, ok := core.Unparen(x.Value).(*ast.SelectorExpr); ok && (sel.Sel.Name == "errors" || sel.Sel.Name == "Errors") {
					o.Auto("the accumulated list itself")
				} else {
					o.Fail("the caller receives %s, not the list the walker accumulated in order of discovery: collect-all mode need not report the fail-fast diagnostic first", core.ExprStr(x.Value))
				}
			case *ast.CallExpr:
				name := core.CalleeName(info, x)
				if (strings.HasPrefix(name, "sort.") || strings.HasPrefix(name, "slices.Sort")) && len(x.Args) > 0 && strings.HasSuffix(core.TypeStr(info.TypeOf(x.Args[0])), "errpos.Errors") {
					m++
					o := r.Add("R-POS/errs", fmt.Sprintf("parser.%s | %s(%s)", core.FuncName(fd), name, core.ExprStr(x.Args[0])), x.Pos(), "re-ordering of diagnostics")
					o.Fail("diagnostics are sorted: the first entry is no longer the first error met, which is what fail-fast mode reports")
				}
			}
			return true
		})
	})
	if m == 0 {
		r.Fatal("R-POS/errs: no File{Errors: …} literal found in the parser (anchor moved?)")
	}
}

// lexerPositions: token positions come only from getPosition.
func lexerPositions(r *core.Run) {
	r.Rule("R-POS/lexer", "every Token literal built by the lexer takes Start and End from Lexer.getPosition() (directly or through a local assigned from it); line and column are modified only in Lexer.next")
	pk := r.P.Pkg(parserRel)
	info := pk.TypesInfo
	n := 0
	core.AllFuncDecls(pk, func(fd *ast.FuncDecl) {
		if core.RecvName(fd) != "Lexer" {
			return
		}
		ast.Inspect(fd.Body, func(nd ast.Node) bool {
			cl, ok := nd.(*ast.CompositeLit)
			if !ok || core.TypeStr(info.TypeOf(cl)) != parserRel+".Token" {
				return true
			}
			vals := map[string]ast.Expr{}
			for _, e := range cl.Elts {
				if kv, ok := e.(*ast.KeyValueExpr); ok {
					vals[core.ExprStr(kv.Key)] = kv.Value
				}
			}
			if len(vals) == 0 {
				return true // Token{} on error paths
			}
			n++
			o := r.Add("R-POS/lexer", fmt.Sprintf("parser.%s | Token literal %s", core.FuncName(fd), core.ExprStr(vals["Type"])), cl.Pos(), "token positions")
			var okPosIn func(in *ast.FuncDecl, e ast.Expr, depth int) bool
			okPosIn = func(in *ast.FuncDecl, e ast.Expr, depth int) bool {
				if e == nil || depth > 2 {
					return false
				}
				if c, ok := core.Unparen(e).(*ast.CallExpr); ok && core.CalleeIs(info, c, parserRel, "Lexer.getPosition") {
					return true
				}
				if a := aliasExprOf(info, in, e); a != nil {
					if c, ok := core.Unparen(a).(*ast.CallExpr); ok && core.CalleeIs(info, c, parserRel, "Lexer.getPosition") {
						return true
					}
				}
				// a parameter: every caller in the package must hand in a lexer position
				id, ok := core.Unparen(e).(*ast.Ident)
				if !ok || in.Type.Params == nil {
					return false
				}
				idx, i := -1, 0
				for _, f := range in.Type.Params.List {
					for _, nm := range f.Names {
						if info.Defs[nm] == info.Uses[id] {
							idx = i
						}
						i++
					}
				}
				if idx < 0 {
					return false
				}
				callers, good := 0, 0
				core.AllFuncDecls(pk, func(cfd *ast.FuncDecl) {
					ast.Inspect(cfd.Body, func(x ast.Node) bool {
						c, ok := x.(*ast.CallExpr)
						if !ok || idx >= len(c.Args) {
							return true
						}
						if fn := core.CalleeFunc(info, c); fn != nil && types.Object(fn) == info.Defs[in.Name] {
							callers++
							if okPosIn(cfd, c.Args[idx], depth+1) {
								good++
							}
						}
						return true
					})
				})
				return callers > 0 && callers == good
			}
			okPos := func(e ast.Expr) bool { return okPosIn(fd, e, 0) }
			if okPos(vals["Start"]) && okPos(vals["End"]) {
				o.Auto("Start and End from getPosition()")
			} else {
				o.Fail("Start/End of the token are %s / %s, not lexer positions", exprOrNone(vals["Start"]), exprOrNone(vals["End"]))
			}
			return true
		})
		// writers of line/column
		ast.Inspect(fd.Body, func(nd ast.Node) bool {
			var lhs []ast.Expr
			switch x := nd.(type) {
			case *ast.AssignStmt:
				lhs = x.Lhs
			case *ast.IncDecStmt:
				lhs = []ast.Expr{x.X}
			}
			for _, l := range lhs {
				s := core.ExprStr(l)
				isPosField := false
				if sel, ok := core.Unparen(l).(*ast.SelectorExpr); ok && strings.HasSuffix(core.TypeStr(info.TypeOf(sel.X)), "parser.Lexer") {
					switch sel.Sel.Name {
					case "line", "column", "linePos", "col":
						isPosField = true
					}
				}
				if isPosField {
					o := r.Add("R-POS/lexer", fmt.Sprintf("parser.%s | writes %s", core.FuncName(fd), s), nd.Pos(), "writer of the lexer position")
					if nx, _ := r.P.FuncDecl(parserRel, "Lexer.next"); fd == nx || fd.Name.Name == "NewLexer" {
						o.Auto("inside Lexer.next")
					} else {
						o.Fail("the lexer position is modified outside Lexer.next")
					}
				}
			}
			return true
		})
	})
	r.Floor("R-POS/lexer", 6, "token literals")
}

func exprOrNone(e ast.Expr) string {
	if e == nil {
		return "<unset>"
	}
	return core.ExprStr(e)
}

// fmtDiffForms: the line arithmetic of edits.
func fmtDiffForms(r *core.Run) {
	r.Rule("R-CONST/fmtdiff", "every per-fragment FmtDiff is {FromLine: <src>.Start.Line, ToLine: <src>.End.Line + 1} for the same source node; FmtDiffs' gap edits are {FromLine: 0 | lastEnd, ToLine: diff.FromLine} with lastEnd = diff.ToLine of the previous fragment, appended in fragment order; the LSP edit maps FromLine/ToLine to the range start/end lines with character 0")
	pk := r.P.Pkg(parserRel)
	info := pk.TypesInfo
	mainFd, _ := r.P.FuncDecl(parserRel, "FmtDiffs")
	if mainFd == nil {
		r.Fatal("anchor: parser.FmtDiffs not found")
		return
	}
	isDiffT := func(t types.Type) bool { return t != nil && core.TypeStr(t) == parserRel+".FmtDiff" }
	// construction sites of FmtDiff values: literals, with a constructor helper's
	// parameters replaced by the arguments of each of its call sites
	type site struct {
		in       *ast.FuncDecl // function whose locals the expressions refer to
		from, to ast.Expr
		pos      token.Pos
	}
	var sites []site
	paramIndex := func(fd *ast.FuncDecl, e ast.Expr) int {
		id, ok := core.Unparen(e).(*ast.Ident)
		if !ok {
			return -1
		}
		i := 0
		for _, f := range fd.Type.Params.List {
			for _, nm := range f.Names {
				if info.Defs[nm] == info.Uses[id] {
					return i
				}
				i++
			}
		}
		return -1
	}
	var expand func(fd *ast.FuncDecl, from, to ast.Expr, pos token.Pos, depth int)
	expand = func(fd *ast.FuncDecl, from, to ast.Expr, pos token.Pos, depth int) {
		fi, ti := -1, -1
		if from != nil {
			fi = paramIndex(fd, from)
		}
		if to != nil {
			ti = paramIndex(fd, to)
		}
		if (fi < 0 && ti < 0) || depth <= 0 {
			sites = append(sites, site{fd, from, to, pos})
			return
		}
		fobj := info.Defs[fd.Name]
		found := false
		core.AllFuncDecls(pk, func(caller *ast.FuncDecl) {
			if caller.Body == nil {
				return
			}
			ast.Inspect(caller.Body, func(n ast.Node) bool {
				c, ok := n.(*ast.CallExpr)
				if !ok {
					return true
				}
				if fn := core.CalleeFunc(info, c); fn == nil || fn.Origin() != fobj {
					return true
				}
				found = true
				f2, t2 := from, to
				if fi >= 0 && fi < len(c.Args) {
					f2 = c.Args[fi]
				}
				if ti >= 0 && ti < len(c.Args) {
					t2 = c.Args[ti]
				}
				if (fi >= 0) != (ti >= 0) {
					// one bound from the helper, one from the caller: judged as written in the helper
					sites = append(sites, site{fd, from, to, pos})
					return true
				}
				expand(caller, f2, t2, c.Pos(), depth-1)
				return true
			})
		})
		if !found {
			sites = append(sites, site{fd, from, to, pos})
		}
	}
	core.AllFuncDecls(pk, func(fd *ast.FuncDecl) {
		if fd.Body == nil {
			return
		}
		ast.Inspect(fd.Body, func(nd ast.Node) bool {
			cl, ok := nd.(*ast.CompositeLit)
			if !ok || !isDiffT(info.TypeOf(cl)) {
				return true
			}
			var from, to ast.Expr
			for _, e := range cl.Elts {
				if kv, ok := e.(*ast.KeyValueExpr); ok {
					switch core.ExprStr(kv.Key) {
					case "FromLine":
						from = kv.Value
					case "ToLine":
						to = kv.Value
					}
				}
			}
			if from == nil && to == nil {
				// filled by assignment: x := FmtDiff{}; x.FromLine = …
				return true
			}
			expand(fd, from, to, cl.Pos(), 2)
			return true
		})
	})
	// the loop of FmtDiffs over the fragments and its gap-tracking variable
	var loop *ast.RangeStmt
	ast.Inspect(mainFd.Body, func(nd ast.Node) bool {
		if rs, ok := nd.(*ast.RangeStmt); ok && loop == nil {
			if sl, ok := info.TypeOf(rs.X).Underlying().(*types.Slice); ok && isDiffT(sl.Elem()) {
				loop = rs
			}
		}
		return true
	})
	var rv types.Object
	if loop != nil {
		if id, ok := loop.Value.(*ast.Ident); ok {
			rv = info.Defs[id]
		}
	}
	isRvField := func(e ast.Expr, field string) bool {
		s, ok := core.Unparen(e).(*ast.SelectorExpr)
		if !ok || s.Sel.Name != field || rv == nil {
			return false
		}
		id, ok := core.Unparen(s.X).(*ast.Ident)
		return ok && info.Uses[id] == rv
	}
	// variables advanced to <fragment>.ToLine inside the loop
	tracked := map[types.Object]bool{}
	if loop != nil {
		ast.Inspect(loop.Body, func(nd ast.Node) bool {
			if as, ok := nd.(*ast.AssignStmt); ok && len(as.Lhs) == 1 && len(as.Rhs) == 1 && isRvField(as.Rhs[0], "ToLine") {
				if id, ok := as.Lhs[0].(*ast.Ident); ok && info.Uses[id] != nil {
					tracked[info.Uses[id]] = true
				}
			}
			return true
		})
	}
	usedTracked := false
	for _, st := range sites {
		from, to := exprOrNone(st.from), exprOrNone(st.to)
		o := r.Add("R-CONST/fmtdiff", fmt.Sprintf("parser.%s | FmtDiff{From: %s, To: %s}", core.FuncName(st.in), core.NormExpr(info, st.from), core.NormExpr(info, st.to)), st.pos, "edit line range")
		nodeOf := func(e ast.Expr, field string) string {
			// X.<field>.Line
			s, ok := core.Unparen(e).(*ast.SelectorExpr)
			if !ok || s.Sel.Name != "Line" {
				return ""
			}
			s2, ok := core.Unparen(s.X).(*ast.SelectorExpr)
			if !ok || s2.Sel.Name != field {
				return ""
			}
			return core.ExprStr(s2.X)
		}
		fragNode := ""
		if st.from != nil && st.to != nil {
			if b, ok := core.Unparen(st.to).(*ast.BinaryExpr); ok && b.Op == token.ADD {
				if k, isC := core.ConstInt(info, b.Y); isC && k == 1 {
					if a, e := nodeOf(st.from, "Start"), nodeOf(b.X, "End"); a != "" && a == e {
						fragNode = a
					}
				}
			}
		}
		gap := false
		if st.in == mainFd && st.to != nil && st.from != nil && loop != nil && loop.Body.Pos() <= st.pos && st.pos < loop.Body.End() && isRvField(st.to, "FromLine") {
			if k, isC := core.ConstInt(info, st.from); isC && k == 0 {
				gap = true
			} else if id, ok := core.Unparen(st.from).(*ast.Ident); ok && tracked[info.Uses[id]] {
				gap, usedTracked = true, true
			}
		}
		switch {
		case fragNode != "":
			o.Auto("fragment edit: [Start.Line, End.Line+1) of the same node")
		case gap:
			o.Auto("gap edit from 0 or the end of the previous fragment up to the next fragment")
		default:
			o.Fail("edit range [%s, %s) is not [node.Start.Line, node.End.Line+1) of one node (or a gap edit from 0 / the previous fragment's ToLine to the next fragment's FromLine): applying the edits no longer reproduces the formatter's output", from, to)
		}
	}
	{
		o := r.Add("R-CONST/fmtdiff", "parser.FmtDiffs | lastEnd update", mainFd.Pos(), "gap tracking")
		switch {
		case loop == nil:
			o.Fail("no loop over the fragments found in FmtDiffs")
		case len(tracked) == 0:
			o.Fail("no variable is advanced to the ToLine of the fragment in hand: gaps cannot be measured from the end of the previous fragment")
		case !usedTracked:
			o.Fail("the variable advanced to the fragment's ToLine is not the start of any gap edit")
		default:
			o.Auto("a variable is advanced to the fragment's ToLine in the loop and starts the gap edit")
		}
	}
	// LSP mapping
	lfd, lpk := r.P.FuncDecl("internal/bcl/genlsp", "astFormatter.Format")
	if lfd == nil {
		r.Fatal("anchor: genlsp.astFormatter.Format not found")
		return
	}
	// Start.Line ← FromLine and End.Line ← ToLine of one FmtDiff value, wherever
	// the conversion lives (Format itself or a helper it calls)
	got := map[string]string{}
	chars := map[string]string{}
	ast.Inspect(core.TreeBody(lpk, lfd), func(nd ast.Node) bool {
		kv, ok := nd.(*ast.KeyValueExpr)
		if !ok {
			return true
		}
		which := core.ExprStr(kv.Key)
		if which != "Start" && which != "End" {
			return true
		}
		cl, ok := core.Unparen(kv.Value).(*ast.CompositeLit)
		if !ok {
			return true
		}
		for _, e := range cl.Elts {
			ikv, ok := e.(*ast.KeyValueExpr)
			if !ok {
				continue
			}
			switch core.ExprStr(ikv.Key) {
			case "Line":
				v := core.Unparen(ikv.Value)
				if c, isCall := v.(*ast.CallExpr); isCall && core.IsConversion(lpk.TypesInfo, c) && len(c.Args) == 1 {
					v = core.Unparen(c.Args[0])
				}
				// a parameter of a range-building helper: what Format passes for it
				if id, isID := v.(*ast.Ident); isID {
					if hd := core.EnclosingFunc(lpk, id.Pos()); hd != nil && hd != lfd {
						pi, k := -1, 0
						for _, fl := range hd.Type.Params.List {
							for _, nm := range fl.Names {
								if lpk.TypesInfo.Defs[nm] == lpk.TypesInfo.ObjectOf(id) {
									pi = k
								}
								k++
							}
						}
						if pi >= 0 {
							target := lpk.TypesInfo.Defs[hd.Name]
							ast.Inspect(core.TreeBody(lpk, lfd), func(m ast.Node) bool {
								if c, ok := m.(*ast.CallExpr); ok && pi < len(c.Args) {
									if fn := core.CalleeFunc(lpk.TypesInfo, c); fn != nil && types.Object(fn.Origin()) == target {
										v = core.Unparen(c.Args[pi])
									}
								}
								return true
							})
						}
					}
				}
				if sel, isSel := v.(*ast.SelectorExpr); isSel && strings.HasSuffix(core.TypeStr(lpk.TypesInfo.TypeOf(sel.X)), "parser.FmtDiff") {
					got[which] = sel.Sel.Name
				} else {
					got[which] = core.ExprStr(ikv.Value)
				}
			case "Character":
				chars[which] = core.ExprStr(ikv.Value)
			}
		}
		return true
	})
	o := r.Add("R-CONST/fmtdiff", "genlsp.astFormatter.Format | line mapping", lfd.Pos(), "LSP range lines")
	if got["Start"] == "FromLine" && got["End"] == "ToLine" && chars["Start"] == "0" && chars["End"] == "0" {
		o.Auto("start line FromLine, end line ToLine, character 0")
	} else {
		o.Fail("LSP range is Start{Line: %s, Character: %s} End{Line: %s, Character: %s}, expected FromLine/0 and ToLine/0", got["Start"], chars["Start"], got["End"], chars["End"])
	}
	r.Floor("R-CONST/fmtdiff", 5, "fragment form(s), two gap forms, gap tracking, LSP mapping")
}

// tokenTextOpaque (R-CONST/opaque): once a token has been rendered
// (tokenSource / quoteString), its text may contain anything the lexer
// accepts inside the delimiters — including line breaks inside strings — and
// must reach the output unchanged. The functions that assemble output lines
// from tokens may concatenate and indent, but not split, trim or replace.
func tokenTextOpaque(r *core.Run) {
	r.Rule("R-CONST/opaque", "a formatter function that assembles output from tokens (takes Token parameters or calls tokenSource) applies no text-rewriting function (strings.Split*, Replace*, Trim*, Fields, Map, ToLower/ToUpper, regexp) to the assembled text: rendered string and regex literals may span lines and contain any character")
	pk := r.P.Pkg(parserRel)
	if pk == nil {
		return
	}
	info := pk.TypesInfo
	rewriting := func(name string) bool {
		if strings.HasPrefix(name, "regexp.") || strings.HasPrefix(name, "(*regexp.") {
			return true
		}
		if !strings.HasPrefix(name, "strings.") {
			return false
		}
		f := strings.TrimPrefix(name, "strings.")
		return strings.HasPrefix(f, "Split") || strings.HasPrefix(f, "Replace") || strings.HasPrefix(f, "Trim") || f == "Fields" || f == "FieldsFunc" || f == "Map" || strings.HasPrefix(f, "To")
	}
	n := 0
	core.AllFuncDecls(pk, func(fd *ast.FuncDecl) {
		if !strings.HasSuffix(r.P.Fset.Position(fd.Pos()).Filename, "fmt.go") {
			return
		}
		// token assembler?
		assembles := false
		if fd.Type.Params != nil {
			for _, p := range fd.Type.Params.List {
				ts := core.TypeStr(info.TypeOf(p.Type))
				if strings.HasSuffix(ts, "parser.Token") {
					assembles = true
				}
			}
		}
		ast.Inspect(fd.Body, func(nd ast.Node) bool {
			if c, ok := nd.(*ast.CallExpr); ok && core.CalleeIs(info, c, parserRel, "tokenSource") {
				assembles = true
			}
			return true
		})
		if ts, _ := r.P.FuncDecl(parserRel, "tokenSource"); !assembles || fd == ts || fd.Name.Name == "quoteString" {
			return
		}
		n++
		o := r.Add("R-CONST/opaque", "parser."+core.FuncName(fd)+" | rendered token text is only concatenated", fd.Pos(), "assembly of output text from tokens")
		var bad []string
		ast.Inspect(fd.Body, func(nd ast.Node) bool {
			if c, ok := nd.(*ast.CallExpr); ok {
				if name := core.CalleeName(info, c); rewriting(name) {
					bad = append(bad, fmt.Sprintf("%s at %s", name, r.P.Rel(c.Pos())))
				}
			}
			return true
		})
		if len(bad) == 0 {
			o.Auto("no splitting, trimming or replacing of assembled text")
		} else {
			o.Fail("the assembled line is rewritten (%s): a string literal that contains an escaped line break or the rewritten characters changes its value when formatted", strings.Join(bad, ", "))
		}
	})
	if n == 0 {
		r.Fatal("R-CONST/opaque: no token-assembling function found in fmt.go (anchor moved?)")
	}
}

// positionsCoverConsumed (R-POS/cover): a production that takes a node's
// Start and End from a list of the tokens it popped must keep that list
// complete: once a token has been consumed it belongs to the node's source
// range, or the per-fragment edits of the formatter leave the tail of the
// node uncovered.
func positionsCoverConsumed(r *core.Run) {
	r.Rule("R-POS/cover", "in the parser, a token slice whose first and last elements provide a node's Start and End (X[0].Start, X[len(X)-1].End) is only ever extended by append: tokens the production consumed are never dropped from it, so the node's range covers everything that was consumed")
	pk := r.P.Pkg(parserRel)
	if pk == nil {
		return
	}
	info := pk.TypesInfo
	n := 0
	core.AllFuncDecls(pk, func(fd *ast.FuncDecl) {
		used := map[string]ast.Node{}
		ast.Inspect(fd.Body, func(nd ast.Node) bool {
			kv, ok := nd.(*ast.KeyValueExpr)
			if !ok {
				return true
			}
			k, ok := kv.Key.(*ast.Ident)
			if !ok || (k.Name != "Start" && k.Name != "End") {
				return true
			}
			// X[...].Start / X[...].End
			sel, ok := core.Unparen(kv.Value).(*ast.SelectorExpr)
			if !ok {
				return true
			}
			ix, ok := core.Unparen(sel.X).(*ast.IndexExpr)
			if !ok {
				return true
			}
			if sl, isSlice := info.TypeOf(ix.X).Underlying().(*types.Slice); isSlice && strings.HasSuffix(core.TypeStr(sl.Elem()), "parser.Token") {
				used[core.ExprStr(ix.X)] = kv
			}
			return true
		})
		for name, at := range used {
			n++
			o := r.Add("R-POS/cover", fmt.Sprintf("parser.%s | token list %s", core.FuncName(fd), name), at.Pos(), "token list a node's range is taken from")
			var bad []string
			ast.Inspect(fd.Body, func(nd ast.Node) bool {
				as, ok := nd.(*ast.AssignStmt)
				if !ok {
					return true
				}
				for i, l := range as.Lhs {
					if core.ExprStr(l) != name || as.Tok == token.DEFINE {
						continue
					}
					var rhs ast.Expr
					if len(as.Rhs) == len(as.Lhs) {
						rhs = as.Rhs[i]
					} else {
						rhs = as.Rhs[0]
					}
					if c, ok := core.Unparen(rhs).(*ast.CallExpr); ok && core.CalleeName(info, c) == "builtin.append" && len(c.Args) > 0 && core.ExprStr(c.Args[0]) == name {
						continue
					}
					bad = append(bad, fmt.Sprintf("%s = %s at %s", name, core.ExprStr(rhs), r.P.Rel(as.Pos())))
				}
				return true
			})
			if len(bad) == 0 {
				o.Auto("only extended by append")
			} else {
				o.Fail("the list is rewritten (%s): tokens that were consumed can fall outside [Start, End], and the formatter's edit for this node no longer covers the lines they were on", strings.Join(bad, "; "))
			}
		}
	})
	if n == 0 {
		r.Fatal("R-POS/cover: no node takes its range from a token list (anchor moved?)")
	}
}

// editsDisjoint (R-CONST/disjoint): the per-fragment edits of the formatter
// can start on a line an earlier fragment already replaced (several statements
// on one line). What FmtDiffs works from must therefore have gone through a
// step that only starts a new edit when its first line is not below the
// previous edit's end.
func editsDisjoint(r *core.Run) {
	r.Rule("R-CONST/disjoint", "collectFmtFragments returns its fragment list through a function in which a fragment is appended as a new edit only on paths where `frag.FromLine < last.ToLine` is false (or the output is still empty): edits never overlap, whatever shares a source line")
	fd, pk := r.P.FuncDecl(parserRel, "collectFmtFragments")
	if fd == nil {
		r.Fatal("anchor: parser.collectFmtFragments not found")
		return
	}
	info := pk.TypesInfo
	o := r.Add("R-CONST/disjoint", "parser.collectFmtFragments | fragments are made disjoint before they are returned", fd.Pos(), "disjointness of format edits")
	// the success return: last return statement's first result
	var ret *ast.ReturnStmt
	if n := len(fd.Body.List); n > 0 {
		ret, _ = fd.Body.List[n-1].(*ast.ReturnStmt)
	}
	if ret == nil || len(ret.Results) == 0 {
		o.Fail("no final return found")
		return
	}
	call, ok := core.Unparen(ret.Results[0]).(*ast.CallExpr)
	if !ok {
		o.Fail("the fragments are returned as %s, without a step that merges fragments sharing a line: two statements on one line yield two edits of the same range", core.ExprStr(ret.Results[0]))
		return
	}
	fn := core.CalleeFunc(info, call)
	var mfd *ast.FuncDecl
	if fn != nil {
		core.AllFuncDecls(pk, func(d *ast.FuncDecl) {
			if info.Defs[d.Name] == types.Object(fn) {
				mfd = d
			}
		})
	}
	if mfd == nil {
		o.Fail("the function %s applied to the fragments is not in the parser package", core.ExprStr(call.Fun))
		return
	}
	// excl: taking this branch of the condition implies that the output is still empty or
	// that the fragment in hand does not start before the previous edit ends
	isField := func(e ast.Expr, f string) bool {
		s, ok := core.Unparen(e).(*ast.SelectorExpr)
		return ok && s.Sel.Name == f && strings.HasSuffix(core.TypeStr(info.TypeOf(s.X)), "FmtDiff")
	}
	isLen := func(e ast.Expr) bool {
		c, ok := core.Unparen(e).(*ast.CallExpr)
		return ok && core.CalleeName(info, c) == "builtin.len" && len(c.Args) == 1 && strings.Contains(core.TypeStr(info.TypeOf(c.Args[0])), "FmtDiff")
	}
	var excl func(cond ast.Expr, branch bool) bool
	excl = func(cond ast.Expr, branch bool) bool {
		switch x := core.Unparen(cond).(type) {
		case *ast.UnaryExpr:
			if x.Op == token.NOT {
				return excl(x.X, !branch)
			}
		case *ast.BinaryExpr:
			switch x.Op {
			case token.LOR:
				if branch {
					return excl(x.X, true) && excl(x.Y, true)
				}
				return excl(x.X, false) || excl(x.Y, false)
			case token.LAND:
				if branch {
					return excl(x.X, true) || excl(x.Y, true)
				}
				return excl(x.X, false) && excl(x.Y, false)
			}
			op := x.Op
			l, rr := x.X, x.Y
			// normalise to "FromLine op ToLine" and "len op const"
			flip := map[token.Token]token.Token{token.LSS: token.GTR, token.GTR: token.LSS, token.LEQ: token.GEQ, token.GEQ: token.LEQ, token.EQL: token.EQL, token.NEQ: token.NEQ}
			if isField(l, "ToLine") && isField(rr, "FromLine") || !isLen(l) && isLen(rr) {
				l, rr, op = rr, l, flip[op]
			}
			if !branch {
				op = map[token.Token]token.Token{token.LSS: token.GEQ, token.GEQ: token.LSS, token.GTR: token.LEQ, token.LEQ: token.GTR, token.EQL: token.NEQ, token.NEQ: token.EQL}[op]
			}
			switch {
			case isField(l, "FromLine") && isField(rr, "ToLine"):
				return op == token.GEQ || op == token.GTR || op == token.EQL
			case isLen(l):
				k, ok := core.ConstInt(info, rr)
				if !ok {
					return false
				}
				// known empty: len == 0, len <= 0, len < 1
				return op == token.EQL && k == 0 || op == token.LEQ && k == 0 || op == token.LSS && k == 1
			}
		}
		return false
	}
	appends, bad := 0, 0
	ast.Inspect(mfd.Body, func(nd ast.Node) bool {
		as, ok := nd.(*ast.AssignStmt)
		if !ok || len(as.Rhs) != 1 {
			return true
		}
		c, ok := core.Unparen(as.Rhs[0]).(*ast.CallExpr)
		if !ok || core.CalleeName(info, c) != "builtin.append" || !strings.HasSuffix(core.TypeStr(info.TypeOf(as.Lhs[0])), "[]"+parserRel+".FmtDiff") && !strings.Contains(core.TypeStr(info.TypeOf(as.Lhs[0])), "FmtDiff") {
			return true
		}
		appends++
		if rules.ReachableAvoiding(mfd.Body, as, excl) {
			bad++
		}
		return true
	})
	switch {
	case appends == 0:
		o.Fail("%s never appends to an output list", mfd.Name.Name)
	case bad > 0:
		o.Fail("in %s a fragment can be appended as a new edit although it starts before the previous edit ends", mfd.Name.Name)
	default:
		o.Auto("%s starts a new edit only when FromLine is not below the previous ToLine", mfd.Name.Name)
	}
}
