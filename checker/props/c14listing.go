package props

import (
	"go/ast"
	"go/token"
	"strings"

	"j5verif/checker/core"
)

// packageListingByDirectory (R-DET/N5): both resolvers of protobuild list the
// files of a package by asking their source for everything under the
// package's directory prefix ("ext/v1"). A prefix also matches sub-packages
// ("ext/v1/sub/x.proto") and siblings ("ext/v10/x.proto"); their exports then
// land in this package's export table, where equal names overwrite each other
// in listing order — a reference resolves to a type of another package, and to
// a different one when the listing order changes. Each resolver therefore
// keeps a listed file only when its directory is the package's directory.
func packageListingByDirectory(r *core.Run) {
	r.Rule("R-DET/N5", "every function of internal/j5s/protobuild that lists the files of a package through ListSourceFiles / ListDependencyFiles (prefix listings) compares path.Dir(<file>) with the package directory for the files it keeps: the two resolvers agree on what belongs to a package, and what is exported under a package name does not depend on neighbouring directories or on the listing order")
	const rel = "internal/j5s/protobuild"
	pk := r.P.Pkg(rel)
	if pk == nil {
		r.Fatal("anchor: package %s not found", rel)
		return
	}
	info := pk.TypesInfo
	n := 0
	core.AllFuncDecls(pk, func(fd *ast.FuncDecl) {
		var listing *ast.CallExpr
		ast.Inspect(fd.Body, func(x ast.Node) bool {
			if c, ok := x.(*ast.CallExpr); ok {
				if s, ok := c.Fun.(*ast.SelectorExpr); ok && (s.Sel.Name == "ListSourceFiles" || s.Sel.Name == "ListDependencyFiles") {
					listing = c
				}
			}
			return true
		})
		if listing == nil {
			return
		}
		n++
		o := r.Add("R-DET/N5", rel+"."+core.FuncName(fd)+" | "+listing.Fun.(*ast.SelectorExpr).Sel.Name, listing.Pos(), "files kept for a package")
		dirTest := ""
		ast.Inspect(fd.Body, func(x ast.Node) bool {
			b, ok := x.(*ast.BinaryExpr)
			if !ok || (b.Op != token.EQL && b.Op != token.NEQ) {
				return true
			}
			for _, side := range []ast.Expr{b.X, b.Y} {
				if c, ok := core.Unparen(side).(*ast.CallExpr); ok {
					name := core.CalleeName(info, c)
					if name == "path.Dir" || name == "path/filepath.Dir" {
						dirTest = core.ExprStr(b)
					}
				}
				// through a local: dir := path.Dir(f); dir != root
				if id, ok := core.Unparen(side).(*ast.Ident); ok {
					if def := soleDefinition(info, id); def != nil {
						if c, ok := core.Unparen(def).(*ast.CallExpr); ok {
							if name := core.CalleeName(info, c); name == "path.Dir" || name == "path/filepath.Dir" {
								dirTest = core.ExprStr(b)
							}
						}
					}
				}
			}
			return true
		})
		if dirTest != "" {
			o.Auto("keeps a file only under `%s`", strings.ReplaceAll(dirTest, "!=", "=="))
		} else {
			o.Fail("the prefix listing is used as it comes: files of sub-packages and of siblings whose name starts with the same prefix are taken for files of this package, their exports overwrite equal names in listing order, and type references resolve to another package's type")
		}
	})
	r.Floor("R-DET/N5", 2, "the local and the dependency resolver")
}
