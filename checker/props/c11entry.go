package props

import (
	"go/ast"
	"go/token"
	"go/types"
	"sort"
	"strings"

	"golang.org/x/tools/go/packages"

	"j5verif/checker/core"
)

// referenceEntryGuard (R-PANIC/P2g): popReference builds its Reference with
// NewReference, which indexes the first identifier. When the very first token
// is not an identifier the list is still empty and the error path panics. The
// function is safe only because it is entered with an identifier next: every
// call site is guarded by a test of the next token's type, with nothing
// consumed in between. This rule recomputes that premise (the reason of the
// table line for NewReference's idents[0]) on every run.
func referenceEntryGuard(r *core.Run) {
	r.Rule("R-PANIC/P2g", "every call of Walker.popReference is entered with the next token known to be of a type Token.AsIdent accepts: the call is the first consuming call inside `if ww.nextType() == T` / `case T…:` of a switch over ww.nextType(), or it is the first consuming call of a function all of whose call sites are so guarded (transitively); otherwise popReference's error path reaches NewReference with an empty identifier list and indexes it")
	pk := r.P.Pkg(parserRel)
	if pk == nil {
		r.Fatal("anchor: package %s not found", parserRel)
		return
	}
	info := pk.TypesInfo
	popRef, _ := r.P.FuncDecl(parserRel, "Walker.popReference")
	popTok, _ := r.P.FuncDecl(parserRel, "Walker.popToken")
	next, _ := r.P.FuncDecl(parserRel, "Walker.nextType")
	asIdent, _ := r.P.FuncDecl(parserRel, "Token.AsIdent")
	if popRef == nil || popTok == nil || next == nil || asIdent == nil {
		r.Fatal("anchor: parser Walker.popReference / popToken / nextType / Token.AsIdent not found")
		return
	}
	fnOf := func(fd *ast.FuncDecl) *types.Func { f, _ := info.Defs[fd.Name].(*types.Func); return f }
	popRefFn, popTokFn, nextFn := fnOf(popRef), fnOf(popTok), fnOf(next)
	// accepted token types: labels of the clauses of AsIdent's switch that return true
	accept := map[types.Object]bool{}
	ast.Inspect(asIdent.Body, func(n ast.Node) bool {
		cc, ok := n.(*ast.CaseClause)
		if !ok {
			return true
		}
		yes := false
		for _, st := range cc.Body {
			if rs, ok := st.(*ast.ReturnStmt); ok && len(rs.Results) == 2 {
				if tv, ok := info.Types[rs.Results[1]]; ok && tv.Value != nil && tv.Value.String() == "true" {
					yes = true
				}
			}
		}
		if yes {
			for _, e := range cc.List {
				if o := core.UsedObj(info, e); o != nil {
					accept[o] = true
				}
			}
		}
		return true
	})
	// the same as an if chain: `if tok.Type == IDENT { return tok, true }`
	ast.Inspect(asIdent.Body, func(n ast.Node) bool {
		is, ok := n.(*ast.IfStmt)
		if !ok {
			return true
		}
		yes := false
		for _, st := range is.Body.List {
			if rs, ok := st.(*ast.ReturnStmt); ok && len(rs.Results) == 2 {
				if tv, ok := info.Types[rs.Results[1]]; ok && tv.Value != nil && tv.Value.String() == "true" {
					yes = true
				}
			}
		}
		if !yes {
			return true
		}
		var collect func(c ast.Expr) bool
		var found []types.Object
		collect = func(c ast.Expr) bool {
			b, ok := core.Unparen(c).(*ast.BinaryExpr)
			if !ok {
				return false
			}
			if b.Op == token.LOR {
				return collect(b.X) && collect(b.Y)
			}
			if b.Op != token.EQL {
				return false
			}
			for _, side := range []ast.Expr{b.X, b.Y} {
				if o, ok := core.UsedObj(info, side).(*types.Const); ok {
					found = append(found, o)
					return true
				}
			}
			return false
		}
		if collect(is.Cond) {
			for _, o := range found {
				accept[o] = true
			}
		}
		return true
	})
	// inverted spelling: `if tok.Type != BOOL { return tok, false }` … `return converted, true` at the end
	if n := len(asIdent.Body.List); n > 0 {
		isBoolRet := func(st ast.Stmt, want string) bool {
			rs, ok := st.(*ast.ReturnStmt)
			if !ok || len(rs.Results) != 2 {
				return false
			}
			tv, ok := info.Types[rs.Results[1]]
			return ok && tv.Value != nil && tv.Value.String() == want
		}
		if isBoolRet(asIdent.Body.List[n-1], "true") {
			for _, st := range asIdent.Body.List[:n-1] {
				is, ok := st.(*ast.IfStmt)
				if !ok || len(is.Body.List) == 0 || !isBoolRet(is.Body.List[len(is.Body.List)-1], "false") {
					continue
				}
				var consts []types.Object
				var allNeq func(c ast.Expr) bool
				allNeq = func(c ast.Expr) bool {
					b, ok := core.Unparen(c).(*ast.BinaryExpr)
					if !ok {
						return false
					}
					if b.Op == token.LAND {
						return allNeq(b.X) && allNeq(b.Y)
					}
					if b.Op != token.NEQ {
						return false
					}
					for _, side := range []ast.Expr{b.X, b.Y} {
						if o, ok := core.UsedObj(info, side).(*types.Const); ok {
							consts = append(consts, o)
							return true
						}
					}
					return false
				}
				if allNeq(is.Cond) {
					for _, o := range consts {
						accept[o] = true
					}
				}
			}
		}
	}
	if len(accept) == 0 {
		r.Fatal("R-PANIC/P2g: no accepting clause found in Token.AsIdent")
		return
	}
	g := &entryGuard{pk: pk, info: info, next: nextFn, consuming: map[*types.Func]bool{popTokFn: true}, decls: map[*types.Func]*ast.FuncDecl{}}
	core.AllFuncDecls(pk, func(fd *ast.FuncDecl) {
		if f := fnOf(fd); f != nil {
			g.decls[f] = fd
		}
	})
	// consuming functions: fixed point over "calls a consuming function"
	for changed := true; changed; {
		changed = false
		for f, fd := range g.decls {
			if g.consuming[f] || fd.Body == nil {
				continue
			}
			ast.Inspect(fd.Body, func(n ast.Node) bool {
				if c, ok := n.(*ast.CallExpr); ok {
					if cf := core.CalleeFunc(info, c); cf != nil && g.consuming[cf.Origin()] {
						g.consuming[f] = true
						changed = true
					}
				}
				return !g.consuming[f]
			})
		}
	}
	n := 0
	for f, fd := range g.decls {
		if fd.Body == nil {
			continue
		}
		_ = f
		fd := fd
		ast.Inspect(fd.Body, func(nd ast.Node) bool {
			c, ok := nd.(*ast.CallExpr)
			if !ok {
				return true
			}
			if cf := core.CalleeFunc(info, c); cf == nil || cf.Origin() != popRefFn {
				return true
			}
			n++
			o := r.Add("R-PANIC/P2g", parserRel+"."+core.FuncName(fd)+" | entry of popReference", c.Pos(), "call of popReference")
			set, why := g.guardAt(c, fd, 0)
			if set == nil {
				o.Fail("the next token is not known to be an identifier here (%s): on any other token popReference's error path builds a Reference from an empty list and NewReference indexes it — a panic on malformed input", why)
				return true
			}
			var names, bad []string
			for t := range set {
				names = append(names, t.Name())
				if !accept[t] {
					bad = append(bad, t.Name())
				}
			}
			sort.Strings(names)
			sort.Strings(bad)
			if len(bad) > 0 {
				o.Fail("entered with the next token in {%s}, of which %s is not accepted by AsIdent: the first popIdent fails with an empty identifier list and NewReference indexes it", strings.Join(names, ", "), strings.Join(bad, ", "))
			} else {
				o.Auto("entered with the next token in {%s}, all accepted by AsIdent", strings.Join(names, ", "))
			}
			return true
		})
	}
	r.Floor("R-PANIC/P2g", 3, "popValue, popTag, walkStatement")
}

type entryGuard struct {
	pk        *packages.Package
	info      *types.Info
	next      *types.Func
	consuming map[*types.Func]bool
	decls     map[*types.Func]*ast.FuncDecl
}

// tokenTypes: the constants T of a condition `next() == T [|| next() == U …]`.
func (g *entryGuard) condTypes(cond ast.Expr) map[types.Object]bool {
	switch x := core.Unparen(cond).(type) {
	case *ast.BinaryExpr:
		if x.Op == token.LOR {
			a, b := g.condTypes(x.X), g.condTypes(x.Y)
			if a == nil || b == nil {
				return nil
			}
			for k := range b {
				a[k] = true
			}
			return a
		}
		if x.Op == token.LAND {
			if a := g.condTypes(x.X); a != nil {
				return a
			}
			return g.condTypes(x.Y)
		}
		if x.Op != token.EQL {
			return nil
		}
		call, c := x.X, x.Y
		if !g.isNext(call) {
			call, c = x.Y, x.X
		}
		if !g.isNext(call) {
			return nil
		}
		if o, ok := core.UsedObj(g.info, c).(*types.Const); ok {
			return map[types.Object]bool{o: true}
		}
	}
	return nil
}

func (g *entryGuard) isNext(e ast.Expr) bool {
	e = core.Unparen(e)
	if id, ok := e.(*ast.Ident); ok {
		// `next := ww.nextType()` (also as the init of a switch or an if): the local names the peeked type
		if def := soleDefinition(g.info, id); def != nil {
			e = core.Unparen(def)
		}
	}
	c, ok := e.(*ast.CallExpr)
	if !ok {
		return false
	}
	f := core.CalleeFunc(g.info, c)
	return f != nil && f.Origin() == g.next
}

// consumedBefore: a consuming call lies inside root at a position before c (function literals excluded).
func (g *entryGuard) consumedBefore(root ast.Node, c *ast.CallExpr) bool {
	hit := false
	ast.Inspect(root, func(n ast.Node) bool {
		if hit {
			return false
		}
		if _, ok := n.(*ast.FuncLit); ok {
			return false
		}
		if x, ok := n.(*ast.CallExpr); ok && x != c && x.End() <= c.Pos() {
			if f := core.CalleeFunc(g.info, x); f != nil && g.consuming[f.Origin()] {
				hit = true
			}
		}
		return true
	})
	return hit
}

func (g *entryGuard) guardAt(c *ast.CallExpr, fd *ast.FuncDecl, depth int) (map[types.Object]bool, string) {
	if depth > 4 {
		return nil, "call chain too deep"
	}
	path := core.PathTo(fd.Body, c)
	for i := len(path) - 1; i >= 0; i-- {
		switch x := path[i].(type) {
		case *ast.FuncLit:
			return nil, "inside a function literal"
		case *ast.IfStmt:
			if x.Body.Pos() <= c.Pos() && c.End() <= x.Body.End() {
				if ts := g.condTypes(x.Cond); ts != nil {
					if g.consumedBefore(x.Body, c) {
						return nil, "a token is consumed between the test and the call"
					}
					return ts, ""
				}
			}
		case *ast.CaseClause:
			var sw *ast.SwitchStmt
			for j := i - 1; j >= 0; j-- {
				if s, ok := path[j].(*ast.SwitchStmt); ok {
					sw = s
					break
				}
			}
			if sw != nil && sw.Tag == nil && len(x.List) > 0 {
				// tagless switch: the clause is taken when one of its expressions holds
				ts := map[types.Object]bool{}
				ok := true
				for _, e := range x.List {
					sub := g.condTypes(e)
					if sub == nil {
						ok = false
						break
					}
					for k := range sub {
						ts[k] = true
					}
				}
				if ok {
					for _, st := range x.Body {
						if g.consumedBefore(st, c) {
							return nil, "a token is consumed between the test and the call"
						}
					}
					return ts, ""
				}
			}
			if sw != nil && sw.Tag != nil && g.isNext(sw.Tag) && len(x.List) > 0 {
				ts := map[types.Object]bool{}
				for _, e := range x.List {
					o, ok := core.UsedObj(g.info, e).(*types.Const)
					if !ok {
						return nil, "case label is not a token type constant"
					}
					ts[o] = true
				}
				for _, st := range x.Body {
					if g.consumedBefore(st, c) {
						return nil, "a token is consumed between the test and the call"
					}
				}
				return ts, ""
			}
		case *ast.ForStmt, *ast.RangeStmt:
			return nil, "inside a loop without a test of the next token"
		}
	}
	if g.consumedBefore(fd.Body, c) {
		return nil, "tokens are consumed before the call and the next token is not tested"
	}
	// first consuming call of fd: its callers decide
	self, _ := g.info.Defs[fd.Name].(*types.Func)
	union := map[types.Object]bool{}
	sites := 0
	for _, cd := range g.decls {
		if cd.Body == nil {
			continue
		}
		var sub string
		fail := false
		ast.Inspect(cd.Body, func(n ast.Node) bool {
			x, ok := n.(*ast.CallExpr)
			if !ok || fail {
				return !fail
			}
			if f := core.CalleeFunc(g.info, x); f == nil || f.Origin() != self {
				return true
			}
			sites++
			ts, why := g.guardAt(x, cd, depth+1)
			if ts == nil {
				fail, sub = true, why
				return false
			}
			for k := range ts {
				union[k] = true
			}
			return true
		})
		if fail {
			return nil, "through " + core.FuncName(cd) + ": " + sub
		}
	}
	if sites == 0 {
		return nil, core.FuncName(fd) + " has no call site in the package that tests the next token"
	}
	return union, ""
}
