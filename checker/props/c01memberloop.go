package props

import (
	"go/ast"
	"go/token"
	"go/types"
	"sort"
	"strings"

	"j5verif/checker/core"
)

// mapKeysNotInterpreted (R-SYM/memberloop): the decoder reads the members of a
// JSON object in one loop that hands each key to a callback; objects, oneofs,
// Anys and all map kinds run through it. A map's keys are arbitrary strings —
// whatever the encoder wrote as a key must come back as that key — so the loop
// a map is decoded with decides nothing by the key: a key it keeps for itself
// ("!type" consumed in the shared loop rather than in the callbacks of the
// oneof and Any decoders) is a key no map can hold.
func mapKeysNotInterpreted(r *core.Run) {
	r.Rule("R-SYM/memberloop", "for every call, in a codec function that takes a j5reflect.MapField (or a type that is one), of a function with a func(string) error parameter: in that function and in those it forwards the callback to, the string that is passed to the callback is not compared with a string constant (==, !=, switch case)")
	pk := r.P.Pkg(codecRel)
	if pk == nil {
		r.Fatal("anchor: package %s not found", codecRel)
		return
	}
	info := pk.TypesInfo
	cbParam := func(fd *ast.FuncDecl) types.Object {
		for _, f := range fd.Type.Params.List {
			if sig, ok := info.TypeOf(f.Type).Underlying().(*types.Signature); ok && sig.Params().Len() == 1 && sig.Results().Len() == 1 {
				if b, ok := sig.Params().At(0).Type().Underlying().(*types.Basic); ok && b.Kind() == types.String && len(f.Names) == 1 {
					return info.ObjectOf(f.Names[0])
				}
			}
		}
		return nil
	}
	// interprets reports a comparison of the callback's argument with a constant in fd (or a function
	// fd forwards the callback to)
	var interprets func(fd *ast.FuncDecl, seen map[*ast.FuncDecl]bool) (ast.Node, *ast.FuncDecl)
	interprets = func(fd *ast.FuncDecl, seen map[*ast.FuncDecl]bool) (ast.Node, *ast.FuncDecl) {
		if fd == nil || fd.Body == nil || seen[fd] {
			return nil, nil
		}
		seen[fd] = true
		cb := cbParam(fd)
		if cb == nil {
			return nil, nil
		}
		keys := map[types.Object]bool{}
		var forwards []*ast.FuncDecl
		ast.Inspect(fd.Body, func(n ast.Node) bool {
			c, ok := n.(*ast.CallExpr)
			if !ok {
				return true
			}
			if id, ok := core.Unparen(c.Fun).(*ast.Ident); ok && info.Uses[id] == cb && len(c.Args) == 1 {
				if k, ok := core.Unparen(c.Args[0]).(*ast.Ident); ok {
					keys[info.ObjectOf(k)] = true
				}
				return true
			}
			for _, a := range c.Args {
				if id, ok := core.Unparen(a).(*ast.Ident); ok && info.Uses[id] == cb {
					if f := core.CalleeFunc(info, c); f != nil && f.Pkg() == pk.Types {
						forwards = append(forwards, core.DeclOf(pk, f))
					}
				}
			}
			return true
		})
		var hit ast.Node
		isKey := func(e ast.Expr) bool {
			id, ok := core.Unparen(e).(*ast.Ident)
			return ok && keys[info.ObjectOf(id)]
		}
		ast.Inspect(fd.Body, func(n ast.Node) bool {
			if hit != nil {
				return false
			}
			switch x := n.(type) {
			case *ast.BinaryExpr:
				if x.Op == token.EQL || x.Op == token.NEQ {
					for _, pair := range [][2]ast.Expr{{x.X, x.Y}, {x.Y, x.X}} {
						if _, isConst := core.ConstString(info, pair[1]); isConst && isKey(pair[0]) {
							hit = x
						}
					}
				}
			case *ast.SwitchStmt:
				if x.Tag != nil && isKey(x.Tag) {
					for _, cl := range x.Body.List {
						for _, e := range cl.(*ast.CaseClause).List {
							if _, isConst := core.ConstString(info, e); isConst {
								hit = e
							}
						}
					}
				}
			}
			return true
		})
		if hit != nil {
			return hit, fd
		}
		for _, f := range forwards {
			if h, where := interprets(f, seen); h != nil {
				return h, where
			}
		}
		return nil, nil
	}
	// the map field interface: a parameter of any type that is a MapField (MapOfObjectField, …) counts
	var mapField types.Type
	if rp := r.P.Pkg("lib/j5reflect"); rp != nil {
		if o := rp.Types.Scope().Lookup("MapField"); o != nil {
			if _, isIface := o.Type().Underlying().(*types.Interface); isIface {
				mapField = o.Type()
			}
		}
	}
	if mapField == nil {
		r.Fatal("anchor: interface j5reflect.MapField not found")
		return
	}
	n := 0
	// mapHandlers: the functions that take a MapField, and those the map (narrowed by a type switch or
	// not) is handed on to
	handlers := map[*ast.FuncDecl]bool{}
	var order []*ast.FuncDecl
	var addHandler func(fd *ast.FuncDecl, objs map[types.Object]bool, depth int)
	addHandler = func(fd *ast.FuncDecl, objs map[types.Object]bool, depth int) {
		if fd == nil || fd.Body == nil || handlers[fd] || depth > 3 {
			return
		}
		handlers[fd] = true
		order = append(order, fd)
		// the type-switch bindings of the map parameter
		ast.Inspect(fd.Body, func(nd ast.Node) bool {
			ts, ok := nd.(*ast.TypeSwitchStmt)
			if !ok {
				return true
			}
			var x ast.Expr
			switch a := ts.Assign.(type) {
			case *ast.AssignStmt:
				if ta, ok := a.Rhs[0].(*ast.TypeAssertExpr); ok {
					x = ta.X
				}
			case *ast.ExprStmt:
				if ta, ok := a.X.(*ast.TypeAssertExpr); ok {
					x = ta.X
				}
			}
			if id, ok := core.Unparen(x).(*ast.Ident); ok && objs[info.ObjectOf(id)] {
				for _, cl := range ts.Body.List {
					if o := info.Implicits[cl]; o != nil {
						objs[o] = true
					}
				}
			}
			return true
		})
		ast.Inspect(fd.Body, func(nd ast.Node) bool {
			c, ok := nd.(*ast.CallExpr)
			if !ok {
				return true
			}
			f := core.CalleeFunc(info, c)
			if f == nil || f.Pkg() != pk.Types {
				return true
			}
			for i, a := range c.Args {
				if id, ok := core.Unparen(a).(*ast.Ident); ok && objs[info.ObjectOf(id)] {
					if d := core.DeclOf(pk, f); d != nil {
						k := 0
						sub := map[types.Object]bool{}
						for _, fl := range d.Type.Params.List {
							for _, nm := range fl.Names {
								if k == i {
									sub[info.ObjectOf(nm)] = true
								}
								k++
							}
						}
						addHandler(d, sub, depth+1)
					}
				}
			}
			return true
		})
	}
	core.AllFuncDecls(pk, func(fd *ast.FuncDecl) {
		if fd.Body == nil {
			return
		}
		objs := map[types.Object]bool{}
		for _, f := range fd.Type.Params.List {
			t := info.TypeOf(f.Type)
			if strings.HasSuffix(core.TypeStr(t), "j5reflect.MapField") || t != nil && types.AssignableTo(t, mapField) {
				for _, nm := range f.Names {
					objs[info.ObjectOf(nm)] = true
				}
			}
		}
		if len(objs) > 0 {
			addHandler(fd, objs, 0)
		}
	})
	for _, fd := range order {
		loops := map[string]*ast.FuncDecl{}
		ast.Inspect(fd.Body, func(nd ast.Node) bool {
			c, ok := nd.(*ast.CallExpr)
			if !ok {
				return true
			}
			f := core.CalleeFunc(info, c)
			if f == nil || f.Pkg() != pk.Types {
				return true
			}
			if d := core.DeclOf(pk, f); d != nil && d.Body != nil && cbParam(d) != nil {
				loops[core.FuncName(d)] = d
			}
			return true
		})
		var names []string
		for k := range loops {
			names = append(names, k)
		}
		sort.Strings(names)
		for _, name := range names {
			n++
			o := r.Add("R-SYM/memberloop", codecRel+"."+core.FuncName(fd)+" | map members read by "+name, fd.Pos(), "keys of a map are not interpreted by the member loop")
			if hit, where := interprets(loops[name], map[*ast.FuncDecl]bool{}); hit != nil {
				o.Pos = r.P.Rel(hit.Pos())
				o.Fail("%s, the member loop the map decoder uses, compares the key with a constant (%s): an entry with that key is encoded like any other but is not handed to the map's callback on decoding — it is dropped, or its value is taken for something else", core.FuncName(where), core.ExprStr(hit.(ast.Expr)))
			} else {
				o.Auto("%s passes every key to the callback and decides nothing by it", name)
			}
		}
	}
	if n == 0 {
		r.Fatal("R-SYM/memberloop: no function of %s takes a j5reflect.MapField and reads its members through a callback loop", codecRel)
	}
}
