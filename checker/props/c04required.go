package props

import (
	"go/ast"
	"go/token"
	"go/types"
	"sort"
	"strings"

	"golang.org/x/tools/go/packages"

	"j5verif/checker/core"
	"j5verif/checker/rules"
)

// requiredProvenance (R-PROV/required): the required flag of a property read
// back from a descriptor is the flag the compiler wrote — buf.validate's
// `required` on the field — for every shape of field (singular, array, map),
// and nothing else: item-count or pair-count rules are rules of their own and
// say nothing about the flag the source declared.
func requiredProvenance(r *core.Run) {
	r.Rule("R-PROV/required", "every ObjectProperty the reflector builds for a proto field (JSONName taken from <field>.JSONName()) receives Required, in the literal or by assignment in the same function, and the value is buf.validate's required flag of that field (GetRequired(), or Required != nil && *Required) — alternatives that can only be true for a kind of field the function is never called with (X.IsList() && … after the caller's `if X.IsList() { …; continue }`) are left out; any other source (repeated.min_items, map.min_pairs, …) makes the flag read back differ from the declared one")
	pk, bodies := rules.FuncBodies(r, schemaRel, "schema_from_proto.go")
	if pk == nil {
		return
	}
	info := pk.TypesInfo
	isProp := func(t types.Type) bool {
		if p, ok := t.(*types.Pointer); ok {
			t = p.Elem()
		}
		return t != nil && core.TypeStr(t) == "lib/j5schema.ObjectProperty"
	}
	type build struct {
		pos   token.Pos
		lit   *ast.CompositeLit
		obj   types.Object // variable holding the property, when there is one
		field string
		fd    *ast.FuncDecl
	}
	var builds []*build
	litVar := map[*ast.CompositeLit]types.Object{}
	for _, b := range bodies {
		ast.Inspect(b, func(nd ast.Node) bool {
			if as, ok := nd.(*ast.AssignStmt); ok && len(as.Lhs) == len(as.Rhs) {
				for i, rhs := range as.Rhs {
					if lit := propLiteral(rhs); lit != nil {
						if id, ok := as.Lhs[i].(*ast.Ident); ok {
							litVar[lit] = info.ObjectOf(id)
						}
					}
				}
			}
			return true
		})
	}
	for _, b := range bodies {
		ast.Inspect(b, func(nd ast.Node) bool {
			switch x := nd.(type) {
			case *ast.CompositeLit:
				if !isProp(info.TypeOf(x)) {
					return true
				}
				// a property of a proto field: it carries the field's number, or its JSON name
				forField, clone := false, false
				for _, e := range x.Elts {
					if kv, ok := e.(*ast.KeyValueExpr); ok {
						switch core.ExprStr(kv.Key) {
						case "JSONName":
							switch _, kind := jsonNameSource(info, kv.Value); kind {
							case "field.JSONName":
								forField = true
							case "clone":
								clone = true // a copy of a property that was built elsewhere
							}
						case "ProtoField":
							forField = true
						}
					}
				}
				if forField && !clone {
					builds = append(builds, &build{pos: x.Pos(), lit: x, fd: core.EnclosingFunc(pk, x.Pos()), obj: litVar[x]})
				}
			case *ast.AssignStmt:
				// the literal spelled as field assignments
				for i, l := range x.Lhs {
					if s, ok := core.Unparen(l).(*ast.SelectorExpr); ok && s.Sel.Name == "JSONName" && isProp(info.TypeOf(s.X)) && len(x.Rhs) == len(x.Lhs) {
						if src, kind := jsonNameSource(info, x.Rhs[i]); kind == "field.JSONName" {
							if id, ok := core.Unparen(s.X).(*ast.Ident); ok {
								dup := false
								for _, bd := range builds {
									if bd.obj != nil && bd.obj == info.ObjectOf(id) {
										dup = true
									}
								}
								if !dup {
									builds = append(builds, &build{pos: x.Pos(), obj: info.ObjectOf(id), field: src, fd: core.EnclosingFunc(pk, x.Pos())})
								}
							}
						}
					}
				}
			}
			return true
		})
	}
	for _, bd := range builds {
		if bd.fd == nil {
			continue
		}
		shape := fieldShapeAt(pk, bd.fd, bd.pos)
		o := r.Add("R-PROV/required", "j5schema."+core.FuncName(bd.fd)+" | Required of the "+shape+" property", bd.pos, "required flag of the property built for a "+shape+" field")
		var val ast.Expr
		if bd.lit != nil {
			for _, e := range bd.lit.Elts {
				if kv, ok := e.(*ast.KeyValueExpr); ok && core.ExprStr(kv.Key) == "Required" {
					val = kv.Value
				}
			}
		}
		if val == nil && bd.obj != nil {
			ast.Inspect(bd.fd.Body, func(nd ast.Node) bool {
				as, ok := nd.(*ast.AssignStmt)
				if !ok || len(as.Lhs) != len(as.Rhs) {
					return true
				}
				for i, l := range as.Lhs {
					if s, ok := core.Unparen(l).(*ast.SelectorExpr); ok && s.Sel.Name == "Required" {
						if id, ok := core.Unparen(s.X).(*ast.Ident); ok && info.ObjectOf(id) == bd.obj && val == nil {
							val = as.Rhs[i]
						}
					}
				}
				return true
			})
		}
		if val == nil {
			o.Fail("the property built for a %s field never receives the required flag: a %s declared required in the source (buf.validate required on the compiled field) reads back as optional", shape, shape)
			continue
		}
		// the flag handed in by the callers of a constructor helper: judged per call site
		if id, isID := core.Unparen(val).(*ast.Ident); isID {
			if pidx := paramIndex(info, bd.fd, info.ObjectOf(id)); pidx >= 0 {
				sites := callSitesOf(pk, bd.fd)
				if len(sites) > 0 {
					o.Auto("the flag is the parameter %s: judged at the %d call site(s) of %s", id.Name, len(sites), core.FuncName(bd.fd))
					for _, cs := range sites {
						if pidx >= len(cs.call.Args) {
							continue
						}
						cshape := fieldShapeAt(pk, cs.fd, cs.call.Pos())
						if cshape == "singular" {
							// the helper built for one shape of field names it (buildArrayProperty …)
							lower := strings.ToLower(core.FuncName(cs.fd))
							switch {
							case strings.Contains(lower, "array") || strings.Contains(lower, "list"):
								cshape = "array"
							case strings.Contains(lower, "map"):
								cshape = "map"
							}
						}
						oc := r.Add("R-PROV/required", "j5schema."+core.FuncName(cs.fd)+" | Required of the "+cshape+" property (through "+core.FuncName(bd.fd)+")", cs.call.Pos(), "required flag handed to "+core.FuncName(bd.fd))
						judgeRequired(r, pk, cs.fd, cs.call.Args[pidx], cshape, oc)
					}
					continue
				}
			}
		}
		judgeRequired(r, pk, bd.fd, val, shape, o)
	}
	r.Floor("R-PROV/required", 3, "array, map and singular properties")
}

type callSite struct {
	fd   *ast.FuncDecl
	call *ast.CallExpr
}

// callSitesOf lists the static calls of fd in its package.
func callSitesOf(pk *packages.Package, fd *ast.FuncDecl) []callSite {
	target := pk.TypesInfo.Defs[fd.Name]
	var out []callSite
	core.AllFuncDecls(pk, func(caller *ast.FuncDecl) {
		ast.Inspect(caller.Body, func(n ast.Node) bool {
			if c, ok := n.(*ast.CallExpr); ok {
				if fn := core.CalleeFunc(pk.TypesInfo, c); fn != nil && types.Object(fn.Origin()) == target {
					out = append(out, callSite{caller, c})
				}
			}
			return true
		})
	})
	return out
}

// judgeRequired discharges or fails o according to where the value of a required flag comes from.
func judgeRequired(r *core.Run, pk *packages.Package, fd *ast.FuncDecl, val ast.Expr, shape string, o *core.Oblig) {
	info := pk.TypesInfo
	{
		var live, foreign []string
		for _, top := range splitOp(val, token.LOR) {
			// a helper that computes the flag is looked into, its parameters standing for the
			// arguments of this call
			inl, subst := inlinePredicate(pk, top)
			for _, alt := range splitOp(inl, token.LOR) {
				if deadAlternative(pk, fd, alt, subst) {
					continue
				}
				if isValidateRequired(info, alt) {
					live = append(live, core.ExprStr(alt))
				} else {
					foreign = append(foreign, core.ExprStr(top))
				}
			}
		}
		switch {
		case len(foreign) > 0:
			o.Fail("the required flag is also set by %s: that is not the flag the source declared, so a %s that is not required but meets that condition reads back as required", strings.Join(foreign, " / "), shape)
		case len(live) == 0:
			o.Fail("the required flag never takes the value of buf.validate's required")
		default:
			o.Auto("from %s", strings.Join(live, " / "))
		}
	}
}

// inlinePredicate replaces a call of a same-package function that only computes one boolean
// expression by that expression; the second result maps the callee's parameters to the
// arguments of the call.
func inlinePredicate(pk *packages.Package, e ast.Expr) (ast.Expr, map[types.Object]ast.Expr) {
	c, ok := core.Unparen(e).(*ast.CallExpr)
	if !ok {
		return e, nil
	}
	fn := core.CalleeFunc(pk.TypesInfo, c)
	if fn == nil || fn.Pkg() != pk.Types {
		return e, nil
	}
	fd := core.DeclOf(pk, fn.Origin())
	if fd == nil || fd.Body == nil {
		return e, nil
	}
	res := rules.ReturnedExpr(fd.Body.List, nil)
	if res == nil {
		return e, nil
	}
	subst := map[types.Object]ast.Expr{}
	i := 0
	for _, fl := range fd.Type.Params.List {
		for _, nm := range fl.Names {
			if i < len(c.Args) {
				subst[pk.TypesInfo.Defs[nm]] = c.Args[i]
			}
			i++
		}
	}
	return res, subst
}

func propLiteral(e ast.Expr) *ast.CompositeLit {
	e = core.Unparen(e)
	if u, ok := e.(*ast.UnaryExpr); ok && u.Op == token.AND {
		e = core.Unparen(u.X)
	}
	lit, _ := e.(*ast.CompositeLit)
	return lit
}

func splitOp(e ast.Expr, op token.Token) []ast.Expr {
	e = core.Unparen(e)
	if b, ok := e.(*ast.BinaryExpr); ok && b.Op == op {
		return append(splitOp(b.X, op), splitOp(b.Y, op)...)
	}
	return []ast.Expr{e}
}

// fieldShapeAt names the kind of field a property is built for: inside an
// `if f.IsList()` / `if f.IsMap()` region it is "array" / "map", else "singular".
func fieldShapeAt(pk *packages.Package, fd *ast.FuncDecl, pos token.Pos) string {
	shape := "singular"
	for _, rg := range core.GuardedRegions(fd.Body) {
		if len(rg.Body) == 0 || !(rg.Body[0].Pos() <= pos && pos < rg.Body[len(rg.Body)-1].End()) {
			continue
		}
		if c, ok := core.Unparen(rg.Cond).(*ast.CallExpr); ok {
			if s, ok := c.Fun.(*ast.SelectorExpr); ok {
				switch s.Sel.Name {
				case "IsList":
					shape = "array"
				case "IsMap":
					shape = "map"
				}
			}
		}
	}
	return shape
}

// isValidateRequired: GetRequired() on buf.validate FieldConstraints, or
// `c.Required != nil && *c.Required`.
func isValidateRequired(info *types.Info, e ast.Expr) bool {
	isFC := func(x ast.Expr) bool {
		return strings.HasSuffix(core.TypeStr(info.TypeOf(x)), "validate.FieldConstraints")
	}
	// the constraint's Required field, directly or through a local defined once from it
	isReq := func(x ast.Expr) bool {
		x = core.Unparen(x)
		if id, ok := x.(*ast.Ident); ok {
			if def := soleDefinition(info, id); def != nil {
				x = core.Unparen(def)
			}
		}
		s, ok := x.(*ast.SelectorExpr)
		return ok && s.Sel.Name == "Required" && isFC(s.X)
	}
	var parts []ast.Expr
	for _, p := range splitOp(e, token.LAND) {
		p = core.Unparen(p)
		// `true` adds nothing; a negated test of the flag (the fall-through of an earlier
		// `if required { return true }`) cannot make the result true by itself
		if tv, ok := info.Types[p]; ok && tv.Value != nil && tv.Value.String() == "true" {
			continue
		}
		parts = append(parts, p)
	}
	if len(parts) == 0 {
		return false
	}
	for _, p := range parts {
		p = core.Unparen(p)
		switch x := p.(type) {
		case *ast.CallExpr:
			s, ok := x.Fun.(*ast.SelectorExpr)
			if !ok || s.Sel.Name != "GetRequired" || !isFC(s.X) {
				return false
			}
		case *ast.StarExpr:
			if !isReq(x.X) {
				return false
			}
		case *ast.BinaryExpr:
			if x.Op != token.NEQ || !isReq(x.X) || !core.IsNilIdent(info, x.Y) {
				return false
			}
		default:
			return false
		}
	}
	// a lone `X.Required != nil` says only that the flag was written, not its value
	if len(parts) == 1 {
		if _, isCmp := core.Unparen(parts[0]).(*ast.BinaryExpr); isCmp {
			return false
		}
	}
	return true
}

// soleDefinition: the expression a local was defined from, when `id := expr` is the only
// assignment it ever receives.
func soleDefinition(info *types.Info, id *ast.Ident) ast.Expr {
	obj := info.ObjectOf(id)
	v, ok := obj.(*types.Var)
	if !ok || v.IsField() || core.Current == nil {
		return nil
	}
	fd := core.Current.EnclosingDecl(obj.Pos())
	if fd == nil || fd.Body == nil {
		return nil
	}
	var def ast.Expr
	n := 0
	ast.Inspect(fd.Body, func(nd ast.Node) bool {
		switch x := nd.(type) {
		case *ast.AssignStmt:
			for i, l := range x.Lhs {
				if lid, ok := l.(*ast.Ident); ok && info.ObjectOf(lid) == obj {
					n++
					if len(x.Lhs) == len(x.Rhs) {
						def = x.Rhs[i]
					}
				}
			}
		case *ast.IncDecStmt:
			if lid, ok := x.X.(*ast.Ident); ok && info.ObjectOf(lid) == obj {
				n++
			}
		case *ast.UnaryExpr:
			if lid, ok := x.X.(*ast.Ident); ok && x.Op == token.AND && info.ObjectOf(lid) == obj {
				n++
			}
		}
		return true
	})
	if n != 1 {
		return nil
	}
	return def
}

// deadAlternative: the alternative has a conjunct P.IsList() / P.IsMap() on a
// parameter P of fd, and every call of fd in the package is made after the
// caller left for that kind of field (`if A.IsList() { …; continue|return }`
// earlier in the same statement list, A being the argument passed for P).
func deadAlternative(pk *packages.Package, fd *ast.FuncDecl, alt ast.Expr, subst map[types.Object]ast.Expr) bool {
	info := pk.TypesInfo
	var conj []ast.Expr
	for _, cj := range splitOp(alt, token.LAND) {
		// (a && b) nested in a conjunct written with parentheses
		conj = append(conj, splitOp(cj, token.LAND)...)
	}
	for _, cj := range conj {
		c, ok := core.Unparen(cj).(*ast.CallExpr)
		if !ok || len(c.Args) != 0 {
			continue
		}
		s, ok := c.Fun.(*ast.SelectorExpr)
		if !ok || (s.Sel.Name != "IsList" && s.Sel.Name != "IsMap") {
			continue
		}
		id, ok := core.Unparen(s.X).(*ast.Ident)
		if !ok {
			continue
		}
		// a parameter of an inlined helper stands for the caller's argument
		if arg, has := subst[info.ObjectOf(id)]; has {
			if aid, isID := core.Unparen(arg).(*ast.Ident); isID {
				id = aid
			} else {
				continue
			}
		}
		pidx := paramIndex(info, fd, info.ObjectOf(id))
		if pidx < 0 {
			continue
		}
		if callersLeftFor(pk, fd, pidx, s.Sel.Name) {
			return true
		}
	}
	return false
}

func paramIndex(info *types.Info, fd *ast.FuncDecl, obj types.Object) int {
	i := 0
	for _, fl := range fd.Type.Params.List {
		for _, nm := range fl.Names {
			if info.Defs[nm] == obj {
				return i
			}
			i++
		}
	}
	return -1
}

func callersLeftFor(pk *packages.Package, fd *ast.FuncDecl, pidx int, pred string) bool {
	info := pk.TypesInfo
	target := info.Defs[fd.Name]
	calls, ok := 0, true
	for _, f := range pk.Syntax {
		ast.Inspect(f, func(nd ast.Node) bool {
			var list []ast.Stmt
			switch b := nd.(type) {
			case *ast.BlockStmt:
				list = b.List
			case *ast.CaseClause:
				list = b.Body
			default:
				return true
			}
			for i, st := range list {
				var call *ast.CallExpr
				// the call directly in this statement (not in a nested block)
				ast.Inspect(st, func(x ast.Node) bool {
					switch x.(type) {
					case *ast.BlockStmt, *ast.FuncLit:
						return false
					}
					if c, isC := x.(*ast.CallExpr); isC {
						if fn := core.CalleeFunc(info, c); fn != nil && types.Object(fn.Origin()) == target {
							call = c
						}
					}
					return true
				})
				if call == nil {
					continue
				}
				calls++
				if pidx >= len(call.Args) {
					ok = false
					continue
				}
				arg, isID := core.Unparen(call.Args[pidx]).(*ast.Ident)
				if !isID {
					ok = false
					continue
				}
				left := false
				for _, prev := range list[:i] {
					ifs, isIf := prev.(*ast.IfStmt)
					if !isIf || ifs.Init != nil || len(ifs.Body.List) == 0 {
						continue
					}
					c, isC := core.Unparen(ifs.Cond).(*ast.CallExpr)
					if !isC {
						continue
					}
					s, isS := c.Fun.(*ast.SelectorExpr)
					if !isS || s.Sel.Name != pred {
						continue
					}
					rid, isRID := core.Unparen(s.X).(*ast.Ident)
					if !isRID || info.ObjectOf(rid) != info.ObjectOf(arg) {
						continue
					}
					switch last := ifs.Body.List[len(ifs.Body.List)-1].(type) {
					case *ast.ReturnStmt:
						left = true
					case *ast.BranchStmt:
						left = last.Tok == token.CONTINUE || last.Tok == token.BREAK
					}
				}
				if !left {
					ok = false
				}
			}
			return true
		})
	}
	return calls > 0 && ok
}

var _ = sort.Strings
