package props

import (
	"fmt"
	"go/ast"
	"go/types"
	"sort"
	"strings"

	"j5verif/checker/core"
	"j5verif/checker/rules"
)

func init() { Registry["C05"] = C05 }

const printRel = "internal/j5s/protoprint"

// requiredAccessors: the descriptor state that is serialised in .proto text
// (derived from descriptor.proto), per descriptor interface.
var requiredAccessors = map[string][]string{
	"FieldDescriptor":     {"Name", "Number", "Kind", "IsList", "IsMap", "HasOptionalKeyword", "JSONName", "ContainingOneof", "MapKey", "MapValue", "Message", "Enum"},
	"EnumValueDescriptor": {"Name", "Number"},
	"MethodDescriptor":    {"Name", "Input", "Output", "IsStreamingClient", "IsStreamingServer"},
	"MessageDescriptor":   {"Fields", "Oneofs", "Messages", "Enums", "IsMapEntry"},
	"EnumDescriptor":      {"Values"},
	"ServiceDescriptor":   {"Methods"},
	"OneofDescriptor":     {"Fields", "IsSynthetic"},
	"FileDescriptor":      {"Package", "Imports", "Messages", "Enums", "Services"},
}

var coverAllow = map[string]string{
	"MethodDescriptor.IsStreamingClient": "j5s never emits streaming methods and no proto in the repository's proto/ tree declares one (the property's input space); a streaming rpc would be printed as unary",
	"MethodDescriptor.IsStreamingServer": "j5s never emits streaming methods and no proto in the repository's proto/ tree declares one (the property's input space); a streaming rpc would be printed as unary",
}

// C05 — generated .proto text re-parses to the descriptor it was printed from.
func C05(r *core.Run) {
	panicScope(r, entriesC05...)
	printerCoverage(r)
	optionsEverywhere(r)
	scalarValueGuard(r)
	elementKinds(r)
	lessLocated(r)
	labelIndependence(r)
	refNameKeepsLast(r)
	detachedCommentsStayDetached(r)
	commentLinesKeepEmpty(r)
	referenceNamesResolve(r)
	jsonDefaultIsProtocs(r)
	presentNeverSkipped(r, printRel+"/optionreflect", "walkOptionMessage", "every populated option field is printed")
	nestedSkipsMapEntries(r, printRel) // a map entry printed as a nested message duplicates the map field
	// option string values are rendered by an adaptation of prototext's escaper, which the .proto parser reads back
	rules.VerbatimLoop(r, printRel+"/optionreflect", "prototextString", "google.golang.org/protobuf/internal/encoding/text", "appendString")
	rules.VerbatimCopy(r, printRel+"/optionreflect", "indexNeedEscapeInString", "google.golang.org/protobuf/internal/encoding/text", "indexNeedEscapeInString")
}

// printerCoverage (R-COVER).
func printerCoverage(r *core.Run) {
	r.Rule("R-COVER", "for each descriptor kind, every protoreflect accessor that carries state serialised in .proto text (name, number, type, cardinality, proto3 optional, JSON name, oneof membership, map key/value, nested lists …) is called somewhere in the printer packages; an accessor never consulted means that attribute cannot survive print → parse")
	called := map[string]map[string]bool{}
	for _, rel := range []string{printRel, printRel + "/optionreflect"} {
		pk := r.P.Pkg(rel)
		if pk == nil {
			r.Fatal("anchor: package %s not found", rel)
			return
		}
		core.AllFuncDecls(pk, func(fd *ast.FuncDecl) {
			ast.Inspect(fd.Body, func(n ast.Node) bool {
				c, ok := n.(*ast.CallExpr)
				if !ok {
					return true
				}
				s, ok := c.Fun.(*ast.SelectorExpr)
				if !ok {
					return true
				}
				t := core.TypeStr(pk.TypesInfo.TypeOf(s.X))
				if i := strings.Index(t, "protoreflect."); i >= 0 {
					tn := t[i+len("protoreflect."):]
					if called[tn] == nil {
						called[tn] = map[string]bool{}
					}
					called[tn][s.Sel.Name] = true
				}
				return true
			})
		})
	}
	var kinds []string
	for k := range requiredAccessors {
		kinds = append(kinds, k)
	}
	sort.Strings(kinds)
	for _, k := range kinds {
		for _, m := range requiredAccessors[k] {
			o := r.Add("R-COVER", "protoprint | "+k+"."+m, 0, "serialisable state "+k+"."+m+"()")
			switch {
			case called[k][m]:
				o.Auto("consulted by the printer")
			case coverAllow[k+"."+m] != "":
				o.Status = "table:" + coverAllow[k+"."+m]
			default:
				o.Fail("the printer never calls %s.%s(): that attribute is not written to the .proto text, so the re-parsed descriptor differs from the original whenever it is non-default", k, m)
			}
		}
	}
}

// optionsEverywhere: every printed element kind has its options printed.
func optionsEverywhere(r *core.Run) {
	r.Rule("R-COVER/options", "every function that prints a descriptor element (section, method, field/enum value, file) obtains that element's options through OptionsFor / optionsFor, so extension values are never silently skipped")
	for _, fn := range []string{"fileBuilder.printSection", "fileBuilder.printMethod", "fileBuilder.printFieldStyle", "fileBuilder.printFile"} {
		fd, pk := r.P.FuncDecl(printRel, fn)
		if fd == nil {
			r.Fatal("anchor: protoprint.%s not found", fn)
			continue
		}
		o := r.Add("R-COVER/options", "protoprint."+fn+" | options", fd.Pos(), "options of the element printed by "+fn)
		found := ""
		ast.Inspect(fd.Body, func(n ast.Node) bool {
			if c, ok := n.(*ast.CallExpr); ok {
				name := core.CalleeName(pk.TypesInfo, c)
				if strings.HasSuffix(name, ".OptionsFor") || strings.HasSuffix(name, ".optionsFor") {
					found = name[strings.LastIndex(name, ".")+1:]
				}
			}
			return true
		})
		if found != "" {
			o.Auto("calls %s", found)
		} else if !r.Table("cover_sites", o) {
			o.Fail("%s prints an element without asking for its options", fn)
		}
	}
}

// scalarValueGuard: ScalarValue is only printed for scalar option fields.
func scalarValueGuard(r *core.Run) {
	r.Rule("R-FLOW/optkind", "OptionField.ScalarValue is read only where the field is known to be scalar: under `X.FieldType == FieldTypeScalar`, inside `case FieldTypeScalar` of a switch on X.FieldType, or from a parsedOption's own root after such a switch; printing it for a message- or array-valued option emits an empty value and the option's content is lost")
	for _, rel := range []string{printRel} {
		pk := r.P.Pkg(rel)
		info := pk.TypesInfo
		core.AllFuncDecls(pk, func(fd *ast.FuncDecl) {
			ast.Inspect(fd.Body, func(n ast.Node) bool {
				s, ok := n.(*ast.SelectorExpr)
				if !ok || s.Sel.Name != "ScalarValue" {
					return true
				}
				base := core.ExprStr(s.X)
				o := r.Add("R-FLOW/optkind", fmt.Sprintf("protoprint.%s | %s.ScalarValue", core.FuncName(fd), core.NormExpr(info, s.X)), s.Pos(), "read of "+base+".ScalarValue")
				f := rules.FactsAt(info, fd.Body, s)
				ok2 := false
				for k := range f.True {
					if strings.HasPrefix(k, base+".FieldType == ") && strings.HasSuffix(k, "FieldTypeScalar") {
						ok2 = true
					}
				}
				// inside case FieldTypeScalar of switch <base>.FieldType
				for _, p := range core.PathTo(fd.Body, s) {
					if cc, isCC := p.(*ast.CaseClause); isCC {
						for _, e := range cc.List {
							if strings.HasSuffix(core.ExprStr(e), "FieldTypeScalar") {
								if sw := switchOf(fd, cc); sw != nil && sw.Tag != nil && (core.ExprStr(sw.Tag) == base+".FieldType" || strings.HasSuffix(core.ExprStr(sw.Tag), ".FieldType")) {
									ok2 = true
								}
							}
						}
					}
				}
				if ok2 {
					o.Auto("field is known to be scalar here")
				} else if !r.Table("cover_sites", o) {
					o.Fail("%s is not known to be a scalar option here: for a message-valued element this prints an empty value", base)
				}
				return true
			})
		})
	}
	r.Floor("R-FLOW/optkind", 5, "ScalarValue reads in options.go")
}

func switchOf(fd *ast.FuncDecl, cc *ast.CaseClause) *ast.SwitchStmt {
	var out *ast.SwitchStmt
	for _, p := range core.PathTo(fd.Body, cc) {
		if sw, ok := p.(*ast.SwitchStmt); ok {
			out = sw
		}
	}
	return out
}

// elementKinds: printElements handles every descriptor kind that the printer's
// add calls put into an element list.
func elementKinds(r *core.Run) {
	r.Rule("R-EXH/X3e", "printElements has a case for every descriptor interface whose values the printer adds to an element list (elements.add(<expr>)), derived from the static types of the add arguments")
	pk := r.P.Pkg(printRel)
	info := pk.TypesInfo
	added := map[string]bool{}
	core.AllFuncDecls(pk, func(fd *ast.FuncDecl) {
		ast.Inspect(fd.Body, func(n ast.Node) bool {
			c, ok := n.(*ast.CallExpr)
			if !ok || !core.CalleeIs(info, c, printRel, "sourceElements.add") || len(c.Args) != 1 {
				return true
			}
			t := core.TypeStr(info.TypeOf(c.Args[0]))
			added[t[strings.LastIndex(t, ".")+1:]] = true
			return true
		})
	})
	fd, _ := r.P.FuncDecl(printRel, "fileBuilder.printElements")
	if fd == nil {
		r.Fatal("anchor: protoprint.fileBuilder.printElements not found")
		return
	}
	// the dispatch is the type switch over a value of the descriptor interface, in printElements
	// itself or in a helper it hands the element to (not the type-order switch of add)
	cases := map[string]bool{}
	for _, d := range core.TreeDecls(pk, fd, 2, "add", "sourceElements.add") {
		ast.Inspect(d.Body, func(n ast.Node) bool {
			ts, ok := n.(*ast.TypeSwitchStmt)
			if !ok {
				return true
			}
			var subj ast.Expr
			switch a := ts.Assign.(type) {
			case *ast.AssignStmt:
				if ta, ok := a.Rhs[0].(*ast.TypeAssertExpr); ok {
					subj = ta.X
				}
			case *ast.ExprStmt:
				if ta, ok := a.X.(*ast.TypeAssertExpr); ok {
					subj = ta.X
				}
			}
			if subj == nil || !strings.HasSuffix(core.TypeStr(info.TypeOf(subj)), "protoreflect.Descriptor") {
				return true
			}
			for _, st := range ts.Body.List {
				for _, e := range st.(*ast.CaseClause).List {
					if t, ok := info.TypeOf(e).(*types.Named); ok {
						cases[t.Obj().Name()] = true
					}
				}
			}
			return true
		})
	}
	var ks []string
	for k := range added {
		ks = append(ks, k)
	}
	sort.Strings(ks)
	for _, k := range ks {
		o := r.Add("R-EXH/X3e", "protoprint.printElements | "+k, fd.Pos(), "element kind "+k)
		if cases[k] {
			o.Auto("added to element lists and handled")
		} else {
			o.Fail("%s values are added to element lists but printElements has no case: printing fails with 'unknown element type'", k)
		}
	}
	if len(ks) < 6 {
		r.Fatal("R-EXH/X3e: expected at least 6 element kinds added by the printer, found %v", ks)
	}
}

// labelIndependence (R-COVER/label): whether the printer writes the
// `optional` / `repeated` keyword may depend only on the accessors that carry
// that attribute — not on the field's kind or type. proto3 `optional` on a
// message field is part of the descriptor (proto3_optional), so dropping it by
// kind changes what re-parses.
func labelIndependence(r *core.Run) {
	r.Rule("R-COVER/label", "every place where the printer produces the keyword `optional ` or `repeated ` is conditioned (enclosing if / tagless-switch cases, including the earlier cases it falls past) only by the descriptor accessors that carry the label: IsList, IsMap, HasOptionalKeyword, Cardinality; a condition on Kind(), Message(), Enum() … makes the label of some field kinds unprintable")
	allowed := map[string]bool{"IsList": true, "IsMap": true, "HasOptionalKeyword": true, "Cardinality": true}
	n := 0
	for _, rel := range []string{printRel} {
		pk := r.P.Pkg(rel)
		if pk == nil {
			r.Fatal("anchor: package %s not found", rel)
			return
		}
		info := pk.TypesInfo
		core.AllFuncDecls(pk, func(fd *ast.FuncDecl) {
			var stack []ast.Node
			ast.Inspect(fd.Body, func(nd ast.Node) bool {
				if nd == nil {
					stack = stack[:len(stack)-1]
					return true
				}
				stack = append(stack, nd)
				lit, ok := nd.(*ast.BasicLit)
				if !ok {
					return true
				}
				s, isStr := core.ConstString(info, lit)
				if !isStr || (s != "optional " && s != "repeated ") {
					return true
				}
				n++
				var conds []ast.Expr
				for i := len(stack) - 2; i >= 0; i-- {
					switch x := stack[i].(type) {
					case *ast.IfStmt:
						if stack[i+1] == ast.Node(x.Body) || (x.Else != nil && stack[i+1] == ast.Node(x.Else)) {
							conds = append(conds, x.Cond)
						}
					case *ast.CaseClause:
						if i > 1 {
							if sw, ok := stack[i-2].(*ast.SwitchStmt); ok && sw.Tag == nil {
								for _, cl := range sw.Body.List {
									cc := cl.(*ast.CaseClause)
									conds = append(conds, cc.List...)
									if cc == x {
										break
									}
								}
							}
						}
					}
				}
				var foreign []string
				for _, c := range conds {
					ast.Inspect(c, func(x ast.Node) bool {
						call, ok := x.(*ast.CallExpr)
						if !ok {
							return true
						}
						sel, ok := call.Fun.(*ast.SelectorExpr)
						if !ok {
							return true
						}
						if strings.Contains(core.TypeStr(info.TypeOf(sel.X)), "protoreflect.FieldDescriptor") && !allowed[sel.Sel.Name] {
							foreign = append(foreign, sel.Sel.Name+"()")
						}
						return true
					})
				}
				o := r.Add("R-COVER/label", fmt.Sprintf("%s.%s | keyword %q", rel, core.FuncName(fd), s), lit.Pos(), "printing of the field label "+s)
				if len(foreign) == 0 {
					o.Auto("conditioned only by the label accessors")
				} else {
					o.Fail("the keyword also depends on %s: fields of some kinds lose their label in the printed text", strings.Join(foreign, ", "))
				}
				return true
			})
		})
	}
	r.Floor("R-COVER/label", 2, "places that print optional/repeated")
	_ = n
}

// refNameKeepsLast (R-FLOW/refname): the relative type name the printer
// writes for a field is built by dropping leading path elements shared with
// the referring message; the last element is the type's own name and must
// survive, or a message that refers to itself (or to an enclosing message) is
// printed without a type name.
func refNameKeepsLast(r *core.Run) {
	r.Rule("R-FLOW/refname", "in contextRefName every re-slice `p = p[k:]` of the path that is later joined into the printed type name happens where len(p) >= k+1 is known (dominating guard), so at least the type's own name remains")
	fd, pk := r.P.FuncDecl(printRel, "contextRefName")
	if fd == nil {
		r.Fatal("anchor: protoprint.contextRefName not found")
		return
	}
	info := pk.TypesInfo
	n := 0
	// the function itself and the same-package helpers it calls (the shortening may live in `shortRefName`)
	for _, fd := range core.TreeDecls(pk, fd, 2) {
		if fd.Body == nil {
			continue
		}
		fd := fd
		joined := map[string]bool{}
		ast.Inspect(fd.Body, func(n ast.Node) bool {
			if c, ok := n.(*ast.CallExpr); ok && core.CalleeName(info, c) == "strings.Join" && len(c.Args) == 2 {
				joined[core.ExprStr(c.Args[0])] = true
			}
			return true
		})
		ast.Inspect(fd.Body, func(nd ast.Node) bool {
			as, ok := nd.(*ast.AssignStmt)
			if !ok || len(as.Lhs) != 1 || len(as.Rhs) != 1 {
				return true
			}
			name := core.ExprStr(as.Lhs[0])
			se, ok := core.Unparen(as.Rhs[0]).(*ast.SliceExpr)
			if !ok || !joined[name] || core.ExprStr(se.X) != name || se.Low == nil || se.High != nil {
				return true
			}
			k, isC := core.ConstInt(info, se.Low)
			if !isC {
				return true
			}
			n++
			o := r.Add("R-FLOW/refname", fmt.Sprintf("%s.contextRefName | %s = %s", printRel, name, core.ExprStr(as.Rhs[0])), as.Pos(), "shortening of the printed type name")
			f := rules.FactsAt(info, fd.Body, as)
			if f.MinLen[name] >= int(k)+1 {
				o.Auto("len(%s) >= %d here: the type's own name is never dropped", name, f.MinLen[name])
			} else {
				o.Fail("only len(%s) >= %d is known here: the whole path can be dropped, and a field whose type is its own or an enclosing message is printed without a type name", name, f.MinLen[name])
			}
			return true
		})
	}
	r.Floor("R-FLOW/refname", 1, "re-slices of the joined path in contextRefName")
	_ = types.Universe
	_ = n
}

// lessLocated (R-DET/located): descriptors compiled from j5s carry source
// locations only for the elements that have comments; the others report
// StartLine 0. The element order therefore may come from line numbers only
// when both elements have one — otherwise every unlocated element sorts before
// every located one, enum values and messages are printed out of descriptor
// order and the text no longer re-parses to the same descriptor.
func lessLocated(r *core.Run) {
	r.Rule("R-DET/located", "in sourceElements.Less every return that orders two elements by comparing their StartLine is reached only where both StartLine values are known to be non-zero (enclosing conditions and earlier returning ifs); unlocated elements fall back to type order and descriptor index")
	fd, pk := r.P.FuncDecl(printRel, "sourceElements.Less")
	if fd == nil {
		r.Fatal("anchor: protoprint.sourceElements.Less not found")
		return
	}
	info := pk.TypesInfo
	isStartLine := func(e ast.Expr) bool {
		s, ok := core.Unparen(e).(*ast.SelectorExpr)
		return ok && s.Sel.Name == "StartLine"
	}
	n := 0
	ast.Inspect(fd.Body, func(nd ast.Node) bool {
		ret, ok := nd.(*ast.ReturnStmt)
		if !ok || len(ret.Results) != 1 {
			return true
		}
		b, ok := core.Unparen(ret.Results[0]).(*ast.BinaryExpr)
		if !ok || !isStartLine(b.X) || !isStartLine(b.Y) {
			return true
		}
		n++
		o := r.Add("R-DET/located", "protoprint.sourceElements.Less | return "+core.NormExpr(info, b), ret.Pos(), "order by line number")
		f := rules.FactsAt(info, fd.Body, ret)
		var missing []string
		for _, e := range []ast.Expr{b.X, b.Y} {
			s := core.ExprStr(core.Unparen(e))
			if !(f.False[s+" == 0"] || f.True[s+" != 0"] || f.True[s+" > 0"] || f.MinVal[s] >= 1) {
				missing = append(missing, s)
			}
		}
		if len(missing) == 0 {
			o.Auto("both line numbers are known to be set here")
		} else {
			o.Fail("%s may be 0 (no source location) where the line numbers decide the order: unlocated elements then sort before all located ones instead of staying in descriptor order", strings.Join(missing, " and "))
		}
		return true
	})
	r.Floor("R-DET/located", 1, "the line-number comparison of Less")
}
