package props

import (
	"fmt"
	"go/ast"
	"go/token"
	"go/types"
	"sort"
	"strings"

	"golang.org/x/tools/go/packages"

	"j5verif/checker/core"
	"j5verif/checker/rules"
)

func init() { Registry["C08"] = C08 }

const codecRel = "internal/codec"

// wireTable is the README "Scalar Types" table transcribed once: Go value type
// handed to the encoder -> required JSON token class.
var wireTable = map[string]string{
	"string":                       "escaped-string",
	"bool":                         "bare-literal",
	"int32":                        "bare-number",
	"uint32":                       "bare-number",
	"float32":                      "bare-number",
	"float64":                      "bare-number",
	"int64":                        "quoted-number",
	"uint64":                       "quoted-number",
	"[]byte":                       "escaped-string",
	"*j5types/date_j5t.Date":       "escaped-string",
	"*j5types/decimal_j5t.Decimal": "escaped-string",
	"time.Time":                    "escaped-string",
}

// C08 — the encoder emits well-formed JSON in the documented wire format.
func C08(r *core.Run) {
	pk := r.P.Pkg(codecRel)
	if pk == nil {
		r.Fatal("anchor: package %s not found", codecRel)
		return
	}
	r.Entry = []string{"codec.(*Codec).ProtoToJSON", "codec.(*encoder).encodeValue"}
	r.Assumef("README 'Scalar Types' table is the normative wire format (transcribed in props/c08.go wireTable)")
	r.Assumef("strconv.FormatInt/FormatUint produce only digits and '-'; appendString (verbatim protojson copy) produces a correctly escaped JSON string or an error")
	w := &wireCtx{r: r, pk: pk, info: pk.TypesInfo}
	w.classifyEmitters()
	w.ruleW5()
	w.ruleW1()
	w.ruleW2()
	w.ruleW3()
	w.ruleW4()
	w.ruleW6()
	w.ruleEscaper()
	// the assumption above is checked against the library source on every run
	rules.VerbatimCopy(r, codecRel, "appendString", "google.golang.org/protobuf/internal/encoding/json", "appendString")
	rules.VerbatimCopy(r, codecRel, "indexNeedEscapeInString", "google.golang.org/protobuf/internal/encoding/json", "indexNeedEscapeInString")
	// dispatch order of encodeValue (X4)
	rules.DispatchOrder(r, codecRel, "encoder.encodeValue", "lib/j5reflect")
	// an output is the caller's: it is not memory that goes back into a pool
	rules.PoolAlias(r, []string{codecRel})
	// a root message is an object or a oneof: which, is decided before it is written
	rootKindDecided(r)
	// totality of the encoder path
	sc := rules.NewScope(r, []rules.Entry{rules.E(codecRel, "Codec.ProtoToJSON"), rules.E(codecRel, "Codec.EncodeAny")})
	bce := rules.RunBCE(r, sc.Packages())
	rules.PanicSites(r, sc, bce, "panic_sites")
}

type emitClass struct {
	class string // escaped-string | quoted-number | bare-number | bare-literal | structural | raw-param | mixed | none
	why   string
}

type wireCtx struct {
	r            *core.Run
	pk           *packages.Package
	info         *types.Info
	methods      map[string]*ast.FuncDecl // encoder methods by name
	class        map[string]emitClass
	dispatchMemo map[*types.Func]int
	alias        map[string]string // actual name of a renamed encoder method → the name the rules use
}

func (w *wireCtx) isEncRecv(e ast.Expr) bool {
	n := core.NamedOf(w.info.TypeOf(e))
	return n != nil && n.Obj().Name() == "encoder" && n.Obj().Pkg() == w.pk.Types
}

// encCall returns the encoder method name when call is <encoder>.<method>(...).
func (w *wireCtx) encCall(call *ast.CallExpr) string {
	s, ok := call.Fun.(*ast.SelectorExpr)
	if !ok || !w.isEncRecv(s.X) {
		return ""
	}
	if a, ok := w.alias[s.Sel.Name]; ok {
		return a
	}
	return s.Sel.Name
}

// argKind classifies the byte-slice argument of enc.add / addQuoted inside fd.
func (w *wireCtx) argKind(fd *ast.FuncDecl, arg ast.Expr) (kind, detail string) {
	arg = core.Unparen(arg)
	// []byte(X)
	if c, ok := arg.(*ast.CallExpr); ok && core.IsConversion(w.info, c) && len(c.Args) == 1 {
		if s, ok := core.ConstString(w.info, c.Args[0]); ok {
			return "const", s
		}
		return w.strKind(fd, c.Args[0])
	}
	if id, ok := arg.(*ast.Ident); ok {
		// parameter?
		for _, f := range fd.Type.Params.List {
			for _, n := range f.Names {
				if w.info.Defs[n] == w.info.Uses[id] {
					return "param", id.Name
				}
			}
		}
		// local assigned from appendString
		src := w.assignSources(fd, w.info.Uses[id])
		if len(src) > 0 {
			all := true
			for _, s := range src {
				if c, ok := core.Unparen(s).(*ast.CallExpr); !ok || !core.CalleeIs(w.info, c, codecRel, "appendString") {
					if cl, ok := core.Unparen(s).(*ast.CallExpr); ok && core.CalleeName(w.info, cl) == "builtin.make" {
						continue // buffer := make([]byte, 0, n) before appendString
					}
					all = false
				}
			}
			if all {
				return "escaped", "result of appendString"
			}
		}
		return "other", id.Name
	}
	return "other", core.ExprStr(arg)
}

// strKind classifies a string expression converted to bytes.
func (w *wireCtx) strKind(fd *ast.FuncDecl, e ast.Expr) (string, string) {
	e = core.Unparen(e)
	isFmt := func(c *ast.CallExpr) (string, bool) {
		switch core.CalleeName(w.info, c) {
		case "strconv.FormatInt", "strconv.FormatUint":
			return "num", true
		case "strconv.FormatFloat":
			return "float", true
		}
		return "", false
	}
	if c, ok := e.(*ast.CallExpr); ok {
		if k, ok := isFmt(c); ok {
			return k, core.CalleeName(w.info, c)
		}
	}
	if id, ok := e.(*ast.Ident); ok {
		src := w.assignSources(fd, w.info.Uses[id])
		kind := ""
		for _, s := range src {
			c, ok := core.Unparen(s).(*ast.CallExpr)
			if !ok {
				return "other", id.Name
			}
			k, ok := isFmt(c)
			if !ok || (kind != "" && kind != k) {
				return "other", id.Name
			}
			kind = k
		}
		if kind != "" {
			return kind, "strconv result"
		}
		for _, f := range fd.Type.Params.List {
			for _, n := range f.Names {
				if w.info.Defs[n] == w.info.Uses[id] {
					return "param", id.Name
				}
			}
		}
	}
	return "other", core.ExprStr(e)
}

func (w *wireCtx) assignSources(fd *ast.FuncDecl, obj types.Object) []ast.Expr {
	var out []ast.Expr
	if obj == nil {
		return nil
	}
	ast.Inspect(fd.Body, func(n ast.Node) bool {
		switch x := n.(type) {
		case *ast.AssignStmt:
			for i, l := range x.Lhs {
				id, ok := l.(*ast.Ident)
				if !ok || (w.info.Defs[id] != obj && w.info.Uses[id] != obj) {
					continue
				}
				if len(x.Rhs) == len(x.Lhs) {
					out = append(out, x.Rhs[i])
				} else if len(x.Rhs) == 1 {
					out = append(out, x.Rhs[0])
				}
			}
		case *ast.ValueSpec:
			for i, nme := range x.Names {
				if w.info.Defs[nme] == obj && i < len(x.Values) {
					out = append(out, x.Values[i])
				}
			}
		}
		return true
	})
	return out
}

// classifyEmitters derives, per encoder method, the token class it writes.
func (w *wireCtx) classifyEmitters() {
	w.methods = map[string]*ast.FuncDecl{}
	w.class = map[string]emitClass{}
	core.AllFuncDecls(w.pk, func(fd *ast.FuncDecl) {
		if core.RecvName(fd) == "encoder" {
			w.methods[fd.Name.Name] = fd
		}
	})
	// the encoder methods the rules speak of by name; one that was renamed is found through
	// its recorded fingerprint and keeps its role under the name the rules know
	w.alias = map[string]string{}
	for _, name := range []string{"add", "addQuoted", "addString", "fieldLabel", "fieldSep", "openObject", "closeObject", "openArray", "closeArray", "encodeAny", "encodeOneofBody", "encodeScalarField", "encodeValue"} {
		if w.methods[name] != nil {
			continue
		}
		if fd, _ := w.r.P.FuncDecl(codecRel, "encoder."+name); fd != nil {
			delete(w.methods, fd.Name.Name)
			w.methods[name] = fd
			w.alias[fd.Name.Name] = name
		}
	}
	if w.methods["add"] == nil || w.methods["addString"] == nil || w.methods["addQuoted"] == nil {
		w.r.Fatal("anchor: encoder.add/addString/addQuoted not found")
		return
	}
	// leaf classes; a method that writes through another encoder method (addLiteral(lit) →
	// add([]byte(lit))) takes over that method's kinds, with "what the parameter holds" replaced
	// by what is passed at the call
	kindsMemo := map[string][]string{}
	var kindsOf func(name string, depth int) []string
	kindsOf = func(name string, depth int) []string {
		if k, ok := kindsMemo[name]; ok {
			return k
		}
		fd := w.methods[name]
		if fd == nil || depth > 3 {
			return nil
		}
		kindsMemo[name] = nil
		var kinds []string
		classify := func(prim string, k, d string) string {
			switch prim {
			case "add":
				if k == "const" {
					if isJSONStructural(d) {
						return "structural:" + d
					}
					return "constlit:" + d
				}
				return k
			case "addQuoted":
				if k == "const" {
					return "quoted-const:" + d
				}
				return "quoted-" + k
			}
			return k
		}
		argKindAny := func(in *ast.FuncDecl, arg ast.Expr) (string, string) {
			if bt, isB := w.info.TypeOf(arg).Underlying().(*types.Basic); isB && bt.Info()&types.IsString != 0 {
				if s, isC := core.ConstString(w.info, arg); isC {
					return "const", s
				}
				if id, ok := core.Unparen(arg).(*ast.Ident); ok {
					for _, f := range in.Type.Params.List {
						for _, n := range f.Names {
							if w.info.Defs[n] == w.info.Uses[id] {
								return "param", id.Name
							}
						}
					}
				}
				return w.strKind(in, arg)
			}
			return w.argKind(in, arg)
		}
		ast.Inspect(fd.Body, func(n ast.Node) bool {
			c, ok := n.(*ast.CallExpr)
			if !ok {
				return true
			}
			switch m := w.encCall(c); m {
			case "":
			case "add", "addQuoted":
				k, d := w.argKind(fd, c.Args[0])
				kinds = append(kinds, classify(m, k, d))
			case "addString":
				kinds = append(kinds, "addString")
			default:
				// another encoder method that is itself a plain writer of its first parameter
				if m == name || w.methods[m] == nil || len(c.Args) == 0 || isPrimitiveEmitter(m) {
					break
				}
				for _, hk := range kindsOf(m, depth+1) {
					switch hk {
					case "param", "quoted-param":
						prim := "add"
						if hk == "quoted-param" {
							prim = "addQuoted"
						}
						k, d := argKindAny(fd, c.Args[0])
						kinds = append(kinds, classify(prim, k, d))
					}
				}
			}
			return true
		})
		kindsMemo[name] = kinds
		return kinds
	}
	// every method is classified from depth 0 with a memo of its own: a result computed as somebody's
	// callee near the depth limit is truncated, and handing it on through a shared memo made the class
	// of a method depend on the order in which the map of methods was walked
	var names []string
	for name := range w.methods {
		names = append(names, name)
	}
	sort.Strings(names)
	for _, name := range names {
		for k := range kindsMemo {
			delete(kindsMemo, k)
		}
		w.class[name] = summarise(name, kindsOf(name, 0))
	}
}

func isJSONStructural(s string) bool {
	switch s {
	case "{", "}", "[", "]", ",", ":", `"`:
		return true
	}
	return false
}

func summarise(name string, kinds []string) emitClass {
	set := map[string]bool{}
	for _, k := range kinds {
		set[k] = true
	}
	has := func(p string) bool {
		for k := range set {
			if strings.HasPrefix(k, p) {
				return true
			}
		}
		return false
	}
	only := func(ps ...string) bool {
		for k := range set {
			ok := false
			for _, p := range ps {
				if strings.HasPrefix(k, p) {
					ok = true
				}
			}
			if !ok {
				return false
			}
		}
		return len(set) > 0
	}
	var ks []string
	for k := range set {
		ks = append(ks, k)
	}
	sort.Strings(ks)
	why := strings.Join(ks, ",")
	switch {
	case name == "add":
		return emitClass{"raw-param", why}
	case only("escaped"):
		return emitClass{"escaped-string", why}
	case only("addString"):
		return emitClass{"escaped-string", why}
	case only("quoted-num"):
		return emitClass{"quoted-number", why}
	case only("num"):
		return emitClass{"bare-number", why}
	case only("float", "quoted-const:"):
		if has("float") {
			return emitClass{"bare-number", why}
		}
	case only("constlit:"):
		return emitClass{"bare-literal", why}
	case only("structural:"):
		return emitClass{"structural", why}
	case only("structural:", "param") && name == "addQuoted":
		return emitClass{"quoted-param", why}
	case len(set) == 0:
		return emitClass{"none", ""}
	}
	return emitClass{"mixed", why}
}

// W5: who may write raw bytes.
func (w *wireCtx) ruleW5() {
	r := w.r
	r.Rule("R-WIRE/W5", "raw bytes reach the output buffer only as: JSON structural constants, strconv-formatted numbers, the result of appendString (escaped), or — inside encodeAny — pre-encoded J5 JSON that is definitely assigned on every path to the splice; addQuoted may only be given strconv-formatted numbers or quote-free constants (never an arbitrary string)")
	for name, fd := range w.methods {
		fname := "encoder." + name
		ast.Inspect(fd.Body, func(n ast.Node) bool {
			c, ok := n.(*ast.CallExpr)
			if !ok {
				return true
			}
			m := w.encCall(c)
			if m != "add" && m != "addQuoted" {
				return true
			}
			k, d := w.argKind(fd, c.Args[0])
			o := r.Add("R-WIRE/W5", fmt.Sprintf("%s | %s(%s)", fname, m, core.ExprStr(c.Args[0])), c.Pos(), fmt.Sprintf("%s of %s", m, core.ExprStr(c.Args[0])))
			switch {
			case k == "const" && m == "add":
				o.Auto("constant %q", d)
			case k == "const" && m == "addQuoted":
				if strings.ContainsAny(d, "\"\\") || hasCtl(d) {
					o.Fail("quoted constant %q needs escaping", d)
				} else {
					o.Auto("quote-free constant %q", d)
				}
			case k == "num" || k == "float":
				o.Auto("strconv-formatted number (%s)", d)
			case k == "escaped" && m == "add":
				o.Auto("escaped by appendString")
			case k == "param" && (name == "add" || name == "addQuoted"):
				o.Auto("pass-through primitive; every caller is an obligation of this rule")
			case name == "encodeAny" && m == "add":
				if why, ok := w.spliceOK(fd, c); ok {
					o.Auto("%s", why)
				} else {
					o.Fail("%s", why)
				}
			case k == "param":
				// a helper that writes what it is handed: the obligation moves to its call sites
				if why, ok := w.paramSitesOK(fd, d, m, 2); ok {
					o.Auto("%s", why)
				} else {
					o.Fail("%s", why)
				}
			default:
				o.Fail("%s receives %s (%s): arbitrary text written without JSON escaping produces malformed or forged documents", m, core.ExprStr(c.Args[0]), k)
			}
			return true
		})
	}
	r.Floor("R-WIRE/W5", 6, "add/addQuoted call sites of the encoder (structural constants, numbers, the quoted form, the escaped string, the Any splice); helpers that write a parameter count once")
}

// paramSitesOK: fd hands its parameter to add/addQuoted; every call site of fd
// in the package must pass something that would have been accepted in place:
// a constant, a formatted number, an escaped string, or — inside encodeAny's
// call tree — the pre-encoded splice.
func (w *wireCtx) paramSitesOK(fd *ast.FuncDecl, param, prim string, depth int) (string, bool) {
	idx, i := -1, 0
	for _, f := range fd.Type.Params.List {
		for _, n := range f.Names {
			if n.Name == param {
				idx = i
			}
			i++
		}
	}
	fobj := w.info.Defs[fd.Name]
	if idx < 0 || fobj == nil {
		return "parameter " + param + " not found", false
	}
	inAny := map[*ast.FuncDecl]bool{}
	if afd := w.methods["encodeAny"]; afd != nil {
		for _, d := range core.TreeDecls(w.pk, afd, 3) {
			inAny[d] = true
		}
	}
	sites, bad := 0, ""
	core.AllFuncDecls(w.pk, func(caller *ast.FuncDecl) {
		if caller.Body == nil {
			return
		}
		ast.Inspect(caller.Body, func(n ast.Node) bool {
			c, ok := n.(*ast.CallExpr)
			if !ok || idx >= len(c.Args) {
				return true
			}
			fn := core.CalleeFunc(w.info, c)
			if fn == nil || fn.Origin() != fobj {
				return true
			}
			sites++
			arg := c.Args[idx]
			k, d := w.argKind(caller, arg)
			if bt, isB := w.info.TypeOf(arg).Underlying().(*types.Basic); isB && bt.Info()&types.IsString != 0 {
				if s, isC := core.ConstString(w.info, arg); isC {
					k, d = "const", s
				} else {
					k, d = w.strKind(caller, arg) // the helper converts the string to bytes itself
				}
			}
			switch {
			case k == "const" && prim == "add", k == "num", k == "float", k == "escaped" && prim == "add":
			case k == "const" && prim == "addQuoted" && !strings.ContainsAny(d, "\"\\") && !hasCtl(d):
			case k == "param" && depth > 0:
				if why, ok := w.paramSitesOK(caller, d, prim, depth-1); !ok {
					bad = why
				}
			case prim == "add" && inAny[caller]:
				if why, ok := w.spliceOK(caller, &ast.CallExpr{Fun: c.Fun, Args: []ast.Expr{arg}}); !ok {
					bad = why
				}
			default:
				bad = fmt.Sprintf("%s passes %s (%s) to %s, which writes it with %s", core.FuncName(caller), core.ExprStr(arg), k, core.FuncName(fd), prim)
			}
			return true
		})
	})
	if sites == 0 {
		return "helper " + core.FuncName(fd) + " writes its parameter " + param + " unescaped and has no call site to judge it by", false
	}
	if bad != "" {
		return bad, false
	}
	return fmt.Sprintf("helper writing its parameter: all %d call site(s) pass a constant, a formatted number, an escaped string or the pre-encoded Any content", sites), true
}

func hasCtl(s string) bool {
	for _, c := range s {
		if c < ' ' {
			return true
		}
	}
	return false
}

// spliceOK: the spliced variable is assigned on every path (if/else-if chain
// whose every arm assigns or returns) from pre-encoded sources.
func (w *wireCtx) spliceOK(fd *ast.FuncDecl, call *ast.CallExpr) (string, bool) {
	id, ok := core.Unparen(call.Args[0]).(*ast.Ident)
	if !ok {
		// the stored document spliced without a local in between
		if sel, isSel := core.Unparen(call.Args[0]).(*ast.SelectorExpr); isSel && w.preEncoded(fd, sel) {
			return "pre-encoded J5 JSON (" + sel.Sel.Name + ") spliced directly", true
		}
		return "spliced expression is not a variable", false
	}
	obj := w.info.Uses[id]
	// the whole selection factored out: `data, err := helper(…)`; then every
	// return of the helper must hand back a pre-encoded source or an error
	if srcs := w.assignSources(fd, obj); len(srcs) == 1 {
		if c, isCall := core.Unparen(srcs[0]).(*ast.CallExpr); isCall {
			if fn := core.CalleeFunc(w.info, c); fn != nil && fn.Pkg() == w.pk.Types && !strings.HasSuffix(fn.Name(), "encode") {
				if cd := core.DeclOf(w.pk, fn.Origin()); cd != nil && cd.Body != nil {
					bad := ""
					n := 0
					ast.Inspect(cd.Body, func(x ast.Node) bool {
						if _, isLit := x.(*ast.FuncLit); isLit {
							return false
						}
						ret, ok := x.(*ast.ReturnStmt)
						if ok && len(ret.Results) == 1 {
							// return f(x): only the codec's own encode hands back (json, error)
							n++
							if !w.preEncoded(cd, ret.Results[0]) {
								bad = core.ExprStr(ret.Results[0])
							}
							return true
						}
						if !ok || len(ret.Results) != 2 {
							return true
						}
						n++
						first := core.Unparen(ret.Results[0])
						switch {
						case core.IsNilIdent(w.info, first) && !core.IsNilIdent(w.info, ret.Results[1]):
						case w.preEncoded(cd, first):
						default:
							bad = core.ExprStr(first)
						}
						return true
					})
					if bad == "" && n > 0 {
						return "pre-encoded J5 JSON selected by " + cd.Name.Name + ": every return hands back Any.J5Json, the codec's own encode result, or an error", true
					}
					return "helper " + cd.Name.Name + " can return " + bad + ", which is not a pre-encoded source", false
				}
			}
		}
	}
	// sources
	for _, s := range w.assignSources(fd, obj) {
		s = core.Unparen(s)
		switch x := s.(type) {
		case *ast.SelectorExpr:
			if x.Sel.Name != "J5Json" {
				return "unexpected splice source " + core.ExprStr(s), false
			}
		case *ast.Ident:
			// innerBytes := enc.codec.encode(dst)
			ok := false
			for _, s2 := range w.assignSources(fd, w.info.Uses[x]) {
				if c, isCall := core.Unparen(s2).(*ast.CallExpr); isCall && core.CalleeIs(w.info, c, codecRel, "Codec.encode") {
					ok = true
				}
			}
			if !ok {
				return "unexpected splice source " + core.ExprStr(s), false
			}
		default:
			return "unexpected splice source " + core.ExprStr(s), false
		}
	}
	// definite assignment: find the top-level if-chain that assigns it
	for _, st := range fd.Body.List {
		ifs, ok := st.(*ast.IfStmt)
		if !ok {
			continue
		}
		assigns := func(b *ast.BlockStmt) bool {
			found := false
			ast.Inspect(b, func(n ast.Node) bool {
				if as, ok := n.(*ast.AssignStmt); ok {
					for _, l := range as.Lhs {
						if li, ok := l.(*ast.Ident); ok && w.info.Uses[li] == obj {
							found = true
						}
					}
				}
				return true
			})
			return found
		}
		if !assigns(ifs.Body) {
			continue
		}
		// walk the chain
		cur := ifs
		for {
			if !assigns(cur.Body) && !endsInReturn(cur.Body) {
				return "an arm of the if-chain neither assigns the spliced value nor returns", false
			}
			switch e := cur.Else.(type) {
			case nil:
				return "the if-chain assigning the spliced value has no final else: on the fall-through path nothing was assigned and `\"value\":` is followed by nothing", false
			case *ast.IfStmt:
				cur = e
				continue
			case *ast.BlockStmt:
				if !assigns(e) && !endsInReturn(e) {
					return "the final else neither assigns nor returns", false
				}
				return "pre-encoded J5 JSON (Any.J5Json or the codec's own encode result), assigned or rejected on every arm of the if-chain", true
			}
		}
	}
	return "no if-chain assigning the spliced value found (unrecognised idiom)", false
}

func endsInReturn(b *ast.BlockStmt) bool {
	if len(b.List) == 0 {
		return false
	}
	_, ok := b.List[len(b.List)-1].(*ast.ReturnStmt)
	return ok
}

// preEncoded: the expression is Any.J5Json, or a variable assigned from the
// codec's own encode.
func (w *wireCtx) preEncoded(fd *ast.FuncDecl, e ast.Expr) bool {
	switch x := core.Unparen(e).(type) {
	case *ast.SelectorExpr:
		return x.Sel.Name == "J5Json"
	case *ast.Ident:
		srcs := w.assignSources(fd, w.info.Uses[x])
		if len(srcs) == 0 {
			return false
		}
		for _, s2 := range srcs {
			if id2, isID := core.Unparen(s2).(*ast.Ident); isID && w.info.Uses[id2] == w.info.Uses[x] {
				return false
			}
			if !w.preEncoded(fd, s2) {
				return false
			}
		}
		return true
	case *ast.CallExpr:
		return core.CalleeIs(w.info, x, codecRel, "Codec.encode")
	}
	return false
}

// W1: per Go type, the emitter class chosen by encodeScalarField.
func (w *wireCtx) ruleW1() {
	r := w.r
	r.Rule("R-WIRE/W1", "for each case of encodeScalarField's type switch the emitter called has the token class the README table requires for that Go type (64-bit integers quoted, 32-bit integers/floats/bools bare, everything else an escaped string); every Go type scalarGoFromReflect can return has a case")
	fd := w.methods["encodeScalarField"]
	if fd == nil {
		r.Fatal("anchor: encoder.encodeScalarField not found")
		return
	}
	var ts *ast.TypeSwitchStmt
	ast.Inspect(fd.Body, func(n ast.Node) bool {
		if t, ok := n.(*ast.TypeSwitchStmt); ok && ts == nil {
			ts = t
		}
		return true
	})
	if ts == nil {
		r.Fatal("encodeScalarField: no type switch (unrecognised dispatch idiom)")
		return
	}
	handled := map[string]bool{}
	for _, cc := range w.scalarCases(fd) {
		for _, te := range cc.List {
			tname := core.TypeStr(w.info.TypeOf(te))
			handled[tname] = true
			want, known := wireTable[tname]
			o := r.Add("R-WIRE/W1", "encoder.encodeScalarField | case "+tname, cc.Pos(), "wire class for Go type "+tname)
			if !known {
				o.Fail("type %s is not in the documented scalar table", tname)
				continue
			}
			// emitter calls in the clause
			got := map[string]bool{}
			for _, st := range cc.Body {
				ast.Inspect(st, func(n ast.Node) bool {
					if c, ok := n.(*ast.CallExpr); ok {
						if m := w.encCall(c); m != "" {
							got[w.class[m].class+" via "+m] = true
						}
					}
					return true
				})
			}
			var gl []string
			for g := range got {
				gl = append(gl, g)
			}
			sort.Strings(gl)
			if len(gl) == 1 && strings.HasPrefix(gl[0], want+" via ") {
				o.Auto("%s", gl[0])
			} else {
				o.Fail("README requires %s for %s, the clause emits %v", want, tname, gl)
			}
		}
	}
	// producer coverage
	pfd, ppk := r.P.FuncDecl("lib/j5reflect", "scalarGoFromReflect")
	if pfd == nil {
		r.Fatal("anchor: j5reflect.scalarGoFromReflect not found")
		return
	}
	produced := map[string]token.Pos{}
	ast.Inspect(pfd.Body, func(n ast.Node) bool {
		ret, ok := n.(*ast.ReturnStmt)
		if !ok || len(ret.Results) != 2 || !core.IsNilIdent(ppk.TypesInfo, ret.Results[1]) {
			return true
		}
		t := ppk.TypesInfo.TypeOf(ret.Results[0])
		if t != nil {
			produced[core.TypeStr(t)] = ret.Pos()
		}
		return true
	})
	for t, pos := range produced {
		if t == "lib/j5reflect.AnyValue" {
			continue // Any-typed scalars are not part of the scalar table
		}
		o := r.Add("R-WIRE/W1", "scalarGoFromReflect -> encodeScalarField | "+t, pos, "Go type "+t+" produced for the encoder")
		if handled[t] {
			o.Auto("has a case")
		} else {
			o.Fail("scalarGoFromReflect returns %s but encodeScalarField has no case for it: encoding such a field fails", t)
		}
	}
	r.Floor("R-WIRE/W1", 20, "12 cases + 12 produced types")
}

// scalarCases: the clauses of the type switch(es) by which encodeScalarField
// dispatches on the Go value — its own, and those of helpers it hands the value
// to (a switch over an empty-interface parameter of a same-package function
// called from it with an empty-interface argument).
func (w *wireCtx) scalarCases(fd *ast.FuncDecl) []*ast.CaseClause {
	isAny := func(t types.Type) bool {
		it, ok := t.Underlying().(*types.Interface)
		return ok && it.NumMethods() == 0
	}
	var out []*ast.CaseClause
	collect := func(d *ast.FuncDecl) {
		ast.Inspect(d.Body, func(n ast.Node) bool {
			ts, ok := n.(*ast.TypeSwitchStmt)
			if !ok {
				return true
			}
			var subj ast.Expr
			switch a := ts.Assign.(type) {
			case *ast.AssignStmt:
				if len(a.Rhs) == 1 {
					if ta, ok := a.Rhs[0].(*ast.TypeAssertExpr); ok {
						subj = ta.X
					}
				}
			case *ast.ExprStmt:
				if ta, ok := a.X.(*ast.TypeAssertExpr); ok {
					subj = ta.X
				}
			}
			if subj == nil || !isAny(w.info.TypeOf(subj)) {
				return true
			}
			for _, cl := range ts.Body.List {
				out = append(out, cl.(*ast.CaseClause))
			}
			return true
		})
	}
	collect(fd)
	seen := map[*ast.FuncDecl]bool{fd: true}
	ast.Inspect(fd.Body, func(n ast.Node) bool {
		c, ok := n.(*ast.CallExpr)
		if !ok {
			return true
		}
		fn := core.CalleeFunc(w.info, c)
		if fn == nil || fn.Pkg() != w.pk.Types {
			return true
		}
		hands := false
		for _, a := range c.Args {
			if t := w.info.TypeOf(a); t != nil && isAny(t) {
				hands = true
			}
		}
		if cd := core.DeclOf(w.pk, fn.Origin()); hands && cd != nil && cd.Body != nil && !seen[cd] {
			seen[cd] = true
			collect(cd)
		}
		return true
	})
	return out
}

// W2: constants resolved by object identity.
func (w *wireCtx) ruleW2() {
	r := w.r
	r.Rule("R-WIRE/W2", "bytes use base64.StdEncoding (padded standard alphabet); timestamps are converted to UTC before Format and use the RFC3339/RFC3339Nano layout; Date.DateString zero-pads to 4-2-2 digits separated by '-'")
	fd := w.methods["encodeScalarField"]
	if fd == nil {
		return
	}
	ast.Inspect(core.TreeBody(w.pk, fd), func(n ast.Node) bool {
		c, ok := n.(*ast.CallExpr)
		if !ok {
			return true
		}
		switch core.CalleeName(w.info, c) {
		case "(*encoding/base64.Encoding).EncodeToString":
			o := r.Add("R-WIRE/W2", "encoder.encodeScalarField | base64 encoder", c.Pos(), "base64 encoder object")
			s := c.Fun.(*ast.SelectorExpr)
			if core.ObjPath(core.UsedObj(w.info, s.X)) == "encoding/base64.StdEncoding" {
				o.Auto("base64.StdEncoding")
			} else {
				o.Fail("encoder is %s, the documented format is padded standard base64 (base64.StdEncoding)", core.ExprStr(s.X))
			}
		case "(time.Time).Format":
			o := r.Add("R-WIRE/W2", "encoder.encodeScalarField | timestamp format", c.Pos(), "timestamp rendering")
			layout := core.ObjPath(core.UsedObj(w.info, c.Args[0]))
			s := c.Fun.(*ast.SelectorExpr)
			utc := false
			if ic, ok := core.Unparen(s.X).(*ast.CallExpr); ok {
				switch core.CalleeName(w.info, ic) {
				case "(time.Time).UTC":
					utc = true
				case "(time.Time).In":
					utc = core.ObjPath(core.UsedObj(w.info, ic.Args[0])) == "time.UTC"
				}
			}
			switch {
			case layout != "time.RFC3339" && layout != "time.RFC3339Nano":
				o.Fail("layout %s is not RFC3339", core.ExprStr(c.Args[0]))
			case !utc:
				o.Fail("the time is not converted to UTC before formatting")
			default:
				o.Auto("UTC, %s", layout)
			}
		}
		return true
	})
	dfd, dpk := r.P.FuncDecl("j5types/date_j5t", "Date.DateString")
	if dfd == nil {
		r.Fatal("anchor: date_j5t.Date.DateString not found")
		return
	}
	found := false
	ast.Inspect(dfd.Body, func(n ast.Node) bool {
		c, ok := n.(*ast.CallExpr)
		if !ok || core.CalleeName(dpk.TypesInfo, c) != "fmt.Sprintf" {
			return true
		}
		found = true
		o := r.Add("R-WIRE/W2", "date_j5t.Date.DateString | format", c.Pos(), "date format verb")
		f, _ := core.ConstString(dpk.TypesInfo, c.Args[0])
		if f == "%04d-%02d-%02d" && len(c.Args) == 4 && strings.HasSuffix(core.ExprStr(c.Args[1]), "Year") && strings.HasSuffix(core.ExprStr(c.Args[2]), "Month") && strings.HasSuffix(core.ExprStr(c.Args[3]), "Day") {
			o.Auto("%%04d-%%02d-%%02d of Year, Month, Day")
		} else {
			o.Fail("format %q with args %s does not render zero-padded YYYY-MM-DD", f, core.ExprStr(c.Args[1]))
		}
		return true
	})
	if !found {
		// a hand-written rendering: the year handed to a strconv formatter comes out with as many
		// digits as it has, unless the code pads it after comparing it with a power of ten
		yearSel := func(e ast.Expr) bool {
			hit := false
			ast.Inspect(e, func(x ast.Node) bool {
				if s, ok := x.(*ast.SelectorExpr); ok && s.Sel.Name == "Year" {
					hit = true
				}
				return !hit
			})
			return hit
		}
		var plain *ast.CallExpr
		padded := false
		ast.Inspect(core.TreeBody(dpk, dfd), func(n ast.Node) bool {
			switch x := n.(type) {
			case *ast.CallExpr:
				switch core.CalleeName(dpk.TypesInfo, x) {
				case "strconv.AppendInt", "strconv.AppendUint":
					if len(x.Args) >= 2 && yearSel(x.Args[1]) {
						plain = x
					}
				case "strconv.Itoa", "strconv.FormatInt", "strconv.FormatUint":
					if len(x.Args) >= 1 && yearSel(x.Args[0]) {
						plain = x
					}
				}
			case *ast.BinaryExpr:
				if (x.Op == token.LSS || x.Op == token.LEQ || x.Op == token.GTR || x.Op == token.GEQ) && (yearSel(x.X) || yearSel(x.Y)) {
					padded = true // the year is compared with something: a padding decision may follow
				}
			}
			return true
		})
		if plain != nil && !padded {
			found = true
			o := r.Add("R-WIRE/W2", "date_j5t.Date.DateString | format", plain.Pos(), "date format verb")
			o.Fail("the year is rendered by %s, which writes as many digits as the number has, and nothing compares it with a power of ten to pad it: years below 1000 come out shorter than the documented zero-padded YYYY", core.CalleeName(dpk.TypesInfo, plain))
		}
	}
	if !found {
		r.Fatal("Date.DateString: no fmt.Sprintf (unrecognised rendering idiom)")
	}
	r.Floor("R-WIRE/W2", 3, "base64, timestamp, date")
}

// W3: finiteness before FormatFloat.
func (w *wireCtx) ruleW3() {
	r := w.r
	r.Rule("R-WIRE/W3", "strconv.FormatFloat output reaches the buffer only on paths dominated by NaN and Inf tests on the same value (NaN/Inf have no JSON literal)")
	n := 0
	core.AllFuncDecls(w.pk, func(fd *ast.FuncDecl) {
		ast.Inspect(fd.Body, func(nd ast.Node) bool {
			c, ok := nd.(*ast.CallExpr)
			if !ok || core.CalleeName(w.info, c) != "strconv.FormatFloat" {
				return true
			}
			n++
			v := core.ExprStr(c.Args[0])
			o := r.Add("R-WIRE/W3", core.FuncName(fd)+" | FormatFloat("+v+")", c.Pos(), "float rendering of "+v)
			f := rules.FactsAt(w.info, fd.Body, c)
			nan := f.False["math.IsNaN("+v+")"] || f.True[v+" == "+v]
			inf := f.False["math.IsInf("+v+", 0)"] || (f.False["math.IsInf("+v+", 1)"] && f.False["math.IsInf("+v+", -1)"])
			if nan && inf {
				o.Auto("dominated by !math.IsNaN(%s) and !math.IsInf(%s, 0)", v, v)
			} else {
				o.Fail("no dominating NaN/Inf test (nan=%v inf=%v): a non-finite value is written as NaN/+Inf, which is not JSON", nan, inf)
			}
			return true
		})
	})
	r.Floor("R-WIRE/W3", 1, "addFloat")
}

// W4: open/close pairing and the separator idiom.
func (w *wireCtx) ruleW4() {
	r := w.r
	r.Rule("R-WIRE/W4", "every openObject()/openArray() is paired with the matching close, deferred in the same block with no return in between; in every container emitter the element callback starts with `if !first { fieldSep() }; first = false` before anything else is written")
	for name, fd := range w.methods {
		ast.Inspect(fd.Body, func(n ast.Node) bool {
			b, ok := n.(*ast.BlockStmt)
			if !ok {
				return true
			}
			for i, st := range b.List {
				es, ok := st.(*ast.ExprStmt)
				if !ok {
					continue
				}
				c, ok := es.X.(*ast.CallExpr)
				if !ok {
					continue
				}
				m := w.encCall(c)
				if m != "openObject" && m != "openArray" {
					continue
				}
				want := "close" + strings.TrimPrefix(m, "open")
				o := r.Add("R-WIRE/W4", "encoder."+name+" | "+m, c.Pos(), m+" pairing")
				paired := false
				for _, later := range b.List[i+1:] {
					if _, isRet := later.(*ast.ReturnStmt); isRet {
						break
					}
					if ifs, isIf := later.(*ast.IfStmt); isIf && containsReturn(ifs) {
						break
					}
					if ds, ok := later.(*ast.DeferStmt); ok && w.encCall(ds.Call) == want {
						paired = true
						break
					}
				}
				if paired {
					o.Auto("defer %s() follows before any return", want)
				} else {
					o.Fail("no `defer %s()` before the next return in the same block: an error path leaves the document unbalanced or a success path never closes it", want)
				}
			}
			return true
		})
		// separator idiom in callbacks that emit elements
		ast.Inspect(fd.Body, func(n ast.Node) bool {
			fl, ok := n.(*ast.FuncLit)
			if !ok {
				return true
			}
			emits := false
			ast.Inspect(fl.Body, func(n2 ast.Node) bool {
				if c, ok := n2.(*ast.CallExpr); ok {
					if m := w.encCall(c); m == "encodeValue" || m == "fieldLabel" {
						emits = true
					}
				}
				return true
			})
			if !emits {
				return true
			}
			o := r.Add("R-WIRE/W4", "encoder."+name+" | element separator", fl.Pos(), "separator idiom of the element callback")
			if why, ok := w.separatorIdiom(fl.Body.List, fd); ok {
				o.Auto("%s opens the callback", why)
				return true
			}
			// the idiom kept in a closure made once per container: `next := enc.helper()` before the
			// iteration and `next()` as the callback's first statement, the helper returning
			// `func() { if !first { fieldSep() }; first = false }` over its own `first := true`
			if len(fl.Body.List) >= 1 {
				if es, ok := fl.Body.List[0].(*ast.ExprStmt); ok {
					if c, ok := es.X.(*ast.CallExpr); ok && len(c.Args) == 0 {
						if id, ok := core.Unparen(c.Fun).(*ast.Ident); ok {
							if def := w.singleDef(fd, w.info.Uses[id]); def != nil {
								if hc, ok := core.Unparen(def).(*ast.CallExpr); ok {
									if fn := core.CalleeFunc(w.info, hc); fn != nil && fn.Pkg() == w.pk.Types {
										if hd := core.DeclOf(w.pk, fn.Origin()); hd != nil && hd.Body != nil {
											var lit *ast.FuncLit
											for _, st := range hd.Body.List {
												if ret, ok := st.(*ast.ReturnStmt); ok && len(ret.Results) == 1 {
													lit, _ = core.Unparen(ret.Results[0]).(*ast.FuncLit)
												}
											}
											if lit != nil && len(lit.Body.List) == 2 {
												if why, ok := w.separatorIdiom(lit.Body.List, hd); ok {
													o.Auto("the callback starts with %s(), made by %s once per container: %s", id.Name, hd.Name.Name, why)
													return true
												}
											}
										}
									}
								}
							}
						}
					}
				}
			}
			o.Fail("the callback does not start with the `if !first { fieldSep() }; first = false` idiom: elements would be emitted without separators or with a leading comma")
			return true
		})
	}
	r.Floor("R-WIRE/W4", 7, "4 open/close pairs + 3 container callbacks")
}

// separatorIdiom: the statement list starts with `if !flag { fieldSep() }; flag = false`
// and flag is defined as true in the given declaration.
func (w *wireCtx) separatorIdiom(list []ast.Stmt, scope *ast.FuncDecl) (string, bool) {
	if len(list) < 2 {
		return "", false
	}
	ifs, ok1 := list[0].(*ast.IfStmt)
	as, ok2 := list[1].(*ast.AssignStmt)
	if !ok1 || !ok2 || ifs.Else != nil || len(ifs.Body.List) != 1 {
		return "", false
	}
	u, ok := core.Unparen(ifs.Cond).(*ast.UnaryExpr)
	if !ok || u.Op != token.NOT {
		return "", false
	}
	es, ok := ifs.Body.List[0].(*ast.ExprStmt)
	if !ok {
		return "", false
	}
	c, ok := es.X.(*ast.CallExpr)
	if !ok || w.encCall(c) != "fieldSep" || len(as.Lhs) != 1 || core.ExprStr(as.Lhs[0]) != core.ExprStr(u.X) || core.ExprStr(as.Rhs[0]) != "false" {
		return "", false
	}
	if !w.flagStartsTrue(scope, u.X) {
		return "", false
	}
	return fmt.Sprintf("`if !%s { fieldSep() }; %s = false` with %s starting true", core.ExprStr(u.X), core.ExprStr(u.X), core.ExprStr(u.X)), true
}

// singleDef: the one defining expression of a local in fd, or nil.
func (w *wireCtx) singleDef(fd *ast.FuncDecl, obj types.Object) ast.Expr {
	if obj == nil {
		return nil
	}
	var def ast.Expr
	n := 0
	ast.Inspect(fd.Body, func(nd ast.Node) bool {
		if as, ok := nd.(*ast.AssignStmt); ok && len(as.Lhs) == len(as.Rhs) {
			for i, l := range as.Lhs {
				if li, ok := l.(*ast.Ident); ok && (w.info.Defs[li] == obj || w.info.Uses[li] == obj) {
					n++
					def = as.Rhs[i]
				}
			}
		}
		return true
	})
	if n == 1 {
		return def
	}
	return nil
}

func containsReturn(n ast.Node) bool {
	found := false
	ast.Inspect(n, func(x ast.Node) bool {
		if _, ok := x.(*ast.ReturnStmt); ok {
			found = true
		}
		if _, ok := x.(*ast.FuncLit); ok {
			return false
		}
		return !found
	})
	return found
}

func (w *wireCtx) flagStartsTrue(fd *ast.FuncDecl, flag ast.Expr) bool {
	id, ok := core.Unparen(flag).(*ast.Ident)
	if !ok {
		return false
	}
	obj := w.info.Uses[id]
	ok2 := false
	ast.Inspect(fd.Body, func(n ast.Node) bool {
		if as, ok := n.(*ast.AssignStmt); ok && as.Tok == token.DEFINE && len(as.Lhs) == 1 {
			if l, ok := as.Lhs[0].(*ast.Ident); ok && w.info.Defs[l] == obj && core.ExprStr(as.Rhs[0]) == "true" {
				ok2 = true
			}
		}
		return true
	})
	return ok2
}

// W6: framing of oneofs and Any.
func (w *wireCtx) ruleW6() {
	r := w.r
	r.Rule("R-WIRE/W6", "a set oneof is written as \"!type\": <name>, <name>: <value> with the same name expression in both places; an Any as \"!type\": <type name>, \"value\": <json>; the decoder reads the same two constants")
	// first arguments of the calls of one encoder primitive made by fd, in
	// source order, following calls into same-package helpers with the helper's
	// parameter names replaced by the argument expressions of the call
	var firstArgs func(body ast.Node, prim string, subst map[string]string, depth int) (consts []string, exprs []string)
	firstArgs = func(body ast.Node, prim string, subst map[string]string, depth int) (consts []string, exprs []string) {
		ast.Inspect(body, func(n ast.Node) bool {
			c, ok := n.(*ast.CallExpr)
			if !ok {
				return true
			}
			if w.encCall(c) == prim && len(c.Args) > 0 {
				if s, ok := core.ConstString(w.info, c.Args[0]); ok {
					consts = append(consts, s)
				} else {
					e := core.ExprStr(c.Args[0])
					if v, ok := subst[e]; ok {
						e = v
					}
					exprs = append(exprs, e)
				}
				return true
			}
			if depth >= 2 || isPrimitiveEmitter(w.encCall(c)) {
				return true
			}
			// value encoders (encodeValue, encodeObject, …) frame their own output: only plain helpers are followed
			if fn := core.CalleeFunc(w.info, c); fn != nil && fn.Pkg() == w.pk.Types && !w.reachesDispatch(fn) {
				if cd := core.DeclOf(w.pk, fn.Origin()); cd != nil && cd.Body != nil && cd.Type.Params != nil {
					sub := map[string]string{}
					i := 0
					for _, f := range cd.Type.Params.List {
						for _, nm := range f.Names {
							if i < len(c.Args) {
								a := core.ExprStr(c.Args[i])
								if v, ok := subst[a]; ok {
									a = v
								}
								sub[nm.Name] = a
							}
							i++
						}
					}
					cc, ee := firstArgs(cd.Body, prim, sub, depth+1)
					consts = append(consts, cc...)
					exprs = append(exprs, ee...)
				}
			}
			return true
		})
		return
	}
	labels := func(fd *ast.FuncDecl) (consts []string, exprs []string) {
		return firstArgs(fd.Body, "fieldLabel", nil, 0)
	}
	strs := func(fd *ast.FuncDecl) (exprs []string) {
		_, e := firstArgs(fd.Body, "addString", nil, 0)
		return e
	}
	if fd := w.methods["encodeOneofBody"]; fd != nil {
		o := r.Add("R-WIRE/W6", "encoder.encodeOneofBody | framing", fd.Pos(), "oneof framing")
		c, e := labels(fd)
		s := strs(fd)
		if len(c) == 1 && c[0] == "!type" && len(e) == 1 && len(s) == 1 && s[0] == e[0] {
			o.Auto("\"!type\": %s then %s: value", s[0], e[0])
		} else {
			o.Fail("labels %v / %v and type string %v do not form \"!type\":<name>, <name>:<value>", c, e, s)
		}
	} else {
		r.Fatal("anchor: encoder.encodeOneofBody not found")
	}
	if fd := w.methods["encodeAny"]; fd != nil {
		o := r.Add("R-WIRE/W6", "encoder.encodeAny | framing", fd.Pos(), "any framing")
		c, _ := labels(fd)
		if len(c) == 2 && c[0] == "!type" && c[1] == "value" {
			o.Auto("\"!type\" then \"value\"")
		} else {
			o.Fail("labels %v are not [\"!type\", \"value\"]", c)
		}
	} else {
		r.Fatal("anchor: encoder.encodeAny not found")
	}
	// decoder side constants
	for _, name := range []string{"decoder.decodeOneofInner", "decoder.decodeAny"} {
		fd, _ := r.P.FuncDecl(codecRel, name)
		if fd == nil {
			r.Fatal("anchor: %s not found", name)
			continue
		}
		o := r.Add("R-WIRE/W6", name+" | reads \"!type\"", fd.Pos(), "decoder recognises the type key")
		found := false
		core.InspectTree(w.pk, fd.Body, func(n ast.Node) bool {
			switch x := n.(type) {
			case *ast.BinaryExpr:
				if x.Op == token.EQL || x.Op == token.NEQ {
					for _, side := range []ast.Expr{x.X, x.Y} {
						if s, ok := core.ConstString(w.info, side); ok && s == "!type" {
							found = true
						}
					}
				}
			case *ast.CaseClause:
				for _, e := range x.List {
					if s, ok := core.ConstString(w.info, e); ok && s == "!type" {
						found = true
					}
				}
			}
			return true
		})
		if found {
			o.Auto("compares the key with \"!type\"")
		} else {
			o.Fail("no comparison of the key with \"!type\": the encoder's framing key would be treated as an unknown property")
		}
	}
	// labels are the schema's JSON names: NameInParent implementations
	r.Floor("R-WIRE/W6", 4, "two encoders, two decoders")
}

// reachesDispatch: the function can reach, through static calls inside the
// package, the value dispatcher encodeValue — i.e. it encodes a nested value
// and frames its own output, so the labels it writes belong to a deeper level.
func (w *wireCtx) reachesDispatch(fn *types.Func) bool {
	if w.dispatchMemo == nil {
		w.dispatchMemo = map[*types.Func]int{}
	}
	var visit func(f *types.Func, depth int) bool
	visit = func(f *types.Func, depth int) bool {
		if core.RecordedName(f) == "encodeValue" {
			return true
		}
		if v, ok := w.dispatchMemo[f]; ok {
			return v == 1
		}
		w.dispatchMemo[f] = 0
		cd := core.DeclOf(w.pk, f)
		if cd == nil || cd.Body == nil || depth > 8 {
			return false
		}
		res := false
		ast.Inspect(cd.Body, func(n ast.Node) bool {
			if res {
				return false
			}
			if c, ok := n.(*ast.CallExpr); ok {
				if g := core.CalleeFunc(w.info, c); g != nil && g.Pkg() == w.pk.Types && visit(g.Origin(), depth+1) {
					res = true
				}
			}
			return true
		})
		if res {
			w.dispatchMemo[f] = 1
		}
		return res
	}
	return visit(fn.Origin(), 0)
}

// ruleEscaper: appendString is the only string emitter and covers the JSON
// mandatory escapes.
func (w *wireCtx) ruleEscaper() {
	r := w.r
	r.Rule("R-WIRE/W7", "appendString escapes '\"', '\\\\' and every rune below 0x20 (constant-set extraction from its condition), rejects invalid UTF-8, and is called only by addString")
	fd, _ := r.P.FuncDecl(codecRel, "appendString")
	if fd == nil {
		r.Fatal("anchor: codec.appendString not found")
		return
	}
	o := r.Add("R-WIRE/W7", "codec.appendString | escape condition", fd.Pos(), "escape condition")
	cond := ""
	ast.Inspect(fd.Body, func(n ast.Node) bool {
		if cc, ok := n.(*ast.CaseClause); ok && len(cc.List) == 1 {
			// the rune variable printed as its type: what it is called does not matter
			s := core.NormExpr(w.info, cc.List[0])
			if strings.Contains(s, "‹rune› < ' '") {
				cond = s
			}
		}
		return true
	})
	if strings.Contains(cond, "‹rune› < ' '") && strings.Contains(cond, `‹rune› == '"'`) && strings.Contains(cond, `‹rune› == '\\'`) {
		o.Auto("escapes on %s", cond)
	} else {
		o.Fail("escape condition %q does not cover control characters, '\"' and '\\\\'", cond)
	}
	o = r.Add("R-WIRE/W7", "codec.appendString | invalid UTF-8", fd.Pos(), "invalid UTF-8 handling")
	rejects := false
	ast.Inspect(fd.Body, func(n ast.Node) bool {
		if ret, ok := n.(*ast.ReturnStmt); ok && len(ret.Results) == 2 && core.ExprStr(ret.Results[1]) == "errInvalidUTF8" {
			rejects = true
		}
		return true
	})
	if rejects {
		o.Auto("returns errInvalidUTF8")
	} else {
		o.Fail("invalid UTF-8 is not rejected")
	}
	// callers
	core.AllFuncDecls(w.pk, func(f2 *ast.FuncDecl) {
		ast.Inspect(f2.Body, func(n ast.Node) bool {
			if c, ok := n.(*ast.CallExpr); ok && core.CalleeIs(w.info, c, codecRel, "appendString") {
				o := r.Add("R-WIRE/W7", core.FuncName(f2)+" | calls appendString", c.Pos(), "caller of appendString")
				if f2 == w.methods["addString"] {
					o.Auto("the single string emitter")
				} else {
					o.Fail("a second string emitter bypasses addString")
				}
			}
			return true
		})
	})
}

// isPrimitiveEmitter: the low-level emitters themselves are not followed.
func isPrimitiveEmitter(name string) bool {
	switch name {
	case "add", "addString", "addQuoted", "fieldLabel", "fieldSep", "openObject", "closeObject", "openArray", "closeArray":
		return true
	}
	return false
}
