package props

import (
	"fmt"
	"go/ast"
	"go/types"
	"sort"
	"strings"

	"j5verif/checker/core"
	"j5verif/checker/rules"
)

func init() { Registry["C01"] = C01 }

// C01 — JSON round trip: the structural necessary conditions.
func C01(r *core.Run) {
	pk := r.P.Pkg(codecRel)
	if pk == nil {
		r.Fatal("anchor: package %s not found", codecRel)
		return
	}
	r.Entry = []string{"codec.(*Codec).ProtoToJSON", "codec.(*Codec).JSONToProto"}
	w := &wireCtx{r: r, pk: pk, info: pk.TypesInfo}
	w.classifyEmitters()
	encodeDecodeMatrix(r, w)
	bitSizes(r, "lib/j5reflect", "scalarReflectFromGo")                                                                  // quoted integers re-parse with the field's own width and signedness
	floatBits(r)                                                                                                         // … and FLOAT32 text with 32 bits: the encoder's own output for the largest float32 must decode
	rules.VerbatimCopy(r, codecRel, "appendString", "google.golang.org/protobuf/internal/encoding/json", "appendString") // the escaper is the library's, whose output encoding/json reads back
	w.ruleW5()                                                                                                           // labels and strings are escaped: an unescaped key does not decode to the same key
	w.ruleW6()                                                                                                           // "!type" / "value" constants on both sides
	w.ruleW2()                                                                                                           // date/timestamp/base64 renderings the decoder must be able to re-read
	rules.DispatchOrder(r, codecRel, "encoder.encodeValue", "lib/j5reflect")
	rules.ConstSwitchCovers(r, codecRel, "decoder.decodeValue", core.Module+"/lib/j5reflect", "PropertyType", nil, 1)
	rules.TypeSwitchCovers(r, "lib/j5reflect", "property.PropertyType", core.Module+"/lib/j5schema", "FieldSchema", nil, 1)
	rules.UniqueCase(r, codecRel, "decoder.decodeMapField", "lib/j5reflect")
	arrayDecodeCoverage(r)
	whoTouchesProto(r)
	presentNeverSkipped(r, "lib/j5reflect", "propSet.RangeValues", "every present property is encoded") // an allocated but empty wrapper is a value
	anyContent(r)                                                                                       // an Any of an all-default message still carries (empty) content
	oneofWrapperAllFields(r)                                                                            // an object with a `oneof type` and sibling fields is an object: as a oneof its populated values cannot be encoded
	leniency(r)                                                                                         // the short enum name the encoder writes is looked up as given before any prefix is stripped
	rules.AppendAlias(r, []string{"lib/j5schema", "lib/j5reflect", codecRel})                           // the proto path of a flattened property is its own: no two properties share a backing array
	rules.PoolAlias(r, []string{codecRel})                                                              // encode(m) stays the encoding of m: it is not memory a later encode writes over
	rootKindDecided(r)                                                                                  // the content of an Any is a root message: an object or a oneof, written and read accordingly
	mapKeysNotInterpreted(r)                                                                            // a map key is any string: the shared member loop keeps none for itself
}

// encodeDecodeMatrix (R-FLOW/F1): what the encoder writes for a kind, the
// decoder's arm for that kind accepts.
func encodeDecodeMatrix(r *core.Run, w *wireCtx) {
	r.Rule("R-FLOW/F1p", "per scalar kind K: the Go type G(K) returned by scalarGoFromReflect, the token class the encoder emits for G(K) (derived from the emitter bodies), and the token types K's arm of scalarReflectFromGo accepts must fit: a quoted/escaped token needs `string`, a bare number needs json.Number (int64 after the integer pre-conversion), a bare literal needs bool")
	gfd, gpk := r.P.FuncDecl("lib/j5reflect", "scalarGoFromReflect")
	dfd, dpk := r.P.FuncDecl("lib/j5reflect", "scalarReflectFromGo")
	efd := w.methods["encodeScalarField"]
	if gfd == nil || dfd == nil || efd == nil {
		r.Fatal("anchor: scalarGoFromReflect / scalarReflectFromGo / encodeScalarField not found")
		return
	}
	// class per Go type from encodeScalarField
	classOf := map[string]string{}
	for _, cc := range w.scalarCases(efd) {
		for _, te := range cc.List {
			t := w.info.TypeOf(te)
			if t == nil {
				continue
			}
			cls := map[string]bool{}
			for _, st := range cc.Body {
				ast.Inspect(st, func(x ast.Node) bool {
					if c, ok := x.(*ast.CallExpr); ok {
						if m := w.encCall(c); m != "" {
							cls[w.class[m].class] = true
						}
					}
					return true
				})
			}
			if len(cls) == 1 {
				for c := range cls {
					classOf[core.TypeStr(t)] = c
				}
			} else {
				classOf[core.TypeStr(t)] = "mixed"
			}
		}
	}
	// per kind clause of the producer: returned Go types
	type kindInfo struct {
		goTypes map[string]bool
	}
	kinds := map[string]*kindInfo{}
	topSwitch := func(fd *ast.FuncDecl) *ast.TypeSwitchStmt {
		for _, st := range fd.Body.List {
			if ts, ok := st.(*ast.TypeSwitchStmt); ok {
				return ts
			}
		}
		return nil
	}
	gs, ds := topSwitch(gfd), topSwitch(dfd)
	if gs == nil || ds == nil {
		r.Fatal("scalarGoFromReflect/scalarReflectFromGo: no top-level type switch on the schema type")
		return
	}
	for _, cl := range gs.Body.List {
		cc := cl.(*ast.CaseClause)
		if len(cc.List) != 1 {
			continue
		}
		k := core.TypeStr(gpk.TypesInfo.TypeOf(cc.List[0]))
		k = k[strings.LastIndex(k, ".")+1:]
		ki := &kindInfo{goTypes: map[string]bool{}}
		core.InspectTree(gpk, cc, func(n ast.Node) bool {
			ret, ok := n.(*ast.ReturnStmt)
			if ok && len(ret.Results) == 2 && core.IsNilIdent(gpk.TypesInfo, ret.Results[1]) {
				ki.goTypes[core.TypeStr(gpk.TypesInfo.TypeOf(ret.Results[0]))] = true
			}
			return true
		})
		kinds[k] = ki
	}
	accepted := map[string]map[string]bool{}
	for _, cl := range ds.Body.List {
		cc := cl.(*ast.CaseClause)
		if len(cc.List) != 1 {
			continue
		}
		k := core.TypeStr(dpk.TypesInfo.TypeOf(cc.List[0]))
		k = k[strings.LastIndex(k, ".")+1:]
		accepted[k] = acceptedTypes(dpk, cc)
	}
	var ks []string
	for k := range kinds {
		ks = append(ks, k)
	}
	sort.Strings(ks)
	n := 0
	for _, k := range ks {
		if k == "Field_Any" {
			continue
		}
		for g := range kinds[k].goTypes {
			n++
			o := r.Add("R-FLOW/F1p", fmt.Sprintf("j5reflect | %s via %s", k, g), gfd.Pos(), fmt.Sprintf("%s: encoded as Go %s", k, g))
			cls, ok := classOf[g]
			if !ok {
				o.Fail("encodeScalarField has no case for %s", g)
				continue
			}
			acc := accepted[k]
			if acc == nil {
				o.Fail("scalarReflectFromGo has no arm for %s", k)
				continue
			}
			need := ""
			switch cls {
			case "escaped-string", "quoted-number":
				need = "string"
			case "bare-number":
				need = "encoding/json.Number"
			case "bare-literal":
				need = "bool"
			default:
				o.Fail("encoder class for %s is %s", g, cls)
				continue
			}
			if acc[need] {
				o.Auto("encoder writes %s, decoder arm accepts %s", cls, need)
			} else {
				var al []string
				for a := range acc {
					al = append(al, a)
				}
				sort.Strings(al)
				o.Fail("encoder writes %s for %s but the %s arm of scalarReflectFromGo does not accept %s (accepts %v): the encoder's own output is rejected", cls, g, k, need, al)
			}
		}
	}
	r.Floor("R-FLOW/F1p", 12, "13 scalar kind/format pairs")
}

// arrayDecodeCoverage: every concrete ArrayField implementation answers true
// to one of the As* probes decodeArrayFieldValue tries.
func arrayDecodeCoverage(r *core.Run) {
	r.Rule("R-EXH/X3a", "every concrete ArrayField implementation declares (AsX() returning true) one of the roles decodeArrayFieldValue probes, so no array kind the encoder can write falls into the 'unknown array schema type' error")
	fd, pk := r.P.FuncDecl(codecRel, "decoder.decodeArrayFieldValue")
	if fd == nil {
		r.Fatal("anchor: decoder.decodeArrayFieldValue not found")
		return
	}
	probes := map[string]bool{}
	ast.Inspect(fd.Body, func(n ast.Node) bool {
		ifs, ok := n.(*ast.IfStmt)
		if !ok || ifs.Init == nil {
			return true
		}
		if as, ok := ifs.Init.(*ast.AssignStmt); ok && len(as.Rhs) == 1 {
			if c, ok := as.Rhs[0].(*ast.CallExpr); ok {
				if f := core.CalleeFunc(pk.TypesInfo, c); f != nil && strings.HasPrefix(f.Name(), "As") {
					sig := f.Type().(*types.Signature)
					probes[core.TypeStr(sig.Results().At(0).Type())] = true
				}
			}
		}
		return true
	})
	at := r.P.LookupType(core.Module+"/lib/j5reflect", "ArrayField")
	if at == nil {
		r.Fatal("anchor: j5reflect.ArrayField not found")
		return
	}
	impls := core.Implementers(r.P.Pkg("lib/j5reflect").Types, at.Underlying().(*types.Interface))
	sort.Slice(impls, func(i, j int) bool { return impls[i].Obj().Name() < impls[j].Obj().Name() })
	n := 0
	inst := rules.Instantiated(r, "lib/j5reflect")
	for _, T := range impls {
		roles := rules.DeclaredRoles(r, "lib/j5reflect", T)
		if len(roles) == 0 || !inst[T.Obj().Name()] {
			continue
		}
		n++
		o := r.Add("R-EXH/X3a", "decoder.decodeArrayFieldValue | "+T.Obj().Name(), T.Obj().Pos(), "array implementation "+T.Obj().Name())
		hit := ""
		for role := range roles {
			if probes[role] {
				hit = role
			}
		}
		if hit != "" {
			o.Auto("declares %s, which the decoder probes", hit)
		} else {
			o.Fail("%s declares none of the probed roles: arrays of that kind cannot be decoded", T.Obj().Name())
		}
	}
	r.Floor("R-EXH/X3a", 3, "scalar, enum, object, oneof arrays")
}

// whoTouchesProto: the codec reaches proto fields only through j5reflect.
func whoTouchesProto(r *core.Run) {
	r.Rule("R-WHO/proto", "inside internal/codec no direct protoreflect.Message Set/Get/Mutable/Clear/Has: both directions address proto fields only through j5reflect's ProtoField path (flatten, exposed oneof), the mechanism that makes encode and decode agree on where a property lives")
	pk := r.P.Pkg(codecRel)
	n := 0
	core.AllFuncDecls(pk, func(fd *ast.FuncDecl) {
		ast.Inspect(fd.Body, func(nd ast.Node) bool {
			c, ok := nd.(*ast.CallExpr)
			if !ok {
				return true
			}
			name := core.CalleeName(pk.TypesInfo, c)
			if strings.HasPrefix(name, "(google.golang.org/protobuf/reflect/protoreflect.Message).") {
				m := name[strings.LastIndex(name, ".")+1:]
				switch m {
				case "Set", "Get", "Mutable", "Clear", "Has", "NewField", "Range":
					n++
					r.Add("R-WHO/proto", "codec."+core.FuncName(fd)+" | Message."+m, c.Pos(), "direct protoreflect.Message."+m+" in the codec").Fail("the codec bypasses j5reflect's property paths")
				}
			}
			return true
		})
	})
	o := r.Add("R-WHO/proto", "codec | direct field access count", pk.Syntax[0].Pos(), "direct protoreflect field accesses in internal/codec")
	if n == 0 {
		o.Auto("none (positive control: the matcher counts such calls in lib/j5reflect: %d)", countProtoAccess(r, "lib/j5reflect"))
	} else {
		o.Fail("%d direct accesses", n)
	}
	if countProtoAccess(r, "lib/j5reflect") == 0 {
		r.Fatal("R-WHO/proto: positive control failed (no Message.Set/Get found in lib/j5reflect)")
	}
}

func countProtoAccess(r *core.Run, rel string) int {
	pk := r.P.Pkg(rel)
	n := 0
	core.AllFuncDecls(pk, func(fd *ast.FuncDecl) {
		ast.Inspect(fd.Body, func(nd ast.Node) bool {
			if c, ok := nd.(*ast.CallExpr); ok {
				name := core.CalleeName(pk.TypesInfo, c)
				if strings.HasPrefix(name, "(google.golang.org/protobuf/reflect/protoreflect.Message).") {
					switch name[strings.LastIndex(name, ".")+1:] {
					case "Set", "Get", "Mutable", "Clear", "Has":
						n++
					}
				}
			}
			return true
		})
	})
	return n
}
