package props

import (
	"go/ast"
	"go/types"
	"sort"
	"strings"

	"j5verif/checker/core"
)

// headerDescriptionOwner (R-FLOW/descroot): `type tags… | text` puts the text
// into the description field of the block the line *starts* with; the tags and
// qualifiers that follow select children (field → string, key → uuid …), whose
// specs have no description field of their own. doBlock resolves tags and
// qualifiers through callbacks that receive the child's spec under the same
// name, so the one thing that keeps the documented form working is that the
// description field is read from doBlock's own spec parameter. The rule follows
// every read of BlockSpec.Description in doBlock's call tree back to where the
// spec value comes from: local aliases, helper parameters (through the call
// sites in the tree) — it must be doBlock's parameter and must not be a
// parameter of a function literal (a spec supplied by walkTags/walkQualifiers).
func headerDescriptionOwner(r *core.Run) {
	r.Rule("R-FLOW/descroot", "every read of BlockSpec.Description in doBlock's call tree is made on a value that originates in doBlock's own spec parameter (followed through local aliases and helper parameters), never on the spec a tag/qualifier callback receives: the children selected by tags have no description field and `field name string | text` would be rejected")
	const rel = "internal/bcl/internal/walker"
	fd, pk := r.P.FuncDecl(rel, "doBlock")
	if fd == nil {
		r.Fatal("anchor: %s.doBlock not found", rel)
		return
	}
	info := pk.TypesInfo
	isSpec := func(t types.Type) bool {
		if p, ok := t.(*types.Pointer); ok {
			t = p.Elem()
		}
		n := core.NamedOf(t)
		return n != nil && n.Obj().Name() == "BlockSpec" && strings.HasSuffix(n.Obj().Pkg().Path(), "/walker/schema")
	}
	decls := core.TreeDecls(pk, fd, 3)
	inTree := map[*ast.FuncDecl]bool{}
	for _, d := range decls {
		inTree[d] = true
	}
	// enclosing function (declaration or literal) of a parameter object
	type owner struct {
		decl *ast.FuncDecl
		lit  *ast.FuncLit
		idx  int
	}
	paramOwner := func(v *types.Var) (owner, bool) {
		for _, d := range decls {
			var res owner
			found := false
			check := func(ft *ast.FuncType, o owner) {
				i := 0
				for _, f := range ft.Params.List {
					for _, nm := range f.Names {
						if info.Defs[nm] == v {
							o.idx = i
							res, found = o, true
						}
						i++
					}
					if len(f.Names) == 0 {
						i++
					}
				}
			}
			check(d.Type, owner{decl: d})
			ast.Inspect(d.Body, func(n ast.Node) bool {
				if fl, ok := n.(*ast.FuncLit); ok {
					check(fl.Type, owner{lit: fl})
				}
				return !found
			})
			if found {
				return res, true
			}
		}
		return owner{}, false
	}
	var origin func(e ast.Expr, depth int) map[string]bool
	origin = func(e ast.Expr, depth int) map[string]bool {
		out := map[string]bool{}
		if depth <= 0 {
			out["unresolved (depth)"] = true
			return out
		}
		e = core.Unparen(e)
		if st, ok := e.(*ast.StarExpr); ok {
			e = core.Unparen(st.X)
		}
		if u, ok := e.(*ast.UnaryExpr); ok {
			e = core.Unparen(u.X)
		}
		id, ok := e.(*ast.Ident)
		if !ok {
			out["expression "+core.ExprStr(e)] = true
			return out
		}
		v, _ := info.Uses[id].(*types.Var)
		if v == nil {
			v, _ = info.Defs[id].(*types.Var)
		}
		if v == nil {
			out["unresolved "+id.Name] = true
			return out
		}
		if ow, isParam := paramOwner(v); isParam {
			switch {
			case ow.lit != nil:
				out["callback parameter "+v.Name()+" at "+r.P.Rel(ow.lit.Pos())] = true
			case ow.decl == fd:
				out["root"] = true
			default:
				// helper: follow the call sites in the tree
				n := 0
				for _, d := range decls {
					ast.Inspect(d.Body, func(x ast.Node) bool {
						c, ok := x.(*ast.CallExpr)
						if !ok {
							return true
						}
						fn := core.CalleeFunc(info, c)
						if fn == nil || core.DeclOf(pk, fn.Origin()) != ow.decl || ow.idx >= len(c.Args) {
							return true
						}
						n++
						for k := range origin(c.Args[ow.idx], depth-1) {
							out[k] = true
						}
						return true
					})
				}
				if n == 0 {
					out["parameter "+v.Name()+" of "+core.FuncName(ow.decl)+" with no call site in the tree"] = true
				}
			}
			return out
		}
		// local variable: its assignments
		n := 0
		for _, d := range decls {
			ast.Inspect(d.Body, func(x ast.Node) bool {
				as, ok := x.(*ast.AssignStmt)
				if !ok || len(as.Lhs) != len(as.Rhs) {
					return true
				}
				for i, l := range as.Lhs {
					lid, ok := l.(*ast.Ident)
					if !ok {
						continue
					}
					if info.Defs[lid] == v || info.Uses[lid] == v {
						n++
						for k := range origin(as.Rhs[i], depth-1) {
							out[k] = true
						}
					}
				}
				return true
			})
		}
		if n == 0 {
			out["variable "+v.Name()+" with no plain assignment"] = true
		}
		return out
	}
	reads := 0
	for _, d := range decls {
		ast.Inspect(d.Body, func(n ast.Node) bool {
			s, ok := n.(*ast.SelectorExpr)
			if !ok || s.Sel.Name != "Description" || !isSpec(info.TypeOf(s.X)) {
				return true
			}
			reads++
			o := r.Add("R-FLOW/descroot", core.FuncName(d)+" | read of BlockSpec.Description", s.Pos(), "header description goes to the block the line starts with")
			or := origin(s.X, 6)
			var list []string
			for k := range or {
				list = append(list, k)
			}
			sort.Strings(list)
			if len(list) == 1 && list[0] == "root" {
				o.Auto("%s originates in doBlock's spec parameter", core.ExprStr(s.X))
			} else {
				o.Fail("%s does not (only) originate in doBlock's own spec parameter: %s — after tags and qualifiers are resolved the spec in hand is the selected child's, which has no description field, so a header of the documented form `field name string | text` is rejected", core.ExprStr(s.X), strings.Join(list, "; "))
			}
			return true
		})
	}
	r.Analysed["header_description_reads"] = reads
	r.Floor("R-FLOW/descroot", 1, "reads of BlockSpec.Description in doBlock's tree")
}
