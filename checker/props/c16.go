package props

import (
	"fmt"
	"go/ast"
	"go/token"
	"go/types"
	"sort"
	"strings"

	"j5verif/checker/core"
	"j5verif/checker/rules"
)

func init() { Registry["C16"] = C16 }

// stringConsts returns the constant strings appearing in a function body.
func stringConsts(r *core.Run, rel, fn string) map[string]bool {
	fd, pk := r.P.FuncDecl(rel, fn)
	out := map[string]bool{}
	if fd == nil {
		r.Fatal("anchor: %s.%s not found", rel, fn)
		return out
	}
	// the function and the same-package helpers it calls
	ast.Inspect(core.TreeBody(pk, fd), func(n ast.Node) bool {
		if e, ok := n.(ast.Expr); ok {
			if s, ok := core.ConstString(pk.TypesInfo, e); ok {
				out[s] = true
			}
		}
		return true
	})
	return out
}

// C16 — everything the compiler emits is consumable by the rest of the toolchain.
func C16(r *core.Run) {
	panicScope(r, entriesC16...)
	// every field kind is handled by the swagger conversion
	rules.TypeSwitchCovers(r, "internal/export", "convertSchema", schemaPB, "isField_Type", nil, 1)
	rules.TypeSwitchCovers(r, "internal/export", "ConvertRootSchema", schemaPB, "isRootSchema_Type", nil, 1)
	rules.TypeSwitchCovers(r, "internal/export", "convertSchema", schemaPB, "isObjectField_Schema", nil, 1)
	rules.TypeSwitchCovers(r, "internal/export", "convertSchema", schemaPB, "isOneofField_Schema", nil, 1)
	rules.TypeSwitchCovers(r, "internal/export", "convertSchema", schemaPB, "isEnumField_Schema", nil, 1)
	recursionGuards(r)
	namingConventions(r)
	requestSplit(r)
	httpVerbs(r)
	verbBodyAgreement(r)
	pathParamNames(r)
	refClosure(r)
	methodSchemasIndependent(r)
	hollowWrappersNotConverted(r)
	entityPartOwnAnnotation(r) // the client takes an entity's key schema from the object annotated as its keys part: there is one
	entityRefAgreement(r)
	topicMessageNamedAfterMethod(r)
	// a method without a response block returns a raw body (google.api.HttpBody): its response schema is nil
	rules.OptionalField(r, []string{"internal/j5client.Method", "gen/j5/client/v1/client_j5pb.Method"}, "ResponseBody", "a method declared without a response block returns a raw body and has no response schema", "panic_sites")
}

// recursionGuards (R-TERM/T2): walks over schema references carry a visited set.
func recursionGuards(r *core.Run) {
	r.Rule("R-TERM/T2", "a recursive walk through schema references (Ref.To, Schema()) terminates only with a visited/on-path set: the function contains a membership test on a map with an early return and an insertion into the same map")
	for _, g := range []struct{ rel, fn string }{
		{schemaRel, "walkSchemaFields"},
		{"internal/j5client", "collectPackageRefs"},
		{schemaRel, "Package.assertRefsLink"},
	} {
		fd, pk := r.P.FuncDecl(g.rel, g.fn)
		if fd == nil {
			r.Fatal("anchor: %s.%s not found", g.rel, g.fn)
			continue
		}
		o := r.Add("R-TERM/T2", g.rel+"."+g.fn+" | visited set", fd.Pos(), "reference walk in "+g.fn)
		if why, ok := hasVisitedGuard(pk.TypesInfo, fd.Body); ok {
			o.Auto("%s", why)
		} else {
			o.Fail("no visited-set guard: a self- or mutually-recursive schema makes %s recurse until the stack overflows", g.fn)
		}
	}
	// flatten cycles are rejected at build time (ClientProperties recurses through Schema())
	fd, pk := r.P.FuncDecl(schemaRel, "buildMessageFieldSchema")
	if fd == nil {
		r.Fatal("anchor: j5schema.buildMessageFieldSchema not found")
		return
	}
	o := r.Add("R-TERM/T2", "j5schema.buildMessageFieldSchema | flatten cycle rejected", fd.Pos(), "flatten of a message into itself")
	found := false
	// the guard may be an `if` or a clause of a tagless switch
	for _, rg := range core.GuardedRegions(fd.Body) {
		c := core.ExprStr(rg.Cond)
		// `<flatten flag> && <ref>.To == nil`: a boolean local (whatever it is called) together with the unlinked-reference test
		hasFlag := false
		if b, ok := core.Unparen(rg.Cond).(*ast.BinaryExpr); ok && b.Op == token.LAND {
			for _, side := range []ast.Expr{b.X, b.Y} {
				if id, ok := core.Unparen(side).(*ast.Ident); ok {
					if bt, ok := pk.TypesInfo.TypeOf(id).Underlying().(*types.Basic); ok && bt.Info()&types.IsBoolean != 0 {
						hasFlag = true
					}
				}
			}
		}
		if hasFlag && strings.Contains(c, ".To == nil") && len(rg.Body) > 0 {
			if ret, ok := rg.Body[len(rg.Body)-1].(*ast.ReturnStmt); ok && len(ret.Results) == 2 && !core.IsNilIdent(pk.TypesInfo, ret.Results[1]) {
				found = true
			}
		}
	}
	if found {
		o.Auto("`flatten && ref.To == nil` (reference still being built) returns an error, so ObjectSchema.ClientProperties only ever recurses over an acyclic flatten graph")
	} else {
		o.Fail("nothing rejects a message that flattens itself: ClientProperties recurses through Schema() without a guard and overflows the stack")
	}
}

// namingConventions (R-CONST/naming): producer and consumer constants.
func namingConventions(r *core.Run) {
	r.Rule("R-CONST/naming", "the naming conventions the compiler emits are the ones the structure builder recognises: service suffix Service, topic suffix Topic, <Method>Request / <Method>Response, <Name>Message, google.api.HttpBody for raw responses and google.protobuf.Empty as topic output — each constant extracted from the producing and the consuming function and compared")
	prodService := stringConsts(r, walkRel, "serviceBuilder.accept")
	prodTopic := stringConsts(r, walkRel, "acceptTopic")
	consStructure := stringConsts(r, "internal/structure", "packageSet.addStructure")
	consMethod := stringConsts(r, "internal/structure", "buildMethod")
	consTopic := stringConsts(r, "internal/structure", "buildTopicMethod")
	emptyObj := r.P.LookupObj(core.Module+"/"+convRel, "googleProtoEmptyType")
	emptyVal := ""
	if c, ok := emptyObj.(*types.Const); ok {
		emptyVal = strings.Trim(c.Val().ExactString(), `"`)
	}
	has := func(m map[string]bool, s string) bool {
		for k := range m {
			if strings.TrimPrefix(k, "%s") == s || k == s {
				return true
			}
		}
		return false
	}
	check := func(role, suffix string, prod, cons map[string]bool) {
		o := r.Add("R-CONST/naming", "role "+role, 0, role+" = "+suffix)
		p, c := has(prod, suffix), has(cons, suffix)
		if p && c {
			o.Auto("producer and consumer both use %q", suffix)
		} else {
			o.Fail("%q: producer has it=%v, consumer has it=%v (producer constants %v, consumer constants %v): the compiler's output is no longer recognised by the structure builder", suffix, p, c, sortedKeys(prod), sortedKeys(cons))
		}
	}
	check("service suffix", "Service", prodService, consStructure)
	check("request message suffix", "Request", prodService, consMethod)
	check("response message suffix", "Response", prodService, consMethod)
	check("raw response type", "google.api.HttpBody", prodService, consMethod)
	check("topic suffix", "Topic", prodTopic, consStructure)
	check("topic message suffix", "Message", prodTopic, consTopic)
	o := r.Add("R-CONST/naming", "role topic output type", 0, "topic output = google.protobuf.Empty")
	if strings.TrimPrefix(emptyVal, ".") == "google.protobuf.Empty" && consTopic["google.protobuf.Empty"] {
		o.Auto("j5convert.googleProtoEmptyType %q, consumer \"google.protobuf.Empty\"", emptyVal)
	} else {
		o.Fail("producer constant %q vs consumer %v", emptyVal, sortedKeys(consTopic))
	}
	// path parameter sigils: {snake} → :json on the consumer side
	fd, pk := r.P.FuncDecl("internal/structure", "buildMethod")
	if fd != nil {
		o := r.Add("R-CONST/naming", "role path parameter sigils", fd.Pos(), "{name} ↔ :name")
		src := ""
		colon := false
		ast.Inspect(core.TreeBody(pk, fd), func(n ast.Node) bool {
			if as, ok := n.(*ast.AssignStmt); ok && len(as.Lhs) == 1 {
				if _, isIdx := as.Lhs[0].(*ast.IndexExpr); isIdx {
					src = core.ExprStr(as.Rhs[0])
					if b, ok := core.Unparen(as.Rhs[0]).(*ast.BinaryExpr); ok {
						if s, isC := core.ConstString(pk.TypesInfo, b.X); isC && s == ":" {
							colon = true // what follows the colon is checked by R-PROV/pathnames
						}
					}
				}
			}
			return true
		})
		c := stringConsts(r, "internal/structure", "buildMethod")
		if colon && c["/"] {
			o.Auto("`{field}` is replaced by \":\" + the field's JSON name, split/joined on '/'")
		} else {
			o.Fail("path parameter rewrite is %q", src)
		}
	}
}

func sortedKeys(m map[string]bool) []string {
	var out []string
	for k := range m {
		if len(k) < 40 {
			out = append(out, k)
		}
	}
	sort.Strings(out)
	return out
}

// requestSplit: every request property goes to exactly one of path / body|query.
func requestSplit(r *core.Run) {
	r.Rule("R-FLOW/split", "Method.fillRequest partitions the request properties: inside the single loop over requestObject.Properties each property is appended to exactly one of the path list and the body/query list (if/else on path membership); path parameter names are the ':'-prefixed segments of the path split on '/'; the non-path list becomes Body iff HasBody, else QueryParameters")
	fd, pk := r.P.FuncDecl("internal/j5client", "Method.fillRequest")
	if fd == nil {
		r.Fatal("anchor: j5client.Method.fillRequest not found")
		return
	}
	info := pk.TypesInfo
	var loop *ast.RangeStmt
	for _, st := range fd.Body.List {
		if rs, ok := st.(*ast.RangeStmt); ok && strings.HasSuffix(core.ExprStr(rs.X), ".Properties") {
			loop = rs
		}
	}
	o := r.Add("R-FLOW/split", "j5client.Method.fillRequest | partition", fd.Pos(), "path/body partition of request properties")
	okPart := false
	if loop != nil {
		for _, st := range loop.Body.List {
			ifs, ok := st.(*ast.IfStmt)
			if !ok || ifs.Else == nil {
				continue
			}
			a := appendTargets(info, ifs.Body)
			eb, _ := ifs.Else.(*ast.BlockStmt)
			if eb == nil {
				continue
			}
			b := appendTargets(info, eb)
			if len(a) == 1 && len(b) == 1 && a[0] != b[0] {
				okPart = true
			}
		}
	}
	if okPart {
		o.Auto("if/else appends each property to exactly one of two lists")
	} else {
		o.Fail("the loop over the request properties no longer appends each property to exactly one list")
	}
	// path parameter extraction
	o = r.Add("R-FLOW/split", "j5client.Method.fillRequest | path parameter names", fd.Pos(), "path parameter extraction")
	c := stringConsts(r, "internal/j5client", "Method.fillRequest")
	usesRegexp := false
	ast.Inspect(core.TreeBody(pk, fd), func(n ast.Node) bool {
		if call, ok := n.(*ast.CallExpr); ok && strings.HasPrefix(core.CalleeName(info, call), "(*regexp.Regexp)") {
			usesRegexp = true
		}
		return true
	})
	if c["/"] && c[":"] && !usesRegexp {
		o.Auto("segments split on '/', parameters are the segments with the ':' prefix (the whole segment after ':' is the name)")
	} else {
		o.Fail("path parameters are no longer 'every /-separated segment starting with :' (regexp=%v): names the compiler emits (any identifier, digits included) may be cut or missed", usesRegexp)
	}
	// HasBody decides body vs query
	o = r.Add("R-FLOW/split", "j5client.Method.fillRequest | body vs query", fd.Pos(), "body/query selection")
	found := false
	ast.Inspect(fd.Body, func(n ast.Node) bool {
		if ifs, ok := n.(*ast.IfStmt); ok && strings.HasSuffix(core.ExprStr(ifs.Cond), ".HasBody") && ifs.Else != nil {
			found = true
		}
		return true
	})
	if found {
		o.Auto("if HasBody → Body else → QueryParameters")
	} else {
		o.Fail("no HasBody branch selecting body vs query parameters")
	}
}

func appendTargets(info *types.Info, b *ast.BlockStmt) []string {
	var out []string
	ast.Inspect(b, func(n ast.Node) bool {
		if as, ok := n.(*ast.AssignStmt); ok && len(as.Rhs) == 1 {
			if c, ok := as.Rhs[0].(*ast.CallExpr); ok && core.CalleeName(info, c) == "builtin.append" {
				out = append(out, core.ExprStr(as.Lhs[0]))
			}
		}
		return true
	})
	return out
}

// httpVerbs: the verbs the compiler can emit are the ones buildMethod accepts.
func httpVerbs(r *core.Run) {
	r.Rule("R-EXH/X3h", "every google.api.HttpRule pattern member the compiler constructs in visitServiceMethodNode has a case in structure.buildMethod's switch over the pattern")
	wfd, wpk := r.P.FuncDecl(convRel, "conversionVisitor.visitServiceMethodNode")
	cfd, cpk := r.P.FuncDecl("internal/structure", "buildMethod")
	if wfd == nil || cfd == nil {
		r.Fatal("anchor: visitServiceMethodNode / buildMethod not found")
		return
	}
	prod := map[string]bool{}
	ast.Inspect(core.TreeBody(wpk, wfd), func(n ast.Node) bool {
		if cl, ok := n.(*ast.CompositeLit); ok {
			t := core.TypeStr(wpk.TypesInfo.TypeOf(cl))
			if strings.Contains(t, "annotations.HttpRule_") {
				prod[t[strings.LastIndex(t, ".")+1:]] = true
			}
		}
		return true
	})
	cons := map[string]bool{}
	ast.Inspect(core.TreeBody(cpk, cfd), func(n ast.Node) bool {
		if cc, ok := n.(*ast.CaseClause); ok {
			for _, e := range cc.List {
				t := core.TypeStr(cpk.TypesInfo.TypeOf(e))
				if strings.Contains(t, "annotations.HttpRule_") {
					cons[t[strings.LastIndex(t, ".")+1:]] = true
				}
			}
		}
		return true
	})
	var ks []string
	for k := range prod {
		ks = append(ks, k)
	}
	sort.Strings(ks)
	for _, k := range ks {
		o := r.Add("R-EXH/X3h", "http pattern "+k, cfd.Pos(), "HTTP pattern "+k)
		if cons[k] {
			o.Auto("emitted by the compiler and accepted by buildMethod")
		} else {
			o.Fail("the compiler emits %s but structure.buildMethod has no case for it", k)
		}
	}
	if len(ks) < 5 {
		r.Fatal("R-EXH/X3h: expected 5 HTTP patterns from the compiler, found %d", len(ks))
	}
	_ = fmt.Sprintf
}

// pathParamNames (R-PROV/pathnames): a ':name' element of a J5 path must name
// a request property, and request properties are keyed by the field's JSON
// name (which the j5s compiler sets explicitly, so it is not derivable from
// the proto field name by case conversion).
func pathParamNames(r *core.Run) {
	r.Rule("R-PROV/pathnames", "every \":\"+X path element built in internal/structure takes X from protoreflect.FieldDescriptor.JSONName() (directly or through one local); a name computed any other way (case conversion of the proto name) does not match the request property for names like widgetID")
	pk := r.P.Pkg("internal/structure")
	if pk == nil {
		r.Fatal("anchor: package internal/structure not found")
		return
	}
	info := pk.TypesInfo
	isJSONName := func(e ast.Expr) bool {
		c, ok := core.Unparen(e).(*ast.CallExpr)
		if !ok {
			return false
		}
		s, ok := c.Fun.(*ast.SelectorExpr)
		return ok && s.Sel.Name == "JSONName" && strings.Contains(core.TypeStr(info.TypeOf(s.X)), "protoreflect.FieldDescriptor")
	}
	core.AllFuncDecls(pk, func(fd *ast.FuncDecl) {
		ast.Inspect(fd.Body, func(nd ast.Node) bool {
			b, ok := nd.(*ast.BinaryExpr)
			if !ok || b.Op != token.ADD {
				return true
			}
			if s, isC := core.ConstString(info, b.X); !isC || s != ":" {
				return true
			}
			o := r.Add("R-PROV/pathnames", fmt.Sprintf("internal/structure.%s | \":\" + %s", core.FuncName(fd), core.ExprStr(b.Y)), b.Pos(), "name of a path parameter")
			ok2 := isJSONName(b.Y)
			if id, isID := core.Unparen(b.Y).(*ast.Ident); isID && !ok2 {
				obj := info.Uses[id]
				n, good := 0, 0
				ast.Inspect(fd.Body, func(x ast.Node) bool {
					if as, isAs := x.(*ast.AssignStmt); isAs && len(as.Lhs) == len(as.Rhs) {
						for i, l := range as.Lhs {
							if li, isLI := l.(*ast.Ident); isLI && (info.Defs[li] == obj || info.Uses[li] == obj) {
								n++
								if isJSONName(as.Rhs[i]) {
									good++
								}
							}
						}
					}
					return true
				})
				ok2 = n > 0 && n == good
			}
			if ok2 {
				o.Auto("the field descriptor's JSONName()")
			} else {
				o.Fail("the path parameter is named %s, not the field's JSONName(): for a property like widgetID the path says :widgetId, no request property matches it, and the key silently becomes a query/body parameter", core.ExprStr(b.Y))
			}
			return true
		})
	})
	r.Floor("R-PROV/pathnames", 1, "path parameter constructions in internal/structure")
}
