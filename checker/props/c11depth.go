package props

import (
	"go/ast"
	"go/token"
	"go/types"
	"strings"

	"golang.org/x/tools/go/packages"

	"j5verif/checker/core"
)

// parserDepthGuards (R-TERM/T-depth): a recursion that is cut because each
// level first consumes input (T1) is as deep as the input makes it. In the
// parser every level is a stack frame of a goroutine whose stack is capped by
// the runtime (1 GB): a few megabytes of "[" exhaust it, and a stack overflow
// is a fatal error, not a panic that a caller could recover. So each such
// recursion in the parser package carries a guard: a counter compared with a
// constant, with a returning body, before the recursive call, and the counter
// incremented on the way in.
func parserDepthGuards(r *core.Run) {
	r.Rule("R-TERM/T-depth", "every recursive call site of the BCL parser package that R-TERM/T-rec discharges by T1 (input consumed first: depth bounded only by the input length) lies in a function that, before that call, compares a counter (a field of the receiver or a parameter) with a constant in an `if` whose body returns, and increments that counter: the nesting depth the input can force is bounded by a constant")
	pk := r.P.Pkg(parserRel)
	if pk == nil {
		return
	}
	info := pk.TypesInfo
	n := 0
	for _, ob := range append([]*core.Oblig{}, r.Obligs...) {
		if ob.Rule != "R-TERM/T-rec" || !strings.HasPrefix(ob.Status, "auto:T1") || !strings.Contains(ob.Key, parserRel+".") {
			continue
		}
		// "(R-TERM/T-rec | )(*pkg.Recv).name | call …"
		k := strings.TrimPrefix(ob.Key, "R-TERM/T-rec | ")
		fn := k
		if i := strings.Index(fn, " | "); i >= 0 {
			fn = fn[:i]
		}
		fn = strings.NewReplacer("(*", "", "(", "", ")", "").Replace(fn)
		fn = strings.TrimPrefix(fn, parserRel+".")
		fd, _ := r.P.FuncDecl(parserRel, fn)
		n++
		o := r.Add("R-TERM/T-depth", k, token.NoPos, "depth of the input-driven recursion")
		o.Pos = ob.Pos
		if fd == nil {
			o.Fail("function %s not found", fn)
			continue
		}
		// the in-cycle call named by the obligation: the first call of fd to a function of the
		// package that is itself a caller in a T1 obligation (itself, or its partner in a
		// mutual recursion)
		guard, counter, incremented := depthGuard(info, fd, cycleFuncs(r, pk))
		if guard == "" {
			// the guard may sit at the head of the callee instead
			ast.Inspect(fd.Body, func(x ast.Node) bool {
				c, ok := x.(*ast.CallExpr)
				if !ok || guard != "" {
					return true
				}
				f := core.CalleeFunc(info, c)
				if f == nil || f.Pkg() != pk.Types || !cycleFuncs(r, pk)[f.Origin()] {
					return true
				}
				if cd := core.DeclOf(pk, f.Origin()); cd != nil && cd != fd {
					guard, counter, incremented = depthGuard(info, cd, cycleFuncs(r, pk))
				}
				return true
			})
		}
		switch {
		case guard != "" && incremented:
			o.Auto("guarded by `%s` with %s incremented before the call", guard, counter)
		case guard != "":
			o.Fail("the guard `%s` tests a counter that is not incremented before the recursive call", guard)
		default:
			o.Fail("nothing bounds the depth of this recursion but the length of the input: a few megabytes of nested openers exhaust the goroutine stack, which is a fatal error (not a recoverable panic)")
		}
	}
	r.Floor("R-TERM/T-depth", 1, "Walker.popValue")
}

// cycleFuncs: the functions of the package that are callers in a T1-discharged T-rec obligation.
func cycleFuncs(r *core.Run, pk *packages.Package) map[*types.Func]bool {
	out := map[*types.Func]bool{}
	for _, ob := range r.Obligs {
		if ob.Rule != "R-TERM/T-rec" || !strings.HasPrefix(ob.Status, "auto:T1") || !strings.Contains(ob.Key, parserRel+".") {
			continue
		}
		k := strings.TrimPrefix(ob.Key, "R-TERM/T-rec | ")
		if i := strings.Index(k, " | "); i >= 0 {
			k = k[:i]
		}
		k = strings.NewReplacer("(*", "", "(", "", ")", "").Replace(k)
		k = strings.TrimPrefix(k, parserRel+".")
		if fd, _ := r.P.FuncDecl(parserRel, k); fd != nil {
			if fn, ok := pk.TypesInfo.Defs[fd.Name].(*types.Func); ok {
				out[fn] = true
			}
		}
	}
	return out
}

// depthGuard looks in fd for `if <counter> >= <const> { …; return }` placed before the first call
// into the recursion cycle, and for an increment of that counter before that call.
func depthGuard(info *types.Info, fd *ast.FuncDecl, cycle map[*types.Func]bool) (guard, counter string, incremented bool) {
	var callPos token.Pos
	ast.Inspect(fd.Body, func(x ast.Node) bool {
		if c, ok := x.(*ast.CallExpr); ok && callPos == token.NoPos {
			if f := core.CalleeFunc(info, c); f != nil && cycle[f.Origin()] {
				callPos = c.Pos()
			}
		}
		return true
	})
	if callPos == token.NoPos {
		return
	}
	ast.Inspect(fd.Body, func(x ast.Node) bool {
		ifs, ok := x.(*ast.IfStmt)
		if !ok || ifs.Pos() > callPos || len(ifs.Body.List) == 0 {
			return true
		}
		if _, ret := ifs.Body.List[len(ifs.Body.List)-1].(*ast.ReturnStmt); !ret {
			return true
		}
		b, ok := core.Unparen(ifs.Cond).(*ast.BinaryExpr)
		if !ok || (b.Op != token.GTR && b.Op != token.GEQ) {
			return true
		}
		if _, isConst := core.ConstInt(info, b.Y); !isConst {
			return true
		}
		switch core.Unparen(b.X).(type) {
		case *ast.SelectorExpr, *ast.Ident:
		default:
			return true
		}
		guard, counter = core.ExprStr(ifs.Cond), core.ExprStr(b.X)
		return true
	})
	if counter == "" {
		return
	}
	ast.Inspect(fd.Body, func(x ast.Node) bool {
		switch y := x.(type) {
		case *ast.IncDecStmt:
			if y.Tok == token.INC && core.ExprStr(y.X) == counter && y.Pos() < callPos {
				incremented = true
			}
		case *ast.AssignStmt:
			if y.Tok == token.ADD_ASSIGN && len(y.Lhs) == 1 && core.ExprStr(y.Lhs[0]) == counter && y.Pos() < callPos {
				incremented = true
			}
		}
		return true
	})
	return
}
