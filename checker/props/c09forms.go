package props

import (
	"go/ast"
	"go/constant"
	"go/token"
	"go/types"

	"j5verif/checker/core"
)

// emptyArrayForm (R-SYM/forms): the parser represents `[]` as a Value whose
// array field is an empty, non-nil slice and whose token is the zero Token. The
// formatter chooses between "render the token" and "render brackets and items"
// by a condition on the Value; evaluated on the parser's empty-array form that
// condition must choose the bracket rendering, or `x = []` is re-emitted as
// `x = ` — text that no longer parses. The condition is evaluated symbolically
// over the one abstract value {array: non-nil, len 0}: nil tests, len
// comparisons, !, &&, ||, and predicate methods of Value whose body is a single
// return expression (inlined).
func emptyArrayForm(r *core.Run) {
	r.Rule("R-SYM/forms", "the formatter's test for 'this value is a single token' is false on the parser's representation of an empty array (array field non-nil, length 0): decided by evaluating the branch condition, with Value's one-line predicate methods inlined, on that abstract value")
	const rel = "internal/bcl/internal/parser"
	pk := r.P.Pkg(rel)
	if pk == nil {
		r.Fatal("anchor: package %s not found", rel)
		return
	}
	info := pk.TypesInfo
	valT, _ := pk.Types.Scope().Lookup("Value").(*types.TypeName)
	if valT == nil {
		r.Fatal("anchor: %s.Value not found", rel)
		return
	}
	st, _ := valT.Type().Underlying().(*types.Struct)
	var arrayField, tokenField *types.Var
	if st != nil {
		for i := 0; i < st.NumFields(); i++ {
			f := st.Field(i)
			if sl, ok := f.Type().Underlying().(*types.Slice); ok && types.Identical(sl.Elem(), valT.Type()) {
				arrayField = f
			}
			if n := core.NamedOf(f.Type()); n != nil && n.Obj().Name() == "Token" && !f.Embedded() {
				tokenField = f
			}
		}
	}
	if arrayField == nil || tokenField == nil {
		r.Fatal("anchor: %s.Value no longer has one []Value field and one Token field", rel)
		return
	}
	// does the parser produce the empty form? a Value literal whose array element is an empty slice literal or make(…, 0)
	var emptyLit ast.Node
	core.AllFuncDecls(pk, func(fd *ast.FuncDecl) {
		ast.Inspect(fd.Body, func(n ast.Node) bool {
			cl, ok := n.(*ast.CompositeLit)
			if !ok || !types.Identical(info.TypeOf(cl), valT.Type()) {
				return true
			}
			for _, el := range cl.Elts {
				kv, ok := el.(*ast.KeyValueExpr)
				if !ok {
					continue
				}
				if id, ok := kv.Key.(*ast.Ident); !ok || info.Uses[id] != arrayField {
					continue
				}
				switch v := core.Unparen(kv.Value).(type) {
				case *ast.CompositeLit:
					if len(v.Elts) == 0 {
						emptyLit = cl
					}
				case *ast.CallExpr:
					if core.CalleeName(info, v) == "builtin.make" && len(v.Args) == 2 {
						if tv := info.Types[v.Args[1]]; tv.Value != nil && constant.Sign(tv.Value) == 0 {
							emptyLit = cl
						}
					}
				}
			}
			return true
		})
	})
	fd, _ := r.P.FuncDecl(rel, "valueTokens")
	if fd == nil {
		r.Fatal("anchor: %s.valueTokens not found", rel)
		return
	}
	// tri-state evaluation: 1 true, 0 false, -1 unknown
	var eval func(e ast.Expr, self map[types.Object]bool, depth int) int
	isArraySel := func(e ast.Expr, self map[types.Object]bool) bool {
		s, ok := core.Unparen(e).(*ast.SelectorExpr)
		if !ok || info.Uses[s.Sel] != arrayField {
			return false
		}
		id, ok := core.Unparen(s.X).(*ast.Ident)
		return ok && self[info.Uses[id]]
	}
	not := func(v int) int {
		if v < 0 {
			return v
		}
		return 1 - v
	}
	eval = func(e ast.Expr, self map[types.Object]bool, depth int) int {
		switch x := core.Unparen(e).(type) {
		case *ast.UnaryExpr:
			if x.Op == token.NOT {
				return not(eval(x.X, self, depth))
			}
		case *ast.BinaryExpr:
			switch x.Op {
			case token.LAND:
				a, b := eval(x.X, self, depth), eval(x.Y, self, depth)
				if a == 0 || b == 0 {
					return 0
				}
				if a == 1 && b == 1 {
					return 1
				}
				return -1
			case token.LOR:
				a, b := eval(x.X, self, depth), eval(x.Y, self, depth)
				if a == 1 || b == 1 {
					return 1
				}
				if a == 0 && b == 0 {
					return 0
				}
				return -1
			case token.EQL, token.NEQ:
				var other ast.Expr
				if isArraySel(x.X, self) {
					other = x.Y
				} else if isArraySel(x.Y, self) {
					other = x.X
				}
				if other != nil && core.IsNilIdent(info, other) {
					// the empty form is non-nil
					if x.Op == token.EQL {
						return 0
					}
					return 1
				}
			}
			// len(v.array) OP const
			lenOf := func(e ast.Expr) bool {
				c, ok := core.Unparen(e).(*ast.CallExpr)
				return ok && core.CalleeName(info, c) == "builtin.len" && len(c.Args) == 1 && isArraySel(c.Args[0], self)
			}
			cmp := func(l, r int64, op token.Token) int {
				var b bool
				switch op {
				case token.EQL:
					b = l == r
				case token.NEQ:
					b = l != r
				case token.LSS:
					b = l < r
				case token.LEQ:
					b = l <= r
				case token.GTR:
					b = l > r
				case token.GEQ:
					b = l >= r
				default:
					return -1
				}
				if b {
					return 1
				}
				return 0
			}
			if lenOf(x.X) {
				if tv := info.Types[x.Y]; tv.Value != nil {
					if k, ok := constant.Int64Val(constant.ToInt(tv.Value)); ok {
						return cmp(0, k, x.Op)
					}
				}
			}
			if lenOf(x.Y) {
				if tv := info.Types[x.X]; tv.Value != nil {
					if k, ok := constant.Int64Val(constant.ToInt(tv.Value)); ok {
						return cmp(k, 0, x.Op)
					}
				}
			}
		case *ast.CallExpr:
			// predicate method of Value on the value itself, body a single return
			if depth <= 0 {
				return -1
			}
			s, ok := x.Fun.(*ast.SelectorExpr)
			if !ok || len(x.Args) != 0 {
				return -1
			}
			id, ok := core.Unparen(s.X).(*ast.Ident)
			if !ok || !self[info.Uses[id]] {
				return -1
			}
			fn := core.CalleeFunc(info, x)
			if fn == nil || fn.Pkg() != pk.Types {
				return -1
			}
			cd := core.DeclOf(pk, fn.Origin())
			if cd == nil || cd.Body == nil || len(cd.Body.List) != 1 || cd.Recv == nil || len(cd.Recv.List) != 1 || len(cd.Recv.List[0].Names) != 1 {
				return -1
			}
			ret, ok := cd.Body.List[0].(*ast.ReturnStmt)
			if !ok || len(ret.Results) != 1 {
				return -1
			}
			return eval(ret.Results[0], map[types.Object]bool{info.Defs[cd.Recv.List[0].Names[0]]: true}, depth-1)
		}
		return -1
	}
	// the parameter of valueTokens holding the Value
	self := map[types.Object]bool{}
	for _, f := range fd.Type.Params.List {
		for _, nm := range f.Names {
			if types.Identical(info.TypeOf(nm), valT.Type()) {
				self[info.Defs[nm]] = true
			}
		}
	}
	returnsToken := func(b *ast.BlockStmt) bool {
		found := false
		ast.Inspect(b, func(n ast.Node) bool {
			ret, ok := n.(*ast.ReturnStmt)
			if !ok {
				return true
			}
			ast.Inspect(ret, func(m ast.Node) bool {
				if s, ok := m.(*ast.SelectorExpr); ok && info.Uses[s.Sel] == tokenField {
					if id, ok := core.Unparen(s.X).(*ast.Ident); ok && self[info.Uses[id]] {
						found = true
					}
				}
				return true
			})
			return true
		})
		return found
	}
	n := 0
	ast.Inspect(fd.Body, func(x ast.Node) bool {
		is, ok := x.(*ast.IfStmt)
		if !ok {
			return true
		}
		var cond ast.Expr
		neg := false
		if returnsToken(is.Body) {
			cond = is.Cond
		} else if eb, ok := is.Else.(*ast.BlockStmt); ok && returnsToken(eb) {
			cond, neg = is.Cond, true
		}
		if cond == nil {
			return true
		}
		n++
		o := r.Add("R-SYM/forms", core.FuncName(fd)+" | single-token branch vs empty array", is.Pos(), "empty array is rendered with brackets")
		v := eval(cond, self, 3)
		if neg {
			v = not(v)
		}
		switch {
		case emptyLit == nil:
			o.Auto("the parser has no Value literal with an empty array: the form does not arise")
		case v == 0:
			o.Auto("condition %s is false on {array: non-nil, len 0} (the form built at %s): `[]` takes the bracket rendering", core.ExprStr(cond), r.P.Rel(emptyLit.Pos()))
		case v == 1:
			o.Fail("condition %s holds for the parser's empty-array value (array non-nil, length 0; built at %s): `x = []` is re-emitted as its zero token — the output drops the brackets and no longer parses", core.ExprStr(cond), r.P.Rel(emptyLit.Pos()))
		default:
			o.Fail("condition %s cannot be evaluated on the parser's empty-array value (array non-nil, length 0; built at %s): the rule knows nil tests, len comparisons, !, &&, || and one-line predicate methods of Value", core.ExprStr(cond), r.P.Rel(emptyLit.Pos()))
		}
		return true
	})
	if n == 0 {
		o := r.Add("R-SYM/forms", core.FuncName(fd)+" | single-token branch vs empty array", fd.Pos(), "empty array is rendered with brackets")
		o.Fail("no branch of valueTokens returning the value's own token was found: the rule cannot locate the scalar/array decision")
	}
}
