package props

import (
	"go/ast"
	"go/constant"
	"go/token"
	"go/types"

	"golang.org/x/tools/go/cfg"

	"j5verif/checker/core"
)

// emptyArrayForm (R-SYM/forms): the parser represents `[]` as a Value whose
// array field is an empty, non-nil slice and whose token is the zero Token. The
// formatter chooses between "render the token" and "render brackets and items"
// by a condition on the Value; evaluated on the parser's empty-array form that
// condition must choose the bracket rendering, or `x = []` is re-emitted as
// `x = ` — text that no longer parses. The condition is evaluated symbolically
// over the one abstract value {array: non-nil, len 0}: nil tests, len
// comparisons, !, &&, ||, and predicate methods of Value whose body is a single
// return expression (inlined).
func emptyArrayForm(r *core.Run) {
	r.Rule("R-SYM/forms", "the formatter's test for 'this value is a single token' is false on the parser's representation of an empty array (array field non-nil, length 0): decided by evaluating the branch condition, with Value's one-line predicate methods inlined, on that abstract value")
	const rel = "internal/bcl/internal/parser"
	pk := r.P.Pkg(rel)
	if pk == nil {
		r.Fatal("anchor: package %s not found", rel)
		return
	}
	info := pk.TypesInfo
	valT, _ := pk.Types.Scope().Lookup("Value").(*types.TypeName)
	if valT == nil {
		r.Fatal("anchor: %s.Value not found", rel)
		return
	}
	st, _ := valT.Type().Underlying().(*types.Struct)
	var arrayField, tokenField *types.Var
	if st != nil {
		for i := 0; i < st.NumFields(); i++ {
			f := st.Field(i)
			if sl, ok := f.Type().Underlying().(*types.Slice); ok && types.Identical(sl.Elem(), valT.Type()) {
				arrayField = f
			}
			if n := core.NamedOf(f.Type()); n != nil && n.Obj().Name() == "Token" && !f.Embedded() {
				tokenField = f
			}
		}
	}
	if arrayField == nil || tokenField == nil {
		r.Fatal("anchor: %s.Value no longer has one []Value field and one Token field", rel)
		return
	}
	// does the parser produce the empty form? a Value literal whose array element is an empty slice literal or make(…, 0)
	var emptyLit ast.Node
	core.AllFuncDecls(pk, func(fd *ast.FuncDecl) {
		ast.Inspect(fd.Body, func(n ast.Node) bool {
			cl, ok := n.(*ast.CompositeLit)
			if !ok || !types.Identical(info.TypeOf(cl), valT.Type()) {
				return true
			}
			for _, el := range cl.Elts {
				kv, ok := el.(*ast.KeyValueExpr)
				if !ok {
					continue
				}
				if id, ok := kv.Key.(*ast.Ident); !ok || info.Uses[id] != arrayField {
					continue
				}
				switch v := core.Unparen(kv.Value).(type) {
				case *ast.CompositeLit:
					if len(v.Elts) == 0 {
						emptyLit = cl
					}
				case *ast.CallExpr:
					if core.CalleeName(info, v) == "builtin.make" && len(v.Args) == 2 {
						if tv := info.Types[v.Args[1]]; tv.Value != nil && constant.Sign(tv.Value) == 0 {
							emptyLit = cl
						}
					}
				}
			}
			return true
		})
	})
	fd, _ := r.P.FuncDecl(rel, "valueTokens")
	if fd == nil {
		r.Fatal("anchor: %s.valueTokens not found", rel)
		return
	}
	// tri-state evaluation: 1 true, 0 false, -1 unknown
	var eval func(e ast.Expr, self map[types.Object]bool, depth int) int
	isArraySel := func(e ast.Expr, self map[types.Object]bool) bool {
		s, ok := core.Unparen(e).(*ast.SelectorExpr)
		if !ok || info.Uses[s.Sel] != arrayField {
			return false
		}
		id, ok := core.Unparen(s.X).(*ast.Ident)
		return ok && self[info.Uses[id]]
	}
	not := func(v int) int {
		if v < 0 {
			return v
		}
		return 1 - v
	}
	eval = func(e ast.Expr, self map[types.Object]bool, depth int) int {
		switch x := core.Unparen(e).(type) {
		case *ast.UnaryExpr:
			if x.Op == token.NOT {
				return not(eval(x.X, self, depth))
			}
		case *ast.BinaryExpr:
			switch x.Op {
			case token.LAND:
				a, b := eval(x.X, self, depth), eval(x.Y, self, depth)
				if a == 0 || b == 0 {
					return 0
				}
				if a == 1 && b == 1 {
					return 1
				}
				return -1
			case token.LOR:
				a, b := eval(x.X, self, depth), eval(x.Y, self, depth)
				if a == 1 || b == 1 {
					return 1
				}
				if a == 0 && b == 0 {
					return 0
				}
				return -1
			case token.EQL, token.NEQ:
				var other ast.Expr
				if isArraySel(x.X, self) {
					other = x.Y
				} else if isArraySel(x.Y, self) {
					other = x.X
				}
				if other != nil && core.IsNilIdent(info, other) {
					// the empty form is non-nil
					if x.Op == token.EQL {
						return 0
					}
					return 1
				}
			}
			// len(v.array) OP const
			lenOf := func(e ast.Expr) bool {
				c, ok := core.Unparen(e).(*ast.CallExpr)
				return ok && core.CalleeName(info, c) == "builtin.len" && len(c.Args) == 1 && isArraySel(c.Args[0], self)
			}
			cmp := func(l, r int64, op token.Token) int {
				var b bool
				switch op {
				case token.EQL:
					b = l == r
				case token.NEQ:
					b = l != r
				case token.LSS:
					b = l < r
				case token.LEQ:
					b = l <= r
				case token.GTR:
					b = l > r
				case token.GEQ:
					b = l >= r
				default:
					return -1
				}
				if b {
					return 1
				}
				return 0
			}
			if lenOf(x.X) {
				if tv := info.Types[x.Y]; tv.Value != nil {
					if k, ok := constant.Int64Val(constant.ToInt(tv.Value)); ok {
						return cmp(0, k, x.Op)
					}
				}
			}
			if lenOf(x.Y) {
				if tv := info.Types[x.X]; tv.Value != nil {
					if k, ok := constant.Int64Val(constant.ToInt(tv.Value)); ok {
						return cmp(k, 0, x.Op)
					}
				}
			}
		case *ast.CallExpr:
			// predicate method of Value on the value itself, body a single return
			if depth <= 0 {
				return -1
			}
			s, ok := x.Fun.(*ast.SelectorExpr)
			if !ok || len(x.Args) != 0 {
				return -1
			}
			id, ok := core.Unparen(s.X).(*ast.Ident)
			if !ok || !self[info.Uses[id]] {
				return -1
			}
			fn := core.CalleeFunc(info, x)
			if fn == nil || fn.Pkg() != pk.Types {
				return -1
			}
			cd := core.DeclOf(pk, fn.Origin())
			if cd == nil || cd.Body == nil || len(cd.Body.List) != 1 || cd.Recv == nil || len(cd.Recv.List) != 1 || len(cd.Recv.List[0].Names) != 1 {
				return -1
			}
			ret, ok := cd.Body.List[0].(*ast.ReturnStmt)
			if !ok || len(ret.Results) != 1 {
				return -1
			}
			return eval(ret.Results[0], map[types.Object]bool{info.Defs[cd.Recv.List[0].Names[0]]: true}, depth-1)
		}
		return -1
	}
	// the parameter of valueTokens holding the Value
	self := map[types.Object]bool{}
	for _, f := range fd.Type.Params.List {
		for _, nm := range f.Names {
			if types.Identical(info.TypeOf(nm), valT.Type()) {
				self[info.Defs[nm]] = true
			}
		}
	}
	// the returns that hand back the value's own token
	var tokenReturns []*ast.ReturnStmt
	ast.Inspect(fd.Body, func(n ast.Node) bool {
		if _, ok := n.(*ast.FuncLit); ok {
			return false
		}
		ret, ok := n.(*ast.ReturnStmt)
		if !ok {
			return true
		}
		ast.Inspect(ret, func(m ast.Node) bool {
			if s, ok := m.(*ast.SelectorExpr); ok && info.Uses[s.Sel] == tokenField {
				if id, ok := core.Unparen(s.X).(*ast.Ident); ok && self[info.Uses[id]] {
					tokenReturns = append(tokenReturns, ret)
					return false
				}
			}
			return true
		})
		return true
	})
	// walk the control-flow graph under the abstract value: a condition that evaluates to true/false
	// is followed on that edge only, an unknown one on both
	g := cfg.New(fd.Body, func(*ast.CallExpr) bool { return true })
	reached := map[*cfg.Block]int{} // 1 definitely (only decided edges), -1 through an undecided edge
	var walk func(b *cfg.Block, sure bool)
	walk = func(b *cfg.Block, sure bool) {
		mark := -1
		if sure {
			mark = 1
		}
		if prev, ok := reached[b]; ok && (prev == 1 || prev == mark) {
			return
		}
		reached[b] = mark
		var cond ast.Expr
		if len(b.Succs) == 2 && len(b.Nodes) > 0 {
			cond = core.BlockCond(b)
		}
		v := -1
		if cond != nil {
			v = eval(cond, self, 3)
		}
		for i, sc := range b.Succs {
			switch {
			case len(b.Succs) != 2 || cond == nil:
				walk(sc, sure && len(b.Succs) == 1)
			case v == 1 && i == 0, v == 0 && i == 1:
				walk(sc, sure)
			case v < 0:
				walk(sc, false)
			}
		}
	}
	if len(g.Blocks) > 0 {
		walk(g.Blocks[0], true)
	}
	n := 0
	for _, ret := range tokenReturns {
		n++
		o := r.Add("R-SYM/forms", core.FuncName(fd)+" | single-token return vs empty array", ret.Pos(), "empty array is rendered with brackets")
		how := 0
		for _, b := range g.Blocks {
			for _, nd := range b.Nodes {
				if nd == ast.Node(ret) {
					how = reached[b]
				}
			}
		}
		switch {
		case emptyLit == nil:
			o.Auto("the parser has no Value literal with an empty array: the form does not arise")
		case how == 0:
			o.Auto("not reachable for {array: non-nil, len 0} (the form built at %s; branch conditions evaluated on it): `[]` takes the bracket rendering", r.P.Rel(emptyLit.Pos()))
		case how == 1:
			o.Fail("this return of the value's own token is reached for the parser's empty-array value (array non-nil, length 0; built at %s): `x = []` is re-emitted as its zero token — the output drops the brackets and no longer parses", r.P.Rel(emptyLit.Pos()))
		default:
			o.Fail("this return of the value's own token may be reached for the parser's empty-array value (array non-nil, length 0; built at %s) through a condition the rule cannot evaluate (it knows nil tests, len comparisons, !, &&, || and one-line predicate methods of Value)", r.P.Rel(emptyLit.Pos()))
		}
	}
	if n == 0 {
		o := r.Add("R-SYM/forms", core.FuncName(fd)+" | single-token branch vs empty array", fd.Pos(), "empty array is rendered with brackets")
		o.Fail("no branch of valueTokens returning the value's own token was found: the rule cannot locate the scalar/array decision")
	}
}
