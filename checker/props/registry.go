// Package props wires rule instances to the 20 properties.
package props

import "j5verif/checker/core"

// Registry maps a property id to its check.
var Registry = map[string]func(r *core.Run){}
