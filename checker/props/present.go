package props

import (
	"go/ast"
	"go/token"
	"go/types"
	"strings"

	"j5verif/checker/core"
)

// presentNeverSkipped (R-COVER/present): a loop that turns the populated
// fields of a message into output (option children, encoded members) may pass
// over an element only because the field is not populated. In protobuf a
// present sub-message with nothing set inside is a value of its own — it
// carries presence and selects the oneof case — so a skip on any other ground
// ("nothing below it", "reports itself as not set") drops information that the
// reader on the other side needs. In the loop body every `continue` (or
// success return) that comes before the element is delivered must be guarded
// by exactly a presence test: `!m.Has(f)`, or `!ok` with ok the boolean result
// of the multi-value call that fetched the element.
func presentNeverSkipped(r *core.Run, rel, fn, what string) {
	r.Rule("R-COVER/present", "in the loops that turn populated fields into output, an element is skipped only when its presence test fails (!m.Has(f), or the boolean result of the fetching call): any further ground for skipping drops a value that is present")
	fd, pk := r.P.FuncDecl(rel, fn)
	if fd == nil {
		r.Fatal("anchor: %s.%s not found", rel, fn)
		return
	}
	info := pk.TypesInfo
	var loop ast.Stmt
	var body *ast.BlockStmt
	for _, st := range fd.Body.List {
		switch x := st.(type) {
		case *ast.ForStmt:
			if loop == nil {
				loop, body = x, x.Body
			}
		case *ast.RangeStmt:
			if loop == nil {
				loop, body = x, x.Body
			}
		}
	}
	o := r.Add("R-COVER/present", rel+"."+fn+" | skips only absent fields", fd.Pos(), what)
	if loop == nil {
		o.Fail("no top-level loop over the fields found")
		return
	}
	// booleans that come out of a multi-value call in the loop body
	fetched := map[types.Object]bool{}
	ast.Inspect(body, func(n ast.Node) bool {
		as, ok := n.(*ast.AssignStmt)
		if !ok || len(as.Rhs) != 1 || len(as.Lhs) < 2 {
			return true
		}
		if _, isCall := core.Unparen(as.Rhs[0]).(*ast.CallExpr); !isCall {
			return true
		}
		for _, l := range as.Lhs {
			if id, ok := l.(*ast.Ident); ok {
				if obj := info.Defs[id]; obj != nil {
					if bt, ok := obj.Type().Underlying().(*types.Basic); ok && bt.Info()&types.IsBoolean != 0 {
						fetched[obj] = true
					}
				}
			}
		}
		return true
	})
	isPresence := func(cond ast.Expr) bool {
		u, ok := core.Unparen(cond).(*ast.UnaryExpr)
		if !ok || u.Op != token.NOT {
			return false
		}
		switch x := core.Unparen(u.X).(type) {
		case *ast.CallExpr:
			return strings.HasSuffix(core.CalleeName(info, x), "protoreflect.Message).Has")
		case *ast.Ident:
			return fetched[info.Uses[x]]
		}
		return false
	}
	// positive spelling: the delivery (an append to something that outlives the iteration, or
	// a call of a function-typed parameter) sits inside `if <presence> { … }`
	isPositive := func(cond ast.Expr) bool {
		switch x := core.Unparen(cond).(type) {
		case *ast.CallExpr:
			return strings.HasSuffix(core.CalleeName(info, x), "protoreflect.Message).Has")
		case *ast.Ident:
			return fetched[info.Uses[x]]
		}
		return false
	}
	var delivery ast.Node
	ast.Inspect(body, func(n ast.Node) bool {
		if delivery != nil {
			return false
		}
		switch x := n.(type) {
		case *ast.FuncLit:
			return false
		case *ast.AssignStmt:
			if len(x.Rhs) == 1 {
				if c, ok := core.Unparen(x.Rhs[0]).(*ast.CallExpr); ok && core.CalleeName(info, c) == "builtin.append" && len(x.Lhs) == 1 && core.ExprStr(c.Args[0]) == core.ExprStr(x.Lhs[0]) {
					if root := rootIdent(x.Lhs[0]); root != nil {
						if o := info.Uses[root]; o != nil && !(o.Pos() >= body.Pos() && o.Pos() < body.End()) {
							delivery = x
						}
					}
				}
			}
		case *ast.CallExpr:
			if id, ok := core.Unparen(x.Fun).(*ast.Ident); ok {
				if v, ok := info.Uses[id].(*types.Var); ok {
					if _, isSig := v.Type().Underlying().(*types.Signature); isSig && !(v.Pos() >= body.Pos() && v.Pos() < body.End()) {
						delivery = x
					}
				}
			}
		}
		return true
	})
	bad := ""
	skips := 0
	if delivery != nil {
		for _, p := range core.PathTo(body, delivery) {
			is, ok := p.(*ast.IfStmt)
			if !ok || !(is.Body.Pos() <= delivery.Pos() && delivery.End() <= is.Body.End()) {
				continue
			}
			skips++
			if !isPositive(is.Cond) && bad == "" {
				bad = "not (" + core.ExprStr(is.Cond) + ")"
				o.Pos = r.P.Rel(is.Pos())
			}
		}
	}
	for _, st := range body.List {
		is, ok := st.(*ast.IfStmt)
		if !ok {
			continue
		}
		jumps := false
		ast.Inspect(is.Body, func(n ast.Node) bool {
			switch j := n.(type) {
			case *ast.FuncLit:
				return false
			case *ast.BranchStmt:
				if j.Tok == token.CONTINUE {
					jumps = true
				}
			case *ast.ReturnStmt:
				if len(j.Results) == 0 || core.IsNilIdent(info, j.Results[len(j.Results)-1]) {
					jumps = true
				}
			}
			return true
		})
		if !jumps {
			continue
		}
		skips++
		if !isPresence(is.Cond) && bad == "" {
			bad = core.ExprStr(is.Cond)
			o.Pos = r.P.Rel(is.Pos())
		}
	}
	switch {
	case bad != "":
		o.Fail("an element is passed over when %s, which is more than the presence test: a populated field (for instance a sub-message with nothing set inside, which still carries presence and selects its oneof case) is dropped from the output", bad)
	case skips == 0:
		o.Fail("the loop has no presence test at all")
	default:
		o.Auto("%d skip(s), each guarded by the presence test alone", skips)
	}
}
