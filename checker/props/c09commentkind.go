package props

import (
	"go/ast"
	"go/token"
	"go/types"
	"strings"

	"j5verif/checker/core"
)

// inlineCommentKind (R-SYM/commentkind): a comment attached to a statement
// (block header, assignment, …) is kept as its text only and re-rendered by
// the formatter as ` //` + text. That is the inverse of the lexer for a line
// comment and for nothing else: the text of a block comment may hold newlines
// and `*/`. So every Comment built without its token — the attached kind — has
// to be built from a token that is known to be a COMMENT at that point.
func inlineCommentKind(r *core.Run) {
	r.Rule("R-SYM/commentkind", "every parser.Comment literal without a Token field (an attached comment, rendered by the formatter as \" //\"+Value) takes its Value from the Lit of a token whose type is COMMENT there: the literal is inside `if tok.Type == COMMENT`, inside a clause `case COMMENT:` of a switch over the token's type or over the type of the next token (the token being the first one popped in the clause), or the token comes from popType(COMMENT)")
	pk := r.P.Pkg(parserRel)
	if pk == nil {
		r.Fatal("anchor: package %s not found", parserRel)
		return
	}
	info := pk.TypesInfo
	lineConst := pk.Types.Scope().Lookup("COMMENT")
	if lineConst == nil {
		r.Fatal("anchor: parser.COMMENT not found")
		return
	}
	// premise: the formatter renders an attached comment as a line comment
	lineOnly := false
	core.AllFuncDecls(pk, func(fd *ast.FuncDecl) {
		if fd.Body == nil || fd.Type.Params == nil {
			return
		}
		takes := false
		for _, f := range fd.Type.Params.List {
			if strings.HasSuffix(core.TypeStr(info.TypeOf(f.Type)), "parser.Comment") {
				if _, ptr := info.TypeOf(f.Type).(*types.Pointer); ptr {
					takes = true
				}
			}
		}
		if !takes {
			return
		}
		ast.Inspect(fd.Body, func(n ast.Node) bool {
			if b, ok := n.(*ast.BinaryExpr); ok && b.Op == token.ADD {
				if s, ok := core.ConstString(info, b.X); ok && strings.Contains(s, "//") {
					if sel, ok := core.Unparen(b.Y).(*ast.SelectorExpr); ok && sel.Sel.Name == "Value" {
						lineOnly = true
					}
				}
			}
			return true
		})
	})
	n := 0
	core.AllFuncDecls(pk, func(fd *ast.FuncDecl) {
		if fd.Body == nil {
			return
		}
		var stack []ast.Node
		ast.Inspect(fd.Body, func(nd ast.Node) bool {
			if nd == nil {
				stack = stack[:len(stack)-1]
				return true
			}
			stack = append(stack, nd)
			cl, ok := nd.(*ast.CompositeLit)
			if !ok || !strings.HasSuffix(core.TypeStr(info.TypeOf(cl)), "parser.Comment") || litKey(cl, "Token") != nil {
				return true
			}
			val := litKey(cl, "Value")
			if val == nil {
				return true
			}
			n++
			o := r.Add("R-SYM/commentkind", parserRel+"."+core.FuncName(fd)+" | attached comment from "+core.NormExpr(info, val), cl.Pos(), "attached comment")
			if !lineOnly {
				o.Auto("the formatter has no line-comment-only rendering of attached comments")
				return true
			}
			how, whyNot := lineCommentEvidence(info, fd, cl, stack, lineConst)
			if whyNot != "" {
				o.Fail("%s", whyNot)
				return true
			}
			if how != "" {
				o.Auto("%s", how)
			} else {
				o.Fail("the token is not known to be a line comment here: a block comment attached this way is re-rendered as ` //`+text, its further lines become source text and its end marker is lost")
			}
			return true
		})
	})
	r.Floor("R-SYM/commentkind", 1, "endStatement")
}

func identOf(info *types.Info, fd *ast.FuncDecl, obj types.Object) *ast.Ident {
	var out *ast.Ident
	ast.Inspect(fd, func(n ast.Node) bool {
		if id, ok := n.(*ast.Ident); ok && out == nil && info.ObjectOf(id) == obj {
			out = id
		}
		return out == nil
	})
	return out
}

func enclosingSwitch(stack []ast.Node) *ast.SwitchStmt {
	for i := len(stack) - 1; i >= 0; i-- {
		if sw, ok := stack[i].(*ast.SwitchStmt); ok {
			return sw
		}
	}
	return nil
}

// firstPopIn: obj is defined in the clause by the first call of a method named popToken in it.
func firstPopIn(info *types.Info, cc *ast.CaseClause, obj types.Object) bool {
	var first *ast.CallExpr
	for _, st := range cc.Body {
		ast.Inspect(st, func(n ast.Node) bool {
			if c, ok := n.(*ast.CallExpr); ok && first == nil && strings.HasSuffix(core.CalleeName(info, c), "popToken") {
				first = c
			}
			return first == nil
		})
		if first != nil {
			break
		}
	}
	if first == nil {
		return false
	}
	ok := false
	for _, st := range cc.Body {
		ast.Inspect(st, func(n ast.Node) bool {
			if as, isAs := n.(*ast.AssignStmt); isAs && len(as.Lhs) == 1 && len(as.Rhs) == 1 && as.Rhs[0] == ast.Expr(first) {
				if id, isId := as.Lhs[0].(*ast.Ident); isId && info.ObjectOf(id) == obj {
					ok = true
				}
			}
			return true
		})
	}
	return ok
}

// lineCommentEvidence: why the token whose Lit the Comment literal cl takes is known to be a line
// comment at that point ("" when it is not known; the second result says why not).
func lineCommentEvidence(info *types.Info, fd *ast.FuncDecl, cl *ast.CompositeLit, stack []ast.Node, lineConst types.Object) (string, string) {
	val := litKey(cl, "Value")
	if val == nil {
		return "", "the literal has no Value"
	}
	isLine := func(e ast.Expr) bool {
		return core.UsedObj(info, e) == lineConst
	}
	onlyLine := func(list []ast.Expr) bool {
		if len(list) == 0 {
			return false
		}
		for _, e := range list {
			if !isLine(e) {
				return false
			}
		}
		return true
	}
	sel, ok := core.Unparen(val).(*ast.SelectorExpr)
	var tokObj types.Object
	if ok && sel.Sel.Name == "Lit" {
		if id, ok := core.Unparen(sel.X).(*ast.Ident); ok {
			tokObj = info.ObjectOf(id)
		}
	}
	if tokObj == nil {
		return "", "the text is not the Lit of a token variable: its kind cannot be established"
	}
	isTokType := func(e ast.Expr) bool {
		s, ok := core.Unparen(e).(*ast.SelectorExpr)
		if !ok || s.Sel.Name != "Type" {
			return false
		}
		id, ok := core.Unparen(s.X).(*ast.Ident)
		return ok && info.ObjectOf(id) == tokObj
	}
	var eqLine func(c ast.Expr) bool
	eqLine = func(c ast.Expr) bool {
		b, ok := core.Unparen(c).(*ast.BinaryExpr)
		if !ok {
			return false
		}
		if b.Op == token.LAND {
			return eqLine(b.X) || eqLine(b.Y)
		}
		return b.Op == token.EQL && ((isTokType(b.X) && isLine(b.Y)) || (isTokType(b.Y) && isLine(b.X)))
	}
	// the token's definition
	def := soleDefinition(info, identOf(info, fd, tokObj))
	fromPopType := false
	if c, ok := def.(*ast.CallExpr); ok && len(c.Args) == 1 && strings.HasSuffix(core.CalleeName(info, c), "popType") && isLine(c.Args[0]) {
		fromPopType = true
	}
	how := ""
	if fromPopType {
		how = "token from popType(COMMENT)"
	}
	for i := len(stack) - 2; i >= 0 && how == ""; i-- {
		switch x := stack[i].(type) {
		case *ast.IfStmt:
			// literal inside the body (not the else)
			if x.Body.Pos() <= cl.Pos() && cl.End() <= x.Body.End() && eqLine(x.Cond) {
				// the token is not reassigned between the test and the literal
				reassigned := false
				ast.Inspect(x.Body, func(m ast.Node) bool {
					if as, ok := m.(*ast.AssignStmt); ok && as.Pos() < cl.Pos() {
						for _, l := range as.Lhs {
							if id, ok := l.(*ast.Ident); ok && info.ObjectOf(id) == tokObj {
								reassigned = true
							}
						}
					}
					return true
				})
				if !reassigned {
					how = "inside `if <token>.Type == COMMENT`"
				}
			}
		case *ast.CaseClause:
			sw := enclosingSwitch(stack[:i])
			if sw == nil || sw.Tag == nil {
				continue
			}
			tagOK := isTokType(sw.Tag)
			if !tagOK {
				// switch over the type of the next token; the token is the first one popped in the clause
				if c, ok := core.Unparen(sw.Tag).(*ast.CallExpr); ok && strings.HasSuffix(core.TypeStr(info.TypeOf(c)), "parser.TokenType") && len(c.Args) == 0 {
					if firstPopIn(info, x, tokObj) {
						tagOK = true
					}
				}
			}
			if tagOK && onlyLine(x.List) {
				how = "inside `case COMMENT:`"
			}
		}
	}
	return how, ""
}

// attachedCommentOneLine (R-POS/attach): the line range of a fragment is
// [Start.Line, End.Line+1) of its node. A comment attached to a node (a
// pointer, next to the node's own tokens) is consumed after the node's End was
// fixed; that is harmless exactly when the comment cannot reach beyond the
// node's last line — a line comment. A comment built from a token that may be
// a block comment spans lines the node's range does not cover: the editor
// edit replaces fewer lines than its text holds. Such a literal is accepted
// only where the holder's End is extended to the comment's End afterwards.
func attachedCommentOneLine(r *core.Run) {
	r.Rule("R-POS/attach", "every *Comment the parser attaches to a node (a &Comment{…} literal) is built from a token known to be a line comment there, or the function that stores it extends the End of the node it stores it in (`x.End = <comment or token>.End`) afterwards: the node's line range covers every line of the tokens consumed into it")
	pk := r.P.Pkg(parserRel)
	if pk == nil {
		r.Fatal("anchor: package %s not found", parserRel)
		return
	}
	info := pk.TypesInfo
	lineConst := pk.Types.Scope().Lookup("COMMENT")
	if lineConst == nil {
		r.Fatal("anchor: parser.COMMENT not found")
		return
	}
	n := 0
	core.AllFuncDecls(pk, func(fd *ast.FuncDecl) {
		if fd.Body == nil {
			return
		}
		var stack []ast.Node
		ast.Inspect(fd.Body, func(nd ast.Node) bool {
			if nd == nil {
				stack = stack[:len(stack)-1]
				return true
			}
			stack = append(stack, nd)
			u, ok := nd.(*ast.UnaryExpr)
			if !ok || u.Op != token.AND {
				return true
			}
			cl, ok := core.Unparen(u.X).(*ast.CompositeLit)
			if !ok || !strings.HasSuffix(core.TypeStr(info.TypeOf(cl)), "parser.Comment") {
				return true
			}
			n++
			o := r.Add("R-POS/attach", parserRel+"."+core.FuncName(fd)+" | attached comment", cl.Pos(), "comment attached to a node")
			if how, _ := lineCommentEvidence(info, fd, cl, append(append([]ast.Node{}, stack...), cl), lineConst); how != "" {
				o.Auto("a line comment (%s): it ends on the line it starts on", how)
				return true
			}
			// the End of the holder is extended in this function after the literal
			extended := false
			ast.Inspect(fd.Body, func(m ast.Node) bool {
				as, ok := m.(*ast.AssignStmt)
				if !ok || as.Pos() < cl.Pos() || len(as.Lhs) != 1 || len(as.Rhs) != 1 {
					return true
				}
				l, ok := core.Unparen(as.Lhs[0]).(*ast.SelectorExpr)
				if !ok || l.Sel.Name != "End" {
					return true
				}
				if rsel, ok := core.Unparen(as.Rhs[0]).(*ast.SelectorExpr); ok && rsel.Sel.Name == "End" {
					extended = true
				}
				return true
			})
			if extended {
				o.Auto("the holder's End is moved to the end of the comment")
			} else {
				o.Fail("the comment may be a block comment, which can run over several lines, and the End of the node it is attached to stays where it was: the fragment's line range is shorter than its text, the editor edit built from it leaves the comment's further lines in the buffer")
			}
			return true
		})
	})
	r.Floor("R-POS/attach", 1, "endStatement")
}
