package props

import (
	"fmt"
	"go/ast"
	"go/token"
	"go/types"
	"strings"

	"j5verif/checker/core"
)

// attributeIndependence (R-SYM/S7): in the converter, whether an attribute of
// the source schema is copied into the output may depend only on that
// attribute's own presence (tests on its own access path, or a type switch
// over the oneof it lives in) — not on sibling attributes or on locals
// computed from them. Otherwise some admissible combination of values loses
// the attribute ("every rule and annotation … set to arbitrary admissible
// values, including both values of every boolean").
func attributeIndependence(r *core.Run, table string, fns ...string) {
	r.Rule("R-SYM/S7", "every statement of the converter that copies a source-schema attribute (a selector chain rooted at the case-bound source node) into the output is conditioned, inside its case clause, only by tests on prefixes of that same chain, by type switches over such a prefix, or by error tests; a condition over a sibling attribute or an unrelated local needs a recorded reason")
	for _, fn := range fns {
		fd, pk := r.P.FuncDecl(convRel, fn)
		if fd == nil {
			r.Fatal("anchor: %s.%s not found", convRel, fn)
			continue
		}
		info := pk.TypesInfo
		// source roots: variables bound by `switch st := X.(type)` whose case types are schema_j5pb wrappers
		isSourceChain := func(e ast.Expr) (string, bool) {
			s := core.ExprStr(e)
			root := rootIdent(e)
			if root == nil {
				return "", false
			}
			obj := info.Uses[root]
			if obj == nil {
				return "", false
			}
			t := obj.Type()
			if p, ok := t.(*types.Pointer); ok {
				t = p.Elem()
			}
			n, ok := t.(*types.Named)
			if !ok || n.Obj().Pkg() == nil || n.Obj().Pkg().Path() != schemaPB {
				return "", false
			}
			return s, true
		}
		// aliases: `switch et := st.Key.Entity.Type.(type)` binds et to that chain
		alias := map[types.Object]string{}
		ast.Inspect(fd.Body, func(nd ast.Node) bool {
			ts, ok := nd.(*ast.TypeSwitchStmt)
			if !ok {
				return true
			}
			a, ok := ts.Assign.(*ast.AssignStmt)
			if !ok || len(a.Rhs) != 1 {
				return true
			}
			ta, ok := core.Unparen(a.Rhs[0]).(*ast.TypeAssertExpr)
			if !ok {
				return true
			}
			if _, isSrc := isSourceChain(ta.X); !isSrc {
				return true
			}
			for _, cl := range ts.Body.List {
				if o := info.Implicits[cl]; o != nil {
					alias[o] = core.ExprStr(ta.X)
				}
			}
			return true
		})
		expand := func(chain string, e ast.Expr) string {
			if root := rootIdent(e); root != nil {
				if a, ok := alias[info.Uses[root]]; ok {
					// never expand the outer `st`: its subject is the node itself
					if !strings.Contains(a, "node.") && strings.HasPrefix(chain, root.Name) {
						return a + strings.TrimPrefix(chain, root.Name)
					}
				}
			}
			return chain
		}
		var recs []*copyRec
		var stack []ast.Node
		ast.Inspect(fd.Body, func(nd ast.Node) bool {
			if nd == nil {
				stack = stack[:len(stack)-1]
				return true
			}
			stack = append(stack, nd)
			var lhsStr string
			var rhs ast.Expr
			var at ast.Node
			switch x := nd.(type) {
			case *ast.AssignStmt:
				if len(x.Lhs) != 1 || len(x.Rhs) != 1 {
					return true
				}
				// LHS must be a field of something (output)
				if _, isSel := x.Lhs[0].(*ast.SelectorExpr); !isSel {
					return true
				}
				lhsStr, rhs, at = core.ExprStr(x.Lhs[0]), x.Rhs[0], x
			case *ast.KeyValueExpr:
				k, ok := x.Key.(*ast.Ident)
				if !ok {
					return true
				}
				lit := ""
				if len(stack) >= 2 {
					if cl, ok := stack[len(stack)-2].(*ast.CompositeLit); ok && cl.Type != nil {
						lit = core.ExprStr(cl.Type)
					}
				}
				if lit == "" {
					return true
				}
				lhsStr, rhs, at = lit+"{"+k.Name+"}", x.Value, x
			default:
				return true
			}
			rhs = core.Unparen(rhs)
			if u, ok := rhs.(*ast.UnaryExpr); ok {
				rhs = u.X
			}
			if st, ok := rhs.(*ast.StarExpr); ok {
				rhs = st.X
			}
			sel, ok := rhs.(*ast.SelectorExpr)
			if !ok {
				return true
			}
			chain, ok := isSourceChain(sel)
			if !ok {
				return true
			}
			chain = expand(chain, sel)
			// enclosing conditions up to the nearest case clause of the outer type switch
			var foreign []string
			var foreignIfs []ifBranch
			var allIfs []ifBranch
			for i := len(stack) - 2; i >= 0; i-- {
				switch x := stack[i].(type) {
				case *ast.IfStmt:
					if i+1 < len(stack) && stack[i+1] != ast.Node(x.Body) && (x.Else == nil || stack[i+1] != ast.Node(x.Else)) {
						continue // in the init or condition, not under it
					}
					br := ifBranch{x, i+1 < len(stack) && stack[i+1] == ast.Node(x.Body)}
					allIfs = append(allIfs, br)
					// a disjunct that only tests the attribute's own path makes the
					// whole condition true whenever the attribute is present
					ownDisjunct := false
					for _, d := range disjuncts(x.Cond) {
						all := true
						for _, c := range condChains(d) {
							if !chainRelated(c, chain, info, expand) {
								all = false
							}
						}
						if all {
							ownDisjunct = true
						}
					}
					if !ownDisjunct {
						foreign = append(foreign, core.ExprStr(x.Cond))
						foreignIfs = append(foreignIfs, br)
					}
				case *ast.TypeSwitchStmt:
					if a, ok := x.Assign.(*ast.AssignStmt); ok && len(a.Rhs) == 1 {
						if ta, ok := core.Unparen(a.Rhs[0]).(*ast.TypeAssertExpr); ok {
							c := core.ExprStr(ta.X)
							if _, isSrc := isSourceChain(ta.X); isSrc && !chainRelatedStr(c, chain) {
								// switch over a different source oneof: sibling
								if len(a.Lhs) == 1 && !strings.HasPrefix(chain, core.ExprStr(a.Lhs[0])+".") {
									foreign = append(foreign, "switch "+c+".(type)")
								}
							}
						}
					}
				}
			}
			recs = append(recs, &copyRec{key: fmt.Sprintf("%s | %s = %s", fn, lhsStr, chain), chain: chain, pos: at.Pos(), foreign: foreign, foreignIfs: foreignIfs, allIfs: allIfs})
			return true
		})
		for _, c := range recs {
			o := r.Add("R-SYM/S7", c.key, c.pos, "copy of source attribute "+c.chain)
			// a foreign condition only selects the output slot when the other
			// branch of the same if copies the attribute too
			var left []string
			for i, f := range c.foreignIfs {
				covered := false
				for _, c2 := range recs {
					if c2 == c || c2.chain != c.chain {
						continue
					}
					for _, b := range c2.allIfs {
						if b.ifs == f.ifs && b.then != f.then {
							covered = true
						}
					}
				}
				if !covered {
					left = append(left, c.foreign[i])
				}
			}
			for _, f := range c.foreign[len(c.foreignIfs):] {
				left = append(left, f)
			}
			switch {
			case len(c.foreign) == 0:
				o.Auto("conditioned only by tests on its own access path")
			case len(left) == 0:
				o.Auto("the other condition (%s) only selects the output slot: the other branch copies the attribute as well", strings.Join(c.foreign, "; "))
			case r.Table(table, o):
			default:
				o.Fail("the copy also depends on %s: for some values of those the attribute is silently dropped", strings.Join(left, "; "))
			}
		}
	}
}

type ifBranch struct {
	ifs  *ast.IfStmt
	then bool
}

type copyRec struct {
	key, chain string
	pos        token.Pos
	foreign    []string
	foreignIfs []ifBranch
	allIfs     []ifBranch
}

func rootIdent(e ast.Expr) *ast.Ident {
	for {
		switch x := core.Unparen(e).(type) {
		case *ast.Ident:
			return x
		case *ast.SelectorExpr:
			e = x.X
		case *ast.StarExpr:
			e = x.X
		case *ast.CallExpr:
			if s, ok := x.Fun.(*ast.SelectorExpr); ok && len(x.Args) == 0 {
				e = s.X
				continue
			}
			return nil
		default:
			return nil
		}
	}
}

// condChains: the selector chains / identifiers a condition mentions.
func condChains(cond ast.Expr) []ast.Expr {
	var out []ast.Expr
	var visit func(e ast.Expr)
	visit = func(e ast.Expr) {
		switch x := core.Unparen(e).(type) {
		case *ast.BinaryExpr:
			visit(x.X)
			visit(x.Y)
		case *ast.UnaryExpr:
			visit(x.X)
		case *ast.StarExpr:
			visit(x.X)
		case *ast.SelectorExpr, *ast.Ident:
			out = append(out, x)
		case *ast.CallExpr:
			for _, a := range x.Args {
				visit(a)
			}
			if s, ok := x.Fun.(*ast.SelectorExpr); ok {
				visit(s.X)
			}
		}
	}
	visit(cond)
	return out
}

func chainRelatedStr(c, chain string) bool {
	return c == chain || strings.HasPrefix(chain, c+".") || strings.HasPrefix(c, chain+".")
}

func disjuncts(e ast.Expr) []ast.Expr {
	if b, ok := core.Unparen(e).(*ast.BinaryExpr); ok && b.Op.String() == "||" {
		return append(disjuncts(b.X), disjuncts(b.Y)...)
	}
	return []ast.Expr{e}
}

func chainRelated(c ast.Expr, chain string, info *types.Info, expand func(string, ast.Expr) string) bool {
	s := expand(core.ExprStr(c), c)
	if s == "nil" || s == "err" || s == "true" || s == "false" {
		return true
	}
	if id, ok := c.(*ast.Ident); ok {
		if _, isConst := info.Uses[id].(*types.Const); isConst {
			return true
		}
		if _, isNil := info.Uses[id].(*types.Nil); isNil {
			return true
		}
		if isErrType(info.TypeOf(id)) {
			return true
		}
	}
	return chainRelatedStr(s, chain)
}

func isErrType(t types.Type) bool {
	return t != nil && types.Identical(t, types.Universe.Lookup("error").Type())
}
