package props

import (
	"fmt"
	"go/ast"
	"go/token"
	"go/types"
	"strings"

	"golang.org/x/tools/go/packages"

	"j5verif/checker/core"
)

// attributeIndependence (R-SYM/S7): in the converter, whether an attribute of
// the source schema is copied into the output may depend only on that
// attribute's own presence (tests on its own access path, or a type switch
// over the oneof it lives in) — not on sibling attributes or on locals
// computed from them. Otherwise some admissible combination of values loses
// the attribute ("every rule and annotation … set to arbitrary admissible
// values, including both values of every boolean").
func attributeIndependence(r *core.Run, table string, fns ...string) {
	attributeIndependenceIn(r, convRel, []string{schemaPB}, table, fns...)
}

// attributeIndependenceIn: the same rule for another package and other source
// message packages (the reader side: annotation messages → schema).
func attributeIndependenceIn(r *core.Run, rel string, srcPkgs []string, table string, fns ...string) {
	r.Rule("R-SYM/S7", "every statement of the converter that copies a source-schema attribute (a selector chain rooted at the case-bound source node) into the output is conditioned, inside its case clause, only by tests on prefixes of that same chain, by type switches over such a prefix, or by error tests; a condition over a sibling attribute or an unrelated local needs a recorded reason")
	if len(fns) == 1 && fns[0] == "*" {
		fns = nil
		if pk := r.P.Pkg(rel); pk != nil {
			core.AllFuncDecls(pk, func(fd *ast.FuncDecl) {
				if !strings.HasSuffix(r.P.Fset.Position(fd.Pos()).Filename, "_test.go") {
					fns = append(fns, core.FuncName(fd))
				}
			})
		}
	}
	for _, fn := range fns {
		fd, pk := r.P.FuncDecl(rel, fn)
		if fd == nil {
			r.Fatal("anchor: %s.%s not found", rel, fn)
			continue
		}
		info := pk.TypesInfo
		// source roots: variables bound by `switch st := X.(type)` whose case types are schema_j5pb wrappers
		inSrcPkg := func(t types.Type) bool {
			if t == nil {
				return false
			}
			if p, ok := t.(*types.Pointer); ok {
				t = p.Elem()
			}
			n, ok := t.(*types.Named)
			if !ok || n.Obj().Pkg() == nil {
				return false
			}
			for _, sp := range srcPkgs {
				if n.Obj().Pkg().Path() == sp {
					return true
				}
			}
			return false
		}
		// a source chain reads a field (or getter) of a source message, or is a
		// variable holding one
		isSourceChain := func(e ast.Expr) (string, bool) {
			e = core.Unparen(e)
			s := core.ExprStr(e)
			switch x := e.(type) {
			case *ast.Ident:
				if obj := info.Uses[x]; obj != nil && inSrcPkg(obj.Type()) {
					return s, true
				}
			case *ast.SelectorExpr:
				if inSrcPkg(info.TypeOf(x.X)) {
					return s, true
				}
				if root := rootIdent(x); root != nil {
					if obj := info.Uses[root]; obj != nil && inSrcPkg(obj.Type()) {
						return s, true
					}
				}
			case *ast.CallExpr:
				if sel, ok := x.Fun.(*ast.SelectorExpr); ok && len(x.Args) == 0 && inSrcPkg(info.TypeOf(sel.X)) {
					return s, true
				}
			}
			return "", false
		}
		// aliases: `switch et := st.Key.Entity.Type.(type)` binds et to that chain
		alias := map[types.Object]string{}
		ast.Inspect(fd.Body, func(nd ast.Node) bool {
			ts, ok := nd.(*ast.TypeSwitchStmt)
			if !ok {
				return true
			}
			a, ok := ts.Assign.(*ast.AssignStmt)
			if !ok || len(a.Rhs) != 1 {
				return true
			}
			ta, ok := core.Unparen(a.Rhs[0]).(*ast.TypeAssertExpr)
			if !ok {
				return true
			}
			if _, isSrc := isSourceChain(ta.X); !isSrc {
				return true
			}
			for _, cl := range ts.Body.List {
				if o := info.Implicits[cl]; o != nil {
					alias[o] = core.ExprStr(ta.X)
				}
			}
			return true
		})
		// range variables over a source chain: `for _, f := range node.Schema.Info`
		ast.Inspect(fd.Body, func(nd ast.Node) bool {
			rs, ok := nd.(*ast.RangeStmt)
			if !ok || rs.Value == nil {
				return true
			}
			id, ok := rs.Value.(*ast.Ident)
			if !ok {
				return true
			}
			if _, isSrc := isSourceChain(rs.X); !isSrc {
				return true
			}
			if o := info.Defs[id]; o != nil {
				alias[o] = core.ExprStr(rs.X) + ".[]"
			}
			return true
		})
		// locals defined once from a source chain: `c := ext.validate.GetString_()`, `x := y.Field`, `t, ok := y.Type.(*T)`
		normalise := func(e ast.Expr) string {
			s := core.ExprStr(e)
			// getters read the field of the same name
			for strings.Contains(s, ".Get") {
				i := strings.Index(s, ".Get")
				j := strings.Index(s[i:], "()")
				if j < 0 {
					break
				}
				s = s[:i] + "." + s[i+4:i+j] + s[i+j+2:]
			}
			return s
		}
		ast.Inspect(fd.Body, func(nd ast.Node) bool {
			as, ok := nd.(*ast.AssignStmt)
			if !ok || as.Tok != token.DEFINE || len(as.Rhs) != 1 || len(as.Lhs) == 0 {
				return true
			}
			id, ok := as.Lhs[0].(*ast.Ident)
			if !ok {
				return true
			}
			rhs := core.Unparen(as.Rhs[0])
			if ta, ok := rhs.(*ast.TypeAssertExpr); ok {
				rhs = ta.X
			}
			if _, isSrc := isSourceChain(rhs); !isSrc {
				// a getter call on a source chain
				c, isCall := rhs.(*ast.CallExpr)
				if !isCall || len(c.Args) != 0 {
					return true
				}
				sel, isSel := c.Fun.(*ast.SelectorExpr)
				if !isSel || !strings.HasPrefix(sel.Sel.Name, "Get") {
					return true
				}
				if _, isSrc2 := isSourceChain(sel.X); !isSrc2 {
					if root := rootIdent(sel.X); root == nil || alias[info.Uses[root]] == "" {
						return true
					}
				}
			}
			if o := info.Defs[id]; o != nil {
				if _, dup := alias[o]; !dup {
					alias[o] = normalise(rhs)
				}
			}
			return true
		})
		byName := map[string]string{}
		for o, a := range alias {
			byName[o.Name()] = a
		}
		expand := func(chain string, e ast.Expr) string {
			chain = normalise(&ast.Ident{Name: chain})
			// first step by object identity (names such as cType are reused per switch)
			if root := rootIdent(e); root != nil {
				if a, ok := alias[info.Uses[root]]; ok && strings.HasPrefix(chain, root.Name) {
					chain = a + strings.TrimPrefix(chain, root.Name)
				}
			}
			for i := 0; i < 6; i++ {
				root := chain
				if j := strings.IndexAny(chain, ".["); j >= 0 {
					root = chain[:j]
				}
				a, ok := byName[root]
				if !ok || a == root || strings.HasPrefix(a, root+".") {
					break
				}
				chain = a + strings.TrimPrefix(chain, root)
			}
			return chain
		}
		var recs []*copyRec
		var stack []ast.Node
		ast.Inspect(fd.Body, func(nd ast.Node) bool {
			if nd == nil {
				stack = stack[:len(stack)-1]
				return true
			}
			stack = append(stack, nd)
			var lhsStr string
			var rhs ast.Expr
			var at ast.Node
			switch x := nd.(type) {
			case *ast.AssignStmt:
				if len(x.Lhs) != 1 || len(x.Rhs) != 1 {
					return true
				}
				// LHS must be a field of something (output)
				if _, isSel := x.Lhs[0].(*ast.SelectorExpr); !isSel {
					return true
				}
				if !isOutputType(info.TypeOf(x.Lhs[0].(*ast.SelectorExpr).X)) {
					return true
				}
				lhsStr, rhs, at = core.ExprStr(x.Lhs[0]), x.Rhs[0], x
			case *ast.KeyValueExpr:
				k, ok := x.Key.(*ast.Ident)
				if !ok {
					return true
				}
				lit := ""
				if len(stack) >= 2 {
					if cl, ok := stack[len(stack)-2].(*ast.CompositeLit); ok && cl.Type != nil {
						lit = core.ExprStr(cl.Type)
					}
				}
				if lit == "" {
					return true
				}
				if cl, ok := stack[len(stack)-2].(*ast.CompositeLit); ok && !isOutputType(info.TypeOf(cl)) {
					return true
				}
				lhsStr, rhs, at = lit+"{"+k.Name+"}", x.Value, x
			default:
				return true
			}
			rhs = core.Unparen(rhs)
			if u, ok := rhs.(*ast.UnaryExpr); ok {
				rhs = u.X
			}
			if st, ok := rhs.(*ast.StarExpr); ok {
				rhs = st.X
			}
			var sel ast.Expr
			switch x := rhs.(type) {
			case *ast.SelectorExpr:
				sel = x
			case *ast.CallExpr:
				// a generated getter on a source message reads the field of that name
				if fs, ok := x.Fun.(*ast.SelectorExpr); ok && len(x.Args) == 0 && strings.HasPrefix(fs.Sel.Name, "Get") {
					sel = x
				}
			}
			if sel == nil {
				return true
			}
			chain, ok := isSourceChain(sel)
			if !ok {
				return true
			}
			chain = expand(chain, sel)
			// enclosing conditions up to the nearest case clause of the outer type switch
			var foreign []string
			var foreignIfs []ifBranch
			var allIfs []ifBranch
			for i := len(stack) - 2; i >= 0; i-- {
				switch x := stack[i].(type) {
				case *ast.IfStmt:
					if i+1 < len(stack) && stack[i+1] != ast.Node(x.Body) && (x.Else == nil || stack[i+1] != ast.Node(x.Else)) {
						continue // in the init or condition, not under it
					}
					br := ifBranch{x, i+1 < len(stack) && stack[i+1] == ast.Node(x.Body)}
					allIfs = append(allIfs, br)
					// a disjunct that only tests the attribute's own path makes the
					// whole condition true whenever the attribute is present
					ownDisjunct := false
					for _, d := range disjuncts(x.Cond) {
						all := true
						for _, c := range condChains(d) {
							if !chainRelated(c, chain, info, expand) {
								all = false
							}
						}
						if all {
							ownDisjunct = true
						}
					}
					if !ownDisjunct {
						foreign = append(foreign, core.ExprStr(x.Cond))
						foreignIfs = append(foreignIfs, br)
					}
				case *ast.CaseClause:
					// tagless switch: this case's conditions and those of the cases it fell past
					if i >= 2 {
						if sw, ok := stack[i-2].(*ast.SwitchStmt); ok && sw.Tag == nil {
							for _, cl := range sw.Body.List {
								cc := cl.(*ast.CaseClause)
								for _, ce := range cc.List {
									ownDisjunct := false
									for _, d := range disjuncts(ce) {
										all := true
										for _, c := range condChains(d) {
											if !chainRelated(c, chain, info, expand) {
												all = false
											}
										}
										if all {
											ownDisjunct = true
										}
									}
									if !ownDisjunct {
										foreign = append(foreign, "case "+core.ExprStr(ce))
									}
								}
								if cc == x {
									break
								}
							}
						}
					}
				case *ast.TypeSwitchStmt:
					if a, ok := x.Assign.(*ast.AssignStmt); ok && len(a.Rhs) == 1 {
						if ta, ok := core.Unparen(a.Rhs[0]).(*ast.TypeAssertExpr); ok {
							c := expand(core.ExprStr(ta.X), ta.X)
							if _, isSrc := isSourceChain(ta.X); isSrc && !chainRelatedStr(c, chain) {
								// switch over a different source oneof: sibling
								if len(a.Lhs) == 1 && !strings.HasPrefix(chain, core.ExprStr(a.Lhs[0])+".") {
									foreign = append(foreign, "switch "+c+".(type)")
								}
							}
						}
					}
				}
			}
			// the source message was obtained through a helper that returns nil
			// under some condition: that condition filters every attribute of the
			// message, so it counts like an enclosing `if !(cond)`
			if root := rootIdent(sel); root != nil {
				for _, hc := range helperFilters(r, pk, fd, info.Uses[root]) {
					own := false
					for _, d := range hc.disjuncts {
						all := true
						for _, c := range d {
							c = strings.Replace(c, hc.result, root.Name, 1)
							if !chainRelatedStr(expand(c, &ast.Ident{Name: "_"}), chain) {
								all = false
							}
						}
						if all {
							own = true
						}
					}
					if !own {
						foreign = append(foreign, "helper "+hc.fn+" returns nil when "+hc.text)
					}
				}
			}
			recs = append(recs, &copyRec{key: fmt.Sprintf("%s | %s = %s", fn, lhsStr, chainKey(info, fd, chain)), chain: chain, pos: at.Pos(), foreign: foreign, foreignIfs: foreignIfs, allIfs: allIfs})
			return true
		})
		// an else-if chain is one multi-way choice (a switch spelled with ifs): its members
		// share the root `if`
		elseParent := map[*ast.IfStmt]*ast.IfStmt{}
		ast.Inspect(fd, func(n ast.Node) bool {
			if is, ok := n.(*ast.IfStmt); ok {
				if e, ok := is.Else.(*ast.IfStmt); ok {
					elseParent[e] = is
				}
			}
			return true
		})
		chainRoot := func(is *ast.IfStmt) *ast.IfStmt {
			for elseParent[is] != nil {
				is = elseParent[is]
			}
			return is
		}
		for _, c := range recs {
			o := r.Add("R-SYM/S7", c.key, c.pos, "copy of source attribute "+c.chain)
			// a foreign condition only selects the output slot when the other
			// branch of the same if copies the attribute too
			var left []string
			for i, f := range c.foreignIfs {
				covered := false
				for _, c2 := range recs {
					if c2 == c || c2.chain != c.chain {
						continue
					}
					for _, b := range c2.allIfs {
						if b.ifs == f.ifs && b.then != f.then {
							covered = true
						}
						// another arm of the same else-if chain copies it too
						if b.ifs != f.ifs && b.then && f.then && chainRoot(b.ifs) == chainRoot(f.ifs) {
							covered = true
						}
					}
				}
				if !covered {
					left = append(left, c.foreign[i])
				}
			}
			for _, f := range c.foreign[len(c.foreignIfs):] {
				left = append(left, f)
			}
			switch {
			case len(c.foreign) == 0:
				o.Auto("conditioned only by tests on its own access path")
			case len(left) == 0:
				o.Auto("the other condition (%s) only selects the output slot: the other branch copies the attribute as well", strings.Join(c.foreign, "; "))
			case r.Table(table, o):
			default:
				o.Fail("the copy also depends on %s: for some values of those the attribute is silently dropped", strings.Join(left, "; "))
			}
		}
	}
}

type helperFilter struct {
	fn, text, result string
	disjuncts        [][]string // chains per disjunct of the keep-condition !(cond)
}

// helperFilters: obj is a local defined as `x := f(…)` with f a function of the
// same package whose body has `if cond { return nil }` statements before it
// returns a variable v. Each such cond, with v standing for x, is returned as
// the disjuncts of its negation.
func helperFilters(r *core.Run, pk *packages.Package, caller *ast.FuncDecl, obj types.Object) []helperFilter {
	if obj == nil {
		return nil
	}
	info := pk.TypesInfo
	var callee *types.Func
	ast.Inspect(caller.Body, func(n ast.Node) bool {
		as, ok := n.(*ast.AssignStmt)
		if !ok || len(as.Lhs) == 0 || len(as.Rhs) != 1 {
			return true
		}
		id, ok := as.Lhs[0].(*ast.Ident)
		if !ok || info.Defs[id] != obj {
			return true
		}
		if c, ok := core.Unparen(as.Rhs[0]).(*ast.CallExpr); ok {
			if fn := core.CalleeFunc(info, c); fn != nil && fn.Pkg() == pk.Types {
				callee = fn
			}
		}
		return true
	})
	if callee == nil {
		return nil
	}
	var out []helperFilter
	core.AllFuncDecls(pk, func(fd *ast.FuncDecl) {
		if info.Defs[fd.Name] != types.Object(callee) || fd.Body == nil {
			return
		}
		// the variable finally returned
		result := ""
		if n := len(fd.Body.List); n > 0 {
			if ret, ok := fd.Body.List[n-1].(*ast.ReturnStmt); ok && len(ret.Results) >= 1 {
				if id, ok := core.Unparen(ret.Results[0]).(*ast.Ident); ok {
					result = id.Name
				}
			}
		}
		if result == "" {
			return
		}
		for _, st := range fd.Body.List {
			ifs, ok := st.(*ast.IfStmt)
			if !ok || len(ifs.Body.List) != 1 {
				continue
			}
			ret, ok := ifs.Body.List[0].(*ast.ReturnStmt)
			if !ok || len(ret.Results) < 1 || !core.IsNilIdent(info, ret.Results[0]) {
				continue
			}
			hf := helperFilter{fn: fd.Name.Name, text: core.ExprStr(ifs.Cond), result: result}
			for _, c := range conjuncts(ifs.Cond) {
				var chains []string
				for _, e := range condChains(c) {
					s := core.ExprStr(e)
					if s == "nil" || s == "true" || s == "false" {
						continue
					}
					chains = append(chains, s)
				}
				hf.disjuncts = append(hf.disjuncts, chains)
			}
			out = append(out, hf)
		}
	})
	return out
}

func conjuncts(e ast.Expr) []ast.Expr {
	if b, ok := core.Unparen(e).(*ast.BinaryExpr); ok && b.Op.String() == "&&" {
		return append(conjuncts(b.X), conjuncts(b.Y)...)
	}
	return []ast.Expr{e}
}

type ifBranch struct {
	ifs  *ast.IfStmt
	then bool
}

type copyRec struct {
	key, chain string
	pos        token.Pos
	foreign    []string
	foreignIfs []ifBranch
	allIfs     []ifBranch
}

func rootIdent(e ast.Expr) *ast.Ident {
	for {
		switch x := core.Unparen(e).(type) {
		case *ast.Ident:
			return x
		case *ast.SelectorExpr:
			e = x.X
		case *ast.StarExpr:
			e = x.X
		case *ast.CallExpr:
			if s, ok := x.Fun.(*ast.SelectorExpr); ok && len(x.Args) == 0 {
				e = s.X
				continue
			}
			return nil
		default:
			return nil
		}
	}
}

// condChains: the selector chains / identifiers a condition mentions.
func condChains(cond ast.Expr) []ast.Expr {
	var out []ast.Expr
	var visit func(e ast.Expr)
	visit = func(e ast.Expr) {
		switch x := core.Unparen(e).(type) {
		case *ast.BinaryExpr:
			visit(x.X)
			visit(x.Y)
		case *ast.UnaryExpr:
			visit(x.X)
		case *ast.StarExpr:
			visit(x.X)
		case *ast.SelectorExpr, *ast.Ident:
			out = append(out, x)
		case *ast.CallExpr:
			for _, a := range x.Args {
				visit(a)
			}
			if s, ok := x.Fun.(*ast.SelectorExpr); ok {
				visit(s.X)
			}
		}
	}
	visit(cond)
	return out
}

func chainRelatedStr(c, chain string) bool {
	return c == chain || strings.HasPrefix(chain, c+".") || strings.HasPrefix(c, chain+".")
}

func disjuncts(e ast.Expr) []ast.Expr {
	if b, ok := core.Unparen(e).(*ast.BinaryExpr); ok && b.Op.String() == "||" {
		return append(disjuncts(b.X), disjuncts(b.Y)...)
	}
	return []ast.Expr{e}
}

func chainRelated(c ast.Expr, chain string, info *types.Info, expand func(string, ast.Expr) string) bool {
	// tests on the descriptor being reflected (field.IsList(), src.Kind()) say
	// where the attribute can exist at all; they are not sibling attributes
	if root := rootIdent(c); root != nil {
		if t := info.TypeOf(root); t != nil && strings.Contains(core.TypeStr(t), "protoreflect.") {
			return true
		}
	}
	s := expand(core.ExprStr(c), c)
	// a test on the oneof holder (an interface-typed field such as .Type) of a
	// message on the attribute's path is a test of the attribute's presence
	if sel, ok := core.Unparen(c).(*ast.SelectorExpr); ok {
		if _, isIface := info.TypeOf(sel).Underlying().(*types.Interface); isIface {
			parent := expand(core.ExprStr(sel.X), sel.X)
			if strings.HasPrefix(chain, parent+".") {
				return true
			}
		}
	}
	if s == "nil" || s == "err" || s == "true" || s == "false" {
		return true
	}
	if id, ok := c.(*ast.Ident); ok {
		if _, isConst := info.Uses[id].(*types.Const); isConst {
			return true
		}
		if _, isNil := info.Uses[id].(*types.Nil); isNil {
			return true
		}
		if isErrType(info.TypeOf(id)) {
			return true
		}
	}
	return chainRelatedStr(s, chain)
}

func isErrType(t types.Type) bool {
	return t != nil && types.Identical(t, types.Universe.Lookup("error").Type())
}

// isOutputType: the value being filled in is part of what the converter or
// the reflector produces (descriptor, annotation or schema messages, j5schema
// structs) — not an error value or an internal helper struct.
func isOutputType(t types.Type) bool {
	if t == nil {
		return false
	}
	if p, ok := t.(*types.Pointer); ok {
		t = p.Elem()
	}
	n, ok := t.(*types.Named)
	if !ok || n.Obj().Pkg() == nil {
		return false
	}
	path := n.Obj().Pkg().Path()
	switch {
	case strings.Contains(path, "/gen/"), strings.Contains(path, "buf/validate"), strings.Contains(path, "descriptorpb"), strings.Contains(path, "genproto"):
		// a reference message is an intermediate, not an emitted attribute
		return n.Obj().Name() != "Ref"
	case strings.HasSuffix(path, "/lib/j5schema"):
		return !strings.HasSuffix(n.Obj().Name(), "Error")
	}
	return false
}

var chainTypesCache = map[*ast.FuncDecl]map[string]string{}

// chainKey prints an access chain for an obligation key with its root variable
// replaced by the variable's type, so that the key does not change when the
// local is renamed: psmKeyExt.ForeignKey → ‹*PSMKeyFieldOptions›.ForeignKey.
func chainKey(info *types.Info, fd *ast.FuncDecl, chain string) string {
	m := chainTypesCache[fd]
	if m == nil {
		m = map[string]string{}
		ast.Inspect(fd, func(n ast.Node) bool {
			id, ok := n.(*ast.Ident)
			if !ok || id.Name == "_" {
				return true
			}
			obj := info.Defs[id]
			if obj == nil {
				return true
			}
			v, isVar := obj.(*types.Var)
			if !isVar || v.IsField() {
				return true
			}
			t := types.TypeString(v.Type(), func(*types.Package) string { return "" })
			if prev, seen := m[id.Name]; seen && prev != t {
				m[id.Name] = "var"
			} else {
				m[id.Name] = t
			}
			return true
		})
		// variables bound by type switches have one implicit object per clause
		ast.Inspect(fd, func(n ast.Node) bool {
			if cc, ok := n.(*ast.CaseClause); ok {
				if v, ok := info.Implicits[cc].(*types.Var); ok {
					t := types.TypeString(v.Type(), func(*types.Package) string { return "" })
					if prev, seen := m[v.Name()]; seen && prev != t {
						m[v.Name()] = "var"
					} else {
						m[v.Name()] = t
					}
				}
			}
			return true
		})
		chainTypesCache[fd] = m
	}
	root, rest := chain, ""
	if j := strings.IndexAny(chain, ".["); j >= 0 {
		root, rest = chain[:j], chain[j:]
	}
	if t, ok := m[root]; ok {
		return "‹" + t + "›" + rest
	}
	return chain
}
