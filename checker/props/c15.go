package props

import (
	"fmt"
	"go/ast"
	"go/token"
	"go/types"
	"golang.org/x/tools/go/packages"
	"sort"
	"strings"

	"j5verif/checker/core"
	"j5verif/checker/rules"
)

func init() { Registry["C15"] = C15 }

// exportMethods: bodies of the ToJ5* methods (the exporter).
func exportBodies(r *core.Run) []ast.Node {
	pk := r.P.Pkg(schemaRel)
	var out []ast.Node
	core.AllFuncDecls(pk, func(fd *ast.FuncDecl) {
		if strings.HasPrefix(fd.Name.Name, "ToJ5") && !strings.Contains(fd.Name.Name, "Client") {
			out = append(out, fd.Body)
		}
	})
	return out
}

// C15 — schema sets survive export to the source-API form and re-import.
func C15(r *core.Run) {
	r.Entry = []string{"j5schema ToJ5Root/ToJ5Object/ToJ5Field/ToJ5Proto/ToJ5EnumValue (export)", "j5schema.PackageSetFromSourceAPI … schemaFromDesc/enumSchemaFromDesc/objectPropertyFromDesc (import)"}
	pk := r.P.Pkg(schemaRel)
	if pk == nil {
		r.Fatal("anchor: package %s not found", schemaRel)
		return
	}
	exp := exportBodies(r)
	if len(exp) < 10 {
		r.Fatal("anchor: expected at least 10 ToJ5* export methods, found %d", len(exp))
		return
	}
	_, imp := rules.FuncBodies(r, schemaRel, "schema_from_desc.go")
	r.Rule("R-SYM/S1", "serialisable schema messages (j5.schema.v1): every field the exporter (ToJ5*) sets from the in-memory schema, and every oneof member it constructs, is read by the importer (schema_from_desc.go)")
	w := rules.CollectWrites(pk, exp)
	rd := rules.CollectReads(pk, imp)
	rules.Coverage(r, "R-SYM/S1", "export→import", w, rd, func(m string) bool { return strings.HasPrefix(m, "schema_j5pb.") }, map[string]string{
		"schema_j5pb.Field.Type":         "oneof holder: members are checked as slots",
		"schema_j5pb.RootSchema.Type":    "oneof holder: members are checked as slots",
		"schema_j5pb.ObjectField.Schema": "oneof holder: members are checked as slots",
		"schema_j5pb.OneofField.Schema":  "oneof holder: members are checked as slots",
		"schema_j5pb.EnumField.Schema":   "oneof holder: members are checked as slots",
		"schema_j5pb.MapField.KeySchema": "constant: J5 map keys are always strings; the importer regenerates it",
	})
	r.Floor("R-SYM/S1", 30, "fields of Object/Oneof/Enum/ObjectProperty/*Field written by the exporter")
	carrierCoverage(r, exp, imp)
	verbatimImport(r, imp, pk.TypesInfo)
	importCopiesIndependent(r, imp, pk.TypesInfo)
	exportNoOverride(r, pk)
	refsLinkGuard(r)
}

// carrierCoverage (R-SYM/S2): per in-memory carrier type, every field the
// exporter reads through its receiver is set by every composite literal of
// that type in the importer (or assigned right after in the same function).
func carrierCoverage(r *core.Run, exp, imp []ast.Node) {
	r.Rule("R-SYM/S2", "for each in-memory schema type (ObjectField, OneofField, EnumField, ArrayField, MapField, AnyField, ScalarSchema, ObjectSchema, OneofSchema, EnumSchema, EnumOption, ObjectProperty): every field its ToJ5* method reads through the receiver is a key of every composite literal of that type in the importer, or is assigned later in the same function — otherwise a second export differs from the first")
	pk := r.P.Pkg(schemaRel)
	info := pk.TypesInfo
	// fields read by export methods through the receiver, per type
	need := map[string]map[string]bool{}
	core.AllFuncDecls(pk, func(fd *ast.FuncDecl) {
		if !strings.HasPrefix(fd.Name.Name, "ToJ5") || strings.Contains(fd.Name.Name, "Client") || fd.Recv == nil || len(fd.Recv.List[0].Names) == 0 {
			return
		}
		recv := info.Defs[fd.Recv.List[0].Names[0]]
		tn := core.RecvName(fd)
		ast.Inspect(fd.Body, func(n ast.Node) bool {
			s, ok := n.(*ast.SelectorExpr)
			if !ok {
				return true
			}
			id, ok := s.X.(*ast.Ident)
			if !ok || info.Uses[id] != recv {
				return true
			}
			if sel, ok := info.Selections[s]; ok && sel.Kind() == types.FieldVal {
				// promoted fields of embedded rootSchema/fieldContext are recorded under their own name
				if need[tn] == nil {
					need[tn] = map[string]bool{}
				}
				need[tn][s.Sel.Name] = true
			}
			return true
		})
	})
	var tns []string
	for t := range need {
		tns = append(tns, t)
	}
	sort.Strings(tns)
	r.Note("fields read by the exporter per carrier type: %v", func() []string {
		var out []string
		for _, t := range tns {
			out = append(out, t+keysStr(need[t]))
		}
		return out
	}())
	nlit := 0
	for _, b := range imp {
		// assignments x.F = … per function body
		assigned := map[string]map[string]bool{}
		ast.Inspect(b, func(n ast.Node) bool {
			if as, ok := n.(*ast.AssignStmt); ok {
				for _, l := range as.Lhs {
					if s, ok := l.(*ast.SelectorExpr); ok {
						if id, ok := s.X.(*ast.Ident); ok {
							if assigned[id.Name] == nil {
								assigned[id.Name] = map[string]bool{}
							}
							assigned[id.Name][s.Sel.Name] = true
							// an embedded struct assigned as a literal: `v.rootSchema = rootSchema{description: …, name: …}`
							// sets the promoted fields the literal names
							if len(as.Lhs) == len(as.Rhs) {
								for li, l2 := range as.Lhs {
									if l2 != l {
										continue
									}
									if icl, ok := core.Unparen(as.Rhs[li]).(*ast.CompositeLit); ok {
										for _, ie := range icl.Elts {
											if ikv, ok := ie.(*ast.KeyValueExpr); ok {
												if ik, ok := ikv.Key.(*ast.Ident); ok {
													assigned[id.Name][ik.Name] = true
												}
											}
										}
									}
								}
							}
						}
					}
				}
			}
			return true
		})
		// literal -> variable it is assigned to (for later field assignments)
		litVar := map[*ast.CompositeLit]string{}
		ast.Inspect(b, func(n ast.Node) bool {
			if as, ok := n.(*ast.AssignStmt); ok && len(as.Lhs) == len(as.Rhs) {
				for i, rh := range as.Rhs {
					e := core.Unparen(rh)
					if u, ok := e.(*ast.UnaryExpr); ok {
						e = u.X
					}
					if cl, ok := e.(*ast.CompositeLit); ok {
						if id, ok := as.Lhs[i].(*ast.Ident); ok {
							litVar[cl] = id.Name
						}
					}
				}
			}
			return true
		})
		ast.Inspect(b, func(n ast.Node) bool {
			cl, ok := n.(*ast.CompositeLit)
			if !ok {
				return true
			}
			nt := core.NamedOf(info.TypeOf(cl))
			if nt == nil || nt.Obj().Pkg() != pk.Types || need[nt.Obj().Name()] == nil {
				return true
			}
			nlit++
			tn := nt.Obj().Name()
			set := map[string]bool{}
			for _, e := range cl.Elts {
				if kv, ok := e.(*ast.KeyValueExpr); ok {
					if k, ok := kv.Key.(*ast.Ident); ok {
						set[k.Name] = true
						// embedded struct literal: rootSchema{description:…, name:…}
						if icl, ok := kv.Value.(*ast.CompositeLit); ok {
							for _, ie := range icl.Elts {
								if ikv, ok := ie.(*ast.KeyValueExpr); ok {
									if ik, ok := ikv.Key.(*ast.Ident); ok {
										set[ik.Name] = true
									}
								}
							}
						}
					}
				}
			}
			fdn := core.EnclosingFunc(pk, cl.Pos())
			var fields []string
			for f := range need[tn] {
				fields = append(fields, f)
			}
			sort.Strings(fields)
			label := fmt.Sprintf("j5schema.%s | %s literal %s", core.FuncName(fdn), tn, branchLabel(info, fdn, cl))
			for _, f := range fields {
				o := r.Add("R-SYM/S2", label+" | "+f, cl.Pos(), fmt.Sprintf("%s.%s in the importer's literal", tn, f))
				switch {
				case set[f]:
					o.Auto("set in the literal")
				case litVar[cl] != "" && assigned[litVar[cl]][f]:
					o.Auto("assigned to %s.%s later in the function", litVar[cl], f)
				case s2Allow[tn+"."+f] != "":
					o.Status = "table:" + s2Allow[tn+"."+f]
				default:
					o.Fail("the exporter writes %s.%s into the serialised form but this importer literal never sets it: the value is dropped on re-import and the second export differs", tn, f)
				}
			}
			return true
		})
	}
	r.Analysed["importer_carrier_literals"] = nlit
	r.Floor("R-SYM/S2", 40, "carrier literals × exported fields")
}

var s2Allow = map[string]string{
	"ObjectProperty.Parent": "structural back-pointer, not serialised",
}

func keysStr(m map[string]bool) string {
	var k []string
	for x := range m {
		k = append(k, x)
	}
	sort.Strings(k)
	return "{" + strings.Join(k, ",") + "}"
}

// branchLabel names the enclosing case clauses of a node (stable, line-free).
func branchLabel(info *types.Info, fd *ast.FuncDecl, n ast.Node) string {
	var parts []string
	for _, p := range core.PathTo(fd.Body, n) {
		if cc, ok := p.(*ast.CaseClause); ok && len(cc.List) > 0 {
			s := core.ExprStr(cc.List[0])
			parts = append(parts, s[strings.LastIndex(s, ".")+1:])
		}
	}
	if len(parts) == 0 {
		return "(top)"
	}
	return strings.Join(parts, "/")
}

// refsLinkGuard: assertRefsLink's recursive closures carry a visited set.
func refsLinkGuard(r *core.Run) {
	r.Rule("R-TERM/T2", "a recursive walk through schema references (Ref.To, Schema()) terminates only with a visited set: the recursive call is dominated by a membership test on a map with an early return and an insertion into the same map")
	fd, pk := r.P.FuncDecl(schemaRel, "Package.assertRefsLink")
	if fd == nil {
		r.Fatal("anchor: j5schema.Package.assertRefsLink not found")
		return
	}
	o := r.Add("R-TERM/T2", "j5schema.Package.assertRefsLink | visited set", fd.Pos(), "reference walk in assertRefsLink")
	if why, ok := hasVisitedGuard(pk.TypesInfo, fd.Body); ok {
		o.Auto("%s", why)
	} else {
		o.Fail("no visited-set guard found: a recursive schema (A refers to A) makes the link check recurse forever")
	}
}

// hasVisitedGuard: somewhere in the body: `if _, ok := m[k]; ok { return }` (or
// `if m[k] { return }`) and `m[k] = …` on the same map.
func hasVisitedGuard(info *types.Info, body ast.Node) (string, bool) {
	tested := map[string]bool{}
	stored := map[string]bool{}
	// `_, ok := m[k]` immediately followed by `if ok { … return }`
	ast.Inspect(body, func(n ast.Node) bool {
		var list []ast.Stmt
		switch b := n.(type) {
		case *ast.BlockStmt:
			list = b.List
		case *ast.CaseClause:
			list = b.Body
		}
		for i := 0; i+1 < len(list); i++ {
			as, ok := list[i].(*ast.AssignStmt)
			if !ok || len(as.Lhs) != 2 || len(as.Rhs) != 1 {
				continue
			}
			ix, ok := core.Unparen(as.Rhs[0]).(*ast.IndexExpr)
			if !ok {
				continue
			}
			if _, isMap := info.TypeOf(ix.X).Underlying().(*types.Map); !isMap {
				continue
			}
			ifs, ok := list[i+1].(*ast.IfStmt)
			if ok && core.ExprStr(ifs.Cond) == core.ExprStr(as.Lhs[1]) && len(ifs.Body.List) > 0 {
				if _, isRet := ifs.Body.List[len(ifs.Body.List)-1].(*ast.ReturnStmt); isRet {
					tested[core.ExprStr(ix.X)] = true
				}
			}
		}
		return true
	})
	ast.Inspect(body, func(n ast.Node) bool {
		switch x := n.(type) {
		case *ast.IfStmt:
			var ix *ast.IndexExpr
			if as, ok := x.Init.(*ast.AssignStmt); ok && len(as.Rhs) == 1 {
				ix, _ = core.Unparen(as.Rhs[0]).(*ast.IndexExpr)
			} else {
				ix, _ = core.Unparen(x.Cond).(*ast.IndexExpr)
			}
			if ix != nil {
				if _, isMap := info.TypeOf(ix.X).Underlying().(*types.Map); isMap && len(x.Body.List) > 0 {
					if _, isRet := x.Body.List[len(x.Body.List)-1].(*ast.ReturnStmt); isRet {
						tested[core.ExprStr(ix.X)] = true
					}
				}
			}
		case *ast.AssignStmt:
			for _, l := range x.Lhs {
				if ix, ok := l.(*ast.IndexExpr); ok {
					if _, isMap := info.TypeOf(ix.X).Underlying().(*types.Map); isMap {
						stored[core.ExprStr(ix.X)] = true
					}
				}
			}
		}
		return true
	})
	for m := range tested {
		if stored[m] {
			return "membership test with early return and insertion on map " + m, true
		}
	}
	return "", false
}

// verbatimImport (R-SYM/S5v): the importer rebuilds the in-memory schema from
// the exported form; the exporter writes names and other strings exactly as
// the in-memory schema holds them, so the importer must take them back
// unchanged. A string-valued field assigned from a function of the source
// string (TrimPrefix, case conversion, …) makes export → import → export
// differ for some names.
func verbatimImport(r *core.Run, imp []ast.Node, info *types.Info) {
	r.Rule("R-SYM/S5v", "in schema_from_desc.go every string- or boolean-typed field of the rebuilt schema (also a map or list of strings, such as enum option info) that is fed from the source description is the source field itself (a selector chain or its generated getter), not the result of a call applied to it or of a boolean combination with other source attributes; the exporter writes the in-memory strings unchanged, so any transformation on the way back is not idempotent for some names")
	n := 0
	for _, body := range imp {
		ast.Inspect(body, func(nd ast.Node) bool {
			var lhs string
			var rhs ast.Expr
			switch x := nd.(type) {
			case *ast.KeyValueExpr:
				if k, ok := x.Key.(*ast.Ident); ok {
					lhs, rhs = k.Name, x.Value
				}
			case *ast.AssignStmt:
				if len(x.Lhs) == 1 && len(x.Rhs) == 1 {
					if s, ok := x.Lhs[0].(*ast.SelectorExpr); ok {
						lhs, rhs = core.ExprStr(s), x.Rhs[0]
					}
				}
			}
			if rhs == nil {
				return true
			}
			// a value named once before it is used (`jsonName := f(prop.Name)` … `JSONName: jsonName`)
			if id, ok := core.Unparen(rhs).(*ast.Ident); ok {
				if def := soleDefinition(info, id); def != nil {
					rhs = def
				}
			}
			bt, ok := info.TypeOf(rhs).Underlying().(*types.Basic)
			if !ok {
				// collections of strings (option info, lists of names) are copied the same way
				var el types.Type
				switch u := info.TypeOf(rhs).Underlying().(type) {
				case *types.Map:
					el = u.Elem()
				case *types.Slice:
					el = u.Elem()
				}
				if el == nil {
					return true
				}
				eb, isBasic := el.Underlying().(*types.Basic)
				if !isBasic || eb.Kind() != types.String {
					return true
				}
				if c, isCall := core.Unparen(rhs).(*ast.CallExpr); isCall {
					switch core.CalleeName(info, c) {
					case "maps.Clone", "slices.Clone":
						return true
					}
					if i := strings.Index(core.CalleeName(info, c), "["); i > 0 {
						switch core.CalleeName(info, c)[:i] {
						case "maps.Clone", "slices.Clone":
							return true
						}
					}
				}
				// an element-by-element copy or conversion (no call but builtins and conversions, no branch) is the collection itself
				if c, isCall := core.Unparen(rhs).(*ast.CallExpr); isCall {
					if fn := core.CalleeFunc(info, c); fn != nil && fn.Pkg() != nil && core.IsSource(fn.Pkg().Path()) {
						if cpk := r.P.ByPkg[fn.Pkg().Path()]; cpk != nil {
							if cd := core.DeclOf(cpk, fn.Origin()); cd != nil && cd.Body != nil {
								plain := true
								ast.Inspect(cd.Body, func(m ast.Node) bool {
									switch z := m.(type) {
									case *ast.IfStmt, *ast.SwitchStmt, *ast.TypeSwitchStmt:
										plain = false
									case *ast.CallExpr:
										if _, isB := cpk.TypesInfo.Uses[identOfFun(z.Fun)].(*types.Builtin); !isB && !core.IsConversion(cpk.TypesInfo, z) {
											plain = false
										}
									}
									return plain
								})
								if plain {
									return true
								}
							}
						}
					}
				}
				bt = types.Typ[types.String]
			} else if bt.Kind() != types.String && bt.Info()&types.IsBoolean == 0 {
				return true
			}
			readsSrc := func(e ast.Expr) bool {
				from := false
				ast.Inspect(e, func(y ast.Node) bool {
					if s, ok := y.(*ast.SelectorExpr); ok {
						if nt := core.NamedOf(info.TypeOf(s.X)); nt != nil && nt.Obj().Pkg() != nil && nt.Obj().Pkg().Path() == schemaPB {
							from = true
						}
					}
					if id, ok := y.(*ast.Ident); ok {
						if nt := core.NamedOf(info.TypeOf(id)); nt != nil && nt.Obj().Pkg() != nil && nt.Obj().Pkg().Path() == schemaPB {
							if _, isVar := info.Uses[id].(*types.Var); isVar {
								from = true
							}
						}
					}
					return true
				})
				return from
			}
			what := ""
			switch y := core.Unparen(rhs).(type) {
			case *ast.CallExpr:
				if core.IsConversion(info, y) {
					return true
				}
				// generated getters are the field itself
				if sel, ok := y.Fun.(*ast.SelectorExpr); ok && len(y.Args) == 0 && strings.HasPrefix(sel.Sel.Name, "Get") {
					if nt := core.NamedOf(info.TypeOf(sel.X)); nt != nil && nt.Obj().Pkg() != nil && nt.Obj().Pkg().Path() == schemaPB {
						return true
					}
				}
				src := false
				for _, a := range y.Args {
					if readsSrc(a) {
						src = true
					}
				}
				if !src {
					return true
				}
				// a helper that only hands back a field of its argument is still the field itself
				if fn := core.CalleeFunc(info, y); fn != nil && fn.Pkg() != nil && core.IsSource(fn.Pkg().Path()) {
					if cpk := r.P.ByPkg[fn.Pkg().Path()]; cpk != nil {
						if cd := core.DeclOf(cpk, fn.Origin()); cd != nil && cd.Body != nil && len(cd.Body.List) == 1 {
							if ret, ok := cd.Body.List[0].(*ast.ReturnStmt); ok && len(ret.Results) == 1 {
								switch z := core.Unparen(ret.Results[0]).(type) {
								case *ast.SelectorExpr:
									if _, isID := core.Unparen(z.X).(*ast.Ident); isID {
										return true
									}
								case *ast.CallExpr:
									if sel, ok := z.Fun.(*ast.SelectorExpr); ok && len(z.Args) == 0 && strings.HasPrefix(sel.Sel.Name, "Get") {
										return true
									}
								}
							}
						}
					}
				}
				what = "a function of the exported value"
			case *ast.BinaryExpr:
				// a boolean combined from source fields (`x.Required || …`), or a string spliced together
				if !readsSrc(y) || bt.Kind() == types.String {
					return true
				}
				if y.Op != token.LOR && y.Op != token.LAND {
					return true // comparisons derive a flag from a non-boolean attribute: not a copy of an exported boolean
				}
				what = "a combination of exported values"
			default:
				return true
			}
			n++
			o := r.Add("R-SYM/S5v", fmt.Sprintf("schema_from_desc | %s = %s", lhs, core.NormExpr(info, rhs)), rhs.Pos(), "field rebuilt through "+what)
			if !r.Table("sym_sites", o) {
				o.Fail("%s is rebuilt as %s: the exporter wrote the in-memory value unchanged, so applying a function on import changes values the function is not the identity on (export → import → export differs)", lhs, core.ExprStr(rhs))
			}
			return true
		})
	}
	r.Analysed["transformed_string_imports"] = n
}

// exportNoOverride (R-SYM/S5x): in an export method a field of the exported
// message that is copied from the in-memory schema is not also given another
// value: `out.F = true` after `F: s.F` turns the export into a function of
// other attributes, and since the importer copies F back verbatim, a second
// export of the re-imported schema differs from the first.
func exportNoOverride(r *core.Run, pk *packages.Package) {
	r.Rule("R-SYM/S5x", "in the ToJ5* export methods, a boolean or string field of the exported message that is copied from the receiver is not assigned anything else in the same method (no override under a condition on another attribute): export is a plain copy, so export → import → export is stable")
	info := pk.TypesInfo
	n := 0
	core.AllFuncDecls(pk, func(fd *ast.FuncDecl) {
		if !strings.HasPrefix(fd.Name.Name, "ToJ5") || fd.Recv == nil || len(fd.Recv.List) != 1 || len(fd.Recv.List[0].Names) != 1 {
			return
		}
		recv := info.Defs[fd.Recv.List[0].Names[0]]
		type store struct {
			field string
			val   ast.Expr
			pos   token.Pos
		}
		var stores []store
		ast.Inspect(fd.Body, func(nd ast.Node) bool {
			switch x := nd.(type) {
			case *ast.CompositeLit:
				if nt := core.NamedOf(info.TypeOf(x)); nt != nil && nt.Obj().Pkg() != nil && nt.Obj().Pkg().Path() == schemaPB {
					for _, el := range x.Elts {
						if kv, ok := el.(*ast.KeyValueExpr); ok {
							if id, ok := kv.Key.(*ast.Ident); ok {
								stores = append(stores, store{nt.Obj().Name() + "." + id.Name, kv.Value, kv.Pos()})
							}
						}
					}
				}
			case *ast.AssignStmt:
				for i, l := range x.Lhs {
					s, ok := core.Unparen(l).(*ast.SelectorExpr)
					if !ok || len(x.Rhs) != len(x.Lhs) {
						continue
					}
					if nt := core.NamedOf(info.TypeOf(s.X)); nt != nil && nt.Obj().Pkg() != nil && nt.Obj().Pkg().Path() == schemaPB {
						stores = append(stores, store{nt.Obj().Name() + "." + s.Sel.Name, x.Rhs[i], x.Pos()})
					}
				}
			}
			return true
		})
		fromRecv := func(e ast.Expr) bool {
			s, ok := core.Unparen(e).(*ast.SelectorExpr)
			if !ok {
				return false
			}
			id, ok := core.Unparen(s.X).(*ast.Ident)
			return ok && info.Uses[id] == recv
		}
		copied := map[string]bool{}
		for _, st := range stores {
			if fromRecv(st.val) {
				copied[st.field] = true
			}
		}
		// a flag of the same name as a flag of the receiver is that flag, not a function of it
		// and of other attributes: `ExplicitlyOptional: prop.ExplicitlyOptional && !…` (also
		// through one local) exports something the importer cannot tell from the plain value
		for _, st := range stores {
			bt, ok := info.TypeOf(st.val).Underlying().(*types.Basic)
			if !ok || bt.Info()&types.IsBoolean == 0 || fromRecv(st.val) {
				continue
			}
			val := st.val
			if id, isID := core.Unparen(val).(*ast.Ident); isID {
				if def := soleDefinition(info, id); def != nil {
					val = def
				}
			}
			if fromRecv(val) {
				continue
			}
			name := st.field[strings.LastIndex(st.field, ".")+1:]
			mentions := false
			ast.Inspect(val, func(x ast.Node) bool {
				if sel, ok := x.(*ast.SelectorExpr); ok && sel.Sel.Name == name && fromRecv(sel) {
					mentions = true
				}
				return !mentions
			})
			if !mentions {
				continue
			}
			n++
			o := r.Add("R-SYM/S5x", "j5schema."+core.FuncName(fd)+" | "+st.field+" computed as "+core.NormExpr(info, val), st.pos, "exported "+st.field+" is the in-memory value")
			o.Fail("%s is exported as %s, a function of the in-memory flag and of other attributes: where those attributes differ between a reflected and a re-imported schema (or simply mask the flag) the export of the re-imported schema differs from the first export", st.field, core.ExprStr(val))
		}
		for _, st := range stores {
			bt, ok := info.TypeOf(st.val).Underlying().(*types.Basic)
			if !ok || bt.Info()&(types.IsBoolean|types.IsString) == 0 || !copied[st.field] || fromRecv(st.val) {
				continue
			}
			n++
			o := r.Add("R-SYM/S5x", "j5schema."+core.FuncName(fd)+" | "+st.field+" also set to "+core.NormExpr(info, st.val), st.pos, "exported "+st.field+" is the in-memory value")
			o.Fail("%s is copied from the receiver and also set to %s in the same export method: the exported value is no longer the in-memory one, and because the importer takes it back verbatim a re-export of the re-imported schema differs", st.field, core.ExprStr(st.val))
		}
	})
	r.Analysed["export_overrides"] = n
}

func identOfFun(e ast.Expr) *ast.Ident {
	if id, ok := e.(*ast.Ident); ok {
		return id
	}
	return nil
}

// importCopiesIndependent (R-SYM/S7i): the importer copies each attribute of the
// serialised form into the in-memory schema. The attributes are independent —
// an object may be an entity part and a member of an Any set at once — so a
// copy may be conditioned by tests on the attribute itself only. A copy that
// sits in a later clause of a switch or an else-branch whose earlier
// conditions test *another* attribute is skipped whenever that other
// attribute is set: the value is lost on re-import.
func importCopiesIndependent(r *core.Run, imp []ast.Node, info *types.Info) {
	r.Rule("R-SYM/S7i", "in schema_from_desc.go an assignment `x.F = src.F` that copies a field of a generated schema message into the same-named field of an in-memory schema is conditioned only by tests that mention src.F itself: it does not sit in a switch clause or else-branch whose own or earlier conditions read another field of src")
	n := 0
	for _, body := range imp {
		var stack []ast.Node
		ast.Inspect(body, func(nd ast.Node) bool {
			if nd == nil {
				stack = stack[:len(stack)-1]
				return true
			}
			stack = append(stack, nd)
			as, ok := nd.(*ast.AssignStmt)
			if !ok || len(as.Lhs) != 1 || len(as.Rhs) != 1 {
				return true
			}
			l, ok := core.Unparen(as.Lhs[0]).(*ast.SelectorExpr)
			if !ok {
				return true
			}
			rsel, ok := core.Unparen(as.Rhs[0]).(*ast.SelectorExpr)
			if !ok || rsel.Sel.Name != l.Sel.Name {
				return true
			}
			srcT := core.NamedOf(info.TypeOf(rsel.X))
			if srcT == nil || srcT.Obj().Pkg() == nil || srcT.Obj().Pkg().Path() != schemaPB {
				return true
			}
			srcID, ok := core.Unparen(rsel.X).(*ast.Ident)
			if !ok {
				return true
			}
			srcObj := info.ObjectOf(srcID)
			// conditions that decide whether this statement runs
			var conds []ast.Expr
			for i := len(stack) - 2; i >= 0; i-- {
				switch x := stack[i].(type) {
				case *ast.CaseClause:
					var sw *ast.SwitchStmt
					for j := i - 1; j >= 0; j-- {
						if s, ok := stack[j].(*ast.SwitchStmt); ok {
							sw = s
							break
						}
					}
					if sw == nil || sw.Tag != nil {
						continue
					}
					for _, cl := range sw.Body.List {
						cc := cl.(*ast.CaseClause)
						conds = append(conds, cc.List...)
						if cc == x {
							break
						}
					}
				case *ast.IfStmt:
					conds = append(conds, x.Cond)
				}
			}
			if len(conds) == 0 {
				return true
			}
			n++
			o := r.Add("R-SYM/S7i", fmt.Sprintf("schema_from_desc | %s = %s", core.NormExpr(info, l), core.NormExpr(info, rsel)), as.Pos(), "conditional copy of "+rsel.Sel.Name)
			other := ""
			for _, c := range conds {
				ast.Inspect(c, func(m ast.Node) bool {
					if s, ok := m.(*ast.SelectorExpr); ok {
						if id, ok := core.Unparen(s.X).(*ast.Ident); ok && info.ObjectOf(id) == srcObj && s.Sel.Name != rsel.Sel.Name && strings.TrimPrefix(s.Sel.Name, "Get") != rsel.Sel.Name {
							other = s.Sel.Name
						}
					}
					return true
				})
			}
			if other == "" {
				o.Auto("conditioned by tests on %s only", rsel.Sel.Name)
			} else {
				o.Fail("whether %s is copied depends on %s: a schema that has both loses %s on import, and the second export differs from the first", rsel.Sel.Name, other, rsel.Sel.Name)
			}
			return true
		})
	}
	r.Analysed["conditional_import_copies"] = n
}
