package props

import (
	"fmt"
	"go/ast"
	"go/constant"
	"go/token"
	"go/types"
	"sort"
	"strings"

	"golang.org/x/tools/go/packages"

	"j5verif/checker/core"
)

// entityRefAgreement (R-SYM/entityref): the compiler annotates the services of
// an entity with the entity's bare name; structure copies the annotation into
// the source API; j5client resolves it against the entities of the package.
// The resolver also takes the qualified form "<package>/<entity>". The rule
// evaluates the resolver symbolically on the two shapes of reference and
// requires that the name it looks up is, for a reference without "/", the
// reference itself, and for one with a single "/", the part behind it.
//
// The evaluation is an abstract interpretation of the function body (and of
// same-package helpers, inlined) over string shapes: W the whole reference,
// P / E the parts before and behind the slash, "" the empty string, unknown.
// It reports definite disagreements only: a looked-up name that is provably
// not the expected part, or a lookup that no path reaches.
func entityRefAgreement(r *core.Run) {
	r.Rule("R-SYM/entityref", "the function of internal/j5client that looks a string parameter up among Package.StateEntities by Name, evaluated over string shapes (strings.Split/SplitN/Cut/Contains/Index/LastIndex, len, indexing, slicing, boolean and integer comparisons; helpers inlined): for a reference without '/' the looked-up name is the whole reference, for '<package>/<entity>' it is the part behind the slash, and a lookup is reached; and the compiler writes the entity's name field, unformatted, wherever it writes an entity reference")
	const rel = "internal/j5client"
	pk := r.P.Pkg(rel)
	if pk == nil {
		r.Fatal("anchor: package %s not found", rel)
		return
	}
	info := pk.TypesInfo
	// the resolver: ranges over a field StateEntities and compares <elem>.Name with something, has a string parameter
	type site struct {
		fd    *ast.FuncDecl
		param *types.Var
	}
	var sites []site
	core.AllFuncDecls(pk, func(fd *ast.FuncDecl) {
		if fd.Body == nil || fd.Type.Params == nil {
			return
		}
		var sp []*types.Var
		for _, f := range fd.Type.Params.List {
			for _, n := range f.Names {
				if v, ok := info.Defs[n].(*types.Var); ok {
					if b, ok := v.Type().Underlying().(*types.Basic); ok && b.Kind() == types.String {
						sp = append(sp, v)
					}
				}
			}
		}
		if len(sp) == 0 {
			return
		}
		// a lookup in the function itself or in a same-package function it calls
		has := false
		for _, d := range core.TreeDecls(pk, fd, 2) {
			if d.Body != nil && len(entityLookups(info, d.Body)) > 0 {
				has = true
			}
		}
		if !has {
			return
		}
		for _, v := range sp {
			sites = append(sites, site{fd, v})
		}
	})
	// the resolvers are the functions handed the entity reference of a service annotation: an argument
	// `<x>.Entity` whose <x> is a ServiceType_StateEntityCommand / ServiceType_StateEntityQuery of the source API
	{
		handed := map[types.Object]map[int]bool{}
		core.AllFuncDecls(pk, func(fd *ast.FuncDecl) {
			if fd.Body == nil {
				return
			}
			ast.Inspect(fd.Body, func(n ast.Node) bool {
				c, ok := n.(*ast.CallExpr)
				if !ok {
					return true
				}
				fn := core.CalleeFunc(info, c)
				if fn == nil || fn.Pkg() != pk.Types {
					return true
				}
				for ai, a := range c.Args {
					sel, ok := core.Unparen(a).(*ast.SelectorExpr)
					if !ok || sel.Sel.Name != "Entity" {
						continue
					}
					ts := core.TypeStr(info.TypeOf(sel.X))
					if strings.HasSuffix(ts, "ServiceType_StateEntityCommand") || strings.HasSuffix(ts, "ServiceType_StateEntityQuery") {
						if handed[fn.Origin()] == nil {
							handed[fn.Origin()] = map[int]bool{}
						}
						handed[fn.Origin()][ai] = true
					}
				}
				return true
			})
		})
		var top []site
		for _, s := range sites {
			idxs := handed[info.Defs[s.fd.Name]]
			if idxs == nil {
				continue
			}
			// which parameter is it
			k := 0
			for _, pf := range s.fd.Type.Params.List {
				for _, nm := range pf.Names {
					if info.Defs[nm] == types.Object(s.param) && idxs[k] {
						top = append(top, s)
					}
					k++
				}
			}
		}
		sites = top
	}
	for _, s := range sites {
		for _, w := range []struct {
			world  int
			expect string
			what   string
		}{{0, "W", "a reference without '/' (what the compiler writes)"}, {1, "E", "a reference '<package>/<entity>'"}} {
			key := rel + "." + core.FuncName(s.fd) + " | " + []string{"bare", "qualified"}[w.world]
			o := r.Add("R-SYM/entityref", key, s.fd.Pos(), "entity reference resolver, "+w.what)
			ev := &shapeEval{pk: pk, info: info, world: w.world, depth: 0}
			env := map[types.Object]shape{s.param: {k: skStr, s: "W"}}
			ev.block(s.fd.Body.List, env)
			got := map[string]bool{}
			for _, g := range ev.lookups {
				got[g] = true
			}
			var gs []string
			for g := range got {
				gs = append(gs, g)
			}
			sort.Strings(gs)
			switch {
			case len(gs) == 0 && ev.undecided:
				o.Auto("not decided: the evaluation met a construct outside its model before any lookup")
			case len(gs) == 0:
				o.Fail("no path reaches the lookup: %s is rejected (or resolved to nothing) before any entity is compared", w.what)
			case len(gs) == 1 && gs[0] == w.expect:
				o.Auto("looked-up name = %s on every path that reaches the comparison", describeShape(w.expect))
			case got["?"]:
				if len(gs) == 1 || (len(gs) == 2 && got[w.expect]) {
					o.Auto("not decided: the looked-up name is not a recognised function of the reference")
				} else {
					o.Fail("looked-up name is %s on some path, expected %s", strings.Join(gs, " / "), describeShape(w.expect))
				}
			default:
				o.Fail("for %s the name compared with StateEntity.Name is %s, expected %s: the service cannot be attached to its entity", w.what, describeShapes(gs), describeShape(w.expect))
			}
		}
	}
	r.Floor("R-SYM/entityref", 2, "getEntity")

	// producer side: every entity reference the compiler writes is the entity's name, unformatted
	wpk := r.P.Pkg("internal/j5s/sourcewalk")
	if wpk == nil {
		r.Fatal("anchor: package internal/j5s/sourcewalk not found")
		return
	}
	winfo := wpk.TypesInfo
	n := 0
	core.AllFuncDecls(wpk, func(fd *ast.FuncDecl) {
		if fd.Body == nil {
			return
		}
		ast.Inspect(fd.Body, func(nd ast.Node) bool {
			cl, ok := nd.(*ast.CompositeLit)
			if !ok {
				return true
			}
			ts := core.TypeStr(winfo.TypeOf(cl))
			if !(strings.HasSuffix(ts, "ServiceOptions_StateCommand") || strings.HasSuffix(ts, "ServiceOptions_StateQuery") || strings.HasSuffix(ts, "schema_j5pb.EntityObject")) {
				return true
			}
			v := litKey(cl, "Entity")
			if v == nil {
				return true
			}
			n++
			o := r.Add("R-SYM/entityref", "internal/j5s/sourcewalk."+core.FuncName(fd)+" | "+ts[strings.LastIndex(ts, ".")+1:]+".Entity", v.Pos(), "entity reference written by the compiler")
			switch x := core.Unparen(v).(type) {
			case *ast.Ident, *ast.SelectorExpr:
				o.Auto("a name copied as it is (%s)", core.NormExpr(winfo, x))
			default:
				o.Fail("the reference is computed (%s): the resolver and the entity schemas are keyed by the entity's bare name", core.NormExpr(winfo, v))
			}
			return true
		})
	})
	if n < 4 {
		r.Fatal("R-SYM/entityref: expected at least 4 entity references written by sourcewalk, found %d", n)
	}
}

func describeShape(s string) string {
	switch s {
	case "W":
		return "the whole reference"
	case "P":
		return "the part before the slash"
	case "E":
		return "the part behind the slash"
	case "":
		return "the empty string"
	}
	return "unknown"
}

func describeShapes(gs []string) string {
	var out []string
	for _, g := range gs {
		out = append(out, describeShape(g))
	}
	return strings.Join(out, " / ")
}

// entityLookups: comparisons <x>.Name == <e> (or !=) inside a range over a field named StateEntities.
func entityLookups(info *types.Info, root ast.Node) []*ast.BinaryExpr {
	var out []*ast.BinaryExpr
	ast.Inspect(root, func(n ast.Node) bool {
		rs, ok := n.(*ast.RangeStmt)
		if !ok {
			return true
		}
		sel, ok := core.Unparen(rs.X).(*ast.SelectorExpr)
		if !ok || sel.Sel.Name != "StateEntities" {
			return true
		}
		ast.Inspect(rs.Body, func(m ast.Node) bool {
			if b, ok := m.(*ast.BinaryExpr); ok && (b.Op == token.EQL || b.Op == token.NEQ) {
				if lookupOther(info, b) != nil {
					out = append(out, b)
				}
			}
			return true
		})
		return true
	})
	return out
}

// lookupOther returns the operand compared with a .Name selector of a StateEntity.
func lookupOther(info *types.Info, b *ast.BinaryExpr) ast.Expr {
	isName := func(e ast.Expr) bool {
		s, ok := core.Unparen(e).(*ast.SelectorExpr)
		return ok && s.Sel.Name == "Name" && strings.HasSuffix(core.TypeStr(info.TypeOf(s.X)), "StateEntity")
	}
	if isName(b.X) {
		return b.Y
	}
	if isName(b.Y) {
		return b.X
	}
	return nil
}

type shapeKind int

const (
	skUnknown shapeKind = iota
	skStr
	skBool
	skInt
	skSlice
	skTuple
)

type shape struct {
	k  shapeKind
	s  string // skStr: "W", "P", "E", ""
	b  bool
	i  int64
	el []shape
}

func (a shape) eq(b shape) bool {
	if a.k != b.k {
		return false
	}
	switch a.k {
	case skStr:
		return a.s == b.s
	case skBool:
		return a.b == b.b
	case skInt:
		return a.i == b.i
	case skSlice, skTuple:
		if len(a.el) != len(b.el) {
			return false
		}
		for i := range a.el {
			if !a.el[i].eq(b.el[i]) {
				return false
			}
		}
		return true
	}
	return true
}

type shapeEval struct {
	pk        *packages.Package
	info      *types.Info
	world     int // 0: no slash in W; 1: exactly one slash, W = P "/" E
	lookups   []string
	undecided bool
	depth     int
	returns   []shape // collected return values while inlining a helper
	errLast   bool    // the inlined helper's last result is an error
}

func cloneEnv(e map[types.Object]shape) map[types.Object]shape {
	c := make(map[types.Object]shape, len(e))
	for k, v := range e {
		c[k] = v
	}
	return c
}

func joinEnv(a, b map[types.Object]shape) map[types.Object]shape {
	out := map[types.Object]shape{}
	for k, v := range a {
		if w, ok := b[k]; ok && v.eq(w) {
			out[k] = v
		} else {
			out[k] = shape{}
		}
	}
	for k := range b {
		if _, ok := a[k]; !ok {
			out[k] = shape{}
		}
	}
	return out
}

// block evaluates statements; it returns the environment at the end and whether the end is reachable.
func (ev *shapeEval) block(list []ast.Stmt, env map[types.Object]shape) (map[types.Object]shape, bool) {
	for _, st := range list {
		var live bool
		env, live = ev.stmt(st, env)
		if !live {
			return env, false
		}
	}
	return env, true
}

func (ev *shapeEval) assign(lhs []ast.Expr, rhs []ast.Expr, env map[types.Object]shape) {
	var vals []shape
	if len(rhs) == 1 && len(lhs) > 1 {
		v := ev.expr(rhs[0], env)
		if v.k == skTuple && len(v.el) == len(lhs) {
			vals = v.el
		} else {
			vals = make([]shape, len(lhs))
		}
	} else {
		for _, e := range rhs {
			vals = append(vals, ev.expr(e, env))
		}
	}
	for i, l := range lhs {
		id, ok := core.Unparen(l).(*ast.Ident)
		if !ok {
			continue
		}
		obj := ev.info.ObjectOf(id)
		if obj == nil {
			continue
		}
		if i < len(vals) {
			env[obj] = vals[i]
		} else {
			env[obj] = shape{}
		}
	}
}

func (ev *shapeEval) stmt(st ast.Stmt, env map[types.Object]shape) (map[types.Object]shape, bool) {
	switch s := st.(type) {
	case *ast.AssignStmt:
		if s.Tok == token.ASSIGN || s.Tok == token.DEFINE {
			ev.assign(s.Lhs, s.Rhs, env)
		} else {
			for _, l := range s.Lhs {
				if id, ok := core.Unparen(l).(*ast.Ident); ok {
					if obj := ev.info.ObjectOf(id); obj != nil {
						env[obj] = shape{}
					}
				}
			}
		}
		return env, true
	case *ast.DeclStmt:
		if gd, ok := s.Decl.(*ast.GenDecl); ok {
			for _, sp := range gd.Specs {
				if vs, ok := sp.(*ast.ValueSpec); ok {
					var lhs []ast.Expr
					for _, n := range vs.Names {
						lhs = append(lhs, n)
					}
					if len(vs.Values) > 0 {
						ev.assign(lhs, vs.Values, env)
					} else {
						for _, n := range vs.Names {
							if obj := ev.info.ObjectOf(n); obj != nil {
								if b, ok := obj.Type().Underlying().(*types.Basic); ok && b.Kind() == types.String {
									env[obj] = shape{k: skStr, s: ""}
								} else {
									env[obj] = shape{}
								}
							}
						}
					}
				}
			}
		}
		return env, true
	case *ast.ExprStmt:
		if c, ok := s.X.(*ast.CallExpr); ok {
			if id, ok := c.Fun.(*ast.Ident); ok && id.Name == "panic" {
				return env, false
			}
		}
		ev.expr(s.X, env)
		return env, true
	case *ast.ReturnStmt:
		if ev.depth > 0 {
			// a helper's failing return ends the path in the caller (which hands the error on)
			if n := len(s.Results); ev.errLast && n > 0 && !core.IsNilIdent(ev.info, s.Results[n-1]) {
				return env, false
			}
			var t []shape
			for _, e := range s.Results {
				t = append(t, ev.expr(e, env))
			}
			if len(t) == 1 {
				ev.returns = append(ev.returns, t[0])
			} else {
				ev.returns = append(ev.returns, shape{k: skTuple, el: t})
			}
		} else {
			// a comparison written in the return expression counts as a lookup
			for _, e := range s.Results {
				ev.expr(e, env)
			}
		}
		return env, false
	case *ast.BlockStmt:
		return ev.block(s.List, env)
	case *ast.IfStmt:
		if s.Init != nil {
			env, _ = ev.stmt(s.Init, env)
		}
		c := ev.expr(s.Cond, env)
		if c.k == skBool {
			if c.b {
				return ev.block(s.Body.List, env)
			}
			if s.Else != nil {
				return ev.stmt(s.Else, env)
			}
			return env, true
		}
		e1, l1 := ev.block(s.Body.List, cloneEnv(env))
		e2, l2 := env, true
		if s.Else != nil {
			e2, l2 = ev.stmt(s.Else, cloneEnv(env))
		}
		switch {
		case l1 && l2:
			return joinEnv(e1, e2), true
		case l1:
			return e1, true
		case l2:
			return e2, true
		}
		return env, false
	case *ast.SwitchStmt:
		if s.Init != nil {
			env, _ = ev.stmt(s.Init, env)
		}
		return ev.stmt(core.SwitchAsIfChain(s), env)
	case *ast.RangeStmt:
		if sel, ok := core.Unparen(s.X).(*ast.SelectorExpr); ok && sel.Sel.Name == "StateEntities" {
			for _, b := range entityLookups(ev.info, s) {
				v := ev.expr(lookupOther(ev.info, b), env)
				if v.k == skStr {
					ev.lookups = append(ev.lookups, v.s)
				} else {
					ev.lookups = append(ev.lookups, "?")
				}
			}
			return env, true
		}
		ev.havoc(s.Body, env)
		e, _ := ev.block(s.Body.List, cloneEnv(env))
		return joinEnv(env, e), true
	case *ast.ForStmt:
		ev.havoc(s, env)
		e, _ := ev.block(s.Body.List, cloneEnv(env))
		return joinEnv(env, e), true
	case *ast.BranchStmt, *ast.EmptyStmt, *ast.IncDecStmt, *ast.DeferStmt, *ast.GoStmt:
		if ids, ok := st.(*ast.IncDecStmt); ok {
			if id, ok := core.Unparen(ids.X).(*ast.Ident); ok {
				if obj := ev.info.ObjectOf(id); obj != nil {
					env[obj] = shape{}
				}
			}
		}
		if b, ok := st.(*ast.BranchStmt); ok && (b.Tok == token.BREAK || b.Tok == token.CONTINUE || b.Tok == token.GOTO) {
			// leaves the straight-line model; what follows in this block is not evaluated on this path
			return env, true
		}
		return env, true
	}
	ev.undecided = true
	ev.havoc(st, env)
	return env, true
}

// havoc forgets everything assigned anywhere inside n.
func (ev *shapeEval) havoc(n ast.Node, env map[types.Object]shape) {
	ast.Inspect(n, func(x ast.Node) bool {
		switch y := x.(type) {
		case *ast.AssignStmt:
			for _, l := range y.Lhs {
				if id, ok := core.Unparen(l).(*ast.Ident); ok {
					if obj := ev.info.ObjectOf(id); obj != nil {
						if _, had := env[obj]; had {
							env[obj] = shape{}
						}
					}
				}
			}
		case *ast.IncDecStmt:
			if id, ok := core.Unparen(y.X).(*ast.Ident); ok {
				if obj := ev.info.ObjectOf(id); obj != nil {
					env[obj] = shape{}
				}
			}
		}
		return true
	})
}

func (ev *shapeEval) isSlashConst(e ast.Expr) bool {
	if tv, ok := ev.info.Types[e]; ok && tv.Value != nil {
		switch tv.Value.Kind() {
		case constant.String:
			return constant.StringVal(tv.Value) == "/"
		case constant.Int:
			v, ok := constant.Int64Val(tv.Value)
			return ok && v == '/'
		}
	}
	return false
}

func (ev *shapeEval) expr(e ast.Expr, env map[types.Object]shape) shape {
	e = core.Unparen(e)
	if tv, ok := ev.info.Types[e]; ok && tv.Value != nil {
		switch tv.Value.Kind() {
		case constant.Int:
			if v, ok := constant.Int64Val(tv.Value); ok {
				return shape{k: skInt, i: v}
			}
		case constant.Bool:
			return shape{k: skBool, b: constant.BoolVal(tv.Value)}
		case constant.String:
			if constant.StringVal(tv.Value) == "" {
				return shape{k: skStr, s: ""}
			}
		}
		return shape{}
	}
	switch x := e.(type) {
	case *ast.Ident:
		if obj := ev.info.ObjectOf(x); obj != nil {
			if v, ok := env[obj]; ok {
				return v
			}
		}
		return shape{}
	case *ast.UnaryExpr:
		v := ev.expr(x.X, env)
		if x.Op == token.NOT && v.k == skBool {
			return shape{k: skBool, b: !v.b}
		}
		if x.Op == token.SUB && v.k == skInt {
			return shape{k: skInt, i: -v.i}
		}
		return shape{}
	case *ast.BinaryExpr:
		// a lookup written outside a range (e.g. in a helper predicate) is not modelled; comparisons:
		a, b := ev.expr(x.X, env), ev.expr(x.Y, env)
		switch x.Op {
		case token.LAND:
			if (a.k == skBool && !a.b) || (b.k == skBool && !b.b) {
				return shape{k: skBool, b: false}
			}
			if a.k == skBool && b.k == skBool {
				return shape{k: skBool, b: true}
			}
			return shape{}
		case token.LOR:
			if (a.k == skBool && a.b) || (b.k == skBool && b.b) {
				return shape{k: skBool, b: true}
			}
			if a.k == skBool && b.k == skBool {
				return shape{k: skBool, b: false}
			}
			return shape{}
		case token.ADD, token.SUB:
			if a.k == skInt && b.k == skInt {
				if x.Op == token.ADD {
					return shape{k: skInt, i: a.i + b.i}
				}
				return shape{k: skInt, i: a.i - b.i}
			}
			return shape{}
		case token.EQL, token.NEQ, token.LSS, token.GTR, token.LEQ, token.GEQ:
			if a.k == skInt && b.k == skInt {
				var res bool
				switch x.Op {
				case token.EQL:
					res = a.i == b.i
				case token.NEQ:
					res = a.i != b.i
				case token.LSS:
					res = a.i < b.i
				case token.GTR:
					res = a.i > b.i
				case token.LEQ:
					res = a.i <= b.i
				case token.GEQ:
					res = a.i >= b.i
				}
				return shape{k: skBool, b: res}
			}
			if a.k == skBool && b.k == skBool && (x.Op == token.EQL || x.Op == token.NEQ) {
				return shape{k: skBool, b: (a.b == b.b) == (x.Op == token.EQL)}
			}
			if a.k == skStr && b.k == skStr && a.s == "" && b.s == "" && (x.Op == token.EQL || x.Op == token.NEQ) {
				return shape{k: skBool, b: x.Op == token.EQL}
			}
			return shape{}
		}
		return shape{}
	case *ast.IndexExpr:
		s, i := ev.expr(x.X, env), ev.expr(x.Index, env)
		if s.k == skSlice && i.k == skInt && i.i >= 0 && int(i.i) < len(s.el) {
			return s.el[i.i]
		}
		return shape{}
	case *ast.SliceExpr:
		s := ev.expr(x.X, env)
		if s.k == skStr && x.High == nil && x.Max == nil {
			if x.Low == nil {
				return s
			}
			if lo := ev.expr(x.Low, env); lo.k == skInt && lo.i == 0 {
				return s
			}
		}
		return shape{}
	case *ast.CallExpr:
		return ev.call(x, env)
	}
	return shape{}
}

func (ev *shapeEval) call(c *ast.CallExpr, env map[types.Object]shape) shape {
	if id, ok := c.Fun.(*ast.Ident); ok && id.Name == "len" && len(c.Args) == 1 {
		if _, isB := ev.info.Uses[id].(*types.Builtin); isB {
			v := ev.expr(c.Args[0], env)
			if v.k == skSlice {
				return shape{k: skInt, i: int64(len(v.el))}
			}
			if v.k == skStr && v.s == "" {
				return shape{k: skInt, i: 0}
			}
			return shape{}
		}
	}
	name := core.CalleeName(ev.info, c)
	str := func(s string) shape { return shape{k: skStr, s: s} }
	arg0 := shape{}
	if len(c.Args) > 0 {
		arg0 = ev.expr(c.Args[0], env)
	}
	whole := arg0.k == skStr && arg0.s == "W"
	slash := len(c.Args) > 1 && ev.isSlashConst(c.Args[1])
	switch name {
	case "strings.Split":
		if whole && slash {
			if ev.world == 0 {
				return shape{k: skSlice, el: []shape{str("W")}}
			}
			return shape{k: skSlice, el: []shape{str("P"), str("E")}}
		}
	case "strings.SplitN":
		if whole && slash && len(c.Args) == 3 {
			n := ev.expr(c.Args[2], env)
			if n.k == skInt {
				switch {
				case n.i == 0:
					return shape{k: skSlice}
				case n.i == 1 || ev.world == 0:
					return shape{k: skSlice, el: []shape{str("W")}}
				default:
					return shape{k: skSlice, el: []shape{str("P"), str("E")}}
				}
			}
		}
	case "strings.Cut":
		if whole && slash {
			if ev.world == 0 {
				return shape{k: skTuple, el: []shape{str("W"), str(""), {k: skBool, b: false}}}
			}
			return shape{k: skTuple, el: []shape{str("P"), str("E"), {k: skBool, b: true}}}
		}
	case "strings.Contains", "strings.ContainsRune", "strings.ContainsAny":
		if whole && slash {
			return shape{k: skBool, b: ev.world == 1}
		}
		if arg0.k == skStr && (arg0.s == "P" || arg0.s == "E" || arg0.s == "") && slash {
			return shape{k: skBool, b: false}
		}
	case "strings.Count":
		if whole && slash {
			return shape{k: skInt, i: int64(ev.world)}
		}
	case "strings.Index", "strings.LastIndex", "strings.IndexByte", "strings.LastIndexByte", "strings.IndexRune":
		if whole && slash && ev.world == 0 {
			return shape{k: skInt, i: -1}
		}
	case "strings.TrimSpace", "strings.ToLower", "strings.ToUpper", "strings.Title":
		// a transformed name is no longer the name the compiler wrote
		return shape{}
	}
	// same-package helper with a body: inline
	if fn := core.CalleeFunc(ev.info, c); fn != nil && fn.Pkg() != nil && ev.depth < 3 {
		if fd := core.DeclOf(ev.pk, fn); fd != nil && fd.Body != nil && fd.Type.Params != nil {
			sub := &shapeEval{pk: ev.pk, info: ev.info, world: ev.world, depth: ev.depth + 1}
			if sig, ok := fn.Type().(*types.Signature); ok && sig.Results().Len() > 0 {
				sub.errLast = core.TypeStr(sig.Results().At(sig.Results().Len()-1).Type()) == "error"
			}
			senv := map[types.Object]shape{}
			i := 0
			for _, f := range fd.Type.Params.List {
				for _, n := range f.Names {
					if i < len(c.Args) {
						if obj := ev.info.ObjectOf(n); obj != nil {
							senv[obj] = ev.expr(c.Args[i], env)
						}
					}
					i++
				}
			}
			sub.block(fd.Body.List, senv)
			ev.lookups = append(ev.lookups, sub.lookups...)
			if sub.undecided {
				ev.undecided = true
			}
			if len(sub.returns) > 0 {
				res := sub.returns[0]
				for _, o := range sub.returns[1:] {
					if res.k == skTuple && o.k == skTuple && len(res.el) == len(o.el) {
						el := make([]shape, len(res.el))
						for j := range el {
							if res.el[j].eq(o.el[j]) {
								el[j] = res.el[j]
							}
						}
						res = shape{k: skTuple, el: el}
					} else if !res.eq(o) {
						res = shape{}
					}
				}
				return res
			}
		}
	}
	_ = fmt.Sprint
	return shape{}
}
