package rules

import (
	"fmt"
	"go/ast"
	"go/token"
	"go/types"
	"strings"

	"golang.org/x/tools/go/packages"

	"j5verif/checker/core"
)

// OptionalField (R-PANIC/P4o): a pointer field that is legitimately nil for
// some valid inputs (the response schema of a method that returns a raw body)
// must be treated as optional everywhere it is read. Every read of the field
// in the module is an obligation, discharged when the read
//
//   - is a comparison with nil, a plain copy into another struct field, or the
//     left side of an assignment;
//   - happens where the field is known to be non-nil (enclosing conditions and
//     earlier returning ifs);
//   - hands the value to a function whose parameter is tested against nil
//     (directly, or after a type assertion) before anything else uses it —
//     also through one local alias (`x := m.F; f(x)`).
//
// Anything else dereferences nil for such an input.
func OptionalField(r *core.Run, owners []string, field, why, table string) {
	r.Rule("R-PANIC/P4o", "a field that is nil for some valid input ("+why+") is read only in nil-tolerant ways: compared with nil, copied, read where a non-nil fact holds, or passed (directly or through one local) to a function that tests the parameter for nil before using it")
	isOwner := func(t types.Type) bool {
		if p, ok := t.(*types.Pointer); ok {
			t = p.Elem()
		}
		s := core.TypeStr(t)
		for _, o := range owners {
			if s == o {
				return true
			}
		}
		return false
	}
	n := 0
	for path, pk := range r.P.ByPkg {
		if !core.IsSource(path) {
			continue
		}
		pk := pk
		info := pk.TypesInfo
		for _, f := range pk.Syntax {
			fn := r.P.Fset.Position(f.Pos()).Filename
			if strings.HasSuffix(fn, "_test.go") || strings.HasSuffix(fn, ".pb.go") {
				continue
			}
			for _, d := range f.Decls {
				fd, ok := d.(*ast.FuncDecl)
				if !ok || fd.Body == nil {
					continue
				}
				var stack []ast.Node
				ast.Inspect(fd.Body, func(nd ast.Node) bool {
					if nd == nil {
						stack = stack[:len(stack)-1]
						return true
					}
					stack = append(stack, nd)
					sel, ok := nd.(*ast.SelectorExpr)
					if !ok || sel.Sel.Name != field {
						return true
					}
					v, ok := info.Uses[sel.Sel].(*types.Var)
					if !ok || !v.IsField() || !isOwner(info.TypeOf(sel.X)) {
						return true
					}
					parent := ast.Node(nil)
					for i := len(stack) - 2; i >= 0; i-- {
						if _, isParen := stack[i].(*ast.ParenExpr); !isParen {
							parent = stack[i]
							break
						}
					}
					use, okUse := optionalUse(pk, fd, sel, parent, 0)
					n++
					o := r.Add("R-PANIC/P4o", fmt.Sprintf("%s.%s | %s %s", strings.TrimPrefix(path, core.Module+"/"), core.FuncName(fd), core.NormExpr(info, sel), use), sel.Pos(), "read of optional "+field+" ("+use+")")
					switch {
					case okUse:
						o.Auto("%s", use)
					case table != "" && r.Table(table, o):
					default:
						o.Fail("%s is nil for a valid input (%s) and is %s here without a nil test: nil pointer dereference", core.ExprStr(sel), why, use)
					}
					return true
				})
			}
		}
	}
	r.Analysed["optional_field_reads_"+field] = n
}

func optionalUse(pk *packages.Package, fd *ast.FuncDecl, e ast.Expr, parent ast.Node, depth int) (string, bool) {
	info := pk.TypesInfo
	es := core.ExprStr(e)
	if f := FactsAt(info, fd.Body, e); f.NonNil[es] {
		return "read where it is known to be non-nil", true
	}
	switch p := parent.(type) {
	case *ast.BinaryExpr:
		if (p.Op == token.EQL || p.Op == token.NEQ) && (core.IsNilIdent(info, p.X) || core.IsNilIdent(info, p.Y)) {
			return "compared with nil", true
		}
		return "an operand of " + p.Op.String(), false
	case *ast.KeyValueExpr:
		return "copied into a literal", true
	case *ast.AssignStmt:
		for _, l := range p.Lhs {
			if core.Unparen(l) == e {
				return "assigned", true
			}
		}
		// copied: into a field (fine) or into a local, whose uses are then the reads
		for i, rhs := range p.Rhs {
			if core.Unparen(rhs) != e || i >= len(p.Lhs) {
				continue
			}
			id, ok := p.Lhs[i].(*ast.Ident)
			if !ok {
				return "copied", true
			}
			if depth > 0 {
				return "copied through a second local", false
			}
			obj := info.ObjectOf(id)
			worst, okAll := "copied into a local that is only used nil-tolerantly", true
			var stack []ast.Node
			ast.Inspect(fd.Body, func(nd ast.Node) bool {
				if nd == nil {
					stack = stack[:len(stack)-1]
					return true
				}
				stack = append(stack, nd)
				uid, ok := nd.(*ast.Ident)
				if !ok || info.Uses[uid] != obj {
					return true
				}
				var par ast.Node
				for i := len(stack) - 2; i >= 0; i-- {
					if _, isParen := stack[i].(*ast.ParenExpr); !isParen {
						par = stack[i]
						break
					}
				}
				if u, ok := optionalUse(pk, fd, uid, par, depth+1); !ok {
					worst, okAll = "copied into "+uid.Name+", which is "+u, false
				}
				return true
			})
			return worst, okAll
		}
		return "copied", true
	case *ast.CallExpr:
		for i, a := range p.Args {
			if core.Unparen(a) != e {
				continue
			}
			if nilTolerantParam(pk, p, i) {
				return "passed to " + core.CalleeName(info, p) + ", which tests the parameter for nil first", true
			}
			return "passed to " + core.CalleeName(info, p) + ", which uses the parameter without a nil test", false
		}
		return "the receiver of a call", false
	case *ast.SelectorExpr:
		if core.Unparen(p.X) == e {
			// a method of a generated message is nil-safe (getters); anything else dereferences
			if fn, ok := info.Uses[p.Sel].(*types.Func); ok && strings.HasPrefix(fn.Name(), "Get") {
				return "read through a generated getter", true
			}
			return "dereferenced (." + p.Sel.Name + ")", false
		}
	case *ast.ReturnStmt:
		return "returned", true
	}
	return "used in an unrecognised position", false
}

// nilTolerantParam: the callee (a function or closure of the module) tests the
// parameter — or a variable type-asserted from it — against nil in an `if` with
// a returning body before any other statement uses it.
func nilTolerantParam(pk *packages.Package, call *ast.CallExpr, idx int) bool {
	info := pk.TypesInfo
	var ftype *ast.FuncType
	var body *ast.BlockStmt
	cinfo := info
	if fn := core.CalleeFunc(info, call); fn != nil {
		if fn.Pkg() == nil || !core.IsSource(fn.Pkg().Path()) || core.Current == nil {
			return false
		}
		cpk := core.Current.ByPkg[fn.Pkg().Path()]
		if cpk == nil {
			return false
		}
		cd := core.DeclOf(cpk, fn.Origin())
		if cd == nil || cd.Body == nil {
			return false
		}
		ftype, body, cinfo = cd.Type, cd.Body, cpk.TypesInfo
	} else if id, ok := call.Fun.(*ast.Ident); ok {
		// a closure held in a local: x := func(p T) … { … }
		if def := soleFuncLit(info, id); def != nil {
			ftype, body = def.Type, def.Body
		}
	}
	if body == nil {
		return false
	}
	var param types.Object
	i := 0
	for _, fl := range ftype.Params.List {
		for _, nm := range fl.Names {
			if i == idx {
				param = cinfo.Defs[nm]
			}
			i++
		}
	}
	if param == nil {
		return false
	}
	tracked := map[types.Object]bool{param: true}
	isTracked := func(e ast.Expr) bool {
		id, ok := core.Unparen(e).(*ast.Ident)
		return ok && tracked[cinfo.Uses[id]]
	}
	// mentions: a use that may dereference the value — a selection, an index, a star, or handing
	// it to a function other than a formatting one (a %T / %v verb prints a nil pointer)
	mentions := func(n ast.Node) bool {
		hit := false
		ast.Inspect(n, func(x ast.Node) bool {
			switch y := x.(type) {
			case *ast.SelectorExpr:
				if isTracked(y.X) {
					hit = true
				}
			case *ast.StarExpr:
				if isTracked(y.X) {
					hit = true
				}
			case *ast.IndexExpr:
				if isTracked(y.X) {
					hit = true
				}
			case *ast.TypeAssertExpr:
				return false // asserting does not dereference
			case *ast.CallExpr:
				name := core.CalleeName(cinfo, y)
				if strings.HasPrefix(name, "fmt.") || strings.HasPrefix(name, "errors.") {
					for _, a := range y.Args {
						if !isTracked(a) {
							ast.Inspect(a, func(z ast.Node) bool {
								if s, ok := z.(*ast.SelectorExpr); ok && isTracked(s.X) {
									hit = true
								}
								return !hit
							})
						}
					}
					return false
				}
				for _, a := range y.Args {
					if isTracked(a) {
						hit = true
					}
				}
			}
			return !hit
		})
		return hit
	}
	for _, st := range body.List {
		// v, ok := p.(*T): v stands for p from here on
		if as, ok := st.(*ast.AssignStmt); ok && len(as.Rhs) == 1 {
			if ta, ok := core.Unparen(as.Rhs[0]).(*ast.TypeAssertExpr); ok && isTracked(ta.X) {
				if id, ok := as.Lhs[0].(*ast.Ident); ok {
					tracked[cinfo.ObjectOf(id)] = true
				}
				continue
			}
		}
		if ifs, ok := st.(*ast.IfStmt); ok && ifs.Init == nil && len(ifs.Body.List) > 0 {
			_, returns := ifs.Body.List[len(ifs.Body.List)-1].(*ast.ReturnStmt)
			if returns {
				for _, dj := range splitOr(ifs.Cond) {
					if b, ok := core.Unparen(dj).(*ast.BinaryExpr); ok && b.Op == token.EQL && core.IsNilIdent(cinfo, b.Y) && isTracked(b.X) {
						return true
					}
				}
				// an `if !ok { return }` after the assertion does not use the value
				if !mentions(ifs.Body) {
					continue
				}
			}
		}
		if mentions(st) {
			return false
		}
	}
	return false
}

func splitOr(e ast.Expr) []ast.Expr {
	e = core.Unparen(e)
	if b, ok := e.(*ast.BinaryExpr); ok && b.Op == token.LOR {
		return append(splitOr(b.X), splitOr(b.Y)...)
	}
	return []ast.Expr{e}
}

func soleFuncLit(info *types.Info, id *ast.Ident) *ast.FuncLit {
	obj := info.ObjectOf(id)
	if obj == nil || core.Current == nil {
		return nil
	}
	fd := core.Current.EnclosingDecl(obj.Pos())
	if fd == nil {
		return nil
	}
	var lit *ast.FuncLit
	n := 0
	ast.Inspect(fd.Body, func(nd ast.Node) bool {
		as, ok := nd.(*ast.AssignStmt)
		if !ok || len(as.Lhs) != len(as.Rhs) {
			return true
		}
		for i, l := range as.Lhs {
			if lid, ok := l.(*ast.Ident); ok && info.ObjectOf(lid) == obj {
				n++
				lit, _ = as.Rhs[i].(*ast.FuncLit)
			}
		}
		return true
	})
	if n != 1 {
		return nil
	}
	return lit
}
