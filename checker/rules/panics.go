package rules

import (
	"fmt"
	"go/ast"
	"go/token"
	"go/types"
	"os"
	"strings"

	"j5verif/checker/core"
)

// PanicSites arms R-PANIC over a scope: every potential run-time panic
// instruction in the reachable module functions is an obligation.
//
//	P1 explicit panic(...)
//	P2 index / slice expressions whose bounds check the compiler's prove pass
//	   could not eliminate
//	P3 type assertions without comma-ok
//	P5 integer division / modulo by a non-constant
//	P6 calls of APIs with panicking preconditions (see p6.go)
//
// Discharge is recomputed from the source on every run (dominating guards,
// range headers, make/len relations, the sort.Interface contract, extension
// typing); what remains must be a single-key line in tables/<table>.json with
// a reason, a known finding, or it is reported.
func PanicSites(r *core.Run, sc *Scope, bce *BCE, table string) {
	r.Rule("R-PANIC/P1", "explicit panic(...) reachable from the entry points must be unreachable for a stated, checked reason")
	r.Rule("R-PANIC/P2", "index/slice expression whose bounds check the compiler (prove pass, -d=ssa/check_bce) could not eliminate: the bound must follow from a dominating guard on the same stable access path (len comparison, range header, make(len) relation, strings.Split non-emptiness, sort.Interface contract)")
	r.Rule("R-PANIC/P3", "type assertion without comma-ok: the asserted type must be the only dynamic type the operand can have")
	r.Rule("R-PANIC/P5", "integer division or modulo by a non-constant divisor needs a dominating non-zero test")
	r.Assumef("call-graph soundness: no reflection-driven or unsafe calls reach module code outside the VTA graph; String()/Error() methods invoked only by fmt are not followed")
	r.Assumef("a bounds check eliminated by the Go compiler's prove pass cannot fail; generated *.pb.go code and dependencies do not panic except through the preconditions enumerated by P6")
	r.Assumef("index variables compared with len() or bound by range are non-negative")
	nIdx, nProved := 0, 0
	for _, f := range sc.Funcs {
		info := f.Pkg.TypesInfo
		sortIface := isSortMethod(f)
		checkP4a(r, f, table)
		checkP4b(r, f, table)
		f.InspectOwn(func(n ast.Node) bool {
			switch x := n.(type) {
			case *ast.CallExpr:
				if core.CalleeName(info, x) == "builtin.panic" {
					arg := ""
					key := siteKey(f, "panic()")
					if len(x.Args) == 1 {
						arg = shortArg(info, x.Args[0])
						// the key text is cut after the locals have been replaced by their types, so
						// that the cut does not move with the length of a local's name
						full := core.ExprStr(x.Args[0])
						if s, ok := core.ConstString(info, x.Args[0]); ok {
							full = fmt.Sprintf("%q", s)
						}
						nk := []rune(normLocals(f, full))
						if len(nk) > 70 {
							nk = nk[:70]
						}
						key = f.Name + " | panic(" + string(nk) + ")"
						if os.Getenv("J5CHECK_KEYMAP") != "" {
							if oldk := siteKey(f, "panic("+arg+")"); oldk != key {
								fmt.Fprintf(os.Stderr, "KEYMAP\t%s\t%s\n", oldk, key)
							}
						}
					}
					o := r.Add("R-PANIC/P1", key, x.Pos(), "explicit panic "+arg)
					if !r.Table(table, o) {
						o.Fail("reachable explicit panic with no recorded reason why it cannot fire")
					}
				}
				checkP6(r, f, x, table)
			case *ast.IndexExpr:
				if !indexable(info.TypeOf(x.X)) {
					return true
				}
				nIdx++
				if !bce.Unproven(r.P.Fset, x.Lbrack) {
					nProved++
					return true
				}
				o := r.Add("R-PANIC/P2", siteKey(f, "index "+core.NormExpr(info, x)), x.Pos(), "index "+core.ExprStr(x))
				if sortIface {
					o.Auto("sort.Interface method: sort calls Less/Swap only with 0 <= i,j < Len()")
					return true
				}
				if why, ok := sortSliceLess(info, f, x); ok {
					o.Auto("%s", why)
					return true
				}
				if why, ok := indexSafe(info, f, x); ok {
					o.Auto("%s", why)
				} else if why2, ok2 := callersGuarantee(r, f, x); ok2 {
					o.Auto("%s", why2)
				} else if !r.Table(table, o) && !tableAtCallers(r, table, sc, f, o, x, "index ") {
					o.Fail("no dominating guard recognised for this index (%s)", why)
				}
			case *ast.SliceExpr:
				if !indexable(info.TypeOf(x.X)) {
					return true
				}
				nIdx++
				if !bce.Unproven(r.P.Fset, x.Lbrack) {
					nProved++
					return true
				}
				o := r.Add("R-PANIC/P2", siteKey(f, "slice "+core.NormExpr(info, x)), x.Pos(), "slice "+core.ExprStr(x))
				if why, ok := sliceSafe(info, f, x); ok {
					o.Auto("%s", why)
				} else if !r.Table(table, o) && !tableAtCallers(r, table, sc, f, o, x, "slice ") {
					o.Fail("no dominating guard recognised for this slice expression (%s)", why)
				}
			case *ast.TypeAssertExpr:
				if x.Type == nil {
					return true // type switch
				}
				if assertIsCommaOk(f, x) {
					return true
				}
				o := r.Add("R-PANIC/P3", siteKey(f, "assert "+core.NormExpr(info, x)), x.Pos(), "type assertion "+core.ExprStr(x))
				if c, ok := core.Unparen(x.X).(*ast.CallExpr); ok && core.CalleeName(info, c) == fnGetExtension {
					if obj := core.UsedObj(info, c.Args[1]); obj != nil {
						if ei, err := ResolveExt(r.P, obj); err == nil && types.Identical(info.TypeOf(x.Type), ei.ExtType) {
							o.Auto("GetExtension returns the extension's declared type %s (zero value when unset)", core.TypeStr(ei.ExtType))
							return true
						}
					}
				}
				if why, ok := assertInTypeSwitchCase(info, f, x); ok {
					o.Auto("%s", why)
					return true
				}
				if !r.Table(table, o) {
					o.Fail("operand's dynamic type is not shown to be %s", core.ExprStr(x.Type))
				}
			case *ast.BinaryExpr:
				if x.Op != token.QUO && x.Op != token.REM {
					return true
				}
				t := info.TypeOf(x)
				b, ok := t.Underlying().(*types.Basic)
				if !ok || b.Info()&types.IsInteger == 0 {
					return true
				}
				if tv, ok := info.Types[x.Y]; ok && tv.Value != nil {
					return true
				}
				o := r.Add("R-PANIC/P5", siteKey(f, "div "+core.NormExpr(info, x)), x.Pos(), "integer division "+core.ExprStr(x))
				facts := FactsAt(info, f.Body, x)
				ys := core.ExprStr(x.Y)
				if facts.False[ys+" == 0"] || facts.True[ys+" != 0"] || facts.True[ys+" > 0"] {
					o.Auto("divisor tested non-zero on every path")
				} else if !r.Table(table, o) {
					o.Fail("divisor %s is not shown to be non-zero", ys)
				}
			}
			return true
		})
	}
	r.Analysed["index_and_slice_expressions"] = nIdx
	r.Analysed["index_and_slice_proved_by_compiler"] = nProved
}

func shortArg(info *types.Info, e ast.Expr) string {
	if s, ok := core.ConstString(info, e); ok {
		if len(s) > 40 {
			s = s[:40]
		}
		return fmt.Sprintf("%q", s)
	}
	s := core.ExprStr(e)
	if len(s) > 60 {
		s = s[:60]
	}
	return s
}

func assertIsCommaOk(f *ScopeFunc, ta *ast.TypeAssertExpr) bool {
	ok := false
	ast.Inspect(f.Body, func(n ast.Node) bool {
		switch x := n.(type) {
		case *ast.AssignStmt:
			if len(x.Lhs) == 2 && len(x.Rhs) == 1 && core.Unparen(x.Rhs[0]) == ast.Expr(ta) {
				ok = true
			}
		case *ast.ValueSpec:
			if len(x.Names) == 2 && len(x.Values) == 1 && core.Unparen(x.Values[0]) == ast.Expr(ta) {
				ok = true
			}
		}
		return !ok
	})
	return ok
}

// isSortMethod: the function is the Less or Swap method of a type that
// implements sort.Interface.
func isSortMethod(f *ScopeFunc) bool {
	fd, ok := f.Node.(*ast.FuncDecl)
	if !ok || fd.Recv == nil || (fd.Name.Name != "Less" && fd.Name.Name != "Swap") {
		return false
	}
	obj, _ := f.Pkg.TypesInfo.Defs[fd.Name].(*types.Func)
	if obj == nil {
		return false
	}
	recv := obj.Type().(*types.Signature).Recv().Type()
	ms := types.NewMethodSet(recv)
	has := func(name string) bool { return ms.Lookup(obj.Pkg(), name) != nil }
	return has("Len") && has("Less") && has("Swap")
}

func stableSince(info *types.Info, f *ScopeFunc, e ast.Expr, from token.Pos, site ast.Node) bool {
	id := rootIdentOf(e)
	if id == nil {
		return false
	}
	root := info.Uses[id]
	if root == nil {
		root = info.Defs[id]
	}
	return Stable(info, f.Body, root, core.ExprStr(e), from, site)
}

// indexSafe tries to discharge X[I].
func indexSafe(info *types.Info, f *ScopeFunc, x *ast.IndexExpr) (string, bool) {
	facts := FactsAt(info, f.Body, x)
	xs := core.ExprStr(x.X)
	idx := core.Unparen(x.Index)
	// constant index
	if k, ok := core.ConstInt(info, idx); ok {
		if facts.MinLen[xs] > int(k) {
			if stableSince(info, f, x.X, facts.factPos["len:"+xs], x) {
				return fmt.Sprintf("len(%s) >= %d established by a dominating guard and %s is not modified in between", xs, facts.MinLen[xs], xs), true
			}
			return "length fact exists but the slice may be modified between guard and use", false
		}
		return fmt.Sprintf("need len(%s) > %d, known minimum %d", xs, k, facts.MinLen[xs]), false
	}
	// len(X)-K
	if b, ok := idx.(*ast.BinaryExpr); ok && b.Op == token.SUB {
		if le, ok := lenArg(info, b.X); ok && core.ExprStr(le) == xs {
			if k, ok := core.ConstInt(info, b.Y); ok && k >= 1 {
				if facts.MinLen[xs] >= int(k) {
					if stableSince(info, f, x.X, facts.factPos["len:"+xs], x) {
						return fmt.Sprintf("len(%s) >= %d established by a dominating guard", xs, facts.MinLen[xs]), true
					}
					return "length fact exists but the slice may be modified between guard and use", false
				}
				return fmt.Sprintf("need len(%s) >= %d, known minimum %d", xs, k, facts.MinLen[xs]), false
			}
		}
	}
	// I-K with I <= len(X) and I >= K
	if b, ok := idx.(*ast.BinaryExpr); ok && b.Op == token.SUB {
		if k, ok := core.ConstInt(info, b.Y); ok && k >= 1 {
			bs := core.ExprStr(b.X)
			if facts.LeLen[bs] == xs && facts.MinVal[bs] >= int(k) {
				if idxStable(info, f, b.X, facts.factPos["idx:"+bs], x) && stableSince(info, f, x.X, facts.factPos["idx:"+bs], x) {
					return fmt.Sprintf("%d <= %s <= len(%s) from dominating guards", k, bs, xs), true
				}
			}
		}
	}
	is := core.ExprStr(idx)
	if e, ok := facts.LtLen[is]; ok {
		if e == xs {
			if idxStable(info, f, idx, facts.factPos["idx:"+is], x) {
				return fmt.Sprintf("%s < len(%s) from the enclosing range/condition", is, xs), true
			}
			return "index fact exists but the index may be modified between guard and use", false
		}
		if facts.MakeLen[xs] == e {
			if stableSince(info, f, x.X, facts.factPos["make:"+xs], x) {
				return fmt.Sprintf("%s was made with len(%s) and %s ranges over %s", xs, e, is, e), true
			}
		}
	}
	if why, ok := finderIndex(info, f, x, facts); ok {
		return why, true
	}
	if why, ok := mirroredIndex(info, f, x, facts); ok {
		return why, true
	}
	return fmt.Sprintf("index %s has no recognised relation to len(%s)", is, xs), false
}

// finderIndex: `i := find(xs, …)` where find returns a negative constant or an
// index of a range over its slice parameter, the negative outcome is excluded
// on every path to xs[i], i is not changed and xs only grows (self-append) in
// the function.
func finderIndex(info *types.Info, f *ScopeFunc, x *ast.IndexExpr, facts *Facts) (string, bool) {
	id, ok := core.Unparen(x.Index).(*ast.Ident)
	if !ok {
		return "", false
	}
	obj := info.Uses[id]
	if obj == nil {
		return "", false
	}
	if !(facts.GeZero[id.Name] || facts.False[id.Name+" < 0"] || facts.True[id.Name+" >= 0"] || facts.False[id.Name+" == -1"] || facts.True[id.Name+" != -1"]) {
		return "", false
	}
	// single definition from a finder call
	var def *ast.CallExpr
	var defPos token.Pos
	n := 0
	ast.Inspect(f.Body, func(nd ast.Node) bool {
		as, ok := nd.(*ast.AssignStmt)
		if !ok {
			return true
		}
		for i, l := range as.Lhs {
			li, ok := l.(*ast.Ident)
			if !ok || (info.Defs[li] != obj && info.Uses[li] != obj) {
				continue
			}
			n++
			if len(as.Lhs) == len(as.Rhs) {
				def, _ = core.Unparen(as.Rhs[i]).(*ast.CallExpr)
				defPos = as.Pos()
			}
		}
		return true
	})
	if n != 1 || def == nil {
		return "", false
	}
	fn := core.CalleeFunc(info, def)
	if fn == nil || fn.Pkg() != f.Pkg.Types {
		return "", false
	}
	fd := core.DeclOf(f.Pkg, fn.Origin())
	pidx := indexFinderParam(info, fd)
	if pidx < 0 || pidx >= len(def.Args) || core.ExprStr(def.Args[pidx]) != core.ExprStr(x.X) {
		return "", false
	}
	if facts.False[id.Name+" == -1"] || facts.True[id.Name+" != -1"] {
		// only sound when -1 is the finder's one negative result
		if !finderOnlyMinusOne(info, fd) {
			return "", false
		}
	}
	// the slice only grows
	xs := core.ExprStr(x.X)
	grows := true
	ast.Inspect(f.Body, func(nd ast.Node) bool {
		as, ok := nd.(*ast.AssignStmt)
		if !ok {
			return true
		}
		for i, l := range as.Lhs {
			if core.ExprStr(l) != xs || as.Pos() < defPos {
				continue
			}
			if len(as.Lhs) != len(as.Rhs) {
				grows = false
				continue
			}
			c, ok := core.Unparen(as.Rhs[i]).(*ast.CallExpr)
			if !ok || core.CalleeName(info, c) != "builtin.append" || core.ExprStr(c.Args[0]) != xs {
				grows = false
			}
		}
		return true
	})
	if !grows {
		return "", false
	}
	return fmt.Sprintf("%s is the result of %s(%s, …), which returns an index of that slice or a negative number; the negative outcome is excluded here and %s only grows", id.Name, fn.Name(), xs, xs), true
}

// indexFinderParam: the function's returns are negative integer constants or
// the key of a range (or counted loop) over one slice parameter; returns the
// index of that parameter, or -1.
func indexFinderParam(info *types.Info, fd *ast.FuncDecl) int {
	if fd == nil || fd.Body == nil || fd.Type.Results == nil || len(fd.Type.Results.List) != 1 {
		return -1
	}
	var params []types.Object
	for _, fl := range fd.Type.Params.List {
		for _, nm := range fl.Names {
			params = append(params, info.Defs[nm])
		}
	}
	which := -1
	ok := true
	var loops []*ast.RangeStmt
	var visit func(n ast.Node) bool
	visit = func(n ast.Node) bool {
		switch x := n.(type) {
		case *ast.FuncLit:
			return false
		case *ast.RangeStmt:
			loops = append(loops, x)
			ast.Inspect(x.Body, visit)
			loops = loops[:len(loops)-1]
			return false
		case *ast.ReturnStmt:
			if len(x.Results) != 1 {
				ok = false
				return true
			}
			if k, isC := core.ConstInt(info, x.Results[0]); isC {
				if k >= 0 {
					ok = false
				}
				return true
			}
			id, isID := core.Unparen(x.Results[0]).(*ast.Ident)
			if !isID {
				ok = false
				return true
			}
			found := false
			for _, l := range loops {
				k, isK := l.Key.(*ast.Ident)
				if !isK || info.Defs[k] == nil || info.Defs[k] != info.Uses[id] {
					continue
				}
				xid, isX := core.Unparen(l.X).(*ast.Ident)
				if !isX {
					continue
				}
				for pi, p := range params {
					if p != nil && info.Uses[xid] == p {
						if _, isSlice := p.Type().Underlying().(*types.Slice); isSlice && (which == -1 || which == pi) {
							which, found = pi, true
						}
					}
				}
			}
			if !found {
				ok = false
			}
		case *ast.AssignStmt:
			// the slice parameter must not be re-bound
			for _, l := range x.Lhs {
				if id, isID := l.(*ast.Ident); isID {
					for _, p := range params {
						if p != nil && info.Uses[id] == p {
							ok = false
						}
					}
				}
			}
		}
		return true
	}
	ast.Inspect(fd.Body, visit)
	if !ok {
		return -1
	}
	return which
}

func finderOnlyMinusOne(info *types.Info, fd *ast.FuncDecl) bool {
	only := true
	ast.Inspect(fd.Body, func(n ast.Node) bool {
		if ret, ok := n.(*ast.ReturnStmt); ok && len(ret.Results) == 1 {
			if k, isC := core.ConstInt(info, ret.Results[0]); isC && k != -1 {
				only = false
			}
		}
		return true
	})
	return only
}

// mirroredIndex: X[len(S)-1-i] (in any arithmetic spelling, through locals
// defined once) where i is a range index over S and X is S or was made with
// len(S): 0 <= len(S)-1-i <= len(S)-1.
func mirroredIndex(info *types.Info, f *ScopeFunc, x *ast.IndexExpr, facts *Facts) (string, bool) {
	type lin struct {
		lens map[string]int // len(S) terms
		vars map[string]int
		k    int
		ok   bool
	}
	var eval func(e ast.Expr, depth int) lin
	add := func(a, b lin, sign int) lin {
		out := lin{lens: map[string]int{}, vars: map[string]int{}, k: a.k + sign*b.k, ok: a.ok && b.ok}
		for s, c := range a.lens {
			out.lens[s] += c
		}
		for s, c := range b.lens {
			out.lens[s] += sign * c
		}
		for s, c := range a.vars {
			out.vars[s] += c
		}
		for s, c := range b.vars {
			out.vars[s] += sign * c
		}
		return out
	}
	eval = func(e ast.Expr, depth int) lin {
		e = core.Unparen(e)
		if k, ok := core.ConstInt(info, e); ok {
			return lin{lens: map[string]int{}, vars: map[string]int{}, k: int(k), ok: true}
		}
		if le, ok := lenArg(info, e); ok {
			return lin{lens: map[string]int{core.ExprStr(le): 1}, vars: map[string]int{}, ok: true}
		}
		switch y := e.(type) {
		case *ast.BinaryExpr:
			switch y.Op {
			case token.ADD:
				return add(eval(y.X, depth), eval(y.Y, depth), 1)
			case token.SUB:
				return add(eval(y.X, depth), eval(y.Y, depth), -1)
			}
		case *ast.Ident:
			obj := info.Uses[y]
			// a local with exactly one definition that is not a range key: look through it
			if obj != nil && depth < 4 {
				var def ast.Expr
				n := 0
				isKey := false
				ast.Inspect(f.Body, func(nd ast.Node) bool {
					switch z := nd.(type) {
					case *ast.AssignStmt:
						for i, l := range z.Lhs {
							if li, ok := l.(*ast.Ident); ok && (info.Defs[li] == obj || info.Uses[li] == obj) {
								n++
								if len(z.Lhs) == len(z.Rhs) {
									def = z.Rhs[i]
								}
							}
						}
					case *ast.IncDecStmt:
						if li, ok := z.X.(*ast.Ident); ok && info.Uses[li] == obj {
							n += 2
						}
					case *ast.RangeStmt:
						if k, ok := z.Key.(*ast.Ident); ok && info.Defs[k] == obj {
							isKey = true
						}
					}
					return true
				})
				if !isKey && n == 1 && def != nil {
					return eval(def, depth+1)
				}
			}
			return lin{lens: map[string]int{}, vars: map[string]int{y.Name: 1}, ok: true}
		}
		return lin{ok: false}
	}
	l := eval(x.Index, 0)
	if !l.ok || l.k != -1 {
		return "", false
	}
	var S, I string
	for s, c := range l.lens {
		if c == 0 {
			continue
		}
		if c != 1 || S != "" {
			return "", false
		}
		S = s
	}
	for v, c := range l.vars {
		if c == 0 {
			continue
		}
		if c != -1 || I != "" {
			return "", false
		}
		I = v
	}
	if S == "" || I == "" || facts.LtLen[I] != S {
		return "", false
	}
	xs := core.ExprStr(x.X)
	if xs != S && facts.MakeLen[xs] != S {
		return "", false
	}
	if xs != S && !stableSince(info, f, x.X, facts.factPos["make:"+xs], x) {
		return "", false
	}
	return fmt.Sprintf("index is len(%s)-1-%s with %s a range index over %s, and %s has len(%s) elements", S, I, I, S, xs, S), true
}

func idxStable(info *types.Info, f *ScopeFunc, idx ast.Expr, from token.Pos, site ast.Node) bool {
	id := rootIdentOf(idx)
	if id == nil {
		// composite index expression such as i+1: require every identifier in it stable
		ok := true
		ast.Inspect(idx, func(n ast.Node) bool {
			if i2, isId := n.(*ast.Ident); isId {
				if v, isVar := info.Uses[i2].(*types.Var); isVar {
					if !Stable(info, f.Body, v, i2.Name, from, site) {
						ok = false
					}
				}
			}
			return ok
		})
		return ok
	}
	root := info.Uses[id]
	if root == nil {
		return false
	}
	return Stable(info, f.Body, root, core.ExprStr(idx), from, site)
}

// sliceSafe tries to discharge X[lo:hi].
func sliceSafe(info *types.Info, f *ScopeFunc, x *ast.SliceExpr) (string, bool) {
	if x.Max != nil {
		return "3-index slice", false
	}
	facts := FactsAt(info, f.Body, x)
	xs := core.ExprStr(x.X)
	need := 0
	okLo, okHi := x.Low == nil, x.High == nil
	var why []string
	// a bound named once (`last := len(parts) - 1`) is that expression, as long as the sliced
	// value has not changed since
	if id, ok := core.Unparen(x.High).(*ast.Ident); ok && x.High != nil {
		if def := soleDef(info, id); def != nil && stableSince(info, f, x.X, def.Pos(), x) {
			x = &ast.SliceExpr{X: x.X, Lbrack: x.Lbrack, Low: x.Low, High: def, Rbrack: x.Rbrack}
		}
	}
	if x.Low != nil {
		lo := core.Unparen(x.Low)
		if k, ok := core.ConstInt(info, lo); ok {
			if int(k) > need {
				need = int(k)
			}
			okLo = true
		} else if e, ok := facts.LeLen[core.ExprStr(lo)]; ok && e == xs && x.High == nil {
			if idxStable(info, f, lo, facts.factPos["idx:"+core.ExprStr(lo)], x) {
				okLo = true
				why = append(why, fmt.Sprintf("%s <= len(%s)", core.ExprStr(lo), xs))
			}
		}
	}
	if x.High != nil {
		hi := core.Unparen(x.High)
		if b, ok := hi.(*ast.BinaryExpr); ok && b.Op == token.SUB {
			if le, ok := lenArg(info, b.X); ok && core.ExprStr(le) == xs {
				if k, ok := core.ConstInt(info, b.Y); ok && k >= 0 {
					lo := 0
					if x.Low != nil {
						if kl, ok := core.ConstInt(info, x.Low); ok {
							lo = int(kl)
						} else {
							okLo = false
						}
					}
					if int(k)+lo > need {
						need = int(k) + lo
					}
					okHi = true
				}
			}
		} else if e, ok := facts.LeLen[core.ExprStr(hi)]; ok && e == xs && x.Low == nil {
			if idxStable(info, f, hi, facts.factPos["idx:"+core.ExprStr(hi)], x) && facts.GeZero[core.ExprStr(hi)] {
				okHi = true
				why = append(why, fmt.Sprintf("0 <= %s <= len(%s)", core.ExprStr(hi), xs))
			}
		}
	}
	if !okLo || !okHi {
		return "bounds have no recognised relation to len(" + xs + ")", false
	}
	if need > 0 {
		if facts.MinLen[xs] < need {
			return fmt.Sprintf("need len(%s) >= %d, known minimum %d", xs, need, facts.MinLen[xs]), false
		}
		if !stableSince(info, f, x.X, facts.factPos["len:"+xs], x) {
			return "length fact exists but the slice may be modified between guard and use", false
		}
		why = append(why, fmt.Sprintf("len(%s) >= %d established by a dominating guard", xs, facts.MinLen[xs]))
	}
	if len(why) == 0 {
		why = append(why, "constant-free bounds")
	}
	return strings.Join(why, "; "), true
}

// assertInTypeSwitchCase: X.(T) evaluated inside `switch [v :=] X.(type) { case T: ... }`
// on the same stable expression X, in a clause whose only type is T.
func assertInTypeSwitchCase(info *types.Info, f *ScopeFunc, ta *ast.TypeAssertExpr) (string, bool) {
	path := core.PathTo(f.Body, ta)
	xs := core.ExprStr(ta.X)
	at := info.TypeOf(ta.Type)
	for i := len(path) - 1; i > 0; i-- {
		cc, ok := path[i].(*ast.CaseClause)
		if !ok || len(cc.List) != 1 {
			continue
		}
		// find the enclosing type switch
		for j := i - 1; j >= 0; j-- {
			ts, ok := path[j].(*ast.TypeSwitchStmt)
			if !ok {
				continue
			}
			var sw *ast.TypeAssertExpr
			switch a := ts.Assign.(type) {
			case *ast.ExprStmt:
				sw, _ = a.X.(*ast.TypeAssertExpr)
			case *ast.AssignStmt:
				if len(a.Rhs) == 1 {
					sw, _ = a.Rhs[0].(*ast.TypeAssertExpr)
				}
			}
			if sw == nil || core.ExprStr(sw.X) != xs {
				break
			}
			ct := info.TypeOf(cc.List[0])
			if ct == nil || !types.Identical(ct, at) {
				break
			}
			if stableSince(info, f, ta.X, ts.Pos(), ta) {
				return fmt.Sprintf("inside `case %s` of a type switch on the same unmodified expression %s", core.ExprStr(cc.List[0]), xs), true
			}
			break
		}
	}
	return "", false
}

// sortSliceLess: X[i] inside the less-function literal passed to
// sort.Slice(X, func(i, j int) bool {...}) (or SliceStable / slices.SortFunc is
// not index based) where i is one of the literal's parameters: the sort
// package calls less only with 0 <= i, j < len(X).
func sortSliceLess(info *types.Info, f *ScopeFunc, x *ast.IndexExpr) (string, bool) {
	lit, ok := f.Node.(*ast.FuncLit)
	if !ok {
		return "", false
	}
	id, ok := core.Unparen(x.Index).(*ast.Ident)
	if !ok {
		return "", false
	}
	isParam := false
	for _, fl := range lit.Type.Params.List {
		for _, n := range fl.Names {
			if info.Defs[n] == info.Uses[id] {
				isParam = true
			}
		}
	}
	if !isParam {
		return "", false
	}
	encl := core.EnclosingFunc(f.Pkg, lit.Pos())
	if encl == nil {
		return "", false
	}
	found := ""
	ast.Inspect(encl.Body, func(n ast.Node) bool {
		c, ok := n.(*ast.CallExpr)
		if !ok || len(c.Args) != 2 || ast.Node(c.Args[1]) != ast.Node(lit) {
			return true
		}
		name := core.CalleeName(info, c)
		if (name == "sort.Slice" || name == "sort.SliceStable") && core.ExprStr(c.Args[0]) == core.ExprStr(x.X) {
			found = name
		}
		return true
	})
	if found == "" {
		return "", false
	}
	return fmt.Sprintf("less function of %s(%s, …): called only with valid indices of that slice", found, core.ExprStr(x.X)), true
}

// callersGuarantee: an index into a parameter (or into a field of the
// receiver) of an unexported function is safe when every call of that function
// in the package happens where the length needed is established for the
// argument actually passed. Only constant indices and len(x)-k are handled;
// the parameter must not be reassigned in the function.
func callersGuarantee(r *core.Run, f *ScopeFunc, x *ast.IndexExpr) (string, bool) {
	fd, ok := f.Node.(*ast.FuncDecl)
	if !ok || fd.Name.IsExported() {
		return "", false
	}
	info := f.Pkg.TypesInfo
	need := 0
	idx := core.Unparen(x.Index)
	if k, ok := core.ConstInt(info, idx); ok && k >= 0 {
		need = int(k) + 1
	} else if b, ok := idx.(*ast.BinaryExpr); ok && b.Op == token.SUB {
		if le, ok := lenArg(info, b.X); ok && core.ExprStr(le) == core.ExprStr(x.X) {
			if k, ok := core.ConstInt(info, b.Y); ok && k >= 1 {
				need = int(k)
			}
		}
	}
	if need == 0 {
		// dst[i] with i a range index over another parameter src: every caller made dst with len(src)
		if why, ok := callersMadeWithLen(r, f, fd, x); ok {
			return why, true
		}
		return "", false
	}
	root := rootIdentOf(x.X)
	if root == nil {
		return "", false
	}
	obj := info.Uses[root]
	// parameter index, or -1 for the receiver
	pidx, found := -2, false
	if fd.Recv != nil && len(fd.Recv.List) == 1 && len(fd.Recv.List[0].Names) == 1 && info.Defs[fd.Recv.List[0].Names[0]] == obj {
		pidx, found = -1, true
	}
	i := 0
	for _, fl := range fd.Type.Params.List {
		for _, nm := range fl.Names {
			if info.Defs[nm] == obj {
				pidx, found = i, true
			}
			i++
		}
	}
	if !found || !stableSince(info, f, x.X, fd.Body.Lbrace, x) {
		return "", false
	}
	suffix := strings.TrimPrefix(core.ExprStr(x.X), root.Name) // "" or ".items"
	self := info.Defs[fd.Name]
	callers, good, escaped := 0, 0, false
	core.AllFuncDecls(f.Pkg, func(cfd *ast.FuncDecl) {
		ast.Inspect(cfd.Body, func(n ast.Node) bool {
			switch y := n.(type) {
			case *ast.CallExpr:
				fn := core.CalleeFunc(info, y)
				if fn == nil || types.Object(fn) != self {
					return true
				}
				callers++
				var actual ast.Expr
				if pidx == -1 {
					if sel, ok := y.Fun.(*ast.SelectorExpr); ok {
						actual = sel.X
					}
				} else if pidx < len(y.Args) {
					actual = y.Args[pidx]
				}
				if actual == nil {
					return true
				}
				facts := FactsAt(info, cfd.Body, y)
				if facts.MinLen[core.ExprStr(actual)+suffix] >= need {
					good++
				}
			case *ast.Ident:
				// the function used as a value: unknown callers
				if info.Uses[y] == self {
					if p := core.PathTo(cfd.Body, y); len(p) >= 2 {
						if c, isCall := p[len(p)-2].(*ast.CallExpr); !isCall || c.Fun != ast.Expr(y) {
							if s, isSel := p[len(p)-2].(*ast.SelectorExpr); !isSel || s.Sel != y {
								escaped = true
							}
						}
					}
				}
			}
			return true
		})
	})
	if callers > 0 && callers == good && !escaped {
		return fmt.Sprintf("%s is unexported and every one of its %d call(s) in the package passes a value whose length is known to be at least %d at the call", fd.Name.Name, callers, need), true
	}
	return "", false
}

// tableAtCallers: an index or slice expression in an unexported helper that
// mentions the helper's parameters is the expression its callers used to
// contain, with the arguments in place of the parameters. When every static
// call site of the helper (in the package, the helper not used as a value)
// has a recorded reason for the expression so instantiated — keyed under the
// calling function, as it was before the helper was extracted — those reasons
// carry over.
func tableAtCallers(r *core.Run, table string, sc *Scope, f *ScopeFunc, o *core.Oblig, x ast.Expr, kind string) bool {
	fd, ok := f.Node.(*ast.FuncDecl)
	if !ok || fd.Name.IsExported() || fd.Type.Params == nil {
		return false
	}
	info := f.Pkg.TypesInfo
	var params []types.Object
	for _, fl := range fd.Type.Params.List {
		for _, nm := range fl.Names {
			params = append(params, info.Defs[nm])
		}
	}
	uses := false
	ast.Inspect(x, func(n ast.Node) bool {
		if id, ok := n.(*ast.Ident); ok {
			for _, p := range params {
				if p != nil && info.Uses[id] == p {
					uses = true
				}
			}
		}
		return true
	})
	if !uses {
		return false
	}
	self := info.Defs[fd.Name]
	var keys []string
	bad := false
	byFunc := map[ast.Node]*ScopeFunc{}
	for _, sf := range sc.Funcs {
		byFunc[sf.Node] = sf
	}
	core.AllFuncDecls(f.Pkg, func(cfd *ast.FuncDecl) {
		if cfd.Body == nil {
			return
		}
		// innermost function (declaration or literal) holding each call
		var stack []ast.Node
		stack = append(stack, cfd)
		var visit func(n ast.Node) bool
		visit = func(n ast.Node) bool {
			switch y := n.(type) {
			case *ast.FuncLit:
				stack = append(stack, y)
				ast.Inspect(y.Body, visit)
				stack = stack[:len(stack)-1]
				return false
			case *ast.CallExpr:
				fn := core.CalleeFunc(info, y)
				if fn == nil || types.Object(fn) != self {
					return true
				}
				caller := byFunc[stack[len(stack)-1]]
				if caller == nil || len(y.Args) != len(params) {
					bad = true
					return true
				}
				subst := map[types.Object]string{}
				for i, p := range params {
					if p == nil {
						continue
					}
					if s, ok := core.ConstString(info, y.Args[i]); ok {
						subst[p] = fmt.Sprintf("%q", s)
					} else {
						subst[p] = core.NormExpr(info, y.Args[i])
					}
				}
				keys = append(keys, "R-PANIC/P2 | "+siteKey(caller, kind+core.NormExprSubst(info, x, subst)))
			case *ast.Ident:
				if info.Uses[y] == self {
					if p := core.PathTo(cfd.Body, y); len(p) >= 2 {
						if c, isCall := p[len(p)-2].(*ast.CallExpr); !isCall || c.Fun != ast.Expr(y) {
							bad = true
						}
					}
				}
			}
			return true
		}
		ast.Inspect(cfd.Body, visit)
	})
	if bad || len(keys) == 0 {
		return false
	}
	for _, k := range keys {
		if !r.InTable(table, k) {
			return false
		}
	}
	for _, k := range keys {
		r.TableKey(table, o, k)
	}
	o.Status += fmt.Sprintf(" [recorded at the %d call site(s) of %s, where this expression stood before it was moved into the helper]", len(keys), fd.Name.Name)
	return true
}

// callersMadeWithLen: X[i] where X is a parameter, i ranges over another
// parameter S of the same unexported function, and at every call of the
// function in the package the argument for X is known to have been made with
// the length of the argument for S (neither is reassigned in the function).
func callersMadeWithLen(r *core.Run, f *ScopeFunc, fd *ast.FuncDecl, x *ast.IndexExpr) (string, bool) {
	info := f.Pkg.TypesInfo
	xid, ok := core.Unparen(x.X).(*ast.Ident)
	iid, ok2 := core.Unparen(x.Index).(*ast.Ident)
	if !ok || !ok2 {
		return "", false
	}
	facts := FactsAt(info, f.Body, x)
	srcName, has := facts.LtLen[iid.Name]
	if !has {
		return "", false
	}
	pidx := func(name string) int {
		i := 0
		for _, fl := range fd.Type.Params.List {
			for _, nm := range fl.Names {
				if nm.Name == name {
					return i
				}
				i++
			}
		}
		return -1
	}
	dstI, srcI := pidx(xid.Name), pidx(srcName)
	if dstI < 0 || srcI < 0 || info.Uses[xid] == nil {
		return "", false
	}
	if !stableSince(info, f, x.X, fd.Body.Lbrace, x) || !idxStable(info, f, x.Index, facts.factPos["idx:"+iid.Name], x) {
		return "", false
	}
	self := info.Defs[fd.Name]
	callers, good, escaped := 0, 0, false
	core.AllFuncDecls(f.Pkg, func(cfd *ast.FuncDecl) {
		ast.Inspect(cfd.Body, func(n ast.Node) bool {
			switch y := n.(type) {
			case *ast.CallExpr:
				fn := core.CalleeFunc(info, y)
				if fn == nil || types.Object(fn) != self || len(y.Args) <= dstI || len(y.Args) <= srcI {
					return true
				}
				callers++
				cf := FactsAt(info, cfd.Body, y)
				if cf.MakeLen[core.ExprStr(y.Args[dstI])] == core.ExprStr(y.Args[srcI]) {
					good++
				}
			case *ast.Ident:
				if info.Uses[y] == self {
					if p := core.PathTo(cfd.Body, y); len(p) >= 2 {
						if c, isCall := p[len(p)-2].(*ast.CallExpr); !isCall || c.Fun != ast.Expr(y) {
							if s, isSel := p[len(p)-2].(*ast.SelectorExpr); !isSel || s.Sel != y {
								escaped = true
							}
						}
					}
				}
			}
			return true
		})
	})
	if callers > 0 && callers == good && !escaped {
		return fmt.Sprintf("%s ranges over parameter %s and every one of the %d call(s) of %s passes for %s a slice made with the length of the argument for %s", iid.Name, srcName, callers, fd.Name.Name, xid.Name, srcName), true
	}
	return "", false
}

// soleDef: the expression a local was defined from, when that definition is the only
// assignment it ever receives (and its address is never taken).
func soleDef(info *types.Info, id *ast.Ident) ast.Expr {
	obj := info.ObjectOf(id)
	v, ok := obj.(*types.Var)
	if !ok || v.IsField() || core.Current == nil {
		return nil
	}
	fd := core.Current.EnclosingDecl(obj.Pos())
	if fd == nil || fd.Body == nil {
		return nil
	}
	var def ast.Expr
	n := 0
	ast.Inspect(fd.Body, func(nd ast.Node) bool {
		switch y := nd.(type) {
		case *ast.AssignStmt:
			for i, l := range y.Lhs {
				if lid, ok := l.(*ast.Ident); ok && info.ObjectOf(lid) == obj {
					n++
					if len(y.Lhs) == len(y.Rhs) {
						def = y.Rhs[i]
					}
				}
			}
		case *ast.IncDecStmt:
			if lid, ok := y.X.(*ast.Ident); ok && info.ObjectOf(lid) == obj {
				n++
			}
		case *ast.UnaryExpr:
			if lid, ok := y.X.(*ast.Ident); ok && y.Op == token.AND && info.ObjectOf(lid) == obj {
				n++
			}
		case *ast.RangeStmt:
			for _, e := range []ast.Expr{y.Key, y.Value} {
				if lid, ok := e.(*ast.Ident); ok && info.ObjectOf(lid) == obj {
					n += 2
				}
			}
		}
		return true
	})
	if n != 1 {
		return nil
	}
	return def
}
