package rules

import (
	"fmt"
	"go/ast"
	"go/types"
	"strings"

	"golang.org/x/tools/go/packages"

	"j5verif/checker/core"
)

// PoolOwnership (R-LOCK/pool): an object taken from a sync.Pool belongs to one
// goroutine until it is put back, once. A second Put of the same object makes
// two later Gets return it, and two goroutines then write one buffer. The rule
// computes which functions may put their receiver or a parameter back
// (directly, or by handing it to such a function) and reports every function
// that defers such a release of a variable and also hands that variable to a
// function that may release it itself.
func PoolOwnership(r *core.Run, rels []string) {
	r.Rule("R-LOCK/pool", "for every sync.Pool used in scope: a function that defers the release of a pooled object (a call that reaches Pool.Put with that object) does not also call — with the same object as receiver or argument — a function that may release it on some path; released once, by its one owner")
	type key struct {
		fn  *types.Func
		idx int // parameter index; -1 receiver
	}
	var pks []*packages.Package
	for _, rel := range rels {
		if pk := r.P.Pkg(rel); pk != nil {
			pks = append(pks, pk)
		} else {
			r.Fatal("anchor: package %s not found", rel)
		}
	}
	isPoolPut := func(info *types.Info, c *ast.CallExpr) bool {
		return core.CalleeName(info, c) == "(*sync.Pool).Put"
	}
	pools := 0
	for _, pk := range pks {
		for _, obj := range pk.TypesInfo.Defs {
			if v, ok := obj.(*types.Var); ok && strings.TrimPrefix(core.TypeStr(v.Type()), "*") == "sync.Pool" {
				pools++
			}
		}
	}
	r.Analysed["sync_pools"] = pools
	// parameter/receiver objects of a declaration
	paramsOf := func(pk *packages.Package, fd *ast.FuncDecl) map[types.Object]int {
		m := map[types.Object]int{}
		if fd.Recv != nil && len(fd.Recv.List) == 1 && len(fd.Recv.List[0].Names) == 1 {
			m[pk.TypesInfo.Defs[fd.Recv.List[0].Names[0]]] = -1
		}
		i := 0
		for _, fl := range fd.Type.Params.List {
			for _, nm := range fl.Names {
				m[pk.TypesInfo.Defs[nm]] = i
				i++
			}
		}
		return m
	}
	// released(call): the objects (idents) the call may put back, given the summaries
	may := map[key]bool{}
	releasedBy := func(pk *packages.Package, c *ast.CallExpr) []types.Object {
		info := pk.TypesInfo
		var out []types.Object
		objOf := func(e ast.Expr) types.Object {
			if id, ok := core.Unparen(e).(*ast.Ident); ok {
				return info.ObjectOf(id)
			}
			return nil
		}
		if isPoolPut(info, c) && len(c.Args) == 1 {
			if o := objOf(c.Args[0]); o != nil {
				out = append(out, o)
			}
			return out
		}
		fn := core.CalleeFunc(info, c)
		if fn == nil {
			return nil
		}
		fn = fn.Origin()
		if may[key{fn, -1}] {
			if sel, ok := c.Fun.(*ast.SelectorExpr); ok {
				if o := objOf(sel.X); o != nil {
					out = append(out, o)
				}
			}
		}
		for i, a := range c.Args {
			if may[key{fn, i}] {
				if o := objOf(a); o != nil {
					out = append(out, o)
				}
			}
		}
		return out
	}
	for changed := true; changed; {
		changed = false
		for _, pk := range pks {
			core.AllFuncDecls(pk, func(fd *ast.FuncDecl) {
				fn, _ := pk.TypesInfo.Defs[fd.Name].(*types.Func)
				if fn == nil {
					return
				}
				ps := paramsOf(pk, fd)
				ast.Inspect(fd.Body, func(n ast.Node) bool {
					if c, ok := n.(*ast.CallExpr); ok {
						for _, o := range releasedBy(pk, c) {
							if idx, isParam := ps[o]; isParam && !may[key{fn, idx}] {
								may[key{fn, idx}] = true
								changed = true
							}
						}
					}
					return true
				})
			})
		}
	}
	// double release: deferred release of v plus a plain call that may release v
	for _, pk := range pks {
		pk := pk
		core.AllFuncDecls(pk, func(fd *ast.FuncDecl) {
			deferred := map[types.Object]*ast.CallExpr{}
			deferCalls := map[*ast.CallExpr]bool{}
			ast.Inspect(fd.Body, func(n ast.Node) bool {
				if d, ok := n.(*ast.DeferStmt); ok {
					deferCalls[d.Call] = true
					for _, o := range releasedBy(pk, d.Call) {
						deferred[o] = d.Call
					}
				}
				return true
			})
			if len(deferred) == 0 {
				return
			}
			for o, dc := range deferred {
				ob := r.Add("R-LOCK/pool", fmt.Sprintf("%s.%s | deferred release of ‹%s›", strings.TrimPrefix(pk.PkgPath, core.Module+"/"), core.FuncName(fd), core.TypeStr(o.Type())), dc.Pos(), "pooled object "+o.Name()+" released by defer")
				var second *ast.CallExpr
				ast.Inspect(fd.Body, func(n ast.Node) bool {
					c, ok := n.(*ast.CallExpr)
					if !ok || deferCalls[c] || second != nil {
						return true
					}
					for _, o2 := range releasedBy(pk, c) {
						if o2 != o {
							continue
						}
						// a call made before the defer is registered, whose failure makes the
						// function return at once (`if err := f(v); err != nil { return … }`), has
						// handed the object over on that path: the defer never runs for it
						if c.Pos() < dc.Pos() && returnsOnFailure(fd, c) {
							continue
						}
						second = c
					}
					return true
				})
				if second != nil {
					ob.Fail("%s is put back to its pool by the deferred %s and may also be put back inside %s (%s): the pool then holds the object twice, two later calls get the same one and write over each other's output", o.Name(), core.ExprStr(dc.Fun), core.ExprStr(second.Fun), r.P.Fset.Position(second.Pos()).String()[strings.LastIndex(r.P.Fset.Position(second.Pos()).String(), "/")+1:])
				} else {
					ob.Auto("released only by the defer")
				}
			}
		})
	}
}

// PoolAlias (R-LOCK/poolalias): what a function returns must not be memory of an
// object the same function puts back into a sync.Pool: the next Get hands the
// object to someone who overwrites it while the first caller still reads its
// result. Aliases of the pooled variable are followed through locals (plain
// copies, composite literals and &literals that store it in a field); a result
// aliases it when it contains a (*bytes.Buffer).Bytes / Next call or a slice
// expression rooted at an alias that is not wrapped in a copy (append to another
// slice, bytes.Clone, slices.Clone, a string conversion).
func PoolAlias(r *core.Run, rels []string) {
	r.Rule("R-LOCK/poolalias", "for every function in scope that puts an object back into a sync.Pool (directly or by defer): no returned expression aliases that object's memory — a Bytes()/Next() of a buffer that is the object or is stored in a local built around it, or a slice of it — unless the expression copies it")
	for _, rel := range rels {
		pk := r.P.Pkg(rel)
		if pk == nil {
			r.Fatal("anchor: package %s not found", rel)
			continue
		}
		info := pk.TypesInfo
		core.AllFuncDecls(pk, func(fd *ast.FuncDecl) {
			if fd.Body == nil {
				return
			}
			// pooled objects released here
			rel0 := map[types.Object]*ast.CallExpr{}
			ast.Inspect(fd.Body, func(n ast.Node) bool {
				if c, ok := n.(*ast.CallExpr); ok && core.CalleeName(info, c) == "(*sync.Pool).Put" && len(c.Args) == 1 {
					if id, ok := core.Unparen(c.Args[0]).(*ast.Ident); ok {
						if o := info.ObjectOf(id); o != nil {
							rel0[o] = c
						}
					}
				}
				return true
			})
			for obj, put := range rel0 {
				alias := map[types.Object]bool{obj: true}
				mentions := func(e ast.Expr) bool {
					hit := false
					ast.Inspect(e, func(n ast.Node) bool {
						if id, ok := n.(*ast.Ident); ok && alias[info.ObjectOf(id)] {
							hit = true
						}
						return !hit
					})
					return hit
				}
				carries := func(e ast.Expr) bool {
					// a value that keeps a reference: the alias itself, &alias-literal, a literal with an alias field
					switch x := core.Unparen(e).(type) {
					case *ast.Ident:
						return alias[info.ObjectOf(x)]
					case *ast.UnaryExpr:
						if cl, ok := core.Unparen(x.X).(*ast.CompositeLit); ok {
							return mentions(cl)
						}
						return mentions(x.X)
					case *ast.CompositeLit:
						return mentions(x)
					case *ast.SelectorExpr:
						return mentions(x)
					}
					return false
				}
				for changed := true; changed; {
					changed = false
					ast.Inspect(fd.Body, func(n ast.Node) bool {
						as, ok := n.(*ast.AssignStmt)
						if !ok || len(as.Lhs) != len(as.Rhs) {
							return true
						}
						for i, l := range as.Lhs {
							id, ok := core.Unparen(l).(*ast.Ident)
							if !ok {
								continue
							}
							o := info.ObjectOf(id)
							if o == nil || alias[o] {
								continue
							}
							if carries(as.Rhs[i]) {
								alias[o] = true
								changed = true
							}
						}
						return true
					})
				}
				ob := r.Add("R-LOCK/poolalias", fmt.Sprintf("%s.%s | results vs pooled ‹%s›", rel, core.FuncName(fd), core.TypeStr(obj.Type())), put.Pos(), "results of a function that releases a pooled object")
				var bad ast.Expr
				var aliasing func(e ast.Expr) bool
				aliasing = func(e ast.Expr) bool {
					switch x := core.Unparen(e).(type) {
					case *ast.CallExpr:
						name := core.CalleeName(info, x)
						switch name {
						case "(*bytes.Buffer).Bytes", "(*bytes.Buffer).Next", "(*bytes.Buffer).AvailableBuffer":
							if sel, ok := x.Fun.(*ast.SelectorExpr); ok && mentions(sel.X) {
								return true
							}
							return false
						case "bytes.Clone", "slices.Clone", "(*bytes.Buffer).String", "(*strings.Builder).String":
							return false
						case "append":
							// append(dst, src...) copies src; the result aliases dst
							if len(x.Args) > 0 {
								return aliasing(x.Args[0])
							}
							return false
						}
						if core.IsConversion(info, x) && len(x.Args) == 1 {
							if b, ok := info.TypeOf(x).Underlying().(*types.Basic); ok && b.Info()&types.IsString != 0 {
								return false
							}
							return aliasing(x.Args[0])
						}
						return false
					case *ast.SliceExpr:
						if _, isStr := info.TypeOf(x.X).Underlying().(*types.Basic); isStr {
							return false
						}
						return mentions(x.X) || aliasing(x.X)
					case *ast.Ident:
						// a local holding an aliasing value
						o := info.ObjectOf(x)
						if o == nil {
							return false
						}
						if _, isSlice := o.Type().Underlying().(*types.Slice); !isSlice {
							return false
						}
						res := false
						ast.Inspect(fd.Body, func(n ast.Node) bool {
							if as, ok := n.(*ast.AssignStmt); ok && len(as.Lhs) == len(as.Rhs) {
								for i, l := range as.Lhs {
									if id, ok := core.Unparen(l).(*ast.Ident); ok && info.ObjectOf(id) == o && as.Rhs[i] != e {
										if id2, ok := core.Unparen(as.Rhs[i]).(*ast.Ident); ok && info.ObjectOf(id2) == o {
											continue
										}
										if aliasing(as.Rhs[i]) {
											res = true
										}
									}
								}
							}
							return !res
						})
						return res
					}
					return false
				}
				ast.Inspect(fd.Body, func(n ast.Node) bool {
					if _, ok := n.(*ast.FuncLit); ok {
						return false
					}
					if rs, ok := n.(*ast.ReturnStmt); ok && bad == nil {
						for _, e := range rs.Results {
							if aliasing(e) {
								bad = e
							}
						}
					}
					return true
				})
				if bad != nil {
					ob.Fail("the function returns %s, memory of the object it puts back into the pool (%s): the next Get reuses it while the caller still holds the result — an earlier output is overwritten by a later encode", core.NormExpr(info, bad), r.P.Fset.Position(bad.Pos()).String()[strings.LastIndex(r.P.Fset.Position(bad.Pos()).String(), "/")+1:])
				} else {
					ob.Auto("no result aliases the pooled object")
				}
			}
		})
	}
}

// returnsOnFailure: the call is the initialiser of an `if` whose body ends in a return, or is
// directly followed by `if err != nil { …; return }`.
func returnsOnFailure(fd *ast.FuncDecl, c *ast.CallExpr) bool {
	endsInReturn := func(b *ast.BlockStmt) bool {
		if b == nil || len(b.List) == 0 {
			return false
		}
		_, ok := b.List[len(b.List)-1].(*ast.ReturnStmt)
		return ok
	}
	contains := func(n ast.Node) bool { return n != nil && n.Pos() <= c.Pos() && c.End() <= n.End() }
	ok := false
	ast.Inspect(fd.Body, func(n ast.Node) bool {
		switch x := n.(type) {
		case *ast.IfStmt:
			if x.Init != nil && contains(x.Init) && endsInReturn(x.Body) {
				ok = true
			}
		case *ast.BlockStmt:
			for i, st := range x.List {
				if _, isIf := st.(*ast.IfStmt); isIf || !contains(st) || i+1 >= len(x.List) {
					continue
				}
				if nx, isIf := x.List[i+1].(*ast.IfStmt); isIf && nx.Init == nil && endsInReturn(nx.Body) {
					if b, isB := core.Unparen(nx.Cond).(*ast.BinaryExpr); isB && strings.Contains(core.ExprStr(b), "nil") {
						ok = true
					}
				}
			}
		}
		return true
	})
	return ok
}
