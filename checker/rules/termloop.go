package rules

import (
	"go/ast"
	"go/constant"
	"go/token"
	"go/types"
	"strings"

	"golang.org/x/tools/go/cfg"

	"j5verif/checker/core"
)

// eofModel describes how the weak primitives signal the end of the input:
// instead of failing they keep returning a sentinel, so a loop driven by them
// must leave when it sees the sentinel.
type eofModel struct {
	info      *types.Info
	decl      *ast.FuncDecl
	sentinels []*types.Const  // lexerEofChr, EOF
	fields    map[string]bool // "Lexer.ch", "Token.Type": the current symbol
	calls     map[string]bool // full names of the peek functions
	recvAtom  types.Object    // receiver of an inlined predicate method
	prog      *core.Prog
}

// atom: the expression denotes the current / next input symbol.
func (m *eofModel) atom(e ast.Expr, depth int) bool {
	if depth > 6 {
		return false
	}
	switch x := core.Unparen(e).(type) {
	case *ast.SelectorExpr:
		if sel := m.info.Selections[x]; sel != nil && sel.Kind() == types.FieldVal {
			t := sel.Recv()
			if p, ok := t.(*types.Pointer); ok {
				t = p.Elem()
			}
			if n, ok := t.(*types.Named); ok && m.fields[n.Obj().Name()+"."+x.Sel.Name] {
				return true
			}
		}
	case *ast.CallExpr:
		if m.calls[core.CalleeName(m.info, x)] {
			return true
		}
	case *ast.Ident:
		obj := m.info.Uses[x]
		if obj == nil {
			return false
		}
		if obj == m.recvAtom {
			return true
		}
		// local with a single definition from an atom
		var def ast.Expr
		n := 0
		if m.decl != nil && m.decl.Body != nil {
			ast.Inspect(m.decl.Body, func(nd ast.Node) bool {
				if as, ok := nd.(*ast.AssignStmt); ok {
					for i, l := range as.Lhs {
						if id, ok := l.(*ast.Ident); ok && (m.info.Defs[id] == obj || (as.Tok == token.ASSIGN && m.info.Uses[id] == obj)) {
							n++
							if len(as.Rhs) == len(as.Lhs) {
								def = as.Rhs[i]
							}
						}
					}
				}
				return true
			})
		}
		if n == 1 && def != nil {
			return m.atom(def, depth+1)
		}
	}
	return false
}

// sentinelFor: the constant's value equals the end-of-input sentinel of its type.
func (m *eofModel) isSentinel(e ast.Expr) (isConst, isEOF bool) {
	tv, ok := m.info.Types[e]
	if !ok || tv.Value == nil {
		return false, false
	}
	for _, s := range m.sentinels {
		if types.Identical(tv.Type, s.Type()) || types.ConvertibleTo(tv.Type, s.Type()) && sameBasicFamily(tv.Type, s.Type()) {
			if constant.Compare(tv.Value, token.EQL, s.Val()) {
				return true, true
			}
		}
	}
	return true, false
}

func sameBasicFamily(a, b types.Type) bool {
	ab, ok1 := a.Underlying().(*types.Basic)
	bb, ok2 := b.Underlying().(*types.Basic)
	return ok1 && ok2 && ab.Info()&types.IsInteger != 0 && bb.Info()&types.IsInteger != 0
}

var eofFalsePredicates = map[string]bool{
	"unicode.IsSpace": true, "unicode.IsDigit": true, "unicode.IsLetter": true, "unicode.IsUpper": true, "unicode.IsLower": true,
}

// excludes: taking the given branch of cond implies that the current symbol is
// not the end-of-input sentinel.
func (m *eofModel) excludes(cond ast.Expr, branch bool, depth int) bool {
	if depth > 24 || cond == nil {
		return false
	}
	switch x := core.Unparen(cond).(type) {
	case *ast.Ident:
		// a constant condition never takes the other branch: vacuously excluded there
		if tv, ok := m.info.Types[x]; ok && tv.Value != nil && tv.Value.Kind() == constant.Bool {
			return constant.BoolVal(tv.Value) != branch
		}
	case *ast.UnaryExpr:
		if x.Op == token.NOT {
			return m.excludes(x.X, !branch, depth+1)
		}
	case *ast.BinaryExpr:
		switch x.Op {
		case token.LAND:
			if branch {
				return m.excludes(x.X, true, depth+1) || m.excludes(x.Y, true, depth+1)
			}
			return m.excludes(x.X, false, depth+1) && m.excludes(x.Y, false, depth+1)
		case token.LOR:
			if branch {
				return m.excludes(x.X, true, depth+1) && m.excludes(x.Y, true, depth+1)
			}
			return m.excludes(x.X, false, depth+1) || m.excludes(x.Y, false, depth+1)
		case token.EQL, token.NEQ:
			sym, c := x.X, x.Y
			if !m.atom(sym, 0) {
				sym, c = x.Y, x.X
			}
			if !m.atom(sym, 0) {
				return false
			}
			isConst, isEOF := m.isSentinel(c)
			if !isConst {
				return false
			}
			equalBranch := branch == (x.Op == token.EQL)
			// sym == EOF: excluded on the unequal branch; sym == other constant: excluded on the equal branch
			return equalBranch != isEOF
		}
	case *ast.CallExpr:
		name := core.CalleeName(m.info, x)
		if eofFalsePredicates[name] && len(x.Args) == 1 && m.atom(x.Args[0], 0) {
			return branch
		}
		// predicate on the symbol — a method of the symbol's type without arguments, or a
		// function taking the symbol as its only argument — with a single `return <expr>`
		// body: look inside, with the receiver / parameter standing for the symbol
		fn := core.CalleeFunc(m.info, x)
		if fn == nil || fn.Pkg() == nil || !core.IsSource(fn.Pkg().Path()) {
			return false
		}
		pk := m.prog.ByPkg[fn.Pkg().Path()]
		if pk == nil {
			return false
		}
		fd := core.DeclOf(pk, fn.Origin())
		if fd == nil || fd.Body == nil || fd.Type.Results == nil || len(fd.Type.Results.List) != 1 {
			return false
		}
		result := returnedExpr(fd.Body.List, nil)
		if result == nil {
			return false
		}
		var bound types.Object
		sel, isSel := x.Fun.(*ast.SelectorExpr)
		switch {
		case isSel && len(x.Args) == 0 && m.atom(sel.X, 0) && fd.Recv != nil && len(fd.Recv.List) == 1 && len(fd.Recv.List[0].Names) == 1:
			bound = pk.TypesInfo.Defs[fd.Recv.List[0].Names[0]]
		case len(x.Args) == 1 && m.atom(x.Args[0], 0) && fd.Type.Params != nil && len(fd.Type.Params.List) == 1 && len(fd.Type.Params.List[0].Names) == 1:
			bound = pk.TypesInfo.Defs[fd.Type.Params.List[0].Names[0]]
		}
		if bound == nil {
			return false
		}
		inner := &eofModel{info: pk.TypesInfo, decl: fd, sentinels: m.sentinels, fields: m.fields, calls: m.calls, prog: m.prog, recvAtom: bound}
		return inner.excludes(result, branch, depth+1)
	}
	return false
}

// returnedExpr rewrites the body of a boolean function made of `if` statements, switches
// over constants and returns of one value as the single expression it computes: the value
// returned by running stmts, or rest when they fall through. nil when the body has any other
// statement (assignments, loops, calls as statements).
// ReturnedExpr: see returnedExpr.
func ReturnedExpr(stmts []ast.Stmt, rest ast.Expr) ast.Expr { return returnedExpr(stmts, rest) }

func returnedExpr(stmts []ast.Stmt, rest ast.Expr) ast.Expr {
	if len(stmts) == 0 {
		return rest
	}
	switch st := stmts[0].(type) {
	case *ast.ReturnStmt:
		if len(st.Results) != 1 {
			return nil
		}
		return st.Results[0]
	case *ast.AssignStmt:
		// a local name for a value read without calling anything: `x := a.b.c`
		if st.Tok != token.DEFINE || len(st.Lhs) != 1 || len(st.Rhs) != 1 {
			return nil
		}
		pure := true
		ast.Inspect(st.Rhs[0], func(n ast.Node) bool {
			if _, isCall := n.(*ast.CallExpr); isCall {
				pure = false
			}
			return pure
		})
		if !pure {
			return nil
		}
		return returnedExpr(stmts[1:], rest)
	case *ast.BlockStmt:
		return returnedExpr(append(append([]ast.Stmt{}, st.List...), stmts[1:]...), rest)
	case *ast.SwitchStmt:
		chain := core.SwitchAsIfChain(st)
		if chain == nil {
			return nil
		}
		return returnedExpr(append([]ast.Stmt{chain}, stmts[1:]...), rest)
	case *ast.IfStmt:
		if st.Init != nil {
			return nil
		}
		after := returnedExpr(stmts[1:], rest)
		then := returnedExpr(st.Body.List, after)
		els := after
		if st.Else != nil {
			els = returnedExpr([]ast.Stmt{st.Else}, after)
		}
		if then == nil || els == nil {
			return nil
		}
		// (c && then) || (!c && els)
		return &ast.BinaryExpr{
			X:  &ast.BinaryExpr{X: st.Cond, Op: token.LAND, Y: then},
			Op: token.LOR,
			Y:  &ast.BinaryExpr{X: &ast.UnaryExpr{Op: token.NOT, X: st.Cond}, Op: token.LAND, Y: els},
		}
	}
	return nil
}

// loopProgress decides the body-consumes argument on the go/cfg graph:
// every path from the body's entry back to the loop head must pass a strongly
// consuming call (fails at the end of input), or a weakly consuming call (a
// no-op at the end of input) together with a branch that excludes the
// end-of-input sentinel.
func loopProgress(g *cfg.CFG, fs *ast.ForStmt, strong, weak func(ast.Node) bool, m *eofModel) (string, bool) {
	var body *cfg.Block
	for _, b := range g.Blocks {
		if b.Kind == cfg.KindForBody && b.Stmt == ast.Stmt(fs) {
			body = b
		}
	}
	if body == nil {
		return "loop body not found in the control-flow graph", false
	}
	isHead := func(b *cfg.Block) bool {
		return b == body && fs.Cond == nil && fs.Post == nil || (b.Stmt == ast.Stmt(fs) && (b.Kind == cfg.KindForLoop || b.Kind == cfg.KindForPost))
	}
	const (
		fS = 1 << iota
		fW
		fX
	)
	done := func(fl int) bool { return fl&fS != 0 || (fl&fW != 0 && fl&fX != 0) }
	start := 0
	usedWeak := false
	if fs.Cond != nil {
		if strong(fs.Cond) {
			return "the loop condition itself consumes input", true
		}
		if m.excludes(fs.Cond, true, 0) {
			start |= fX
		}
	}
	type state struct {
		b  *cfg.Block
		fl int
	}
	seen := map[state]bool{}
	var bad string
	var walk func(b *cfg.Block, fl int) bool // true: some path returns to the head without progress
	walk = func(b *cfg.Block, fl int) bool {
		if seen[state{b, fl}] {
			return false
		}
		seen[state{b, fl}] = true
		for _, n := range b.Nodes {
			if strong(n) {
				fl |= fS
			} else if weak(n) {
				fl |= fW
				usedWeak = true
			}
		}
		if done(fl) {
			return false
		}
		var cond ast.Expr
		if len(b.Succs) == 2 && len(b.Nodes) > 0 {
			cond = core.BlockCond(b)
		}
		for i, s := range b.Succs {
			nfl := fl
			if cond != nil && m.excludes(cond, i == 0, 0) {
				nfl |= fX
			}
			if done(nfl) {
				continue
			}
			if isHead(s) {
				switch {
				case nfl&fW != 0:
					bad = "a path through the body advances the input only with a call that does nothing at the end of the input, and never tests for the end-of-input sentinel"
				default:
					bad = "a path through the body reaches the loop head again without consuming input"
				}
				return true
			}
			if walk(s, nfl) {
				return true
			}
		}
		return false
	}
	if walk(body, start) {
		return bad, false
	}
	if usedWeak {
		return "every path through the body back to the loop head consumes input, and where the consuming call is a no-op at the end of the input the path also passes a test that excludes the end-of-input sentinel", true
	}
	return "every path through the body back to the loop head passes a call that consumes input or fails", true
}

func constsByName(p *core.Prog, names []string) []*types.Const {
	var out []*types.Const
	for _, full := range names {
		i := strings.LastIndex(full, ".")
		pk := p.Pkg(full[:i])
		if pk == nil {
			continue
		}
		if c, ok := pk.Types.Scope().Lookup(full[i+1:]).(*types.Const); ok {
			out = append(out, c)
		}
	}
	return out
}

// SentinelRuns (R-TERM/T-eof): the weak primitives do not fail at the end of
// the input, they keep yielding the sentinel — and Lexer.next keeps advancing
// the column it reports. One call on exhausted input lands on the
// end-of-input position, which is still "inside the file"; every further call
// moves positions beyond it. So on no path through a function may more than
// two direct calls of a weak primitive follow each other without a branch
// that excludes the sentinel (the first may rest on the caller's peek, the
// second lands at most on the end position).
func SentinelRuns(r *core.Run, sc *Scope, tc TermConfig, sentinels []*types.Const) {
	r.Rule("R-TERM/T-eof", "in every function that calls Lexer.next / Walker.popToken directly, no control-flow path makes more than two such calls in a row without passing a test that excludes the end-of-input sentinel: unchecked runs read past the end and push reported positions outside the file")
	n := 0
	for _, f := range sc.Funcs {
		info := f.Pkg.TypesInfo
		direct := func(nd ast.Node) int {
			k := 0
			ast.Inspect(nd, func(x ast.Node) bool {
				if _, isLit := x.(*ast.FuncLit); isLit {
					return false
				}
				if c, ok := x.(*ast.CallExpr); ok && tc.Weak[core.CalleeName(info, c)] {
					k++
				}
				return true
			})
			return k
		}
		if direct(f.Body) < 1 {
			continue
		}
		n++
		em := &eofModel{info: info, decl: core.EnclosingFunc(f.Pkg, f.Body.Pos()), sentinels: sentinels, fields: tc.SymbolFields, calls: tc.SymbolCalls, prog: r.P}
		g := loopCFG(f)
		type state struct {
			b *cfg.Block
			c int
		}
		seen := map[state]bool{}
		worst := 0
		var walk func(b *cfg.Block, c int)
		walk = func(b *cfg.Block, c int) {
			if seen[state{b, c}] || worst >= 3 {
				return
			}
			seen[state{b, c}] = true
			for _, nd := range b.Nodes {
				c += direct(nd)
				if c > worst {
					worst = c
				}
				if c > 3 {
					c = 3
				}
			}
			var cond ast.Expr
			if len(b.Succs) == 2 && len(b.Nodes) > 0 {
				cond = core.BlockCond(b)
			}
			for i, s := range b.Succs {
				nc := c
				if cond != nil && em.excludes(cond, i == 0, 0) {
					nc = 0
				}
				walk(s, nc)
			}
		}
		if len(g.Blocks) > 0 {
			walk(g.Blocks[0], 0)
		}
		o := r.Add("R-TERM/T-eof", siteKey(f, "runs of sentinel-yielding calls"), f.Node.Pos(), "consecutive reads without an end-of-input test")
		if worst <= 2 {
			o.Auto("at most %d consecutive call(s) between end-of-input tests", worst)
		} else if !r.Table(tc.Table, o) {
			o.Fail("a path makes %d or more calls of a primitive that does not fail at the end of the input without testing for the sentinel in between: on truncated input the reads run past the end and the positions reported afterwards lie outside the file", worst)
		}
	}
	r.Analysed["functions_with_sentinel_reads"] = n
}

// SymbolAtom returns a predicate telling whether an expression inside decl
// denotes the lexer's / token walker's current or next input symbol (the
// fields and peek functions of DefaultTermConfig, or a local defined once from
// one of them).
func SymbolAtom(p *core.Prog, info *types.Info, decl *ast.FuncDecl) func(ast.Expr) bool {
	tc := DefaultTermConfig()
	m := &eofModel{info: info, decl: decl, fields: tc.SymbolFields, calls: tc.SymbolCalls, prog: p}
	return func(e ast.Expr) bool { return m.atom(e, 0) }
}
