package rules

import (
	"fmt"
	"go/ast"
	"go/types"
	"strings"

	"j5verif/checker/core"
)

// DescriptorAffinity arms R-EXT/G4: protoreflect.Message.{Set,Get,Has,Clear,
// Mutable,NewField}(fd, ..) panics ("mismatching field") when fd belongs to a
// different message type than the receiver. The rule fires only on positive
// evidence: fd provably originates from another message value —
//
//	it is the descriptor parameter of a callback passed to X.Range (directly
//	or through a RangeField-style helper taking X as its first argument), or
//	it was assigned from X.Descriptor().Fields().By*(..) / a Fields() value of X
//
// with X textually different from the receiver M, and no alias relation
// (M := X, or both derive from the same expression) is visible.
func DescriptorAffinity(r *core.Run, rels []string) {
	r.Rule("R-EXT/G4", "a field descriptor passed to protoreflect.Message.Set/Get/Has/Clear/Mutable/NewField must originate from the receiver message's own descriptor; passing one obtained from another message (Range callback, X.Descriptor().Fields()) panics with 'mismatching field'")
	methods := map[string]bool{"Set": true, "Get": true, "Has": true, "Clear": true, "Mutable": true, "NewField": true}
	nsites := 0
	for _, rel := range rels {
		pk := r.P.Pkg(rel)
		if pk == nil {
			r.Fatal("anchor: package %s not found", rel)
			continue
		}
		info := pk.TypesInfo
		core.AllFuncDecls(pk, func(fd *ast.FuncDecl) {
			fname := rel + "." + core.FuncName(fd)
			// origin[obj] = printed message expression the descriptor variable belongs to
			origin := map[types.Object]string{}
			fieldsOf := map[types.Object]string{} // fields-list variable -> message expr
			msgOfDescriptorChain := func(e ast.Expr) (string, bool) {
				// X.Descriptor().Fields()
				c, ok := core.Unparen(e).(*ast.CallExpr)
				if !ok {
					return "", false
				}
				s, ok := c.Fun.(*ast.SelectorExpr)
				if !ok || s.Sel.Name != "Fields" {
					return "", false
				}
				c2, ok := core.Unparen(s.X).(*ast.CallExpr)
				if !ok {
					return "", false
				}
				s2, ok := c2.Fun.(*ast.SelectorExpr)
				if !ok || s2.Sel.Name != "Descriptor" {
					return "", false
				}
				if !isProtoMessage(info.TypeOf(s2.X)) {
					return "", false
				}
				return core.ExprStr(s2.X), true
			}
			ast.Inspect(fd.Body, func(n ast.Node) bool {
				switch x := n.(type) {
				case *ast.AssignStmt:
					if len(x.Lhs) != len(x.Rhs) {
						return true
					}
					for i, l := range x.Lhs {
						id, ok := l.(*ast.Ident)
						if !ok {
							continue
						}
						obj := info.Defs[id]
						if obj == nil {
							obj = info.Uses[id]
						}
						if obj == nil {
							continue
						}
						if m, ok := msgOfDescriptorChain(x.Rhs[i]); ok {
							fieldsOf[obj] = m
							continue
						}
						// fd := <fields>.ByName(..) / ByNumber / Get / ByJSONName
						if c, ok := core.Unparen(x.Rhs[i]).(*ast.CallExpr); ok {
							if s, ok := c.Fun.(*ast.SelectorExpr); ok && (strings.HasPrefix(s.Sel.Name, "By") || s.Sel.Name == "Get") {
								if m, ok := msgOfDescriptorChain(s.X); ok {
									origin[obj] = m
								} else if fid, ok := core.Unparen(s.X).(*ast.Ident); ok {
									if m, ok := fieldsOf[info.Uses[fid]]; ok {
										origin[obj] = m
									}
								}
							}
						}
					}
				case *ast.CallExpr:
					// X.Range(func(fd, v) bool {...})  or helper(X, func(fd, v) ...)
					var msgExpr ast.Expr
					var lit *ast.FuncLit
					if s, ok := x.Fun.(*ast.SelectorExpr); ok && s.Sel.Name == "Range" && len(x.Args) == 1 && isProtoMessage(info.TypeOf(s.X)) {
						msgExpr = s.X
						lit, _ = x.Args[0].(*ast.FuncLit)
					} else if len(x.Args) == 2 && isProtoMessage(info.TypeOf(x.Args[0])) {
						if l, ok := x.Args[1].(*ast.FuncLit); ok && rangesFirstArg(r, info, x) {
							msgExpr, lit = x.Args[0], l
						}
					}
					if lit != nil && msgExpr != nil && len(lit.Type.Params.List) > 0 && len(lit.Type.Params.List[0].Names) > 0 {
						if isFieldDescriptor(info.TypeOf(lit.Type.Params.List[0].Type)) {
							origin[info.Defs[lit.Type.Params.List[0].Names[0]]] = core.ExprStr(msgExpr)
						}
					}
				}
				return true
			})
			ast.Inspect(fd.Body, func(n ast.Node) bool {
				c, ok := n.(*ast.CallExpr)
				if !ok || len(c.Args) == 0 {
					return true
				}
				s, ok := c.Fun.(*ast.SelectorExpr)
				if !ok || !methods[s.Sel.Name] || !isProtoMessage(info.TypeOf(s.X)) || !isFieldDescriptor(info.TypeOf(c.Args[0])) {
					return true
				}
				id, ok := core.Unparen(c.Args[0]).(*ast.Ident)
				if !ok {
					return true
				}
				from, known := origin[info.Uses[id]]
				if !known {
					return true
				}
				nsites++
				recv := core.ExprStr(s.X)
				o := r.Add("R-EXT/G4", fmt.Sprintf("%s | %s.%s(%s)", fname, recv, s.Sel.Name, id.Name), c.Pos(), fmt.Sprintf("%s.%s with descriptor %s", recv, s.Sel.Name, id.Name))
				if from == recv {
					o.Auto("descriptor %s originates from %s itself", id.Name, recv)
				} else {
					o.Fail("descriptor %s originates from message %s but is used on %s: protobuf-go panics with 'mismatching field' unless both are the same message type", id.Name, from, recv)
				}
				return true
			})
		})
	}
	r.Analysed["descriptor_affinity_sites"] = nsites
}

func isProtoMessage(t types.Type) bool {
	return t != nil && types.TypeString(t, nil) == "google.golang.org/protobuf/reflect/protoreflect.Message"
}

func isFieldDescriptor(t types.Type) bool {
	return t != nil && types.TypeString(t, nil) == "google.golang.org/protobuf/reflect/protoreflect.FieldDescriptor"
}

// rangesFirstArg: the callee is a module function whose body calls
// <first param>.Range(...) forwarding to its second parameter.
func rangesFirstArg(r *core.Run, info *types.Info, call *ast.CallExpr) bool {
	fn := core.CalleeFunc(info, call)
	if fn == nil || fn.Pkg() == nil || !core.IsSource(fn.Pkg().Path()) {
		return false
	}
	f := funcByObj(r, fn)
	if f == nil || len(f.Type.Params.List) < 2 || len(f.Type.Params.List[0].Names) == 0 {
		return false
	}
	p0 := f.Type.Params.List[0].Names[0].Name
	found := false
	ast.Inspect(f.Body, func(n ast.Node) bool {
		if c, ok := n.(*ast.CallExpr); ok {
			if s, ok := c.Fun.(*ast.SelectorExpr); ok && s.Sel.Name == "Range" {
				if id, ok := s.X.(*ast.Ident); ok && id.Name == p0 {
					found = true
				}
			}
		}
		return !found
	})
	return found
}
